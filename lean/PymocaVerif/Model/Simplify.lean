import PymocaVerif.Model.AliasRel
/-!
# Model of `Model.simplify` / `Model._simplify_once` (`pymoca/backends/casadi/model.py`)

Equations are MX-like expression trees over a coefficient type `K` (the driver uses `Rat`,
the theorems any field).  There is one function per pass, in pymoca's order.  What CasADi does
on its own when pymoca calls `ca.substitute` (rebuilding the expression with on-the-fly
rewriting) and what `MX.is_zero()` answers on such a rebuilt expression is *observed, not
modelled*: it enters through an `Engine` (`norm`, `gzero`); the theorems hold for every engine
whose `norm` preserves the value of expressions and whose `gzero` only says "zero" for
expressions that are zero.

Not modelled (the passes return `unsupported`): vector expansion (`_expand_vectors`, property
C18), the SX round trip `_expand_simplify_mx`, and elimination of a *differentiated* state through
`eliminable_variable_expression` (needs the symbolic time derivative).  The collapse into `A x + b`
(`reduce_affine_expression`) is modelled row by row on the scalar equations (`reduceAffine`): the
Jacobian CasADi computes by algorithmic differentiation is the symbolic derivative `Ex.diff` here,
both evaluated with the states at 0 and the constants and parameters kept symbolic.
Variable metadata other than `value` (min/max/nominal/start/fixed) belongs to C13/C16.
-/
namespace PymocaVerif.Simplify
open PymocaVerif.AliasRel

/-- unary CasADi operations the passes (or the semantics) distinguish -/
inductive UOp where
  | neg | twice | sq | fabs | sqrt | other (n : String)
  deriving DecidableEq, Repr

/-- binary CasADi operations the passes (or the semantics) distinguish -/
inductive BOp where
  | add | sub | mul | div | ifElseZero | other (n : String)
  deriving DecidableEq, Repr

/-- scalar MX/SX expression as the passes can inspect it (`op()`, `dep()`, `n_dep()`,
    `is_symbolic()`, `is_constant()`, `name()`) -/
inductive Ex (K : Type) where
  | sym (n : String)
  | const (c : K)
  | un (o : UOp) (a : Ex K)
  | bin (o : BOp) (a b : Ex K)
  deriving DecidableEq, Repr

variable {K : Type}

namespace Ex

def isSym : Ex K → Bool
  | sym _ => true
  | _ => false

def isConst : Ex K → Bool
  | const _ => true
  | _ => false

/-- all symbol occurrences, depth first, left to right (with repetitions) -/
def syms : Ex K → List String
  | sym n => [n]
  | const _ => []
  | un _ a => a.syms
  | bin _ a b => a.syms ++ b.syms

/-- `ca.symvar`: the free symbols in order of first occurrence -/
def symvar (e : Ex K) : List String := e.syms.eraseDups

/-- `ca.substitute(e, symbols, values)` before CasADi's rewriting: simultaneous replacement,
    first binding of a symbol wins -/
def subst (l : List (String × Ex K)) : Ex K → Ex K
  | sym n => (l.lookup n).getD (sym n)
  | const c => const c
  | un o a => un o (a.subst l)
  | bin o a b => bin o (a.subst l) (b.subst l)

end Ex

/-- Meaning of the operations the passes never look into (they are CasADi's). -/
structure Interp (K : Type) where
  fabs : K → K
  sqrt : K → K
  un : String → K → K
  bin : String → K → K → K

/-- value of an expression in an environment -/
def Ex.eval [Lean.Grind.Field K] [DecidableEq K] (I : Interp K) (σ : String → K) : Ex K → K
  | .sym n => σ n
  | .const c => c
  | .un .neg a => - a.eval I σ
  | .un .twice a => a.eval I σ + a.eval I σ
  | .un .sq a => a.eval I σ * a.eval I σ
  | .un .fabs a => I.fabs (a.eval I σ)
  | .un .sqrt a => I.sqrt (a.eval I σ)
  | .un (.other n) a => I.un n (a.eval I σ)
  | .bin .add a b => a.eval I σ + b.eval I σ
  | .bin .sub a b => a.eval I σ - b.eval I σ
  | .bin .mul a b => a.eval I σ * b.eval I σ
  | .bin .div a b => a.eval I σ / b.eval I σ
  | .bin .ifElseZero c a => if c.eval I σ = 0 then 0 else a.eval I σ
  | .bin (.other n) a b => I.bin n (a.eval I σ) (b.eval I σ)

/-- What is observed of CasADi instead of being modelled. -/
structure Engine (K : Type) where
  /-- rewriting applied when an expression is rebuilt by `ca.substitute` -/
  norm : Ex K → Ex K
  /-- `ca.substitute(eq_i, a, ±b).is_zero()` for the equation with index `i` of the list the
      alias detection walks over (`true` as last argument: the `-1 * b` variant) -/
  gzero : Nat → String → String → Bool → Bool
  /-- the expression the alias detection inspects for equation `i`: the equation itself, or
      (with `expand_vectors` and without `expand_mx`) its expansion to SX -/
  view : Nat → Ex K → Ex K := fun _ e => e

/-- `ca.substitute` as pymoca sees it -/
def Engine.sub (E : Engine K) (l : List (String × Ex K)) (e : Ex K) : Ex K := E.norm (e.subst l)

/-- A `Variable`: its symbol name, the `value` attribute (`none` = NaN, i.e. not set) and
    whether its `aliases` attribute is a non-empty set. -/
structure Var (K : Type) where
  name : String
  value : Option (Ex K) := none
  aliased : Bool := false
  deriving Repr

def Var.mapValue (f : Ex K → Ex K) (v : Var K) : Var K := { v with value := v.value.map f }

/-- The part of `Model` the simplification works on. -/
structure Model (K : Type) where
  states : List (Var K) := []
  ders : List (Var K) := []
  algs : List (Var K) := []
  inputs : List (Var K) := []
  params : List (Var K) := []
  consts : List (Var K) := []
  eqs : List (Ex K) := []
  inits : List (Ex K) := []
  delays : List (Ex K × Ex K) := []
  ar : AR := AR.empty
  /-- a "... exceeded maximum iteration limit" warning was logged -/
  warned : Bool := false

def names (vs : List (Var K)) : List String := vs.map (·.name)

/-- Exceptions the real code raises (or constructs the model declines to follow). -/
inductive Err where
  | requiresExpandMx        -- `eliminable_variable_expression` without `expand_mx`
  | keyError (n : String)   -- `all_states[canonical]` / `all_states[alias]` in the alias elimination
  | assertion               -- `assert a in self.aliases(b)` of `AliasRelation.add`
  | duplicateSymbol (n : String)  -- CasADi refuses `substitute` with a repeated symbol
  | nanConstant (n : String)      -- a constant without value is substituted (NaN enters the equations)
  | unsupported (what : String)   -- outside the modelled fragment
  deriving DecidableEq, Repr

/-- `_substitute_metadata`, restricted to the `value` attribute (der_states are not visited) -/
def substMeta (E : Engine K) (l : List (String × Ex K)) (m : Model K) : Model K :=
  let f := Var.mapValue (E.sub l)
  { m with states := m.states.map f, algs := m.algs.map f, inputs := m.inputs.map f,
           params := m.params.map f, consts := m.consts.map f }

def substDelays (E : Engine K) (l : List (String × Ex K)) (ds : List (Ex K × Ex K)) : List (Ex K × Ex K) :=
  ds.map fun d => (E.sub l d.1, E.sub l d.2)

/-! ## resolve_parameter_values -/

/-- value of the variable called `n` among parameters and constants -/
def valueOf (m : Model K) (n : String) : Option (Ex K) :=
  ((m.params ++ m.consts).find? (·.name == n)).bind (·.value)

/-- the loop of `resolve_parameter_values`: `cur` are the names still to be resolved -/
def resolveLoop [DecidableEq K] (E : Engine K) : Nat → List String → Model K → Model K
  | 0, _, m => m
  | fuel + 1, cur, m =>
    let ready := cur.filterMap fun n =>
      match valueOf m n with
      | some (.const c) => some (n, Ex.const c)
      | _ => none
    let next := cur.filter fun n =>
      match valueOf m n with
      | some (.const _) => false
      | _ => true
    if ready.isEmpty then m else resolveLoop E fuel next (substMeta E ready m)

def resolveParameterValues [DecidableEq K] (E : Engine K) (m : Model K) : Model K :=
  resolveLoop E 100 (names m.params ++ names m.consts) m

/-! ## replace_parameter_expressions / replace_constant_expressions -/

/-- "simple": the value is an MX constant (NaN included) -/
def Var.simple (v : Var K) : Bool :=
  match v.value with
  | none => true
  | some e => e.isConst

/-- the `for _ in range(SUBSTITUTE_LOOP_LIMIT)` fixpoint; `false` = the `else` branch (warning) -/
def fixValues [DecidableEq K] (E : Engine K) (syms : List String) : Nat → List (Ex K) → List (Ex K) × Bool
  | 0, vs => (vs, false)
  | fuel + 1, vs =>
    let vs' := vs.map (E.sub (syms.zip vs))
    if vs' = vs then (vs', true) else fixValues E syms fuel vs'

/-- substitution into equations, initial equations, delay arguments and metadata -/
def substEverywhere (E : Engine K) (l : List (String × Ex K)) (m : Model K) : Model K :=
  let m := { m with eqs := m.eqs.map (E.sub l), inits := m.inits.map (E.sub l),
                    delays := substDelays E l m.delays }
  substMeta E l m

def exprValues (vs : List (Var K)) : List (String × Ex K) :=
  vs.filterMap fun v => match v.value with
    | some e => if e.isConst then none else some (v.name, e)
    | none => none

def replaceParameterExpressions [DecidableEq K] (E : Engine K) (m : Model K) : Model K :=
  let simple := m.params.filter Var.simple
  let l0 := exprValues m.params
  let m := { m with params := simple }
  if l0.isEmpty then m else
  let (vs, ok) := fixValues E (l0.map (·.1)) 100 (l0.map (·.2))
  let m := substEverywhere E ((l0.map (·.1)).zip vs) m
  { m with warned := m.warned || !ok }

def replaceConstantExpressions [DecidableEq K] (E : Engine K) (m : Model K) : Model K :=
  let simple := m.consts.filter Var.simple
  let l0 := exprValues m.consts
  let m := { m with consts := simple }
  if l0.isEmpty then m else
  let (vs, ok) := fixValues E (l0.map (·.1)) 100 (l0.map (·.2))
  let m := substEverywhere E ((l0.map (·.1)).zip vs) m
  { m with warned := m.warned || !ok }

/-! ## eliminate_constant_assignments -/

/-- the patterns `x`, `x - c`, `c - x`, `x + c`, `c + x` with `x` an algebraic state still present;
    result: the variable and the value recorded for it -/
def constAssign? [Neg K] [OfNat K 0] (algs : List String) : Ex K → Option (String × K)
  | .sym n => if n ∈ algs then some (n, 0) else none
  | .bin o a b =>
    if o = .sub ∨ o = .add then
      match a, b with
      | .sym n, .const c =>
        if n ∈ algs then some (n, if o = .sub then c else -c) else none
      | .const c, .sym n =>
        if n ∈ algs then some (n, if o = .sub then c else -c) else none
      | _, _ => none
    else none
  | _ => none

/-- the loop over the equations; returns (kept equations, new constants, remaining alg states) -/
def constLoop [Neg K] [OfNat K 0] : List (Ex K) → List (Var K) → List (Ex K) × List (Var K) × List (Var K)
  | [], algs => ([], [], algs)
  | e :: es, algs =>
    match constAssign? (names algs) e with
    | some (n, c) =>
      let r := constLoop es (algs.filter (·.name != n))
      let vs := (algs.filter (·.name == n)).map fun v => { v with value := some (Ex.const c) }
      (r.1, vs ++ r.2.1, r.2.2)
    | none =>
      let r := constLoop es algs
      (e :: r.1, r.2.1, r.2.2)

def eliminateConstantAssignments [Neg K] [OfNat K 0] (m : Model K) : Model K :=
  let r := constLoop m.eqs m.algs
  { m with eqs := r.1, consts := m.consts ++ r.2.1, algs := r.2.2 }

/-! ## replace_parameter_values / replace_constant_values -/

def constValues (vs : List (Var K)) : List (String × Ex K) :=
  vs.filterMap fun v => match v.value with
    | some (.const c) => some (v.name, Ex.const c)
    | _ => none

def hasConstValue (v : Var K) : Bool :=
  match v.value with
  | some (.const _) => true
  | _ => false

/-- `alias_relation.remove` for every variable of the list whose `aliases` set is not empty -/
def removeAliased : List (Var K) → AR → Except Err AR
  | [], ar => .ok ar
  | v :: vs, ar =>
    if v.aliased then
      match ar.remove (false, v.name) with
      | some ar' => removeAliased vs ar'
      | none => .error (.keyError v.name)
    else removeAliased vs ar

/-- parameters with a constant value are replaced everywhere (equations, initial equations, delay
    arguments, metadata) and leave the model; the alias class of such a parameter is dissolved -/
def replaceParameterValues (E : Engine K) (m : Model K) : Except Err (Model K) := do
  let l := constValues m.params
  let ar ← removeAliased (m.params.filter hasConstValue) m.ar
  let m' : Model K := { m with eqs := m.eqs.map (E.sub l), inits := m.inits.map (E.sub l),
                               delays := substDelays E l m.delays, ar := ar,
                               params := m.params.filter (fun v => !hasConstValue v) }
  pure (substMeta E l m')

/-- all `(symbol, value)` pairs of the constants; a constant without value is an error here -/
def allValues : List (Var K) → Except Err (List (String × Ex K))
  | [] => .ok []
  | v :: vs =>
    match v.value with
    | none => .error (.nanConstant v.name)
    | some e => (allValues vs).map ((v.name, e) :: ·)

/-- constants whose value is an MX constant (NaN included) are replaced everywhere and leave the
    model; constants whose value is still an expression stay -/
def replaceConstantValues (E : Engine K) (m : Model K) : Except Err (Model K) := do
  let resolved := m.consts.filter Var.simple
  let l ← allValues resolved
  let ar ← removeAliased resolved m.ar
  let m' : Model K := { m with eqs := m.eqs.map (E.sub l), inits := m.inits.map (E.sub l),
                               delays := substDelays E l m.delays, ar := ar,
                               consts := m.consts.filter (fun v => !v.simple) }
  pure (substMeta E l m')

/-! ## eliminable_variable_expression (algebraic variables) -/

structure ElimCtx where
  states : List String
  algs : List String
  /-- `all_states` of the pass: *not* updated while variables are eliminated -/
  allSt : List String
  /-- names the regular expression matches (`p.match(name)`, observed) -/
  matched : List String

/-- `extract_assignment`; `ca.if_else(c, v, 0)` is represented by `if_else_zero(c, v)` -/
def extract [Neg K] [OfNat K 0] (cx : ElimCtx) : Ex K → Option (String × Ex K)
  | .sym n => if n ∈ cx.allSt ∧ n ∈ cx.matched then some (n, Ex.const 0) else none
  | .bin .ifElseZero c e =>
    match extract cx e with
    | some (x, v) => some (x, .bin .ifElseZero c v)
    | none => none
  | .bin .sub a b =>
    match a, b with
    | .sym n, _ =>
      if n ∈ cx.algs ∧ n ∈ cx.matched then some (n, b) else
      match b with
      | .sym k =>
        if k ∈ cx.algs ∧ k ∈ cx.matched then some (k, a) else
        if n ∈ cx.states ∧ n ∈ cx.matched then some (n, b) else
        if k ∈ cx.states ∧ k ∈ cx.matched then some (k, a) else none
      | _ => if n ∈ cx.states ∧ n ∈ cx.matched then some (n, b) else none
    | _, .sym k =>
      if k ∈ cx.algs ∧ k ∈ cx.matched then some (k, a) else
      if k ∈ cx.states ∧ k ∈ cx.matched then some (k, a) else none
    | _, _ => none
  | .bin .add a b =>
    let direct : Option (String × Ex K) :=
      match a, b with
      | .sym n, _ =>
        if n ∈ cx.algs ∧ n ∈ cx.matched then some (n, .un .neg b) else
        match b with
        | .sym k =>
          if k ∈ cx.algs ∧ k ∈ cx.matched then some (k, .un .neg a) else
          if n ∈ cx.states ∧ n ∈ cx.matched then some (n, .un .neg b) else
          if k ∈ cx.states ∧ k ∈ cx.matched then some (k, .un .neg a) else none
        | _ => if n ∈ cx.states ∧ n ∈ cx.matched then some (n, .un .neg b) else none
      | _, .sym k =>
        if k ∈ cx.algs ∧ k ∈ cx.matched then some (k, .un .neg a) else
        if k ∈ cx.states ∧ k ∈ cx.matched then some (k, .un .neg a) else none
      | _, _ => none
    match direct with
    | some r => some r
    | none =>
      match a, b with
      | .bin .ifElseZero c1 e1, .bin .ifElseZero c2 e2 =>
        match extract cx e1, extract cx e2 with
        | some (x1, v1), some (x2, v2) =>
          if x1 = x2 then some (x1, .bin .add (.bin .ifElseZero c1 v1) (.bin .ifElseZero c2 v2)) else none
        | _, _ => none
      | _, _ => none
  | _ => none

/-- the loop over the equations: (kept, substitution list in order of discovery, remaining algs) -/
def elimLoop [Neg K] [OfNat K 0] (states allSt matched : List String) :
    List (Ex K) → List (Var K) → Except Err (List (Ex K) × List (String × Ex K) × List (Var K))
  | [], algs => .ok ([], [], algs)
  | e :: es, algs =>
    match extract ⟨states, names algs, allSt, matched⟩ e with
    | some (x, v) =>
      if x ∈ states then .error (.unsupported "elimination of a differentiated state")
      else
        match elimLoop states allSt matched es (algs.filter (·.name != x)) with
        | .error err => .error err
        | .ok r =>
          if (r.2.1.map (·.1)).contains x then .error (.duplicateSymbol x)
          else .ok (r.1, (x, v) :: r.2.1, r.2.2)
    | none =>
      match elimLoop states allSt matched es algs with
      | .error err => .error err
      | .ok r => .ok (e :: r.1, r.2.1, r.2.2)

def eliminateVariables [DecidableEq K] [Neg K] [OfNat K 0] (E : Engine K) (expandMx : Bool) (matched : List String)
    (m : Model K) : Except Err (Model K) :=
  if !expandMx then .error .requiresExpandMx else
  match elimLoop (names m.states) (names m.states ++ names m.algs) matched m.eqs m.algs with
  | .error err => .error err
  | .ok r =>
    let m := { m with eqs := r.1, algs := r.2.2 }
    let l0 := r.2.1
    if l0.isEmpty then .ok m else
    let (vs, ok) := fixValues E (l0.map (·.1)) 100 (l0.map (·.2))
    let l := (l0.map (·.1)).zip vs
    .ok { m with eqs := m.eqs.map (E.sub l), inits := m.inits.map (E.sub l),
                 delays := substDelays E l m.delays, warned := m.warned || !ok }

/-! ## factor_and_simplify_equations -/

def factor : Ex K → Ex K
  | .un .neg a => factor a
  | .un .fabs a => factor a
  | .un .sqrt a => factor a
  | .bin .mul a b =>
    if b.isConst then factor a else if a.isConst then factor b else .bin .mul a b
  | .bin .div a b =>
    if b.isConst then factor a else .bin .div a b
  | e => e

def factorAndSimplify (m : Model K) : Model K := { m with eqs := m.eqs.map factor }

/-! ## detect_aliases -/

structure AliasCtx where
  states : List String
  ders : List String
  algs : List String
  inputs : List String
  params : List String
  consts : List String
  allowDerivativeAliases : Bool

def AliasCtx.doNotEliminate (cx : AliasCtx) : List String :=
  cx.ders ++ cx.states ++ cx.inputs ++ cx.params ++ cx.consts

/-- the keys of `all_states` when the pass starts -/
def AliasCtx.allSt (cx : AliasCtx) : List String :=
  cx.states ++ cx.ders ++ cx.algs ++ cx.inputs ++ cx.params ++ cx.consts

/-- `_detect_alias` on the equation with index `i`: the two symbols and `negative_alias` -/
def detectAlias (E : Engine K) (cx : AliasCtx) (i : Nat) (e : Ex K) : Option (String × String × Bool) :=
  let deps := e.symvar
  let fast : Option (String × String × Bool) :=
    match deps, e with
    | [d0, d1], .bin o (.sym _) (.sym _) =>
      if o = .sub then some (d0, d1, false) else if o = .add then some (d0, d1, true) else none
    | _, _ => none
  match fast with
  | some r => some r
  | none =>
    let nonParam := deps.filter fun n => !(cx.params.contains n) && !(cx.consts.contains n)
    let try2 (d : List String) : Option (String × String × Bool) :=
      match d with
      | [a, b] => if E.gzero i a b false then some (a, b, false)
                  else if E.gzero i a b true then some (a, b, true) else none
      | _ => none
    match try2 deps with
    | some r => some r
    | none => try2 nonParam

def sname (neg : Bool) (n : String) : SName := (neg, n)

/-- `_make_alias`: `none` = `AliasRelation.add` raised; `some (ar, dropped)` otherwise -/
def makeAlias (cx : AliasCtx) (ar : AR) (d0 d1 : String) (negative : Bool) : Option (AR × Bool) :=
  let pick : Option (String × String) :=
    if d0 ∈ cx.algs then some (d0, d1) else if d1 ∈ cx.algs then some (d1, d0) else none
  match pick with
  | none => some (ar, false)
  | some (alg0, other0) =>
    let dne := cx.doNotEliminate
    let (alg, other) :=
      if d0 ∈ cx.algs ∧ d1 ∈ cx.algs ∧ (ar.canonicalSigned (false, alg0)).1 ∈ dne then (other0, alg0)
      else (alg0, other0)
    if other ∉ cx.allSt then some (ar, false)     -- e.g. `time`: not a variable of the model
    else if !cx.allowDerivativeAliases ∧ (alg ∈ cx.ders ∨ other ∈ cx.ders) then some (ar, false)
    else if (ar.canonicalSigned (false, alg)).1 ∈ dne ∧ (ar.canonicalSigned (false, other)).1 ∈ dne then
      some (ar, false)
    else if (false, other) ∈ ar.aliases (false, alg) ∨ (false, other) ∈ ar.aliases (true, alg) then
      some (ar, false)                            -- already aliases (either sign): keep the equation
    else
      match ar.add (false, other) (negative, alg) with
      | some ar' => some (ar', true)
      | none => none

/-- the loop over the equations (with their index): (kept equations, alias relation) -/
def aliasLoop (E : Engine K) (cx : AliasCtx) : Nat → List (Ex K) → AR → Except Err (List (Ex K) × AR)
  | _, [], ar => .ok ([], ar)
  | i, e :: es, ar =>
    match detectAlias E cx i (E.view i e) with
    | some (d0, d1, neg) =>
      match makeAlias cx ar d0 d1 neg with
      | none => .error .assertion
      | some (ar', true) => aliasLoop E cx (i + 1) es ar'
      | some (ar', false) =>
        match aliasLoop E cx (i + 1) es ar' with
        | .error err => .error err
        | .ok r => .ok (e :: r.1, r.2)
    | none =>
      match aliasLoop E cx (i + 1) es ar with
      | .error err => .error err
      | .ok r => .ok (e :: r.1, r.2)

def showSName (v : SName) : String := if v.1 then "-" ++ v.2 else v.2

/-- "we already handled this alias in a previous pass" -/
def alreadyHandled (old : AR) (a : SName) : Bool :=
  decide ((old.aliases a).eraseDups.length > 1) && !(old.cv.contains a.2)

/-- the aliases of one canonical variable that are eliminated now: (variable, sign) -/
def newAliases (old : AR) (ar : AR) (c : String) : List SName :=
  (((ar.aliases (false, c)).eraseDups).filter (· != (false, c))).filter (fun a => !alreadyHandled old a)

/-- the inner loop over the aliases of one canonical variable `c`: `all_states[alias]`
    (KeyError when missing), the substitution `alias ↦ ± c`, `del all_states[alias]` -/
def elimClass (c : String) : List SName → List String → Except Err (List (String × Ex K) × List String)
  | [], allSt => .ok ([], allSt)
  | a :: as, allSt =>
    if a.2 ∉ allSt then .error (.keyError a.2) else
    match elimClass c as (allSt.filter (· != a.2)) with
    | .error err => .error err
    | .ok r => .ok ((a.2, if a.1 then Ex.un .neg (Ex.sym c) else Ex.sym c) :: r.1, r.2)

/-- elimination loop over the canonical variables: the substitution `alias ↦ ± canonical`
    (in iteration order) or the `KeyError` of `all_states[...]` -/
def elimAliases (old ar : AR) : List String → List String → Except Err (List (String × Ex K) × List String)
  | [], allSt => .ok ([], allSt)
  | c :: cs, allSt =>
    if c ∉ allSt then .error (.keyError c) else
    match elimClass c (newAliases old ar c) allSt with
    | .error err => .error err
    | .ok r1 =>
      match elimAliases old ar cs r1.2 with
      | .error err => .error err
      | .ok r => .ok (r1.1 ++ r.1, r.2)

def markAliased (ar : AR) (v : Var K) : Var K :=
  if ar.cv.contains v.name then { v with aliased := true } else v

def detectAliases (E : Engine K) (allowDer : Bool) (m : Model K) : Except Err (Model K) :=
  let cx : AliasCtx := ⟨names m.states, names m.ders, names m.algs, names m.inputs, names m.params,
                        names m.consts, allowDer⟩
  let allSt := cx.allSt
  match aliasLoop E cx 0 m.eqs m.ar with
  | .error err => .error err
  | .ok (kept, ar) =>
    match elimAliases (K := K) m.ar ar ar.cv allSt with
    | .error err => .error err
    | .ok (l, left) =>
      let keep (vs : List (Var K)) : List (Var K) := (vs.filter fun v => left.contains v.name).map (markAliased ar)
      .ok { m with states := keep m.states, ders := keep m.ders, algs := keep m.algs, inputs := keep m.inputs,
                   params := keep m.params, consts := m.consts.map (markAliased ar),
                   eqs := kept.map (E.sub l), inits := m.inits.map (E.sub l),
                   delays := substDelays E l m.delays, ar := ar }

/-! ## reduce_affine_expression -/

/-- derivative with respect to the symbol `x`; exact on the affine fragment (sums, differences, negation,
    doubling, products, quotients), `0` for every operation the fragment does not contain -/
def Ex.diff [OfNat K 0] [OfNat K 1] (x : String) : Ex K → Ex K
  | .sym n => if n = x then .const 1 else .const 0
  | .const _ => .const 0
  | .un .neg a => .un .neg (a.diff x)
  | .un .twice a => .un .twice (a.diff x)
  | .bin .add a b => .bin .add (a.diff x) (b.diff x)
  | .bin .sub a b => .bin .sub (a.diff x) (b.diff x)
  | .bin .mul a b => .bin .add (.bin .mul (a.diff x) b) (.bin .mul a (b.diff x))
  | .bin .div a b => .bin .div (a.diff x) b
  | _ => .const 0

/-- `Σ_j A_j * x_j` as an expression -/
def linComb : List (Ex K × String) → Ex K → Ex K
  | [], b => b
  | (a, x) :: rest, b => .bin .add (.bin .mul a (.sym x)) (linComb rest b)

/-- row of `A x + b` for one equation: `A_j = ∂e/∂x_j` and `b = e`, both with every `x` at 0 -/
def affineRow [OfNat K 0] [OfNat K 1] (xs : List String) (e : Ex K) : Ex K :=
  let zeros : List (String × Ex K) := xs.map fun x => (x, Ex.const 0)
  linComb (xs.map fun x => ((e.diff x).subst zeros, x)) (e.subst zeros)

/-- the symbols the affine form is taken in: states, derivatives, algebraic states, inputs -/
def Model.affineVars (m : Model K) : List String :=
  names m.states ++ names m.ders ++ names m.algs ++ names m.inputs

def reduceAffine [OfNat K 0] [OfNat K 1] (m : Model K) : Model K :=
  { m with eqs := m.eqs.map (affineRow m.affineVars), inits := m.inits.map (affineRow m.affineVars) }

/-! ## the pipeline -/

structure Opts where
  expandVectors : Bool := false
  expandMx : Bool := false
  resolveParameterValues : Bool := false
  replaceParameterExpressions : Bool := false
  replaceConstantExpressions : Bool := false
  eliminateConstantAssignments : Bool := false
  replaceParameterValues : Bool := false
  replaceConstantValues : Bool := false
  /-- `some names`: `eliminable_variable_expression` is set and matches exactly these names -/
  eliminable : Option (List String) := none
  factorAndSimplify : Bool := false
  detectAliases : Bool := false
  allowDerivativeAliases : Bool := true
  reduceAffine : Bool := false
  iterative : Bool := false

/-- the passes of `_simplify_once` that are modelled, by the name of their option -/
inductive Pass where
  | resolve | pexpr | cexpr | cassign | pvalues | cvalues | elim | factor | alias
  deriving DecidableEq, Repr

def Pass.order : List Pass :=
  [.resolve, .pexpr, .cexpr, .cassign, .pvalues, .cvalues, .elim, .factor, .alias]

def Pass.enabled (o : Opts) : Pass → Bool
  | .resolve => o.resolveParameterValues
  | .pexpr => o.replaceParameterExpressions
  | .cexpr => o.replaceConstantExpressions
  | .cassign => o.eliminateConstantAssignments
  | .pvalues => o.replaceParameterValues
  | .cvalues => o.replaceConstantValues
  | .elim => o.eliminable.isSome
  | .factor => o.factorAndSimplify
  | .alias => o.detectAliases

/-- one pass, assuming its option is set -/
def Pass.run [DecidableEq K] [Neg K] [OfNat K 0] (E : Engine K) (o : Opts) (p : Pass) (m : Model K) : Except Err (Model K) :=
  match p with
  | .resolve => .ok (resolveParameterValues E m)
  | .pexpr => .ok (replaceParameterExpressions E m)
  | .cexpr => .ok (replaceConstantExpressions E m)
  | .cassign => .ok (eliminateConstantAssignments m)
  | .pvalues => replaceParameterValues E m
  | .cvalues => replaceConstantValues E m
  | .elim => eliminateVariables E o.expandMx (o.eliminable.getD []) m
  | .factor => .ok (factorAndSimplify m)
  | .alias => detectAliases E o.allowDerivativeAliases m

/-- the passes in the given order, each under its own engine observation -/
def runPasses [DecidableEq K] [Neg K] [OfNat K 0] (E : Pass → Engine K) (o : Opts) :
    List Pass → Model K → Except Err (Model K)
  | [], m => .ok m
  | p :: ps, m =>
    if p.enabled o then
      match Pass.run (E p) o p m with
      | .error err => .error err
      | .ok m' => runPasses E o ps m'
    else runPasses E o ps m

/-- `_simplify_once` on the modelled fragment (scalar models) -/
def simplifyOnce [DecidableEq K] [Neg K] [OfNat K 0] [OfNat K 1] (E : Pass → Engine K) (o : Opts) (m : Model K) :
    Except Err (Model K) :=
  if o.expandVectors then .error (.unsupported "expand_vectors")
  else
    match runPasses E o Pass.order m with
    | .error err => .error err
    | .ok m' => .ok (if o.reduceAffine then reduceAffine m' else m')

/-- the loop of `simplify`: `left` is `alg_states_left`, `E i` the observations of iteration `i` -/
def simplifyLoop [DecidableEq K] [Neg K] [OfNat K 0] [OfNat K 1] (E : Nat → Pass → Engine K) (o : Opts) :
    Nat → Nat → Nat → Model K → Except Err (Model K)
  | 0, _, _, m => .ok { m with warned := true }
  | fuel + 1, i, left, m =>
    match simplifyOnce (E i) o m with
    | .error err => .error err
    | .ok m' =>
      if o.iterative ∧ left ≠ m'.algs.length then
        -- the real code re-runs the passes on the collapsed vector expression and raises (finding C15-F7)
        if o.reduceAffine then .error (.unsupported "iteration after the affine collapse")
        else simplifyLoop E o fuel (i + 1) m'.algs.length m'
      else .ok m'

/-- `Model.simplify` (SIMPLIFICATION_LOOP_LIMIT = 50) -/
def simplify [DecidableEq K] [Neg K] [OfNat K 0] [OfNat K 1] (E : Nat → Pass → Engine K) (o : Opts) (m : Model K) :
    Except Err (Model K) :=
  simplifyLoop E o 50 0 0 m

/-! ## bookkeeping used by the statements -/

/-- unknowns counted by `check_balanced` -/
def nUnknowns (m : Model K) : Nat := m.states.length + m.algs.length

/-- every name of a variable list, and `time` -/
def Model.known (m : Model K) : List String :=
  "time" :: (names m.states ++ names m.ders ++ names m.algs ++ names m.inputs ++ names m.params ++ names m.consts)

/-- all expressions a function of the model is built from -/
def Model.exprs (m : Model K) : List (Ex K) :=
  m.eqs ++ m.inits ++ m.delays.map (·.1) ++ m.delays.map (·.2)

/-- names mentioned by an equation, an initial equation or a delay argument that are in no variable list -/
def Model.dangling (m : Model K) : List String :=
  (m.exprs.flatMap Ex.syms).eraseDups.filter fun n => !(m.known.contains n)

end PymocaVerif.Simplify
