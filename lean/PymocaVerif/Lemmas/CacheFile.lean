import PymocaVerif.Model.CacheFile
/-!
Invariant of the two-call / one-file system of `Model/CacheFile.lean`.
-/
namespace PymocaVerif.CacheFile

/-- `f` is exactly the first `p` bytes of `B`. -/
def IsPre (f : File) (B : Nat → Nat) (p : Nat) : Prop := f.len = p ∧ ∀ j, j < p → f.byte j = B j

def posOf (N : Nat) : Phase → Nat
  | .writing p => p
  | .done false => N
  | _ => 0

theorem isAll_iff (f : File) (B : Nat → Nat) (N : Nat) : f.isAll B N = true ↔ IsPre f B N := by
  simp [File.isAll, IsPre]

theorem isPrefix_iff (f : File) (B : Nat → Nat) (p : Nat) : f.isPrefix B p = true ↔ IsPre f B p := by
  simp [File.isPrefix, IsPre]

@[simp] theorem setPh_same (ph : Bool → Phase) (i : Bool) (p : Phase) : setPh ph i p i = p := by
  simp [setPh]

theorem setPh_other (ph : Bool → Phase) (i j : Bool) (p : Phase) (h : j ≠ i) : setPh ph i p j = ph j := by
  simp [setPh, h]

@[simp] theorem setPh_not (ph : Bool → Phase) (i : Bool) (p : Phase) : setPh ph i p (!i) = ph (!i) := by
  cases i <;> simp [setPh]

/-- The invariant: nobody has opened the file and it is still the initial one, or the call
    that opened it last has a correct prefix of `B` up to its own offset on disk — exactly
    that prefix as long as the other call has not opened the file. -/
structure Good (B : Nat → Nat) (N : Nat) (f0 : Option File) (s : Sys) : Prop where
  bound : ∀ i p, s.ph i = .writing p → p ≤ N
  fresh : (s.ph false).opened = false → (s.ph true).opened = false → s.file = f0 ∧ s.last = none
  owner : ∀ i, (s.ph i).opened = true → ∃ l f, s.last = some l ∧ (s.ph l).opened = true ∧
      s.file = some f ∧ f.len ≤ N ∧ posOf N (s.ph l) ≤ f.len ∧
      (∀ j, j < posOf N (s.ph l) → f.byte j = B j) ∧
      ((s.ph (!l)).opened = false → f.len = posOf N (s.ph l))

theorem good_init (B : Nat → Nat) (N : Nat) (f0 : Option File) : Good B N f0 (init f0) := by
  refine ⟨?_, ?_, ?_⟩
  · intro i p h; simp [init] at h
  · intro _ _; exact ⟨rfl, rfl⟩
  · intro i h; simp [init, Phase.opened] at h

theorem bool_cases (i j : Bool) : j = i ∨ j = !i := by cases i <;> cases j <;> simp

/-- moving a call between phases that are not "opened" (start / missed / done-from-cache) -/
theorem good_setPh_unopened (B : Nat → Nat) (N : Nat) (f0 : Option File) (s : Sys) (i : Bool) (q : Phase)
    (hg : Good B N f0 s) (hph : (s.ph i).opened = false) (hq : q.opened = false)
    (hw : ∀ p, q ≠ .writing p) : Good B N f0 { s with ph := setPh s.ph i q } := by
  obtain ⟨hb, hf, ho⟩ := hg
  have hnew : ∀ j, ((setPh s.ph i q) j).opened = (s.ph j).opened := by
    intro j
    rcases bool_cases i j with h | h
    · subst h; simp only [setPh_same, hph, hq]
    · subst h; simp
  have hpos : ∀ j, (s.ph j).opened = true → (setPh s.ph i q) j = s.ph j := by
    intro j hj
    rcases bool_cases i j with h | h
    · subst h; rw [hph] at hj; cases hj
    · subst h; simp
  refine ⟨?_, ?_, ?_⟩
  · intro j p h
    rcases bool_cases i j with h' | h'
    · subst h'; simp only [setPh_same] at h; exact absurd h (hw p)
    · subst h'; simp only [setPh_not] at h; exact hb _ _ h
  · intro h0 h1
    rw [hnew] at h0 h1
    exact hf h0 h1
  · intro j hj
    rw [hnew] at hj
    obtain ⟨l, f, hl, hlo, hfile, h1, h2, h3, h4⟩ := ho j hj
    refine ⟨l, f, hl, by rw [hnew]; exact hlo, hfile, h1, ?_, ?_, ?_⟩
    · show posOf N (setPh s.ph i q l) ≤ f.len
      rw [hpos l hlo]; exact h2
    · show ∀ j, j < posOf N (setPh s.ph i q l) → f.byte j = B j
      rw [hpos l hlo]; exact h3
    · show ((setPh s.ph i q) (!l)).opened = false → f.len = posOf N (setPh s.ph i q l)
      rw [hnew, hpos l hlo]; exact h4

theorem ite_phase_opened (c : Bool) :
    (if c = true then Phase.done true else Phase.missed).opened = false := by cases c <;> rfl

theorem ite_phase_ne_writing (c : Bool) (p : Nat) :
    (if c = true then Phase.done true else Phase.missed) ≠ Phase.writing p := by cases c <;> simp

theorem good_step (B : Nat → Nat) (N : Nat) (valid : File → Bool) (f0 : Option File) (s s' : Sys)
    (a : Act) (hg : Good B N f0 s) (hs : step B N valid s a = some s') : Good B N f0 s' := by
  obtain ⟨hb, hf, ho⟩ := hg
  cases a with
  | load i =>
    simp only [step] at hs
    split at hs
    · rename_i hph
      injection hs with hs
      subst hs
      apply good_setPh_unopened B N f0 s i _ ⟨hb, hf, ho⟩
      · rw [hph]; rfl
      · exact ite_phase_opened _
      · intro p; exact ite_phase_ne_writing _ p
    · cases hs
  | openW i =>
    simp only [step] at hs
    split at hs
    · rename_i hph
      injection hs with hs
      subst hs
      refine ⟨?_, ?_, ?_⟩
      · intro j p h
        rcases bool_cases i j with h' | h'
        · subst h'; simp only [setPh_same] at h; injection h with h; omega
        · subst h'; simp only [setPh_not] at h; exact hb _ _ h
      · intro h0 h1
        exfalso
        cases i <;> simp [Phase.opened] at h0 h1
      · intro j _
        refine ⟨i, File.empty, rfl, by simp [Phase.opened], rfl, by simp [File.empty], ?_, ?_, ?_⟩
        · simp [posOf, File.empty]
        · intro j hj; simp [posOf] at hj
        · intro _; simp [posOf, File.empty]
    · cases hs
  | write i n =>
    simp only [step] at hs
    split at hs
    · rename_i pos hph
      split at hs
      · rename_i hn
        injection hs with hs
        subst hs
        have hio : (s.ph i).opened = true := by rw [hph]; rfl
        obtain ⟨l, f, hl, hlo, hfile, h1, h2, h3, h4⟩ := ho i hio
        have hopen : ∀ j, ((setPh s.ph i (Phase.writing (pos + n))) j).opened = (s.ph j).opened := by
          intro j
          rcases bool_cases i j with h | h
          · subst h; simp only [setPh_same, hph]; rfl
          · subst h; simp
        refine ⟨?_, ?_, ?_⟩
        · intro j p h
          rcases bool_cases i j with h' | h'
          · subst h'; simp only [setPh_same] at h; injection h with h; omega
          · subst h'; simp only [setPh_not] at h; exact hb _ _ h
        · intro h0 h1
          simp only [hopen] at h0 h1
          exfalso
          cases i <;> simp_all
        · intro j _
          refine ⟨l, f.writeAt pos n B, hl, by simp only [hopen]; exact hlo, by simp [hfile], ?_, ?_, ?_, ?_⟩
          · simp only [File.writeAt]; omega
          · rcases bool_cases i l with h | h
            · subst h
              simp only [setPh_same, posOf, File.writeAt]; omega
            · subst h
              simp only [setPh_not, File.writeAt]; omega
          · intro k hk
            rcases bool_cases i l with h | h
            · subst h
              simp only [setPh_same, posOf] at hk
              simp only [hph, posOf] at h2 h3
              simp only [File.writeAt]
              split
              · rfl
              · have : k < pos := by omega
                have : k < f.len := by omega
                simp [this, h3 k ‹k < pos›]
            · subst h
              simp only [setPh_not] at hk
              simp only [File.writeAt]
              split
              · rfl
              · have : k < f.len := by omega
                simp [this, h3 k hk]
          · intro hno
            simp only [hopen] at hno
            rcases bool_cases i l with h | h
            · subst h
              have := h4 hno
              simp only [hph, posOf] at this
              simp only [setPh_same, posOf, File.writeAt]; omega
            · subst h
              simp only [Bool.not_not] at hno
              rw [hio] at hno
              cases hno
      · cases hs
    · cases hs
  | close i =>
    simp only [step] at hs
    split at hs
    · rename_i pos hph
      split at hs
      · rename_i hN
        injection hs with hs
        subst hs
        have hopen : ∀ j, ((setPh s.ph i (Phase.done false)) j).opened = (s.ph j).opened := by
          intro j
          rcases bool_cases i j with h | h
          · subst h; simp only [setPh_same, hph]; rfl
          · subst h; simp
        have hpos : ∀ j, posOf N ((setPh s.ph i (Phase.done false)) j) = posOf N (s.ph j) := by
          intro j
          rcases bool_cases i j with h | h
          · subst h; simp only [setPh_same, hph, posOf, hN]
          · subst h; simp
        refine ⟨?_, ?_, ?_⟩
        · intro j p h
          rcases bool_cases i j with h' | h'
          · subst h'; simp only [setPh_same] at h; cases h
          · subst h'; simp only [setPh_not] at h; exact hb _ _ h
        · intro h0 h1
          simp only [hopen] at h0 h1
          exact hf h0 h1
        · intro j hj
          simp only [hopen] at hj
          obtain ⟨l, f, hl, hlo, hfile, h1, h2, h3, h4⟩ := ho j hj
          exact ⟨l, f, hl, by simp only [hopen]; exact hlo, hfile, h1, by simp only [hpos]; exact h2,
            by simp only [hpos]; exact h3, by simp only [hopen, hpos]; exact h4⟩
      · cases hs
    · cases hs
  | replace i =>
    simp only [step] at hs
    split at hs
    · rename_i hph
      injection hs with hs
      subst hs
      refine ⟨?_, ?_, ?_⟩
      · intro j p h
        rcases bool_cases i j with h' | h'
        · subst h'; simp only [setPh_same] at h; cases h
        · subst h'; simp only [setPh_not] at h; exact hb _ _ h
      · intro h0 h1
        exfalso
        cases i <;> simp [Phase.opened] at h0 h1
      · intro j _
        refine ⟨i, File.full B N, rfl, by simp [Phase.opened], rfl, by simp [File.full], ?_, ?_, ?_⟩
        · simp [posOf, File.full]
        · intro j _; simp [File.full]
        · intro _; simp [posOf, File.full]
    · cases hs

theorem good_run (B : Nat → Nat) (N : Nat) (valid : File → Bool) (f0 : Option File) :
    ∀ (acts : List Act) (s s' : Sys), Good B N f0 s → runActs B N valid s acts = some s' → Good B N f0 s' := by
  intro acts
  induction acts with
  | nil => intro s s' hg h; simp only [runActs, Option.some.injEq] at h; subst h; exact hg
  | cons a rest ih =>
    intro s s' hg h
    simp only [runActs] at h
    split at h
    · cases h
    · rename_i s1 hs1
      exact ih s1 s' (good_step B N valid f0 s s1 a hg hs1) h

/-! ### different byte strings -/

/-- Invariant for arbitrary bytes per call: untouched initial file while nobody has opened; while
    exactly one call has opened, exactly the prefix it has written so far. -/
structure GoodG (B : Bool → Nat → Nat) (N : Bool → Nat) (f0 : Option File) (s : Sys) : Prop where
  bound : ∀ i p, s.ph i = .writing p → p ≤ N i
  fresh : (s.ph false).opened = false → (s.ph true).opened = false → s.file = f0
  single : ∀ l, (s.ph l).opened = true → (s.ph (!l)).opened = false →
      ∃ f, s.file = some f ∧ IsPre f (B l) (posOf (N l) (s.ph l))

theorem goodG_init (B : Bool → Nat → Nat) (N : Bool → Nat) (f0 : Option File) : GoodG B N f0 (init f0) := by
  refine ⟨?_, ?_, ?_⟩
  · intro i p h; simp [init] at h
  · intro _ _; rfl
  · intro l h; simp [init, Phase.opened] at h

theorem goodG_setPh_unopened (B : Bool → Nat → Nat) (N : Bool → Nat) (f0 : Option File) (s : Sys) (i : Bool) (q : Phase)
    (hg : GoodG B N f0 s) (hph : (s.ph i).opened = false) (hq : q.opened = false)
    (hw : ∀ p, q ≠ .writing p) : GoodG B N f0 { s with ph := setPh s.ph i q } := by
  obtain ⟨hb, hf, hs⟩ := hg
  have hnew : ∀ j, ((setPh s.ph i q) j).opened = (s.ph j).opened := by
    intro j
    rcases bool_cases i j with h | h
    · subst h; simp only [setPh_same, hph, hq]
    · subst h; simp
  have hpos : ∀ j, (s.ph j).opened = true → (setPh s.ph i q) j = s.ph j := by
    intro j hj
    rcases bool_cases i j with h | h
    · subst h; rw [hph] at hj; cases hj
    · subst h; simp
  refine ⟨?_, ?_, ?_⟩
  · intro j p h
    rcases bool_cases i j with h' | h'
    · subst h'; simp only [setPh_same] at h; exact absurd h (hw p)
    · subst h'; simp only [setPh_not] at h; exact hb _ _ h
  · intro h0 h1
    rw [hnew] at h0 h1
    exact hf h0 h1
  · intro l hl hnl
    rw [hnew] at hl hnl
    obtain ⟨f, hfile, hpre⟩ := hs l hl hnl
    refine ⟨f, hfile, ?_⟩
    show IsPre f (B l) (posOf (N l) (setPh s.ph i q l))
    rw [hpos l hl]; exact hpre

theorem goodG_step (B : Bool → Nat → Nat) (N : Bool → Nat) (valid : File → Bool) (f0 : Option File) (s s' : Sys)
    (a : Act) (hg : GoodG B N f0 s) (hstep : stepG B N valid s a = some s') : GoodG B N f0 s' := by
  obtain ⟨hb, hf, hs⟩ := hg
  cases a with
  | load i =>
    simp only [stepG] at hstep
    split at hstep
    · rename_i hph
      injection hstep with hstep
      subst hstep
      apply goodG_setPh_unopened B N f0 s i _ ⟨hb, hf, hs⟩
      · rw [hph]; rfl
      · exact ite_phase_opened _
      · intro p; exact ite_phase_ne_writing _ p
    · cases hstep
  | openW i =>
    simp only [stepG] at hstep
    split at hstep
    · rename_i hph
      injection hstep with hstep
      subst hstep
      refine ⟨?_, ?_, ?_⟩
      · intro j p h
        rcases bool_cases i j with h' | h'
        · subst h'; simp only [setPh_same] at h; injection h with h; omega
        · subst h'; simp only [setPh_not] at h; exact hb _ _ h
      · intro h0 h1
        exfalso
        cases i <;> simp [Phase.opened] at h0 h1
      · intro l hl hnl
        rcases bool_cases i l with h | h
        · subst h
          exact ⟨File.empty, rfl, by simp [IsPre, posOf, File.empty]⟩
        · subst h
          simp [Phase.opened] at hnl
    · cases hstep
  | write i n =>
    simp only [stepG] at hstep
    split at hstep
    · rename_i pos hph
      split at hstep
      · rename_i hn
        injection hstep with hstep
        subst hstep
        have hio : (s.ph i).opened = true := by rw [hph]; rfl
        refine ⟨?_, ?_, ?_⟩
        · intro j p h
          rcases bool_cases i j with h' | h'
          · subst h'; simp only [setPh_same] at h; injection h with h; omega
          · subst h'; simp only [setPh_not] at h; exact hb _ _ h
        · intro h0 h1
          exfalso
          cases i <;> simp_all [Phase.opened]
        · intro l hl hnl
          rcases bool_cases i l with h | h
          · subst h
            simp only [setPh_not] at hnl
            obtain ⟨f, hfile, hlen, hbytes⟩ := hs l hio hnl
            simp only [hph, posOf] at hlen hbytes
            refine ⟨f.writeAt pos n (B l), by simp [hfile], ?_, ?_⟩
            · simp only [setPh_same, posOf, File.writeAt]; omega
            · intro k hk
              simp only [setPh_same, posOf] at hk
              simp only [File.writeAt]
              split
              · rfl
              · have hk' : k < pos := by omega
                have : k < f.len := by omega
                simp [this, hbytes k hk']
          · subst h
            simp only [Bool.not_not, setPh_same, Phase.opened] at hnl
            cases hnl
      · cases hstep
    · cases hstep
  | close i =>
    simp only [stepG] at hstep
    split at hstep
    · rename_i pos hph
      split at hstep
      · rename_i hN
        injection hstep with hstep
        subst hstep
        have hopen : ∀ j, ((setPh s.ph i (Phase.done false)) j).opened = (s.ph j).opened := by
          intro j
          rcases bool_cases i j with h | h
          · subst h; simp only [setPh_same, hph]; rfl
          · subst h; simp
        refine ⟨?_, ?_, ?_⟩
        · intro j p h
          rcases bool_cases i j with h' | h'
          · subst h'; simp only [setPh_same] at h; cases h
          · subst h'; simp only [setPh_not] at h; exact hb _ _ h
        · intro h0 h1
          simp only [hopen] at h0 h1
          exact hf h0 h1
        · intro l hl hnl
          simp only [hopen] at hl hnl
          obtain ⟨f, hfile, hpre⟩ := hs l hl hnl
          refine ⟨f, hfile, ?_⟩
          rcases bool_cases i l with h | h
          · subst h
            simp only [setPh_same, posOf]
            simp only [hph, posOf, hN] at hpre
            exact hpre
          · subst h
            simp only [setPh_not]
            exact hpre
      · cases hstep
    · cases hstep
  | replace i =>
    simp only [stepG] at hstep
    split at hstep
    · rename_i hph
      injection hstep with hstep
      subst hstep
      refine ⟨?_, ?_, ?_⟩
      · intro j p h
        rcases bool_cases i j with h' | h'
        · subst h'; simp only [setPh_same] at h; cases h
        · subst h'; simp only [setPh_not] at h; exact hb _ _ h
      · intro h0 h1
        exfalso
        cases i <;> simp [Phase.opened] at h0 h1
      · intro l hl hnl
        rcases bool_cases i l with h | h
        · subst h
          exact ⟨File.full (B l) (N l), rfl, by simp [IsPre, posOf, File.full]⟩
        · subst h
          simp [Phase.opened] at hnl
    · cases hstep

theorem goodG_run (B : Bool → Nat → Nat) (N : Bool → Nat) (valid : File → Bool) (f0 : Option File) :
    ∀ (acts : List Act) (s s' : Sys), GoodG B N f0 s → runActsG B N valid s acts = some s' → GoodG B N f0 s' := by
  intro acts
  induction acts with
  | nil => intro s s' hg h; simp only [runActsG, Option.some.injEq] at h; subst h; exact hg
  | cons a rest ih =>
    intro s s' hg h
    simp only [runActsG] at h
    split at h
    · cases h
    · rename_i s1 hs1
      exact ih s1 s' (goodG_step B N valid f0 s s1 a hg hs1) h

/-- With atomic writers only, the file is always the initial one or a complete cache of one call. -/
theorem atomic_file (B : Bool → Nat → Nat) (N : Bool → Nat) (valid : File → Bool) (f0 : Option File) :
    ∀ (acts : List Act) (s s' : Sys), atomicOnly acts = true →
      (s.file = f0 ∨ ∃ i, s.file = some (File.full (B i) (N i))) →
      runActsG B N valid s acts = some s' →
      (s'.file = f0 ∨ ∃ i, s'.file = some (File.full (B i) (N i))) := by
  intro acts
  induction acts with
  | nil => intro s s' _ h hr; simp only [runActsG, Option.some.injEq] at hr; subst hr; exact h
  | cons a rest ih =>
    intro s s' hat h hr
    simp only [runActsG] at hr
    split at hr
    · cases hr
    · rename_i s1 hs1
      cases a with
      | load i =>
        simp only [atomicOnly] at hat
        simp only [stepG] at hs1
        split at hs1
        · have hfile : s1.file = s.file := by injection hs1 with e; rw [← e]
          exact ih s1 s' hat (by rw [hfile]; exact h) hr
        · cases hs1
      | replace i =>
        simp only [atomicOnly] at hat
        simp only [stepG] at hs1
        split at hs1
        · have hfile : s1.file = some (File.full (B i) (N i)) := by injection hs1 with e; rw [← e]
          exact ih s1 s' hat (Or.inr ⟨i, hfile⟩) hr
        · cases hs1
      | openW i => simp [atomicOnly] at hat
      | write i n => simp [atomicOnly] at hat
      | close i => simp [atomicOnly] at hat

end PymocaVerif.CacheFile
