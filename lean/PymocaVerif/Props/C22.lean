/-! # C22 — property theorems (stub: not built yet) -/
