/-! # C07 — property theorems (stub: not built yet) -/
