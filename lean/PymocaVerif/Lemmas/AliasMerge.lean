import PymocaVerif.Model.AliasMerge
import Mathlib.Tactic.Linarith
/-!
Helper lemmas for C16: characterisations of the fold `merge` over any linear order with an
order-reversing involutive negation, and the instances that make `ExtRat` (what the driver
computes with) and every ordered field such an order.
-/
namespace PymocaVerif

/-! ## `ExtRat` is a linear order with an order-reversing involutive negation -/
namespace ExtRat

theorem le_def (a b : ExtRat) : a ≤ b ↔ leb a b = true := Iff.rfl

theorem leb_refl (a : ExtRat) : leb a a = true := by
  cases a <;> simp [leb]

theorem leb_trans {a b c : ExtRat} (h₁ : leb a b = true) (h₂ : leb b c = true) : leb a c = true := by
  cases a <;> cases b <;> cases c <;> simp_all [leb]
  exact Rat.le_trans h₁ h₂

theorem leb_antisymm {a b : ExtRat} (h₁ : leb a b = true) (h₂ : leb b a = true) : a = b := by
  cases a <;> cases b <;> simp_all [leb]
  exact Rat.le_antisymm h₁ h₂

theorem leb_total (a b : ExtRat) : leb a b = true ∨ leb b a = true := by
  cases a <;> cases b <;> simp [leb]
  exact Rat.le_total

instance : LinearOrder ExtRat where
  le := (· ≤ ·)
  lt := (· < ·)
  le_refl := leb_refl
  le_trans := fun _ _ _ => leb_trans
  lt_iff_le_not_ge := fun _ _ => Iff.rfl
  le_antisymm := fun _ _ => leb_antisymm
  le_total := leb_total
  toDecidableLE := inferInstance
  toDecidableLT := inferInstance
  toDecidableEq := inferInstance
  max := Max.max
  min := Min.min
  max_def := fun _ _ => rfl
  min_def := fun _ _ => rfl

instance : InvolutiveNeg ExtRat where
  neg := Neg.neg
  neg_neg := by
    intro a
    cases a with
    | ninf => rfl
    | pinf => rfl
    | fin q => show fin (- -q) = fin q; rw [Rat.neg_neg]

theorem neg_anti (a b : ExtRat) (h : a ≤ b) : -b ≤ -a := by
  cases a <;> cases b <;> simp_all [le_def, leb, Neg.neg, neg]
  exact Rat.neg_le_neg h

end ExtRat

namespace AliasMerge

/-- negation reverses the order -/
def NegAnti (α : Type) [LE α] [Neg α] : Prop := ∀ a b : α, a ≤ b → -b ≤ -a

theorem negAnti_extRat : NegAnti ExtRat := ExtRat.neg_anti

theorem negAnti_field {K : Type} [Field K] [LinearOrder K] [IsStrictOrderedRing K] : NegAnti K :=
  fun _ _ h => neg_le_neg h

/-- `x` satisfies the bounds of `a` -/
def inBox {α : Type} [LE α] (a : Attrs α) (x : α) : Prop := a.min ≤ x ∧ x ≤ a.max

instance {α : Type} [LE α] [DecidableLE α] (a : Attrs α) (x : α) : Decidable (inBox a x) :=
  inferInstanceAs (Decidable (a.min ≤ x ∧ x ≤ a.max))

/-- the entry of an alias-of-an-alias seen from the outer canonical: signs multiply -/
def compose {α : Type} (s : Bool) (m : Entry α) : Entry α := { m with neg := xor s m.neg }

section
variable {α : Type} [LinearOrder α] [InvolutiveNeg α]

theorem neg_le_swap (h : NegAnti α) (a b : α) : -a ≤ b ↔ -b ≤ a := by
  constructor
  · intro hab; have := h _ _ hab; simpa using this
  · intro hba; have := h _ _ hba; simpa using this

theorem le_neg_swap (h : NegAnti α) (a b : α) : a ≤ -b ↔ b ≤ -a := by
  constructor
  · intro hab; have := h _ _ hab; simpa using this
  · intro hba; have := h _ _ hba; simpa using this

omit [LinearOrder α] in
theorem sgn_sgn (s t : Bool) (x : α) : sgn t (sgn s x) = sgn (xor s t) x := by
  cases s <;> cases t <;> simp [sgn]

/-- the interval an alias contributes, read on the alias' own value `sign * x` -/
theorem lo_hi_iff (h : NegAnti α) (s : Bool) (a : Attrs α) (x : α) :
    (lo s a ≤ x ∧ x ≤ hi s a) ↔ inBox a (sgn s x) := by
  cases s
  · simp [lo, hi, sgn, inBox]
  · simp only [lo, hi, sgn, inBox, if_true]
    rw [neg_le_swap h, le_neg_swap h]
    exact and_comm

theorem merge_cons (c : Attrs α) (e : Entry α) (es : List (Entry α)) :
    merge c (e :: es) = merge (step c e) es := rfl

theorem merge_append (c : Attrs α) (es fs : List (Entry α)) :
    merge c (es ++ fs) = merge (merge c es) fs := by
  simp [merge, List.foldl_append]

theorem step_of_skipped (c : Attrs α) (e : Entry α) (h : e.skipped = true) : step c e = c := by
  simp [step, h]

theorem step_of_not_skipped (c : Attrs α) (e : Entry α) (h : e.skipped = false) :
    step c e = absorb c e.neg e.attrs := by
  simp [step, h]

theorem merge_min_le_iff (c : Attrs α) (es : List (Entry α)) (x : α) :
    (merge c es).min ≤ x ↔ c.min ≤ x ∧ ∀ e ∈ es, e.skipped = false → lo e.neg e.attrs ≤ x := by
  induction es generalizing c with
  | nil => simp [merge]
  | cons e es ih =>
    rw [merge_cons, ih]
    cases hs : e.skipped
    · simp [step_of_not_skipped c e hs, absorb, hs, and_assoc]
    · simp [step_of_skipped c e hs, hs]

theorem le_merge_max_iff (c : Attrs α) (es : List (Entry α)) (x : α) :
    x ≤ (merge c es).max ↔ x ≤ c.max ∧ ∀ e ∈ es, e.skipped = false → x ≤ hi e.neg e.attrs := by
  induction es generalizing c with
  | nil => simp [merge]
  | cons e es ih =>
    rw [merge_cons, ih]
    cases hs : e.skipped
    · simp [step_of_not_skipped c e hs, absorb, hs, and_assoc]
    · simp [step_of_skipped c e hs, hs]

theorem merge_nominal_le_iff (c : Attrs α) (es : List (Entry α)) (x : α) :
    (merge c es).nominal ≤ x ↔ c.nominal ≤ x ∧ ∀ e ∈ es, e.skipped = false → e.attrs.nominal ≤ x := by
  induction es generalizing c with
  | nil => simp [merge]
  | cons e es ih =>
    rw [merge_cons, ih]
    cases hs : e.skipped
    · simp [step_of_not_skipped c e hs, absorb, hs, and_assoc]
    · simp [step_of_skipped c e hs, hs]

theorem merge_nominal_mem (c : Attrs α) (es : List (Entry α)) :
    (merge c es).nominal = c.nominal ∨
      ∃ e ∈ es, e.skipped = false ∧ (merge c es).nominal = e.attrs.nominal := by
  induction es generalizing c with
  | nil => left; rfl
  | cons e es ih =>
    rw [merge_cons]
    rcases ih (step c e) with h | ⟨e', he', hs', h⟩
    · cases hs : e.skipped
      · rcases max_choice c.nominal e.attrs.nominal with hm | hm
        · left; rw [h, step_of_not_skipped c e hs]; simpa [absorb] using hm
        · right
          exact ⟨e, by simp, hs, by rw [h, step_of_not_skipped c e hs]; simpa [absorb] using hm⟩
      · left; rw [h, step_of_skipped c e hs]
    · right; exact ⟨e', by simp [he'], hs', h⟩

theorem merge_fixed_eq (c : Attrs α) (es : List (Entry α)) :
    (merge c es).fixed = (c.fixed || es.any (fun e => !e.skipped && e.attrs.fixed)) := by
  induction es generalizing c with
  | nil => simp [merge]
  | cons e es ih =>
    rw [merge_cons, ih]
    cases hs : e.skipped
    · simp [step_of_not_skipped c e hs, absorb, hs, Bool.or_assoc]
    · simp [step_of_skipped c e hs, hs]

theorem merge_start_eq (c : Attrs α) (es : List (Entry α)) :
    (merge c es).start = (match c.start with
      | some v => some v
      | none => es.findSome? adopt) := by
  induction es generalizing c with
  | nil => cases h : c.start <;> simp [merge, h]
  | cons e es ih =>
    rw [merge_cons, ih]
    cases hs : e.skipped
    · rw [step_of_not_skipped c e hs]
      cases hc : c.start with
      | some v => simp [absorb, hc]
      | none =>
        cases ha : e.attrs.start with
        | none => simp [absorb, hc, ha, adopt, hs]
        | some w => simp [absorb, hc, ha, adopt, hs]
    · rw [step_of_skipped c e hs]
      cases hc : c.start with
      | some v => simp
      | none => simp [adopt, hs]

/-- the bounds of the merged canonical, as a set of admissible values -/
theorem inBox_merge_iff (h : NegAnti α) (c : Attrs α) (es : List (Entry α)) (x : α) :
    inBox (merge c es) x ↔
      inBox c x ∧ ∀ e ∈ es, e.skipped = false → inBox e.attrs (sgn e.neg x) := by
  unfold inBox
  rw [merge_min_le_iff, le_merge_max_iff]
  constructor
  · rintro ⟨⟨h1, h2⟩, h3, h4⟩
    refine ⟨⟨h1, h3⟩, fun e he hs => ?_⟩
    exact (lo_hi_iff h e.neg e.attrs x).1 ⟨h2 e he hs, h4 e he hs⟩
  · rintro ⟨⟨h1, h3⟩, h5⟩
    refine ⟨⟨h1, fun e he hs => ?_⟩, h3, fun e he hs => ?_⟩
    · exact ((lo_hi_iff h e.neg e.attrs x).2 (h5 e he hs)).1
    · exact ((lo_hi_iff h e.neg e.attrs x).2 (h5 e he hs)).2

theorem inBox_absorb_iff (h : NegAnti α) (c a : Attrs α) (s : Bool) (x : α) :
    inBox (absorb c s a) x ↔ inBox c x ∧ inBox a (sgn s x) := by
  have := inBox_merge_iff h c [fresh s a] x
  simpa [merge, step, Entry.skipped, fresh] using this

end
end AliasMerge
end PymocaVerif
