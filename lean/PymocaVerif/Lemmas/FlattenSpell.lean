import PymocaVerif.Model.FlattenSrc
/-! Lemmas about spelled modifications: desugaring does not see the spelling. -/
namespace PymocaVerif.Flatten

theorem desugarList_append (pre : Path) (a b : List SMod) :
    desugarList pre (a ++ b) = desugarList pre a ++ desugarList pre b := by
  induction a with
  | nil => simp [desugarList]
  | cons m ms ih => simp [desugarList, ih]

theorem desugar_nestName (pre : Path) (name : List Name) (subs : List SMod) (v : Option Expr) :
    (nestName name subs v).desugar pre = desugarList (pre ++ name) subs ++ optMod (pre ++ name) v := by
  induction name generalizing pre with
  | nil => simp [nestName, SMod.desugar]
  | cons n ns ih =>
    cases ns with
    | nil => simp [nestName, SMod.desugar]
    | cons n' ns' =>
      simp only [nestName, SMod.desugar, desugarList, List.append_nil]
      rw [ih (pre ++ [n])]
      simp [optMod]

mutual
  theorem desugar_toNested (pre : Path) : (m : SMod) → m.toNested.desugar pre = m.desugar pre
    | .mk name subs value => by
      simp only [SMod.toNested, SMod.desugar]
      rw [desugar_nestName, desugarList_toNested (pre ++ name) subs]
  theorem desugarList_toNested (pre : Path) : (ms : List SMod) → desugarList pre (toNestedList ms) = desugarList pre ms
    | [] => by simp [toNestedList, desugarList]
    | m :: ms => by
      simp only [toNestedList, desugarList]
      rw [desugar_toNested pre m, desugarList_toNested pre ms]
end

mutual
  theorem desugar_toDotted (pre0 pre : Path) : (m : SMod) →
      desugarList pre0 (m.toDotted pre) = m.desugar (pre0 ++ pre)
    | .mk name subs value => by
      simp only [SMod.toDotted, SMod.desugar, desugarList_append]
      rw [desugarList_toDotted pre0 (pre ++ name) subs]
      cases value <;> simp [desugarList, SMod.desugar, optMod, List.append_assoc]
  theorem desugarList_toDotted (pre0 pre : Path) : (ms : List SMod) →
      desugarList pre0 (toDottedList pre ms) = desugarList (pre0 ++ pre) ms
    | [] => by simp [toDottedList, desugarList]
    | m :: ms => by
      simp only [toDottedList, desugarList, desugarList_append]
      rw [desugar_toDotted pre0 pre m, desugarList_toDotted pre0 pre ms]
end

end PymocaVerif.Flatten

namespace PymocaVerif.Flatten

theorem mapE_map {α β γ ε : Type} (g : β → Except ε γ) (h : α → β) (l : List α) :
    mapE g (l.map h) = mapE (fun a => g (h a)) l := by
  induction l with
  | nil => rfl
  | cons a as ih => simp [mapE, ih]

theorem mapE_congr {α β ε : Type} (f g : α → Except ε β) (l : List α) (h : ∀ a ∈ l, f a = g a) :
    mapE f l = mapE g l := by
  induction l with
  | nil => rfl
  | cons a as ih =>
    simp only [mapE]
    rw [h a (by simp), ih (fun x hx => h x (by simp [hx]))]

/-- a respelling: a function on spelled modification lists that desugaring cannot see -/
def Respelling (f : List SMod → List SMod) : Prop := ∀ pre ms, desugarList pre (f ms) = desugarList pre ms

theorem respelling_toNested : Respelling toNestedList := fun pre ms => desugarList_toNested pre ms

theorem respelling_toDotted : Respelling (toDottedList []) := fun pre ms => by
  simpa using desugarList_toDotted pre [] ms

mutual
  theorem paths_respell (f : List SMod → List SMod) (pre : Path) : (c : SClass) → (c.respell f).paths pre = c.paths pre
    | .mk name kind alias exts classes comps eqs ieqs => by
      simp only [SClass.respell, SClass.paths]
      rw [pathsList_respell f (pre ++ [name]) classes]
  theorem pathsList_respell (f : List SMod → List SMod) (pre : Path) : (cs : List SClass) →
      pathsList pre (respellList f cs) = pathsList pre cs
    | [] => by simp [respellList, pathsList]
    | c :: cs => by
      simp only [respellList, pathsList]
      rw [paths_respell f pre c, pathsList_respell f pre cs]
end

theorem name_respell (f : List SMod → List SMod) : (c : SClass) → (c.respell f).name = c.name
  | .mk name kind alias exts classes comps eqs ieqs => by simp [SClass.respell, SClass.name]

theorem ownOf_respell (f : List SMod → List SMod) (pre : Path) : (cs : List SClass) →
    ownOf pre (respellList f cs) = ownOf pre cs
  | [] => by simp [respellList, ownOf]
  | c :: cs => by
    have := ownOf_respell f pre cs
    simp only [ownOf] at this ⊢
    simp [respellList, name_respell, this]

mutual
  theorem index_respell (f : List SMod → List SMod) (pre : Path) : (c : SClass) → (c.respell f).index pre = c.index pre
    | .mk name kind alias exts classes comps eqs ieqs => by
      simp only [SClass.respell, SClass.index]
      rw [indexList_respell f (pre ++ [name]) classes, ownOf_respell]
      cases alias with
      | none => simp [List.map_map, Function.comp_def, SExt.respell]
      | some a => simp
  theorem indexList_respell (f : List SMod → List SMod) (pre : Path) : (cs : List SClass) →
      indexList pre (respellList f cs) = indexList pre cs
    | [] => by simp [respellList, indexList]
    | c :: cs => by
      simp only [respellList, indexList]
      rw [index_respell f pre c, indexList_respell f pre cs]
end

theorem elabComp_respell {f : List SMod → List SMod} (hf : Respelling f)
    (res : Path → List Name → Bool → Except Err Ty) (scope : Path) (k : SComp) :
    elabComp res scope (k.respell f) = elabComp res scope k := by
  simp [elabComp, SComp.respell, hf [] k.mods]

theorem elabExt_respell {f : List SMod → List SMod} (hf : Respelling f)
    (res : Path → List Name → Bool → Except Err Ty) (scope : Path) (e : SExt) :
    elabExt res scope (e.respell f) = elabExt res scope e := by
  simp [elabExt, SExt.respell, hf [] e.mods]

mutual
  theorem elab_respell {f : List SMod → List SMod} (hf : Respelling f)
      (res : Path → List Name → Bool → Except Err Ty) (pre : Path) :
      (c : SClass) → (c.respell f).elab res pre = c.elab res pre
    | .mk name kind alias exts classes comps eqs ieqs => by
      simp only [SClass.respell, SClass.elab]
      rw [elabList_respell hf res (pre ++ [name]) classes, mapE_map, mapE_map]
      rw [mapE_congr _ _ exts (fun e _ => elabExt_respell hf res (pre ++ [name]) e),
          mapE_congr _ _ comps (fun k _ => elabComp_respell hf res (pre ++ [name]) k)]
      cases alias with
      | none => rfl
      | some a => simp [hf [] a.2]
  theorem elabList_respell {f : List SMod → List SMod} (hf : Respelling f)
      (res : Path → List Name → Bool → Except Err Ty) (pre : Path) :
      (cs : List SClass) → elabList res pre (respellList f cs) = elabList res pre cs
    | [] => by simp [respellList, elabList]
    | c :: cs => by
      simp only [respellList, elabList]
      rw [elab_respell hf res pre c, elabList_respell hf res pre cs]
end

theorem indexOf_respell (f : List SMod → List SMod) (src : SLib) : indexOf (respellList f src) = indexOf src := by
  simp [indexOf, indexList_respell, ownOf_respell]

theorem elabLib_respell {f : List SMod → List SMod} (hf : Respelling f) (src : SLib) :
    elabLib (respellList f src) = elabLib src := by
  simp [elabLib, pathsList_respell, elabList_respell hf, indexOf_respell, defaultFuel]

theorem flattenSrc_respell {f : List SMod → List SMod} (hf : Respelling f) (src : SLib) (target : Path) :
    flattenSrc (respellList f src) target = flattenSrc src target := by
  simp [flattenSrc, elabLib_respell hf, defaultFuel, pathsList_respell]

end PymocaVerif.Flatten

namespace PymocaVerif.Flatten

theorem findLevel_spec {vis : Path → Except Err (List (Name × Path))} {own : Path → List (Name × Path)}
    {scope : Path} {oo : Bool} {h : Name} {i : Nat} {b : Path}
    (hf : findLevel vis own scope oo h i = .ok (some b)) :
    ∃ j cs, j ≤ i ∧ levelCands vis own scope oo j = .ok cs ∧ cs.lookup h = some b ∧
      ∀ j', j < j' → j' ≤ i → ∃ cs', levelCands vis own scope oo j' = .ok cs' ∧ cs'.lookup h = none := by
  induction i with
  | zero =>
    simp only [findLevel] at hf
    split at hf
    · cases hf
    · rename_i cs hcs
      have hl : cs.lookup h = some b := by
        injection hf
      exact ⟨0, cs, Nat.le_refl _, hcs, hl, fun j' h1 h2 => by omega⟩
  | succ i ih =>
    simp only [findLevel] at hf
    split at hf
    · cases hf
    · rename_i cs hcs
      split at hf
      · rename_i b' hl
        cases hf
        exact ⟨i + 1, cs, Nat.le_refl _, hcs, hl, fun j' h1 h2 => by omega⟩
      · rename_i hl
        obtain ⟨j, cs0, hj, hc0, hl0, hno⟩ := ih hf
        refine ⟨j, cs0, by omega, hc0, hl0, ?_⟩
        intro j' h1 h2
        by_cases hj' : j' = i + 1
        · subst hj'; exact ⟨cs, hcs, hl⟩
        · exact hno j' h1 (by omega)

/-- Lookup: a successful lookup of `h :: t` from the class `scope` finds `h` among the candidates of
    the innermost level `j` (class `scope.take j`; candidates = the classes visible there, or only
    its own local classes when `oo` and `j` is the class itself) that has a class of that name, and
    then walks `t` through the visible classes of the classes found. -/
theorem resolveWith_spec {vis : Path → Except Err (List (Name × Path))} {own : Path → List (Name × Path)}
    {scope : Path} {oo : Bool} {h : Name} {t : List Name} {p : Path}
    (hr : resolveWith vis own scope (h :: t) oo = .ok (.cls p)) :
    ∃ j cs b, j ≤ scope.length ∧ levelCands vis own scope oo j = .ok cs ∧ cs.lookup h = some b ∧
      (∀ j', j < j' → j' ≤ scope.length →
        ∃ cs', levelCands vis own scope oo j' = .ok cs' ∧ cs'.lookup h = none) ∧
      descend vis b t = .ok (some p) := by
  simp only [resolveWith] at hr
  split at hr
  · split at hr <;> cases hr
  · split at hr
    · cases hr
    · cases hr
    · rename_i b hb
      split at hr
      · cases hr
      · cases hr
      · rename_i p' hd
        cases hr
        obtain ⟨j, cs, hj, hc, hl, hno⟩ := findLevel_spec hb
        exact ⟨j, cs, b, hj, hc, hl, hno, hd⟩

end PymocaVerif.Flatten
