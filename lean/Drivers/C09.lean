/-! Driver for C09 (stub: not built yet). -/
def main : IO Unit := pure ()
