import PymocaVerif.Lemmas.AliasRelWF
/-! `remove` under the full invariant, and consequences of the invariant (C17). -/
namespace PymocaVerif.AliasRel

/-- the two sets `remove(a)` unites: `_aliases[a] | _aliases[-a]` -/
abbrev RR (s : AR) (a : SName) : List SName := s.aliases a ++ s.aliases (tog a)

/-- the state `remove(a)` produces when `a` is a canonical variable -/
def AR.removeRes (s : AR) (a : SName) : AR :=
  { al := fun k => if k ∈ RR s a then none else s.al k,
    cmap := fun k => if k ∈ RR s a then none else s.cmap k,
    cv := s.cv.filter (· != a.2) }

theorem cv_al_some (s : AR) (w : WFR s) (c : String) (hc : c ∈ s.cv) :
    ∃ A I, s.al (false, c) = some A ∧ s.al (tog (false, c)) = some I := by
  have h1 := (w.cv_iff c).1 hc
  cases hA : s.al (false, c) with
  | none => have := (w.dom (false, c)).2 hA; rw [h1] at this; cases this
  | some A =>
    obtain ⟨B, hB, _⟩ := w.cls.neg _ A hA
    exact ⟨A, B, rfl, hB⟩

theorem remove_noop (s : AR) (a : SName) (h : a.1 = true ∨ a.2 ∉ s.cv) : s.remove a = some s := by
  simp [AR.remove, h]

theorem remove_eff (s : AR) (w : WFR s) (a : SName) (h1 : a.1 = false) (h2 : a.2 ∈ s.cv) :
    s.remove a = some (s.removeRes a) := by
  have ha : a = (false, a.2) := by cases a with | mk n c => simp at h1; subst h1; rfl
  obtain ⟨A, I, hA, hI⟩ := cv_al_some s w a.2 h2
  rw [← ha] at hA hI
  have hcond : ¬ (a.1 = true ∨ a.2 ∉ s.cv) := by simp [h1, h2]
  have eA : s.aliases a = A := by simp [AR.aliases, hA]
  have eI : s.aliases (tog a) = I := by simp [AR.aliases, hI]
  have hall : (A ++ I).all (fun b => (s.al b).isSome && (s.cmap b).isSome) = true := by
    rw [List.all_eq_true]
    intro b hb
    have hsome : (s.al b).isSome = true := by
      rcases List.mem_append.1 hb with hb | hb
      · obtain ⟨B, hB, _⟩ := w.cls.shared a A b hA hb; simp [hB]
      · obtain ⟨B, hB, _⟩ := w.cls.shared (tog a) I b hI hb; simp [hB]
    have hc : (s.cmap b).isSome = true := by
      cases hcm : s.cmap b with
      | none => have := (w.dom b).1 hcm; rw [this] at hsome; cases hsome
      | some _ => rfl
    simp [hsome, hc]
  simp only [AR.remove, hcond, if_false, hA, hI, hall, if_true, AR.removeRes, RR, eA, eI]

/-! ### membership in the removed classes -/

theorem RR_closed (s : AR) (h : ARInv s) (a x y : SName) (hx : x ∈ RR s a) (hy : y ∈ s.aliases x) : y ∈ RR s a := by
  simp only [RR, List.mem_append] at hx ⊢
  rcases hx with hx | hx
  · exact Or.inl (aliases_trans s h hx hy)
  · exact Or.inr (aliases_trans s h hx hy)

theorem RR_tog (s : AR) (h : ARInv s) (a x : SName) : tog x ∈ RR s a ↔ x ∈ RR s a := by
  simp only [RR, List.mem_append]
  constructor
  · intro hx
    rcases hx with hx | hx
    · exact Or.inr ((aliases_tog s h a x).2 hx)
    · exact Or.inl (by have := (aliases_tog s h a (tog x)).1 hx; simpa using this)
  · intro hx
    rcases hx with hx | hx
    · exact Or.inr ((aliases_tog s h a (tog x)).2 (by simpa using hx))
    · exact Or.inl ((aliases_tog s h a x).1 hx)

theorem aliases_removeRes (s : AR) (a x : SName) :
    (s.removeRes a).aliases x = if x ∈ RR s a then [x] else s.aliases x := by
  unfold AR.aliases AR.removeRes
  simp only
  split <;> rfl

theorem can_removeRes (s : AR) (a x : SName) :
    (s.removeRes a).canonicalSigned x = if x ∈ RR s a then (x.2, x.1) else s.canonicalSigned x := by
  unfold AR.canonicalSigned AR.removeRes
  simp only
  split <;> rfl

theorem removeRes_wfr (s : AR) (w : WFR s) (a : SName) (h1 : a.1 = false) (h2 : a.2 ∈ s.cv) :
    WFR (s.removeRes a) := by
  have h := w.cls
  have ha : a = (false, a.2) := by cases a with | mk n c => simp at h1; subst h1; rfl
  have out : ∀ x y, x ∉ RR s a → y ∈ s.aliases x → y ∉ RR s a := by
    intro x y hx hy hyR
    exact hx (RR_closed s h a y x hyR (aliases_symm s h hy))
  have hca : s.canonicalSigned a = (a.2, false) := by
    have := (w.cv_iff a.2).1 h2
    rw [← ha] at this
    simp [AR.canonicalSigned, this]
  refine ⟨⟨?_, ?_, ?_, ?_⟩, ?_, ?_, ?_, ?_, ?_, ?_, ?_⟩
  · intro x A hx
    simp only [AR.removeRes] at hx
    split at hx
    · cases hx
    · exact h.self_mem x A hx
  · intro x A y hx hy
    simp only [AR.removeRes] at hx ⊢
    split at hx
    · cases hx
    · next hxR =>
      have hyx : y ∈ s.aliases x := by simp [AR.aliases, hx, hy]
      have := out x y hxR hyx
      simp only [this, if_false]
      exact h.shared x A y hx hy
  · intro x A hx
    simp only [AR.removeRes] at hx ⊢
    split at hx
    · cases hx
    · next hxR =>
      have : tog x ∉ RR s a := fun m => hxR ((RR_tog s h a x).1 m)
      simp only [this, if_false]
      exact h.neg x A hx
  · intro x A hx
    simp only [AR.removeRes] at hx
    split at hx
    · cases hx
    · exact h.noself x A hx
  · intro x
    simp only [AR.removeRes]
    split
    · simp
    · exact w.dom x
  · intro x A hx
    simp only [AR.removeRes] at hx
    split at hx
    · cases hx
    · exact w.nontriv x A hx
  · intro x
    rw [can_removeRes, aliases_removeRes]
    split
    · simp
    · exact w.can_mem x
  · intro x y hy
    rw [aliases_removeRes] at hy
    rw [can_removeRes, can_removeRes]
    by_cases hx : x ∈ RR s a
    · simp only [hx, if_true, List.mem_singleton] at hy
      subst hy; rfl
    · simp only [hx, if_false] at hy
      have := out x y hx hy
      simp only [hx, this, if_false]
      exact w.can_eq x y hy
  · intro x
    rw [can_removeRes, can_removeRes]
    by_cases hx : x ∈ RR s a
    · have := (RR_tog s h a x).2 hx
      simp only [hx, this, if_true]
      cases x with | mk n c => cases n <;> rfl
    · have : tog x ∉ RR s a := fun m => hx ((RR_tog s h a x).1 m)
      simp only [hx, this, if_false]
      exact w.can_neg x
  · intro c
    simp only [AR.removeRes, List.mem_filter, bne_iff_ne, ne_eq]
    by_cases hcR : (false, c) ∈ RR s a
    · simp only [hcR, if_true]
      constructor
      · intro ⟨hc, hne⟩
        exfalso
        have hcc : s.canonicalSigned (false, c) = (c, false) := by
          simp [AR.canonicalSigned, (w.cv_iff c).1 hc]
        rcases List.mem_append.1 hcR with hk | hk
        · have := w.can_eq a _ hk
          rw [hcc, hca] at this
          exact hne (congrArg Prod.fst this)
        · have := w.can_eq (tog a) _ hk
          rw [hcc, w.can_neg a, hca] at this
          have := congrArg Prod.snd this
          simp [flipIf] at this
      · intro e; cases e
    · simp only [hcR, if_false]
      rw [← w.cv_iff c]
      constructor
      · exact fun hh => hh.1
      · intro hc
        refine ⟨hc, ?_⟩
        intro e
        apply hcR
        rw [e, ← ha]
        exact List.mem_append.2 (Or.inl (mem_aliases_self s h a))
  · exact List.Pairwise.filter _ w.cv_nodup

/-! ### consequences of the invariant -/

/-- a class is non-trivial exactly when it is stored -/
theorem nontrivial_iff_stored (s : AR) (w : WFR s) (x : SName) :
    (∃ y, y ∈ s.aliases x ∧ y ≠ x) ↔ s.al x ≠ none := by
  constructor
  · intro ⟨y, hy, hne⟩ hnone
    simp [AR.aliases, hnone] at hy
    exact hne hy
  · intro hne
    cases hx : s.al x with
    | none => exact absurd hx hne
    | some A =>
      obtain ⟨y, hy, hyx⟩ := w.nontriv x A hx
      exact ⟨y, by simp [AR.aliases, hx, hy], hyx⟩

theorem stored_of_mem (s : AR) (w : WFR s) (x y : SName) (hy : y ∈ s.aliases x) (hx : s.al x ≠ none) :
    s.al y ≠ none := by
  cases hA : s.al x with
  | none => exact absurd hA hx
  | some A =>
    have : y ∈ A := by simpa [AR.aliases, hA] using hy
    obtain ⟨B, hB, _⟩ := w.cls.shared x A y hA this
    simp [hB]

theorem stored_tog (s : AR) (w : WFR s) (x : SName) (hx : s.al x ≠ none) : s.al (tog x) ≠ none := by
  cases hA : s.al x with
  | none => exact absurd hA hx
  | some A =>
    obtain ⟨B, hB, _⟩ := w.cls.neg x A hA
    simp [hB]

/-- the positive canonical name is its own canonical -/
theorem canon_pos (s : AR) (w : WFR s) (x : SName) :
    s.canonicalSigned (false, (s.canonicalSigned x).1) = ((s.canonicalSigned x).1, false) := by
  have hm := w.can_eq x _ (w.can_mem x)
  cases hsg : (s.canonicalSigned x).2 with
  | false =>
    rw [hsg] at hm
    rw [hm]; exact Prod.ext rfl hsg
  | true =>
    rw [hsg] at hm
    have := w.can_neg (true, (s.canonicalSigned x).1)
    simp only [tog, Bool.not_true] at this
    rw [this, hm]
    simp [flipIf, hsg]

/-- `canonical_variables` holds exactly the canonical names of the non-trivial classes -/
theorem cv_iff_canonical (s : AR) (w : WFR s) (x : SName) :
    (s.canonicalSigned x).1 ∈ s.cv ↔ ∃ y, y ∈ s.aliases x ∧ y ≠ x := by
  rw [nontrivial_iff_stored s w x, w.cv_iff]
  have hm := w.can_mem x
  constructor
  · intro hc hnone
    -- stored (false, c) ⇒ stored member ⇒ stored x
    have h1 : s.al (false, (s.canonicalSigned x).1) ≠ none := by
      intro hn; have := (w.dom _).2 hn; rw [hc] at this; cases this
    have h2 : s.al ((s.canonicalSigned x).2, (s.canonicalSigned x).1) ≠ none := by
      cases hsg : (s.canonicalSigned x).2 with
      | false => exact h1
      | true => have := stored_tog s w _ h1; simpa [tog] using this
    have := stored_of_mem s w _ x (aliases_symm s w.cls hm) h2
    exact this hnone
  · intro hx
    have h2 := stored_of_mem s w x _ hm hx
    have h1 : s.al (false, (s.canonicalSigned x).1) ≠ none := by
      cases hsg : (s.canonicalSigned x).2 with
      | false => rw [hsg] at h2; exact h2
      | true => rw [hsg] at h2; have := stored_tog s w _ h2; simpa [tog] using this
    have hc := canon_pos s w x
    cases hcm : s.cmap (false, (s.canonicalSigned x).1) with
    | none => exact absurd ((w.dom _).1 hcm) h1
    | some p =>
      have hc' : s.canonicalSigned (false, (s.canonicalSigned x).1) = p := by
        show (s.cmap (false, (s.canonicalSigned x).1)).getD _ = p
        rw [hcm]; rfl
      rw [← hc', hc]

/-- two names have the same canonical name exactly when they are in one class up to sign -/
theorem same_canonical_iff (s : AR) (w : WFR s) (x y : SName) :
    (s.canonicalSigned x).1 = (s.canonicalSigned y).1 ↔ (y ∈ s.aliases x ∨ y ∈ s.aliases (tog x)) := by
  have h := w.cls
  constructor
  · intro e
    have mx := w.can_mem x
    have my := w.can_mem y
    rw [← e] at my
    by_cases hs : (s.canonicalSigned x).2 = (s.canonicalSigned y).2
    · rw [← hs] at my
      exact Or.inl (aliases_trans s h mx (aliases_symm s h my))
    · have e2 : ((s.canonicalSigned y).2, (s.canonicalSigned x).1)
          = tog ((s.canonicalSigned x).2, (s.canonicalSigned x).1) := by
        simp only [tog]
        cases h1 : (s.canonicalSigned x).2 <;> cases h2 : (s.canonicalSigned y).2 <;> simp_all
      rw [e2] at my
      have h1 : tog ((s.canonicalSigned x).2, (s.canonicalSigned x).1) ∈ s.aliases (tog x) :=
        (aliases_tog s h x _).2 (by simpa using mx)
      exact Or.inr (aliases_trans s h h1 (aliases_symm s h my))
  · intro hy
    rcases hy with hy | hy
    · rw [w.can_eq x y hy]
    · rw [w.can_eq (tog x) y hy, w.can_neg x]; rfl

end PymocaVerif.AliasRel
