import PymocaVerif.Model.Connect
import Mathlib.Algebra.Group.Basic
import Mathlib.Tactic.Abel
/-!
# Lemmas about the `Connect` model

Part 1 (generic key type): the association list after any edge list satisfies `MapInv`: its keys
are the touched keys, the value of a key is the (duplicate-free) connected component of the key in
the edge graph, and all members of a component hold the *same* list.

Part 2 (the concrete pass): `stepEdges` is `connectAll` on the flow-level edges, appends one
potential equation per edge and potential variable, and pops exactly the names of touched flows;
semantics of the derived equations over an additive commutative group `K` (in particular any field).

Part 3: the heap reading of `flow_connections` (object identities, `update` and item assignment in
place, references re-pointed) yields the same association list, the same sets and the same pass
result as the value reading.
-/
namespace PymocaVerif.Connect
set_option linter.unusedSectionVars false

section Generic
variable {κ : Type} [DecidableEq κ]

/-! ### ordered-set primitives -/

theorem mem_insertKey {s : List κ} {k x : κ} : x ∈ insertKey s k ↔ x ∈ s ∨ x = k := by
  unfold insertKey
  split
  · constructor
    · exact Or.inl
    · rintro (h | h)
      · exact h
      · subst h; assumption
  · simp

theorem nodup_insertKey {s : List κ} {k : κ} (h : s.Nodup) : (insertKey s k).Nodup := by
  unfold insertKey
  split
  · exact h
  · rename_i hk
    rw [List.nodup_append]
    refine ⟨h, by simp, ?_⟩
    intro a ha b hb
    simp at hb
    subst hb
    intro hab
    subst hab
    exact hk ha

theorem mem_update {s t : List κ} {x : κ} : x ∈ update s t ↔ x ∈ s ∨ x ∈ t := by
  unfold update
  induction t generalizing s with
  | nil => simp
  | cons a t ih =>
    simp only [List.foldl_cons, List.mem_cons]
    rw [ih, mem_insertKey]
    constructor
    · rintro ((h | h) | h)
      · exact Or.inl h
      · exact Or.inr (Or.inl h)
      · exact Or.inr (Or.inr h)
    · rintro (h | h | h)
      · exact Or.inl (Or.inl h)
      · exact Or.inl (Or.inr h)
      · exact Or.inr h

theorem nodup_update {s t : List κ} (h : s.Nodup) : (update s t).Nodup := by
  unfold update
  induction t generalizing s with
  | nil => simpa
  | cons a t ih => exact ih (nodup_insertKey h)

/-! ### the association list -/

def keys {β : Type} (m : List (κ × β)) : List κ := m.map Prod.fst

theorem get?_setEntry {β : Type} (m : List (κ × β)) (k x : κ) (s : β) :
    get? (setEntry m k s) x = if x = k then some s else get? m x := by
  induction m with
  | nil =>
    simp only [setEntry, get?]
    by_cases h : k = x
    · subst h; simp
    · have : ¬ x = k := fun e => h e.symm
      simp [h, this]
  | cons e m ih =>
    obtain ⟨k', s'⟩ := e
    simp only [setEntry]
    by_cases hk : k' = k
    · subst hk
      simp only [if_true, get?]
      by_cases hx : k' = x
      · subst hx; simp
      · have : ¬ x = k' := fun e => hx e.symm
        simp [hx, this]
    · simp only [hk, if_false, get?]
      by_cases hx : k' = x
      · subst hx
        simp [hk]
      · simp only [hx, if_false]
        exact ih

theorem mem_keys_setEntry {β : Type} (m : List (κ × β)) (k x : κ) (s : β) :
    x ∈ keys (setEntry m k s) ↔ x ∈ keys m ∨ x = k := by
  induction m with
  | nil => simp [setEntry, keys]
  | cons e m ih =>
    obtain ⟨k', s'⟩ := e
    simp only [setEntry]
    by_cases hk : k' = k
    · subst hk
      simp only [if_true, keys, List.map_cons, List.mem_cons]
      constructor
      · rintro (h | h)
        · exact Or.inl (Or.inl h)
        · exact Or.inl (Or.inr h)
      · rintro ((h | h) | h)
        · exact Or.inl h
        · exact Or.inr h
        · exact Or.inl h
    · simp only [hk, if_false, keys, List.map_cons, List.mem_cons]
      have := ih
      simp only [keys] at this
      rw [this]
      constructor
      · rintro (h | h | h)
        · exact Or.inl (Or.inl h)
        · exact Or.inl (Or.inr h)
        · exact Or.inr h
      · rintro ((h | h) | h)
        · exact Or.inl h
        · exact Or.inr (Or.inl h)
        · exact Or.inr (Or.inr h)

theorem nodup_keys_setEntry {β : Type} (m : List (κ × β)) (k : κ) (s : β) (h : (keys m).Nodup) :
    (keys (setEntry m k s)).Nodup := by
  induction m with
  | nil => simp [setEntry, keys]
  | cons e m ih =>
    obtain ⟨k', s'⟩ := e
    simp only [keys, List.map_cons, List.nodup_cons] at h
    simp only [setEntry]
    by_cases hk : k' = k
    · subst hk
      simp only [if_true, keys, List.map_cons, List.nodup_cons]
      exact h
    · simp only [hk, if_false, keys, List.map_cons, List.nodup_cons]
      refine ⟨?_, ih h.2⟩
      intro hmem
      have := (mem_keys_setEntry m k k' s).1 hmem
      rcases this with h1 | h1
      · exact h.1 h1
      · exact hk h1

theorem get?_foldl_setEntry {β : Type} (ks : List κ) (m : List (κ × β)) (s : β) (x : κ) :
    get? (ks.foldl (fun m k => setEntry m k s) m) x = if x ∈ ks then some s else get? m x := by
  induction ks generalizing m with
  | nil => simp
  | cons k ks ih =>
    simp only [List.foldl_cons, List.mem_cons]
    rw [ih, get?_setEntry]
    by_cases h1 : x ∈ ks
    · simp [h1]
    · by_cases h2 : x = k
      · simp [h2]
      · simp [h1, h2]

theorem nodup_keys_foldl_setEntry {β : Type} (ks : List κ) (m : List (κ × β)) (s : β)
    (h : (keys m).Nodup) : (keys (ks.foldl (fun m k => setEntry m k s) m)).Nodup := by
  induction ks generalizing m with
  | nil => simpa
  | cons k ks ih => exact ih _ (nodup_keys_setEntry m k s h)

theorem get?_connectStep (m : FlowMap κ) (l r x : κ) :
    get? (connectStep m l r) x =
      if x ∈ mergedSet m l r then some (mergedSet m l r) else get? m x := by
  unfold connectStep
  exact get?_foldl_setEntry _ _ _ _

theorem mem_mergedSet (m : FlowMap κ) (l r x : κ) :
    x ∈ mergedSet m l r ↔ x ∈ getD m l ∨ x ∈ getD m r ∨ x = l ∨ x = r := by
  unfold mergedSet
  rw [mem_insertKey, mem_insertKey, mem_update]
  constructor
  · rintro (((h | h) | h) | h)
    · exact Or.inl h
    · exact Or.inr (Or.inl h)
    · exact Or.inr (Or.inr (Or.inl h))
    · exact Or.inr (Or.inr (Or.inr h))
  · rintro (h | h | h | h)
    · exact Or.inl (Or.inl (Or.inl h))
    · exact Or.inl (Or.inl (Or.inr h))
    · exact Or.inl (Or.inr h)
    · exact Or.inr h

theorem mem_iff_get? {β : Type} (m : List (κ × β)) (h : (keys m).Nodup) (k : κ) (s : β) :
    (k, s) ∈ m ↔ get? m k = some s := by
  induction m with
  | nil => simp [get?]
  | cons e m ih =>
    obtain ⟨k', s'⟩ := e
    simp only [keys, List.map_cons, List.nodup_cons] at h
    simp only [List.mem_cons, get?, Prod.mk.injEq]
    by_cases hk : k' = k
    · subst hk
      simp only [if_true, Option.some.injEq]
      constructor
      · rintro (h1 | h1)
        · exact h1.2.symm
        · exfalso
          apply h.1
          exact List.mem_map.2 ⟨(k', s), h1, rfl⟩
      · intro h1
        exact Or.inl ⟨trivial, h1.symm⟩
    · simp only [hk, if_false]
      rw [← ih h.2]
      constructor
      · rintro (h1 | h1)
        · exact absurd h1.1.symm hk
        · exact h1
      · exact Or.inr

theorem get?_some_mem_keys {β : Type} (m : List (κ × β)) (k : κ) (s : β) (h : get? m k = some s) :
    k ∈ keys m := by
  induction m with
  | nil => simp [get?] at h
  | cons e m ih =>
    obtain ⟨k', s'⟩ := e
    simp only [get?] at h
    simp only [keys, List.map_cons, List.mem_cons]
    by_cases hk : k' = k
    · exact Or.inl hk.symm
    · simp only [hk, if_false] at h
      exact Or.inr (ih h)

/-! ### `distinctSets` -/

theorem distinctSets_aux (m : FlowMap κ) (acc : List (List κ)) (hacc : acc.Nodup) :
    (m.foldl (fun acc e => if e.2 ∈ acc then acc else acc ++ [e.2]) acc).Nodup ∧
    ∀ s, s ∈ m.foldl (fun acc e => if e.2 ∈ acc then acc else acc ++ [e.2]) acc ↔
      s ∈ acc ∨ ∃ k, (k, s) ∈ m := by
  induction m generalizing acc with
  | nil => simp [hacc]
  | cons e m ih =>
    obtain ⟨k', s'⟩ := e
    simp only [List.foldl_cons]
    by_cases h : s' ∈ acc
    · simp only [h, if_true]
      refine ⟨(ih acc hacc).1, ?_⟩
      intro s
      rw [(ih acc hacc).2]
      constructor
      · rintro (h1 | ⟨k, h1⟩)
        · exact Or.inl h1
        · exact Or.inr ⟨k, List.mem_cons_of_mem _ h1⟩
      · rintro (h1 | ⟨k, h1⟩)
        · exact Or.inl h1
        · rcases List.mem_cons.1 h1 with h2 | h2
          · simp only [Prod.mk.injEq] at h2
            rw [h2.2]
            exact Or.inl h
          · exact Or.inr ⟨k, h2⟩
    · simp only [h, if_false]
      have hacc' : (acc ++ [s']).Nodup := by
        rw [List.nodup_append]
        refine ⟨hacc, by simp, ?_⟩
        intro a ha b hb
        simp at hb
        subst hb
        intro hab
        subst hab
        exact h ha
      refine ⟨(ih _ hacc').1, ?_⟩
      intro s
      rw [(ih _ hacc').2]
      constructor
      · rintro (h1 | ⟨k, h1⟩)
        · rcases List.mem_append.1 h1 with h2 | h2
          · exact Or.inl h2
          · simp at h2
            subst h2
            exact Or.inr ⟨k', List.mem_cons_self⟩
        · exact Or.inr ⟨k, List.mem_cons_of_mem _ h1⟩
      · rintro (h1 | ⟨k, h1⟩)
        · exact Or.inl (List.mem_append_left _ h1)
        · rcases List.mem_cons.1 h1 with h2 | h2
          · simp only [Prod.mk.injEq] at h2
            rw [h2.2]
            exact Or.inl (List.mem_append_right _ (by simp))
          · exact Or.inr ⟨k, h2⟩

theorem nodup_distinctSets (m : FlowMap κ) : (distinctSets m).Nodup :=
  (distinctSets_aux m [] List.nodup_nil).1

theorem mem_distinctSets (m : FlowMap κ) (s : List κ) :
    s ∈ distinctSets m ↔ ∃ k, (k, s) ∈ m := by
  unfold distinctSets
  rw [(distinctSets_aux m [] List.nodup_nil).2]
  simp

/-! ### connectivity in the edge graph -/

/-- Equivalence closure of the edge list (reflexive on every key). -/
inductive Conn (es : List (κ × κ)) : κ → κ → Prop
  | refl (a : κ) : Conn es a a
  | edge {a b : κ} : (a, b) ∈ es → Conn es a b
  | symm {a b : κ} : Conn es a b → Conn es b a
  | trans {a b c : κ} : Conn es a b → Conn es b c → Conn es a c

/-- The key is an end of some edge. -/
def Touched (es : List (κ × κ)) (k : κ) : Prop := ∃ e ∈ es, e.1 = k ∨ e.2 = k

theorem Conn.mono {es es' : List (κ × κ)} (h : ∀ e, e ∈ es → e ∈ es') {a b : κ}
    (c : Conn es a b) : Conn es' a b := by
  induction c with
  | refl a => exact .refl a
  | edge he => exact .edge (h _ he)
  | symm _ ih => exact .symm ih
  | trans _ _ ih1 ih2 => exact .trans ih1 ih2

theorem Conn.touched {es : List (κ × κ)} {a b : κ} (c : Conn es a b) :
    a = b ∨ (Touched es a ∧ Touched es b) := by
  induction c with
  | refl a => exact Or.inl rfl
  | edge he => exact Or.inr ⟨⟨_, he, Or.inl rfl⟩, ⟨_, he, Or.inr rfl⟩⟩
  | symm _ ih =>
    rcases ih with h | h
    · exact Or.inl h.symm
    · exact Or.inr ⟨h.2, h.1⟩
  | trans _ _ ih1 ih2 =>
    rcases ih1 with h1 | h1
    · subst h1; exact ih2
    · rcases ih2 with h2 | h2
      · subst h2; exact Or.inr h1
      · exact Or.inr ⟨h1.1, h2.2⟩

theorem touched_append (es : List (κ × κ)) (l r k : κ) :
    Touched (es ++ [(l, r)]) k ↔ Touched es k ∨ k = l ∨ k = r := by
  unfold Touched
  constructor
  · rintro ⟨e, he, h⟩
    rcases List.mem_append.1 he with h1 | h1
    · exact Or.inl ⟨e, h1, h⟩
    · simp at h1
      subst h1
      rcases h with h | h
      · exact Or.inr (Or.inl h.symm)
      · exact Or.inr (Or.inr h.symm)
  · rintro (⟨e, he, h⟩ | h | h)
    · exact ⟨e, List.mem_append_left _ he, h⟩
    · exact ⟨(l, r), by simp, Or.inl h.symm⟩
    · exact ⟨(l, r), by simp, Or.inr h.symm⟩

/-- Adding one edge merges the classes of its two ends and nothing else. -/
theorem conn_append_iff (es : List (κ × κ)) (l r a b : κ) :
    Conn (es ++ [(l, r)]) a b ↔
      Conn es a b ∨ ((Conn es a l ∨ Conn es a r) ∧ (Conn es b l ∨ Conn es b r)) := by
  have mono : ∀ {x y}, Conn es x y → Conn (es ++ [(l, r)]) x y :=
    fun c => c.mono (fun e he => List.mem_append_left _ he)
  have lr : Conn (es ++ [(l, r)]) l r := .edge (by simp)
  constructor
  · intro c
    induction c with
    | refl a => exact Or.inl (.refl a)
    | edge he =>
      rcases List.mem_append.1 he with h | h
      · exact Or.inl (.edge h)
      · simp at h
        obtain ⟨h1, h2⟩ := h
        subst h1; subst h2
        exact Or.inr ⟨Or.inl (.refl _), Or.inr (.refl _)⟩
    | symm _ ih =>
      rcases ih with h | h
      · exact Or.inl h.symm
      · exact Or.inr ⟨h.2, h.1⟩
    | trans _ _ ih1 ih2 =>
      rcases ih1 with h1 | h1
      · rcases ih2 with h2 | h2
        · exact Or.inl (h1.trans h2)
        · refine Or.inr ⟨?_, h2.2⟩
          rcases h2.1 with h | h
          · exact Or.inl (h1.trans h)
          · exact Or.inr (h1.trans h)
      · rcases ih2 with h2 | h2
        · refine Or.inr ⟨h1.1, ?_⟩
          rcases h1.2 with h | h
          · exact Or.inl (h2.symm.trans h)
          · exact Or.inr (h2.symm.trans h)
        · exact Or.inr ⟨h1.1, h2.2⟩
  · rintro (h | ⟨h1, h2⟩)
    · exact mono h
    · have ha : Conn (es ++ [(l, r)]) a l := by
        rcases h1 with h | h
        · exact mono h
        · exact (mono h).trans lr.symm
      have hb : Conn (es ++ [(l, r)]) l b := by
        rcases h2 with h | h
        · exact (mono h).symm
        · exact lr.trans (mono h).symm
      exact ha.trans hb

/-! ### the invariant -/

/-- What the association list looks like after processing the edges `es`. -/
structure MapInv (es : List (κ × κ)) (m : FlowMap κ) : Prop where
  keysNodup : (keys m).Nodup
  isKey : ∀ k, (∃ s, get? m k = some s) ↔ Touched es k
  nodup : ∀ k s, get? m k = some s → s.Nodup
  shared : ∀ k s k', get? m k = some s → k' ∈ s → get? m k' = some s
  comp : ∀ k s, get? m k = some s → ∀ k', k' ∈ s ↔ Conn es k k'

theorem MapInv.empty : MapInv ([] : List (κ × κ)) ([] : FlowMap κ) where
  keysNodup := by simp [keys]
  isKey := by
    intro k
    simp [get?, Touched]
  nodup := by intro k s h; simp [get?] at h
  shared := by intro k s k' h; simp [get?] at h
  comp := by intro k s h; simp [get?] at h

theorem MapInv.mem_getD {es : List (κ × κ)} {m : FlowMap κ} (inv : MapInv es m) (l x : κ) :
    x ∈ getD m l ↔ Touched es l ∧ Conn es l x := by
  unfold getD
  cases h : get? m l with
  | none =>
    simp only [Option.getD_none, List.not_mem_nil, false_iff]
    rintro ⟨ht, _⟩
    obtain ⟨s, hs⟩ := (inv.isKey l).2 ht
    rw [h] at hs
    cases hs
  | some s =>
    simp only [Option.getD_some]
    rw [inv.comp l s h x]
    constructor
    · intro c
      exact ⟨(inv.isKey l).1 ⟨s, h⟩, c⟩
    · exact fun c => c.2

theorem MapInv.nodup_getD {es : List (κ × κ)} {m : FlowMap κ} (inv : MapInv es m) (l : κ) :
    (getD m l).Nodup := by
  unfold getD
  cases h : get? m l with
  | none => simp
  | some s => simpa using inv.nodup l s h

theorem MapInv.mem_mergedSet {es : List (κ × κ)} {m : FlowMap κ} (inv : MapInv es m)
    (l r x : κ) : x ∈ mergedSet m l r ↔ Conn (es ++ [(l, r)]) l x := by
  have mono : ∀ {x y}, Conn es x y → Conn (es ++ [(l, r)]) x y :=
    fun c => c.mono (fun e he => List.mem_append_left _ he)
  have lr : Conn (es ++ [(l, r)]) l r := .edge (by simp)
  rw [Connect.mem_mergedSet, inv.mem_getD, inv.mem_getD]
  constructor
  · rintro (h | h | h | h)
    · exact mono h.2
    · exact lr.trans (mono h.2)
    · subst h; exact .refl _
    · subst h; exact lr
  · intro c
    have hx : Conn es x l ∨ Conn es x r := by
      rcases (conn_append_iff es l r l x).1 c with h | h
      · exact Or.inl h.symm
      · exact h.2
    rcases hx with h | h
    · rcases h.touched with e | ⟨_, tl⟩
      · exact Or.inr (Or.inr (Or.inl e))
      · exact Or.inl ⟨tl, h.symm⟩
    · rcases h.touched with e | ⟨_, tr⟩
      · exact Or.inr (Or.inr (Or.inr e))
      · exact Or.inr (Or.inl ⟨tr, h.symm⟩)

/-- One flow-level edge keeps the invariant (for the edge list extended by that edge). -/
theorem MapInv.step {es : List (κ × κ)} {m : FlowMap κ} (inv : MapInv es m) (l r : κ) :
    MapInv (es ++ [(l, r)]) (connectStep m l r) := by
  have mono : ∀ {x y}, Conn es x y → Conn (es ++ [(l, r)]) x y :=
    fun c => c.mono (fun e he => List.mem_append_left _ he)
  have lr : Conn (es ++ [(l, r)]) l r := .edge (by simp)
  have mS := inv.mem_mergedSet l r
  have hl : l ∈ mergedSet m l r := (mS l).2 (.refl _)
  have hr : r ∈ mergedSet m l r := (mS r).2 lr
  -- a key outside the merged set is not connected (in the old graph) to l or r
  have outside : ∀ k, k ∉ mergedSet m l r → ¬ (Conn es k l ∨ Conn es k r) := by
    intro k hk h
    apply hk
    rw [mS]
    rcases h with h | h
    · exact (mono h).symm
    · exact lr.trans (mono h).symm
  refine ⟨?_, ?_, ?_, ?_, ?_⟩
  · exact nodup_keys_foldl_setEntry _ _ _ inv.keysNodup
  · intro k
    rw [get?_connectStep, touched_append]
    by_cases hk : k ∈ mergedSet m l r
    · simp only [hk, if_true]
      constructor
      · intro _
        rcases (Connect.mem_mergedSet m l r k).1 hk with h | h | h | h
        · rcases ((inv.mem_getD l k).1 h).2.touched with e | ⟨_, t⟩
          · exact Or.inr (Or.inl e.symm)
          · exact Or.inl t
        · rcases ((inv.mem_getD r k).1 h).2.touched with e | ⟨_, t⟩
          · exact Or.inr (Or.inr e.symm)
          · exact Or.inl t
        · exact Or.inr (Or.inl h)
        · exact Or.inr (Or.inr h)
      · intro _
        exact ⟨_, rfl⟩
    · simp only [hk, if_false]
      rw [inv.isKey]
      constructor
      · exact Or.inl
      · rintro (h | h | h)
        · exact h
        · subst h; exact absurd hl hk
        · subst h; exact absurd hr hk
  · intro k s
    rw [get?_connectStep]
    by_cases hk : k ∈ mergedSet m l r
    · simp only [hk, if_true, Option.some.injEq]
      intro h
      subst h
      unfold mergedSet
      exact nodup_insertKey (nodup_insertKey (nodup_update (inv.nodup_getD l)))
    · simp only [hk, if_false]
      exact inv.nodup k s
  · intro k s k'
    rw [get?_connectStep, get?_connectStep]
    by_cases hk : k ∈ mergedSet m l r
    · simp only [hk, if_true, Option.some.injEq]
      intro h hk'
      subst h
      simp [hk']
    · simp only [hk, if_false]
      intro h hk'
      have c : Conn es k k' := (inv.comp k s h k').1 hk'
      have : k' ∉ mergedSet m l r := by
        intro h'
        apply hk
        rw [mS] at h' ⊢
        exact h'.trans (mono c).symm
      simp only [this, if_false]
      exact inv.shared k s k' h hk'
  · intro k s
    rw [get?_connectStep]
    by_cases hk : k ∈ mergedSet m l r
    · simp only [hk, if_true, Option.some.injEq]
      intro h k'
      subst h
      rw [mS]
      have c : Conn (es ++ [(l, r)]) l k := (mS k).1 hk
      constructor
      · exact fun h => c.symm.trans h
      · exact fun h => c.trans h
    · simp only [hk, if_false]
      intro h k'
      rw [inv.comp k s h k', conn_append_iff]
      constructor
      · exact Or.inl
      · rintro (h1 | h1)
        · exact h1
        · exact absurd h1.1 (outside k hk)

/-- Any list of further edges keeps the invariant. -/
theorem MapInv.connectAll {es : List (κ × κ)} {m : FlowMap κ} (inv : MapInv es m)
    (es2 : List (κ × κ)) : MapInv (es ++ es2) (connectAll m es2) := by
  induction es2 generalizing es m with
  | nil => simpa [Connect.connectAll] using inv
  | cons e es2 ih =>
    obtain ⟨l, r⟩ := e
    have := ih (inv.step l r)
    simpa [Connect.connectAll, List.append_assoc] using this

theorem connectAll_append (m : FlowMap κ) (a b : List (κ × κ)) :
    connectAll m (a ++ b) = connectAll (connectAll m a) b := by
  simp [connectAll, List.foldl_append]

/-- A duplicate-free list that is exactly the connected component of a touched key. -/
def IsComponent (es : List (κ × κ)) (S : List κ) : Prop :=
  S.Nodup ∧ ∃ k0, Touched es k0 ∧ ∀ k, k ∈ S ↔ Conn es k0 k

/-- The three facts that make `distinctSets` *the* partition into connected components. -/
theorem MapInv.sets {es : List (κ × κ)} {m : FlowMap κ} (inv : MapInv es m) :
    (∀ S ∈ distinctSets m, IsComponent es S) ∧
    (∀ k, Touched es k → ∃ S ∈ distinctSets m, k ∈ S) ∧
    (distinctSets m).Pairwise (fun S T => ∀ k, k ∈ S → k ∉ T) := by
  refine ⟨?_, ?_, ?_⟩
  · intro S hS
    obtain ⟨k, hk⟩ := (mem_distinctSets m S).1 hS
    have hg := (mem_iff_get? m inv.keysNodup k S).1 hk
    exact ⟨inv.nodup k S hg, k, (inv.isKey k).1 ⟨S, hg⟩, inv.comp k S hg⟩
  · intro k hk
    obtain ⟨S, hS⟩ := (inv.isKey k).2 hk
    refine ⟨S, (mem_distinctSets m S).2 ⟨k, (mem_iff_get? m inv.keysNodup k S).2 hS⟩, ?_⟩
    exact (inv.comp k S hS k).2 (.refl k)
  · have nd := nodup_distinctSets m
    refine List.Pairwise.imp_of_mem ?_ nd
    intro S T hS hT hne k hkS hkT
    apply hne
    obtain ⟨k1, h1⟩ := (mem_distinctSets m S).1 hS
    obtain ⟨k2, h2⟩ := (mem_distinctSets m T).1 hT
    have g1 := inv.shared k1 S k ((mem_iff_get? m inv.keysNodup k1 S).1 h1) hkS
    have g2 := inv.shared k2 T k ((mem_iff_get? m inv.keysNodup k2 T).1 h2) hkT
    rw [g1] at g2
    exact Option.some.inj g2

end Generic

/-! ## Part 2: the concrete pass -/

/-- Flow-level edges contributed by the variables `vs` of the connector class of clause `e`. -/
def Edge.flowOf (e : Edge) (vs : List CVar) : List (Key × Key) :=
  (vs.filter fun v => classify v.prefixes = .flow).map fun v =>
    ((varName e.lname v.name, e.linner), (varName e.rname v.name, e.rinner))

/-- Potential-level edges (pairs of flat variable names) contributed by `vs`. -/
def Edge.potOf (e : Edge) (vs : List CVar) : List (String × String) :=
  (vs.filter fun v => classify v.prefixes = .pot).map fun v =>
    (varName e.lname v.name, varName e.rname v.name)

/-- All flow-level edges of the flat class, in processing order. -/
def flowEdges (es : List Edge) : List (Key × Key) := es.flatMap fun e => e.flowOf e.vars
/-- All potential-level edges of the flat class, in processing order. -/
def potEdges (es : List Edge) : List (String × String) := es.flatMap fun e => e.potOf e.vars

/-- No connector variable has a prefix list the code rejects. -/
def Supported (es : List Edge) : Prop := ∀ e ∈ es, ∀ v ∈ e.vars, classify v.prefixes ≠ .bad

theorem mem_popName (d : List String) (x n : String) : n ∈ popName d x ↔ n ∈ d ∧ n ≠ x := by
  simp [popName]

theorem mem_popAll (d ns : List String) (n : String) : n ∈ popAll d ns ↔ n ∈ d ∧ n ∉ ns := by
  unfold popAll
  induction ns generalizing d with
  | nil => simp
  | cons x ns ih =>
    simp only [List.foldl_cons, List.mem_cons, not_or]
    rw [ih, mem_popName]
    constructor
    · rintro ⟨⟨a, b⟩, c⟩
      exact ⟨a, b, c⟩
    · rintro ⟨a, b, c⟩
      exact ⟨⟨a, b⟩, c⟩

/-- Names taken off the unconnected list by the variables `vs` of clause `e`. -/
def Edge.popsOf (pol : PopPolicy) (e : Edge) (vs : List CVar) : List String :=
  (vs.filter fun v => classify v.prefixes = .flow).flatMap fun v =>
    popsFor pol e (varName e.lname v.name) (varName e.rname v.name)

/-- All names taken off the unconnected list. -/
def popped (pol : PopPolicy) (es : List Edge) : List String := es.flatMap fun e => e.popsOf pol e.vars

/-- What a successful run over some variables / edges does to the state. -/
structure Advances {σ : Type} (S : Store σ) (st st' : St σ) (pots : List (String × String))
    (flows : List (Key × Key)) (pops : List String) : Prop where
  eqs : st'.eqs = st.eqs ++ pots.map fun p => Eqn.pot p.1 p.2
  fc : st'.fc = flows.foldl (fun s e => S.step s e.1 e.2) st.fc
  disc : ∀ n, n ∈ st'.disc ↔ n ∈ st.disc ∧ n ∉ pops

theorem Advances.refl {σ : Type} (S : Store σ) (st : St σ) : Advances S st st [] [] [] where
  eqs := by simp
  fc := by simp
  disc := by simp

theorem Advances.trans {σ : Type} {S : Store σ} {a b c : St σ} {p1 p2 f1 f2 q1 q2}
    (h1 : Advances S a b p1 f1 q1) (h2 : Advances S b c p2 f2 q2) :
    Advances S a c (p1 ++ p2) (f1 ++ f2) (q1 ++ q2) where
  eqs := by rw [h2.eqs, h1.eqs]; simp
  fc := by rw [h2.fc, h1.fc, List.foldl_append]
  disc := by
    intro n
    rw [h2.disc, h1.disc]
    simp only [List.mem_append, not_or]
    constructor
    · rintro ⟨⟨h, ha⟩, hb⟩
      exact ⟨h, ha, hb⟩
    · rintro ⟨h, ha, hb⟩
      exact ⟨⟨h, ha⟩, hb⟩

theorem stepVars_ok {σ : Type} (S : Store σ) (pol : PopPolicy) (e : Edge) (vs : List CVar)
    (st : St σ) (h : ∀ v ∈ vs, classify v.prefixes ≠ .bad) :
    ∃ st', stepVars S pol e st vs = .ok st' ∧
      Advances S st st' (e.potOf vs) (e.flowOf vs) (e.popsOf pol vs) := by
  induction vs generalizing st with
  | nil => exact ⟨st, rfl, by simpa [Edge.potOf, Edge.flowOf, Edge.popsOf] using Advances.refl S st⟩
  | cons v vs ih =>
    have hv := h v (by simp)
    have hvs : ∀ w ∈ vs, classify w.prefixes ≠ .bad := fun w hw => h w (by simp [hw])
    cases hc : classify v.prefixes with
    | pot =>
      obtain ⟨st', h1, h2⟩ := ih { st with eqs := st.eqs ++
        [.pot (varName e.lname v.name) (varName e.rname v.name)] } hvs
      refine ⟨st', by simp [stepVars, stepVar, hc, h1], ?_⟩
      have h0 : Advances S st { st with eqs := st.eqs ++
          [.pot (varName e.lname v.name) (varName e.rname v.name)] }
          [(varName e.lname v.name, varName e.rname v.name)] [] [] :=
        ⟨by simp, by simp, by simp⟩
      have := h0.trans h2
      simpa [Edge.potOf, Edge.flowOf, Edge.popsOf, hc, List.filter_cons] using this
    | flow =>
      obtain ⟨st', h1, h2⟩ := ih { st with
        fc := S.step st.fc (varName e.lname v.name, e.linner) (varName e.rname v.name, e.rinner),
        disc := popAll st.disc (popsFor pol e (varName e.lname v.name) (varName e.rname v.name)) } hvs
      refine ⟨st', by simp [stepVars, stepVar, hc, h1], ?_⟩
      have h0 : Advances S st { st with
          fc := S.step st.fc (varName e.lname v.name, e.linner) (varName e.rname v.name, e.rinner),
          disc := popAll st.disc (popsFor pol e (varName e.lname v.name) (varName e.rname v.name)) }
          [] [((varName e.lname v.name, e.linner), (varName e.rname v.name, e.rinner))]
          (popsFor pol e (varName e.lname v.name) (varName e.rname v.name)) :=
        ⟨by simp, by simp, fun n => mem_popAll _ _ n⟩
      have := h0.trans h2
      simpa [Edge.potOf, Edge.flowOf, Edge.popsOf, hc, List.filter_cons] using this
    | skip =>
      obtain ⟨st', h1, h2⟩ := ih st hvs
      refine ⟨st', by simp [stepVars, stepVar, hc, h1], ?_⟩
      simpa [Edge.potOf, Edge.flowOf, Edge.popsOf, hc, List.filter_cons] using h2
    | bad => exact absurd hc hv

theorem stepVars_bad {σ : Type} (S : Store σ) (pol : PopPolicy) (e : Edge) (vs : List CVar)
    (st : St σ) (h : ∃ v ∈ vs, classify v.prefixes = .bad) :
    ∃ x, stepVars S pol e st vs = .error x := by
  induction vs generalizing st with
  | nil => simp at h
  | cons v vs ih =>
    simp only [stepVars]
    cases h1 : stepVar S pol e st v with
    | error x => exact ⟨x, rfl⟩
    | ok st1 =>
      simp only
      apply ih
      obtain ⟨w, hw, hb⟩ := h
      rcases List.mem_cons.1 hw with q | q
      · subst q
        exfalso
        simp [stepVar, hb] at h1
      · exact ⟨w, q, hb⟩

theorem stepEdges_ok {σ : Type} (S : Store σ) (pol : PopPolicy) (es : List Edge) (st : St σ)
    (h : Supported es) :
    ∃ st', stepEdges S pol st es = .ok st' ∧
      Advances S st st' (potEdges es) (flowEdges es) (popped pol es) := by
  induction es generalizing st with
  | nil => exact ⟨st, rfl, by simpa [potEdges, flowEdges, popped] using Advances.refl S st⟩
  | cons e es ih =>
    obtain ⟨st1, h1, a1⟩ := stepVars_ok S pol e e.vars st (h e (by simp))
    obtain ⟨st2, h2, a2⟩ := ih st1 (fun e' he' => h e' (by simp [he']))
    refine ⟨st2, by simp [stepEdges, h1, h2], ?_⟩
    simpa [potEdges, flowEdges, popped] using a1.trans a2

theorem stepEdges_bad {σ : Type} (S : Store σ) (pol : PopPolicy) (es : List Edge) (st : St σ)
    (h : ¬ Supported es) : ∃ x, stepEdges S pol st es = .error x := by
  induction es generalizing st with
  | nil => exact absurd (by intro e he; simp at he) h
  | cons e es ih =>
    by_cases he : ∀ v ∈ e.vars, classify v.prefixes ≠ .bad
    · obtain ⟨st1, h1, _⟩ := stepVars_ok S pol e e.vars st he
      have : ¬ Supported es := by
        intro hs
        apply h
        intro e' he'
        rcases List.mem_cons.1 he' with q | q
        · subst q; exact he
        · exact hs e' q
      obtain ⟨x, hx⟩ := ih st1 this
      exact ⟨x, by simp [stepEdges, h1, hx]⟩
    · have : ∃ v ∈ e.vars, classify v.prefixes = .bad := by
        apply Classical.byContradiction
        intro hn
        apply he
        intro v hv hb
        exact hn ⟨v, hv, hb⟩
      obtain ⟨x, hx⟩ := stepVars_bad S pol e e.vars st this
      exact ⟨x, by simp [stepEdges, hx]⟩

/-- The state at the end of a successful pass. -/
theorem expand_ok (inp : Input) (eqs : List Eqn) (h : expand inp = .ok eqs) :
    Supported inp.edges ∧
      ∃ st, stepEdges valueStore inp.policy (St.init valueStore inp) inp.edges = .ok st ∧
      eqs = finish valueStore st ∧
      Advances valueStore (St.init valueStore inp) st (potEdges inp.edges) (flowEdges inp.edges)
        (popped inp.policy inp.edges) ∧
      MapInv (flowEdges inp.edges) st.fc := by
  by_cases hs : Supported inp.edges
  · obtain ⟨st, h1, a⟩ := stepEdges_ok valueStore inp.policy inp.edges (St.init valueStore inp) hs
    refine ⟨hs, st, h1, ?_, a, ?_⟩
    · simp only [expand, expandWith, h1] at h
      exact (Except.ok.inj h).symm
    · have := (MapInv.empty (κ := Key)).connectAll (flowEdges inp.edges)
      rw [a.fc]
      simpa [St.init, valueStore, Connect.connectAll] using this
  · obtain ⟨x, hx⟩ := stepEdges_bad valueStore inp.policy inp.edges (St.init valueStore inp) hs
    simp [expand, expandWith, hx] at h

/-! ### which names are popped -/

/-- A flow variable of a top-level connector occurs in a clause of the top class. -/
def TouchedTop (es : List Edge) (f : String) : Prop :=
  ∃ e ∈ es, ∃ v ∈ e.vars, classify v.prefixes = .flow ∧
    ((e.ltop = true ∧ f = varName e.lname v.name) ∨ (e.rtop = true ∧ f = varName e.rname v.name))

theorem touched_flowEdges (es : List Edge) (f : String) (b : Bool) :
    Touched (flowEdges es) (f, b) ↔
      ∃ e ∈ es, ∃ v ∈ e.vars, classify v.prefixes = .flow ∧
        ((f = varName e.lname v.name ∧ b = e.linner) ∨ (f = varName e.rname v.name ∧ b = e.rinner)) := by
  unfold Touched flowEdges Edge.flowOf
  constructor
  · rintro ⟨p, hp, hk⟩
    obtain ⟨e, he, hp⟩ := List.mem_flatMap.1 hp
    obtain ⟨v, hv, rfl⟩ := List.mem_map.1 hp
    obtain ⟨hv1, hv2⟩ := List.mem_filter.1 hv
    refine ⟨e, he, v, hv1, by simpa using hv2, ?_⟩
    rcases hk with hk | hk
    · simp only [Prod.mk.injEq] at hk
      exact Or.inl ⟨hk.1.symm, hk.2.symm⟩
    · simp only [Prod.mk.injEq] at hk
      exact Or.inr ⟨hk.1.symm, hk.2.symm⟩
  · rintro ⟨e, he, v, hv, hc, hk⟩
    refine ⟨((varName e.lname v.name, e.linner), (varName e.rname v.name, e.rinner)), ?_, ?_⟩
    · apply List.mem_flatMap.2
      refine ⟨e, he, List.mem_map.2 ⟨v, List.mem_filter.2 ⟨hv, by simpa using hc⟩, rfl⟩⟩
    · rcases hk with ⟨h1, h2⟩ | ⟨h1, h2⟩
      · exact Or.inl (by rw [h1, h2])
      · exact Or.inr (by rw [h1, h2])

theorem mem_popped (pol : PopPolicy) (es : List Edge) (f : String) :
    f ∈ popped pol es ↔ ∃ e ∈ es, ∃ v ∈ e.vars, classify v.prefixes = .flow ∧
      f ∈ popsFor pol e (varName e.lname v.name) (varName e.rname v.name) := by
  unfold popped Edge.popsOf
  constructor
  · intro h
    obtain ⟨e, he, h⟩ := List.mem_flatMap.1 h
    obtain ⟨v, hv, h⟩ := List.mem_flatMap.1 h
    obtain ⟨hv1, hv2⟩ := List.mem_filter.1 hv
    exact ⟨e, he, v, hv1, by simpa using hv2, h⟩
  · rintro ⟨e, he, v, hv, hc, h⟩
    exact List.mem_flatMap.2 ⟨e, he, List.mem_flatMap.2
      ⟨v, List.mem_filter.2 ⟨hv, by simpa using hc⟩, h⟩⟩

/-- The code as it stands pops a name as soon as it occurs in a connection, under either face. -/
theorem mem_popped_byName (es : List Edge) (f : String) :
    f ∈ popped .byName es ↔ ∃ b, Touched (flowEdges es) (f, b) := by
  rw [mem_popped]
  constructor
  · rintro ⟨e, he, v, hv, hc, h⟩
    simp only [popsFor, List.mem_cons, List.not_mem_nil, or_false] at h
    rcases h with h | h
    · exact ⟨e.linner, (touched_flowEdges es f _).2 ⟨e, he, v, hv, hc, Or.inl ⟨h, rfl⟩⟩⟩
    · exact ⟨e.rinner, (touched_flowEdges es f _).2 ⟨e, he, v, hv, hc, Or.inr ⟨h, rfl⟩⟩⟩
  · rintro ⟨b, hb⟩
    obtain ⟨e, he, v, hv, hc, h⟩ := (touched_flowEdges es f b).1 hb
    refine ⟨e, he, v, hv, hc, ?_⟩
    simp only [popsFor, List.mem_cons, List.not_mem_nil, or_false]
    rcases h with h | h
    · exact Or.inl h.1
    · exact Or.inr h.1

/-- With the proposed fix a name is popped iff its inside face is connected or it belongs to a
    top-level connector that is connected. -/
theorem mem_popped_byFace (es : List Edge) (f : String) :
    f ∈ popped .byFace es ↔ Touched (flowEdges es) (f, true) ∨ TouchedTop es f := by
  rw [mem_popped]
  constructor
  · rintro ⟨e, he, v, hv, hc, h⟩
    simp only [popsFor, List.mem_append] at h
    rcases h with h | h
    · split at h
      · rename_i hcond
        simp only [List.mem_singleton] at h
        rcases Bool.or_eq_true_iff.1 hcond with q | q
        · exact Or.inl ((touched_flowEdges es f true).2 ⟨e, he, v, hv, hc, Or.inl ⟨h, q.symm⟩⟩)
        · exact Or.inr ⟨e, he, v, hv, hc, Or.inl ⟨q, h⟩⟩
      · simp at h
    · split at h
      · rename_i hcond
        simp only [List.mem_singleton] at h
        rcases Bool.or_eq_true_iff.1 hcond with q | q
        · exact Or.inl ((touched_flowEdges es f true).2 ⟨e, he, v, hv, hc, Or.inr ⟨h, q.symm⟩⟩)
        · exact Or.inr ⟨e, he, v, hv, hc, Or.inr ⟨q, h⟩⟩
      · simp at h
  · rintro (h | ⟨e, he, v, hv, hc, h⟩)
    · obtain ⟨e, he, v, hv, hc, h⟩ := (touched_flowEdges es f true).1 h
      refine ⟨e, he, v, hv, hc, ?_⟩
      simp only [popsFor, List.mem_append]
      rcases h with ⟨h1, h2⟩ | ⟨h1, h2⟩
      · left
        simp [← h2, h1]
      · right
        simp [← h2, h1]
    · refine ⟨e, he, v, hv, hc, ?_⟩
      simp only [popsFor, List.mem_append]
      rcases h with ⟨h1, h2⟩ | ⟨h1, h2⟩
      · left
        simp [h1, h2]
      · right
        simp [h1, h2]

/-! ### semantics of the derived equations -/

section Sem
variable {K : Type} [AddCommGroup K]

/-- Contribution of a flow key to the sum of its connection set: plus for inside connectors,
    minus for outside connectors. -/
def signed (σ : String → K) (k : Key) : K := if k.2 then σ k.1 else - σ k.1

/-- Truth of a derived equation under a valuation of the flat variables. -/
def Eqn.holds (σ : String → K) : Eqn → Prop
  | .pot l r => σ l = σ r
  | .sum ops => (ops.map fun o => if o.2 then - σ o.1 else σ o.1).sum = 0
  | .zero v => σ v = 0

/-- `σ` solves every equation of the list. -/
def Sol (eqs : List Eqn) (σ : String → K) : Prop := ∀ e ∈ eqs, e.holds σ

theorem perm_sum {l1 l2 : List K} (h : l1.Perm l2) : l1.sum = l2.sum := by
  induction h with
  | nil => rfl
  | cons x _ ih => simp [List.sum_cons, ih]
  | swap x y l => simp only [List.sum_cons]; abel
  | trans _ _ ih1 ih2 => exact ih1.trans ih2

theorem sum_map_neg (s : List Key) (f : Key → K) :
    (s.map fun k => - f k).sum = - (s.map f).sum := by
  induction s with
  | nil => simp
  | cons a s ih => simp only [List.map_cons, List.sum_cons, ih]; abel

/-- The emitted flow-sum equation says: the signed sum of the set is zero (also in the
    all-outside form, which is the same equation multiplied by −1). -/
theorem sumEqn_holds (s : List Key) (σ : String → K) :
    (sumEqn s).holds σ ↔ (s.map (signed σ)).sum = 0 := by
  unfold sumEqn
  by_cases h : s.all (fun k => !k.2) = true
  · simp only [h, if_true, Eqn.holds, List.map_map]
    have e1 : (s.map ((fun o : String × Bool => if o.2 = true then - σ o.1 else σ o.1) ∘
        fun k : Key => (k.1, false))) = s.map fun k => σ k.1 := by
      apply List.map_congr_left
      intro k _
      simp
    have e2 : s.map (signed σ) = s.map fun k => - σ k.1 := by
      apply List.map_congr_left
      intro k hk
      have := List.all_eq_true.1 h k hk
      simp only [Bool.not_eq_true'] at this
      simp [signed, this]
    rw [e1, e2, sum_map_neg (f := fun k => σ k.1), neg_eq_zero]
  · simp only [h, Eqn.holds]
    have e1 : (s.map ((fun o : String × Bool => if o.2 = true then - σ o.1 else σ o.1) ∘
        fun k : Key => (k.1, !k.2))) = s.map (signed σ) := by
      apply List.map_congr_left
      intro k _
      cases hk : k.2 <;> simp [signed, hk]
    simp [e1]

theorem signed_sum_split (s : List Key) (σ : String → K) :
    (s.map (signed σ)).sum =
      ((s.filter fun k => k.2).map fun k => σ k.1).sum -
      ((s.filter fun k => !k.2).map fun k => σ k.1).sum := by
  induction s with
  | nil => simp
  | cons k s ih =>
    cases hk : k.2
    · simp only [List.map_cons, List.sum_cons, ih, signed, hk, List.filter_cons]
      simp only [Bool.false_eq_true, if_false, Bool.not_false, if_true, List.map_cons, List.sum_cons]
      abel
    · simp only [List.map_cons, List.sum_cons, ih, signed, hk, List.filter_cons]
      simp only [if_true, Bool.not_true, Bool.false_eq_true, if_false, List.map_cons, List.sum_cons]
      abel

theorem sol_append (a b : List Eqn) (σ : String → K) : Sol (a ++ b) σ ↔ Sol a σ ∧ Sol b σ := by
  unfold Sol
  constructor
  · intro h
    exact ⟨fun e he => h e (List.mem_append_left _ he), fun e he => h e (List.mem_append_right _ he)⟩
  · rintro ⟨h1, h2⟩ e he
    rcases List.mem_append.1 he with q | q
    · exact h1 e q
    · exact h2 e q

end Sem

/-- Potential equalities along the edges hold iff they hold along every path. -/
theorem conn_eq_of_edges {α β : Type} (es : List (α × α)) (σ : α → β)
    (h : ∀ p ∈ es, σ p.1 = σ p.2) {a b : α} (c : Conn es a b) : σ a = σ b := by
  induction c with
  | refl a => rfl
  | edge he => exact h _ he
  | symm _ ih => exact ih.symm
  | trans _ _ ih1 ih2 => exact ih1.trans ih2

theorem touched_key_iff (es : List (Key × Key)) (n : String) :
    (∀ b, ¬ Touched es (n, b)) ↔ ∀ p ∈ es, p.1.1 ≠ n ∧ p.2.1 ≠ n := by
  unfold Touched
  constructor
  · intro h p hp
    constructor
    · intro q
      apply h p.1.2
      exact ⟨p, hp, Or.inl (by rw [← q])⟩
    · intro q
      apply h p.2.2
      exact ⟨p, hp, Or.inr (by rw [← q])⟩
  · rintro h b ⟨p, hp, q | q⟩
    · exact (h p hp).1 (by rw [q])
    · exact (h p hp).2 (by rw [q])

/-! ### reference semantics and a running example (used by `Props/C09.lean`) -/

section Ref
variable {K : Type} [AddCommGroup K]

/-- Reference connection semantics of a flat class as the property text states it, without the
    algorithm: potentials are equal throughout every connected component of the potential-level
    edge graph; for every connected component of the flow-level graph the inside flows minus the
    outside flows sum to zero; every flow symbol that occurs in no connection is zero. -/
structure RefSol (inp : Input) (σ : String → K) : Prop where
  potential : ∀ a b, Conn (potEdges inp.edges) a b → σ a = σ b
  flow : ∀ S, IsComponent (flowEdges inp.edges) S → (S.map (signed σ)).sum = 0
  unconnected : ∀ f ∈ inp.flowSyms, (∀ b, ¬ Touched (flowEdges inp.edges) (f, b)) → σ f = 0

/-- The same with Modelica's face-wise rule for hierarchical models: a flow is zero when the
    *inside* face of its connector is in no connection, unless it belongs to a top-level connector
    that occurs in a connection (which is left to the environment). -/
structure RefSolFace (inp : Input) (σ : String → K) : Prop where
  potential : ∀ a b, Conn (potEdges inp.edges) a b → σ a = σ b
  flow : ∀ S, IsComponent (flowEdges inp.edges) S → (S.map (signed σ)).sum = 0
  unconnected : ∀ f ∈ inp.flowSyms, ¬ Touched (flowEdges inp.edges) (f, true) →
    ¬ TouchedTop inp.edges f → σ f = 0

/-- The solution set of the derived equations, with the zero equations still phrased through the
    list of popped names (common to both pop policies). -/
theorem sol_core (inp : Input) (eqs : List Eqn) (h : expand inp = .ok eqs) (σ : String → K) :
    Sol eqs σ ↔
      (∀ a b, Conn (potEdges inp.edges) a b → σ a = σ b) ∧
      (∀ S, IsComponent (flowEdges inp.edges) S → (S.map (signed σ)).sum = 0) ∧
      (∀ f ∈ inp.flowSyms, f ∉ popped inp.policy inp.edges → σ f = 0) := by
  obtain ⟨_, st, _, he, adv, inv⟩ := expand_ok inp eqs h
  subst he
  obtain ⟨comp, cover, _⟩ := inv.sets
  unfold finish
  have hsets : valueStore.sets st.fc = distinctSets st.fc := rfl
  rw [hsets, sol_append, sol_append]
  have hp : Sol st.eqs σ ↔ ∀ a b, Conn (potEdges inp.edges) a b → σ a = σ b := by
    rw [adv.eqs]
    simp only [St.init, List.nil_append, Sol, List.mem_map]
    constructor
    · intro h1 a b c
      exact conn_eq_of_edges _ σ (fun p hp => h1 _ ⟨p, hp, rfl⟩) c
    · rintro h1 e ⟨p, hp, rfl⟩
      exact h1 p.1 p.2 (.edge hp)
  have hf : Sol ((distinctSets st.fc).map sumEqn) σ ↔
      ∀ S, IsComponent (flowEdges inp.edges) S → (S.map (signed σ)).sum = 0 := by
    simp only [Sol, List.mem_map]
    constructor
    · intro h1 S' hS'
      obtain ⟨nd', k0, t0, m0⟩ := hS'
      obtain ⟨S, hS, hk0⟩ := cover k0 t0
      obtain ⟨nd, k1, _, m1⟩ := comp S hS
      have hperm : S.Perm S' := by
        rw [List.perm_ext_iff_of_nodup nd nd']
        intro k
        rw [m1, m0]
        have c10 : Conn (flowEdges inp.edges) k1 k0 := (m1 k0).1 hk0
        constructor
        · exact fun c => c10.symm.trans c
        · exact fun c => c10.trans c
      have := (sumEqn_holds S σ).1 (h1 _ ⟨S, hS, rfl⟩)
      rw [← perm_sum (hperm.map (signed σ))]
      exact this
    · rintro h1 e ⟨S, hS, rfl⟩
      exact (sumEqn_holds S σ).2 (h1 S (comp S hS))
  have hz : Sol (st.disc.map Eqn.zero) σ ↔
      ∀ f ∈ inp.flowSyms, f ∉ popped inp.policy inp.edges → σ f = 0 := by
    simp only [Sol, List.mem_map]
    constructor
    · intro h1 f hf ht
      have : f ∈ st.disc := (adv.disc f).2 ⟨hf, ht⟩
      exact h1 _ ⟨f, this, rfl⟩
    · rintro h1 e ⟨f, hf, rfl⟩
      have := (adv.disc f).1 hf
      exact h1 f this.1 this.2
  rw [hp, hf, hz]
  constructor
  · rintro ⟨⟨a, b⟩, c⟩
    exact ⟨a, b, c⟩
  · rintro ⟨a, b, c⟩
    exact ⟨⟨a, b⟩, c⟩

/-- Which `f = 0` equations the pass emits, through the list of popped names. -/
theorem zero_mem_core (inp : Input) (eqs : List Eqn) (h : expand inp = .ok eqs) (f : String) :
    Eqn.zero f ∈ eqs ↔ f ∈ inp.flowSyms ∧ f ∉ popped inp.policy inp.edges := by
  obtain ⟨_, st, _, he, adv, _⟩ := expand_ok inp eqs h
  subst he
  have hd := adv.disc f
  simp only [St.init] at hd
  rw [← hd]
  simp only [finish, List.mem_append, List.mem_map]
  constructor
  · rintro ((h1 | ⟨S, _, h1⟩) | ⟨n, hn, h1⟩)
    · rw [adv.eqs] at h1
      simp [St.init] at h1
    · unfold sumEqn at h1
      split at h1 <;> cases h1
    · cases h1
      exact hn
  · intro h1
    exact Or.inr ⟨f, h1, rfl⟩

end Ref

/-- A small circuit: two component connectors and a top-level connector in one set. -/
def exP : List CVar := [⟨"v", []⟩, ⟨"i", ["flow"]⟩]
def exInputWith (pol : PopPolicy) : Input where
  flowSyms := ["o.i", "c1.a.i", "c1.b.i", "c2.a.i"]
  edges := [⟨"", ["c1", "a"], ["c2", "a"], exP⟩, ⟨"", ["o"], ["c1", "a"], exP⟩]
  policy := pol
/-- … under the pop rule of the code before the fix of C09-F1 … -/
def exInput : Input := exInputWith .byName
/-- … and under the rule of the code as it stands. -/
def exInputFace : Input := exInputWith .byFace

/-- A hierarchical class: `c.p` is connected inside `C` (outside face) and nowhere in the top class. -/
def exNested (pol : PopPolicy) : Input where
  flowSyms := ["c.p.i", "c.r.a.i"]
  edges := [⟨"c.", ["p"], ["r", "a"], exP⟩]
  policy := pol

/-! ## Part 3: shared objects (identities, in-place mutation) refine to values -/

section HeapRef
variable {κ : Type} [DecidableEq κ]

theorem get?_map_val {β γ : Type} (f : β → γ) (m : List (κ × β)) (k : κ) :
    get? (m.map fun e => (e.1, f e.2)) k = (get? m k).map f := by
  induction m with
  | nil => simp [get?]
  | cons e m ih =>
    obtain ⟨k', v⟩ := e
    simp only [List.map_cons, get?]
    by_cases hk : k' = k
    · simp [hk]
    · simp [hk, ih]

theorem keys_map_val {β γ : Type} (f : β → γ) (m : List (κ × β)) :
    keys (m.map fun e => (e.1, f e.2)) = keys m := by
  simp [keys, List.map_map, Function.comp_def]

theorem keys_setEntry {β : Type} (m : List (κ × β)) (k : κ) (v : β) :
    keys (setEntry m k v) = insertKey (keys m) k := by
  induction m with
  | nil => simp [setEntry, keys, insertKey]
  | cons e m ih =>
    obtain ⟨k', v'⟩ := e
    simp only [setEntry]
    by_cases hk : k' = k
    · subst hk
      simp [keys, insertKey]
    · simp only [hk, if_false]
      simp only [keys, List.map_cons] at ih ⊢
      rw [ih]
      unfold insertKey
      have : ¬ k = k' := fun e => hk e.symm
      by_cases hm : k ∈ List.map Prod.fst m
      · simp [hm]
      · simp [hm, this]

theorem keys_foldl_setEntry {β : Type} (ks : List κ) (m : List (κ × β)) (v : β) :
    keys (ks.foldl (fun m k => setEntry m k v) m) = update (keys m) ks := by
  unfold update
  induction ks generalizing m with
  | nil => rfl
  | cons k ks ih => simp only [List.foldl_cons]; rw [ih, keys_setEntry]

/-- An association list with duplicate-free keys is determined by its key order and its lookups. -/
theorem assoc_ext {β : Type} (m1 m2 : List (κ × β)) (hk : keys m1 = keys m2) (nd : (keys m1).Nodup)
    (hg : ∀ k, get? m1 k = get? m2 k) : m1 = m2 := by
  induction m1 generalizing m2 with
  | nil =>
    cases m2 with
    | nil => rfl
    | cons e m2 => simp [keys] at hk
  | cons e1 m1 ih =>
    cases m2 with
    | nil => simp [keys] at hk
    | cons e2 m2 =>
      obtain ⟨k1, v1⟩ := e1
      obtain ⟨k2, v2⟩ := e2
      simp only [keys, List.map_cons, List.cons.injEq] at hk
      obtain ⟨hk1, hk2⟩ := hk
      subst hk1
      simp only [keys, List.map_cons, List.nodup_cons] at nd
      have hv : v1 = v2 := by
        have := hg k1
        simpa [get?] using this
      subst hv
      congr 1
      apply ih m2 hk2 nd.2
      intro k
      have := hg k
      simp only [get?] at this
      by_cases hkk : k1 = k
      · subst hkk
        have h1 : get? m1 k1 = none := by
          cases hh : get? m1 k1 with
          | none => rfl
          | some v => exact absurd (get?_some_mem_keys m1 k1 v hh) nd.1
        have h2 : get? m2 k1 = none := by
          cases hh : get? m2 k1 with
          | none => rfl
          | some v =>
            have := get?_some_mem_keys m2 k1 v hh
            rw [← show keys m1 = keys m2 from hk2] at this
            exact absurd this nd.1
        rw [h1, h2]
      · simpa [hkk] using this

/-! ### the heap step -/

theorem Heap.obj_alloc (h : Heap κ) (i : Nat) :
    ({ h with objs := h.objs ++ [[]] } : Heap κ).obj i = h.obj i := by
  unfold Heap.obj
  simp only
  by_cases hi : i < h.objs.length
  · rw [List.getElem?_append_left hi]
  · have h1 : h.objs[i]? = none := List.getElem?_eq_none (Nat.le_of_not_lt hi)
    rw [h1]
    by_cases he : i = h.objs.length
    · subst he
      simp
    · have : (h.objs ++ [[]])[i]? = none := by
        apply List.getElem?_eq_none
        simp
        omega
      rw [this]

theorem Heap.lookupOrAlloc_fc (h : Heap κ) (k : κ) : (h.lookupOrAlloc k).2.fc = h.fc := by
  unfold Heap.lookupOrAlloc
  split <;> rfl

theorem Heap.lookupOrAlloc_obj (h : Heap κ) (k : κ) (i : Nat) :
    (h.lookupOrAlloc k).2.obj i = h.obj i := by
  unfold Heap.lookupOrAlloc
  split
  · rfl
  · exact Heap.obj_alloc h i

theorem Heap.lookupOrAlloc_len (h : Heap κ) (k : κ) :
    h.objs.length ≤ (h.lookupOrAlloc k).2.objs.length := by
  unfold Heap.lookupOrAlloc
  split
  · exact Nat.le_refl _
  · simp

/-- Valid references: every key points at an allocated object. -/
def Heap.Valid (h : Heap κ) : Prop := ∀ k i, get? h.fc k = some i → i < h.objs.length

theorem Heap.lookupOrAlloc_id (h : Heap κ) (hv : h.Valid) (k : κ) :
    (h.lookupOrAlloc k).1 < (h.lookupOrAlloc k).2.objs.length ∧
    ((get? h.fc k = some (h.lookupOrAlloc k).1) ∨
     (get? h.fc k = none ∧ h.objs.length ≤ (h.lookupOrAlloc k).1)) := by
  unfold Heap.lookupOrAlloc
  cases hg : get? h.fc k with
  | some i => exact ⟨hv k i hg, Or.inl rfl⟩
  | none => exact ⟨by simp, Or.inr ⟨rfl, Nat.le_refl _⟩⟩

theorem Heap.obj_out_of_range (h : Heap κ) (i : Nat) (hi : h.objs.length ≤ i) : h.obj i = [] := by
  unfold Heap.obj
  rw [List.getElem?_eq_none hi]
  rfl

theorem get?_view (h : Heap κ) (k : κ) : get? h.view k = (get? h.fc k).map h.obj :=
  get?_map_val h.obj h.fc k

theorem keys_view (h : Heap κ) : keys h.view = keys h.fc := keys_map_val h.obj h.fc

/-- The object found (or allocated) for a key holds what the value reading has for that key. -/
theorem Heap.obj_lookup (h : Heap κ) (hv : h.Valid) (k : κ) :
    h.obj (h.lookupOrAlloc k).1 = getD h.view k := by
  unfold getD
  rw [get?_view]
  rcases (h.lookupOrAlloc_id hv k).2 with hg | ⟨hg, hl⟩
  · rw [hg]; rfl
  · rw [hg, Heap.obj_out_of_range h _ hl]; rfl

/-- Anatomy of one heap step: the merged set is the one of the value reading; exactly the object
    `lid` changes (to the merged set); every member is pointed at `lid`. -/
theorem Heap.step_anatomy (h : Heap κ) (hv : h.Valid) (l r : κ) :
    ∃ lid, lid < (h.step l r).objs.length ∧ h.objs.length ≤ (h.step l r).objs.length ∧
      (get? h.fc l = some lid ∨ (get? h.fc l = none ∧ h.objs.length ≤ lid)) ∧
      (h.step l r).fc = (mergedSet h.view l r).foldl (fun fc k => setEntry fc k lid) h.fc ∧
      ∀ i, (h.step l r).obj i = if i = lid then mergedSet h.view l r else h.obj i := by
  have ha := h.lookupOrAlloc_id hv l
  have hfa := h.lookupOrAlloc_fc l
  have hva : (h.lookupOrAlloc l).2.Valid := by
    intro k i hk
    rw [hfa] at hk
    exact Nat.lt_of_lt_of_le (hv k i hk) (h.lookupOrAlloc_len l)
  have hfb := (h.lookupOrAlloc l).2.lookupOrAlloc_fc r
  have hs : insertKey (insertKey (update (((h.lookupOrAlloc l).2.lookupOrAlloc r).2.obj (h.lookupOrAlloc l).1)
      (((h.lookupOrAlloc l).2.lookupOrAlloc r).2.obj ((h.lookupOrAlloc l).2.lookupOrAlloc r).1)) l) r
      = mergedSet h.view l r := by
    unfold mergedSet
    rw [Heap.lookupOrAlloc_obj, Heap.lookupOrAlloc_obj, Heap.obj_lookup h hv l]
    have h2 := Heap.obj_lookup (h.lookupOrAlloc l).2 hva r
    have hview : getD (h.lookupOrAlloc l).2.view r = getD h.view r := by
      unfold getD
      rw [get?_view, get?_view, hfa]
      cases get? h.fc r with
      | none => rfl
      | some i => simp [Heap.lookupOrAlloc_obj]
    rw [Heap.lookupOrAlloc_obj, h2, hview]
  have hlen1 := h.lookupOrAlloc_len l
  have hlen2 := (h.lookupOrAlloc l).2.lookupOrAlloc_len r
  refine ⟨(h.lookupOrAlloc l).1, ?_, ?_, ha.2, ?_, ?_⟩
  · simp only [Heap.step, List.length_set]
    exact Nat.lt_of_lt_of_le ha.1 hlen2
  · simp only [Heap.step, List.length_set]
    exact Nat.le_trans hlen1 hlen2
  · simp only [Heap.step]
    rw [hs, hfb, hfa]
  · intro i
    simp only [Heap.step]
    rw [hs]
    unfold Heap.obj
    simp only
    by_cases hi : i = (h.lookupOrAlloc l).1
    · subst hi
      simp only [if_true]
      rw [List.getElem?_set_self (Nat.lt_of_lt_of_le ha.1 hlen2)]
      rfl
    · simp only [hi, if_false]
      rw [List.getElem?_set_ne (fun e => hi e.symm)]
      have := Heap.lookupOrAlloc_obj (h.lookupOrAlloc l).2 r i
      unfold Heap.obj at this
      rw [this]
      have := Heap.lookupOrAlloc_obj h l i
      unfold Heap.obj at this
      exact this

/-! ### the refinement invariant -/

/-- Heap states reachable by the pass: references are valid, the value reading satisfies `MapInv`,
    and two live objects with the same content are the same object. -/
structure HeapInv (es : List (κ × κ)) (h : Heap κ) : Prop where
  valid : h.Valid
  inv : MapInv es h.view
  inj : ∀ k k' i i', get? h.fc k = some i → get? h.fc k' = some i' → h.obj i = h.obj i' → i = i'

theorem HeapInv.empty : HeapInv ([] : List (κ × κ)) (Heap.empty : Heap κ) where
  valid := by intro k i h; simp [Heap.empty, get?] at h
  inv := by simpa [Heap.view, Heap.empty] using (MapInv.empty (κ := κ))
  inj := by intro k k' i i' h; simp [Heap.empty, get?] at h

theorem HeapInv.self_mem {es : List (κ × κ)} {h : Heap κ} (hi : HeapInv es h) (k : κ) (i : Nat)
    (hk : get? h.fc k = some i) : k ∈ h.obj i := by
  have : get? h.view k = some (h.obj i) := by rw [get?_view, hk]; rfl
  exact (hi.inv.comp k _ this k).2 (.refl k)

theorem HeapInv.id_ne {es : List (κ × κ)} {h : Heap κ} (hi : HeapInv es h) (l r : κ) (lid : Nat)
    (hl : get? h.fc l = some lid ∨ (get? h.fc l = none ∧ h.objs.length ≤ lid))
    (k : κ) (i : Nat) (hk : get? h.fc k = some i) (hS : k ∉ mergedSet h.view l r) : i ≠ lid := by
  intro e
  subst e
  rcases hl with hl | ⟨_, hl⟩
  · apply hS
    rw [mem_mergedSet]
    left
    unfold getD
    rw [get?_view, hl]
    exact hi.self_mem k i hk
  · exact absurd (hi.valid k i hk) (Nat.not_lt.2 hl)

/-- In-place mutation of the shared left object + re-pointing = the value-level step. -/
theorem HeapInv.view_step {es : List (κ × κ)} {h : Heap κ} (hi : HeapInv es h) (l r : κ) :
    (h.step l r).view = connectStep h.view l r := by
  obtain ⟨lid, hlt, hle, hl, hfc, hobj⟩ := h.step_anatomy hi.valid l r
  have hkeys : keys (h.step l r).view = update (keys h.fc) (mergedSet h.view l r) := by
    rw [keys_view, hfc, keys_foldl_setEntry]
  apply assoc_ext
  · rw [hkeys]
    unfold connectStep
    rw [keys_foldl_setEntry, keys_view]
  · rw [hkeys]
    apply nodup_update
    rw [← keys_view]
    exact hi.inv.keysNodup
  · intro k
    rw [get?_view, hfc, get?_foldl_setEntry, get?_connectStep, get?_view]
    by_cases hk : k ∈ mergedSet h.view l r
    · simp only [hk, if_true, Option.map_some]
      rw [hobj]
      simp
    · simp only [hk, if_false]
      cases hg : get? h.fc k with
      | none => rfl
      | some i =>
        simp only [Option.map_some]
        rw [hobj]
        simp [hi.id_ne l r lid hl k i hg hk]

theorem HeapInv.step {es : List (κ × κ)} {h : Heap κ} (hi : HeapInv es h) (l r : κ) :
    HeapInv (es ++ [(l, r)]) (h.step l r) := by
  obtain ⟨lid, hlt, hle, hl, hfc, hobj⟩ := h.step_anatomy hi.valid l r
  have hget : ∀ k, get? (h.step l r).fc k =
      if k ∈ mergedSet h.view l r then some lid else get? h.fc k := by
    intro k
    rw [hfc, get?_foldl_setEntry]
  refine ⟨?_, ?_, ?_⟩
  · intro k i hk
    rw [hget] at hk
    by_cases hS : k ∈ mergedSet h.view l r
    · simp only [hS, if_true, Option.some.injEq] at hk
      subst hk
      exact hlt
    · simp only [hS, if_false] at hk
      exact Nat.lt_of_lt_of_le (hi.valid k i hk) hle
  · rw [hi.view_step]
    exact hi.inv.step l r
  · intro k k' i i' hk hk' ho
    rw [hget] at hk hk'
    rw [hobj, hobj] at ho
    by_cases hS : k ∈ mergedSet h.view l r
    · simp only [hS, if_true, Option.some.injEq] at hk
      subst hk
      by_cases hS' : k' ∈ mergedSet h.view l r
      · simp only [hS', if_true, Option.some.injEq] at hk'
        exact hk'
      · simp only [hS', if_false] at hk'
        have hne := hi.id_ne l r lid hl k' i' hk' hS'
        simp only [if_true, hne, if_false] at ho
        exfalso
        apply hS'
        rw [ho]
        exact hi.self_mem k' i' hk'
    · simp only [hS, if_false] at hk
      have hne := hi.id_ne l r lid hl k i hk hS
      by_cases hS' : k' ∈ mergedSet h.view l r
      · simp only [hS', if_true, Option.some.injEq] at hk'
        subst hk'
        simp only [hne, if_false, if_true] at ho
        exfalso
        apply hS
        rw [← ho]
        exact hi.self_mem k i hk
      · simp only [hS', if_false] at hk'
        have hne' := hi.id_ne l r lid hl k' i' hk' hS'
        simp only [hne, hne', if_false] at ho
        exact hi.inj k k' i i' hk hk' ho

theorem HeapInv.run {es : List (κ × κ)} {h : Heap κ} (hi : HeapInv es h) (es2 : List (κ × κ)) :
    HeapInv (es ++ es2) (h.run es2) ∧ (h.run es2).view = connectAll h.view es2 := by
  induction es2 generalizing es h with
  | nil => simpa [Heap.run, connectAll] using hi
  | cons e es2 ih =>
    obtain ⟨l, r⟩ := e
    have := ih (hi.step l r)
    rw [hi.view_step] at this
    simpa [Heap.run, connectAll, List.append_assoc] using this

theorem dedup_map_inj (f : Nat → List κ) (xs : List (κ × Nat)) (acc : List Nat)
    (hinj : ∀ i i', (i ∈ acc ∨ ∃ k, (k, i) ∈ xs) → (i' ∈ acc ∨ ∃ k, (k, i') ∈ xs) → f i = f i' → i = i') :
    (xs.foldl (fun acc e => if e.2 ∈ acc then acc else acc ++ [e.2]) acc).map f =
      (xs.map fun e => (e.1, f e.2)).foldl (fun acc e => if e.2 ∈ acc then acc else acc ++ [e.2])
        (acc.map f) := by
  induction xs generalizing acc with
  | nil => rfl
  | cons e xs ih =>
    obtain ⟨k, i⟩ := e
    simp only [List.foldl_cons, List.map_cons]
    have hmem : f i ∈ acc.map f ↔ i ∈ acc := by
      constructor
      · intro hm
        obtain ⟨j, hj, hfj⟩ := List.mem_map.1 hm
        have := hinj j i (Or.inl hj) (Or.inr ⟨k, List.mem_cons_self⟩) hfj
        rw [← this]
        exact hj
      · exact fun hm => List.mem_map.2 ⟨i, hm, rfl⟩
    by_cases hi : i ∈ acc
    · have : f i ∈ acc.map f := hmem.2 hi
      simp only [hi, this, if_true]
      apply ih
      intro a b ha hb
      apply hinj
      · rcases ha with ha | ⟨k', ha⟩
        · exact Or.inl ha
        · exact Or.inr ⟨k', List.mem_cons_of_mem _ ha⟩
      · rcases hb with hb | ⟨k', hb⟩
        · exact Or.inl hb
        · exact Or.inr ⟨k', List.mem_cons_of_mem _ hb⟩
    · have : ¬ f i ∈ acc.map f := fun hm => hi (hmem.1 hm)
      simp only [hi, this, if_false]
      have := ih (acc ++ [i]) (by
        intro a b ha hb
        apply hinj
        · rcases ha with ha | ⟨k', ha⟩
          · rcases List.mem_append.1 ha with ha | ha
            · exact Or.inl ha
            · simp at ha; subst ha; exact Or.inr ⟨k, List.mem_cons_self⟩
          · exact Or.inr ⟨k', List.mem_cons_of_mem _ ha⟩
        · rcases hb with hb | ⟨k', hb⟩
          · rcases List.mem_append.1 hb with hb | hb
            · exact Or.inl hb
            · simp at hb; subst hb; exact Or.inr ⟨k, List.mem_cons_self⟩
          · exact Or.inr ⟨k', List.mem_cons_of_mem _ hb⟩)
      simpa using this

/-- De-duplicating the set objects by identity gives the same sets as de-duplicating the set
    values by equality. -/
theorem HeapInv.sets_eq {es : List (κ × κ)} {h : Heap κ} (hi : HeapInv es h) :
    h.sets = distinctSets h.view := by
  unfold Heap.sets Heap.distinctIds distinctSets Heap.view
  have nd : (keys h.fc).Nodup := by rw [← keys_view]; exact hi.inv.keysNodup
  have := dedup_map_inj h.obj h.fc [] (by
    intro i i' ha hb
    rcases ha with ha | ⟨k, ha⟩
    · simp at ha
    rcases hb with hb | ⟨k', hb⟩
    · simp at hb
    exact hi.inj k k' i i' ((mem_iff_get? h.fc nd k i).1 ha) ((mem_iff_get? h.fc nd k' i').1 hb))
  simpa using this

end HeapRef

/-! ### the pass does not depend on the reading of `flow_connections` -/

/-- Two stores related by a simulation give the same result of the pass. -/
theorem stepVars_sim {σ₁ σ₂ : Type} (S₁ : Store σ₁) (S₂ : Store σ₂) (R : σ₁ → σ₂ → Prop)
    (hstep : ∀ a b l r, R a b → R (S₁.step a l r) (S₂.step b l r))
    (pol : PopPolicy) (e : Edge) (vs : List CVar) (s1 : St σ₁) (s2 : St σ₂)
    (he : s1.eqs = s2.eqs) (hd : s1.disc = s2.disc) (hr : R s1.fc s2.fc) :
    (∃ x, stepVars S₁ pol e s1 vs = .error x ∧ stepVars S₂ pol e s2 vs = .error x) ∨
    (∃ t1 t2, stepVars S₁ pol e s1 vs = .ok t1 ∧ stepVars S₂ pol e s2 vs = .ok t2 ∧
      t1.eqs = t2.eqs ∧ t1.disc = t2.disc ∧ R t1.fc t2.fc) := by
  induction vs generalizing s1 s2 with
  | nil => exact Or.inr ⟨s1, s2, rfl, rfl, he, hd, hr⟩
  | cons v vs ih =>
    simp only [stepVars, stepVar]
    cases hc : classify v.prefixes with
    | pot => exact ih _ _ (by simp [he]) hd hr
    | flow => exact ih _ _ he (by simp [hd]) (hstep _ _ _ _ hr)
    | skip => exact ih _ _ he hd hr
    | bad => exact Or.inl ⟨_, rfl, rfl⟩

theorem stepEdges_sim {σ₁ σ₂ : Type} (S₁ : Store σ₁) (S₂ : Store σ₂) (R : σ₁ → σ₂ → Prop)
    (hstep : ∀ a b l r, R a b → R (S₁.step a l r) (S₂.step b l r))
    (pol : PopPolicy) (es : List Edge) (s1 : St σ₁) (s2 : St σ₂)
    (he : s1.eqs = s2.eqs) (hd : s1.disc = s2.disc) (hr : R s1.fc s2.fc) :
    (∃ x, stepEdges S₁ pol s1 es = .error x ∧ stepEdges S₂ pol s2 es = .error x) ∨
    (∃ t1 t2, stepEdges S₁ pol s1 es = .ok t1 ∧ stepEdges S₂ pol s2 es = .ok t2 ∧
      t1.eqs = t2.eqs ∧ t1.disc = t2.disc ∧ R t1.fc t2.fc) := by
  induction es generalizing s1 s2 with
  | nil => exact Or.inr ⟨s1, s2, rfl, rfl, he, hd, hr⟩
  | cons e es ih =>
    simp only [stepEdges]
    rcases stepVars_sim S₁ S₂ R hstep pol e e.vars s1 s2 he hd hr with
      ⟨x, h1, h2⟩ | ⟨t1, t2, h1, h2, he', hd', hr'⟩
    · rw [h1, h2]
      exact Or.inl ⟨x, rfl, rfl⟩
    · rw [h1, h2]
      exact ih t1 t2 he' hd' hr'

/-- The relation between the heap reading and the value reading kept by the pass. -/
def HeapRel (h : Heap Key) (m : FlowMap Key) : Prop := h.view = m ∧ ∃ es, HeapInv es h

theorem HeapRel.init : HeapRel heapStore.init valueStore.init :=
  ⟨rfl, [], HeapInv.empty⟩

theorem HeapRel.step (h : Heap Key) (m : FlowMap Key) (l r : Key) (hr : HeapRel h m) :
    HeapRel (heapStore.step h l r) (valueStore.step m l r) := by
  obtain ⟨hv, es, hi⟩ := hr
  subst hv
  exact ⟨hi.view_step l r, es ++ [(l, r)], hi.step l r⟩

theorem HeapRel.sets (h : Heap Key) (m : FlowMap Key) (hr : HeapRel h m) :
    heapStore.sets h = valueStore.sets m := by
  obtain ⟨hv, es, hi⟩ := hr
  subst hv
  exact hi.sets_eq

end PymocaVerif.Connect
