import PymocaVerif.Lemmas.SimplifyBalance
import PymocaVerif.Lemmas.SimplifyClosed
/-!
# Simplify: eliminable variables stay self-contained; what the alias elimination loop removes
Helper lemmas for C15.
-/
set_option linter.unusedSectionVars false
set_option linter.unusedSimpArgs false
namespace PymocaVerif.Simplify
open PymocaVerif.AliasRel Lean.Grind

variable {K : Type} [Field K] [DecidableEq K]

/-! ## eliminable variables: self-contained when the resolved values are -/

theorem elimLoop_sub (states allSt matched : List String) :
    ∀ (es : List (Ex K)) (algs : List (Var K)) (r : List (Ex K) × List (String × Ex K) × List (Var K)),
      elimLoop states allSt matched es algs = .ok r →
      (∀ e ∈ r.1, e ∈ es) ∧
      (∀ v ∈ algs, v.name ∈ names r.2.2 ∨ v.name ∈ r.2.1.map (·.1))
  | [], algs, r, h => by
    simp [elimLoop] at h; subst h
    exact ⟨by simp, fun v hv => Or.inl (List.mem_map.2 ⟨v, hv, rfl⟩)⟩
  | e :: es, algs, r, h => by
    simp only [elimLoop] at h
    split at h
    · rename_i x v hext
      split at h
      · simp at h
      · split at h
        · simp at h
        · rename_i r' hr'
          split at h
          · simp at h
          · simp at h; subst h
            have ih := elimLoop_sub states allSt matched es _ r' hr'
            refine ⟨fun y hy => List.mem_cons_of_mem _ (ih.1 y hy), ?_⟩
            intro w hw
            by_cases hwx : w.name = x
            · right; simp [hwx]
            · rcases ih.2 w (List.mem_filter.2 ⟨hw, by simpa using hwx⟩) with h1 | h1
              · exact Or.inl h1
              · right; simp only [List.map_cons, List.mem_cons]; exact Or.inr h1
    · split at h
      · simp at h
      · rename_i r' hr'
        simp at h; subst h
        have ih := elimLoop_sub states allSt matched es algs r' hr'
        refine ⟨?_, ih.2⟩
        intro y hy
        rcases List.mem_cons.1 hy with rfl | hy
        · simp
        · exact List.mem_cons_of_mem _ (ih.1 y hy)

/-- the bindings `eliminable_variable_expression` substitutes, given what the loop extracted -/
def elimList (E : Engine K) (l0 : List (String × Ex K)) : List (String × Ex K) :=
  (l0.map (·.1)).zip (fixValues E (l0.map (·.1)) 100 (l0.map (·.2))).1

theorem elim_closed {I : Interp K} {E : Engine K} (hE : EngineOk I E) {expandMx : Bool} {matched : List String}
    {m m' : Model K} (h : eliminateVariables E expandMx matched m = .ok m') (hc : Closed m)
    (hv : ∀ r, elimLoop (names m.states) (names m.states ++ names m.algs) matched m.eqs m.algs = .ok r →
      ∀ p ∈ elimList E r.2.1, ∀ n ∈ p.2.syms, n ∈ ({ m with algs := r.2.2 } : Model K).known) :
    Closed m' := by
  unfold eliminateVariables at h
  split at h
  · simp at h
  · split at h
    · simp at h
    · rename_i r hr
      have hs := elimLoop_sub _ _ _ m.eqs m.algs r hr
      have hc1 : Closed ({ m with eqs := r.1 } : Model K) := by
        intro e he n hn
        refine hc e ?_ n hn
        simp only [Model.exprs, List.mem_append] at he ⊢
        rcases he with ((he | he) | he) | he
        · exact Or.inl (Or.inl (Or.inl (hs.1 e he)))
        · exact Or.inl (Or.inl (Or.inr he))
        · exact Or.inl (Or.inr he)
        · exact Or.inr he
      simp only at h
      split at h
      · rename_i hemp
        simp at h; subst h
        intro e he n hn
        have := hc1 e (by simpa [Model.exprs] using he) n hn
        simp only [Model.known, List.mem_cons, List.mem_append, names] at this ⊢
        rcases this with h0 | ((((h1 | h1) | h1) | h1) | h1) | h1
        · exact Or.inl h0
        · exact Or.inr (Or.inl (Or.inl (Or.inl (Or.inl (Or.inl h1)))))
        · exact Or.inr (Or.inl (Or.inl (Or.inl (Or.inl (Or.inr h1)))))
        · obtain ⟨w, hw, rfl⟩ := List.mem_map.1 h1
          rcases hs.2 w hw with h2 | h2
          · exact Or.inr (Or.inl (Or.inl (Or.inl (Or.inr h2))))
          · have : r.2.1 = [] := by simpa using hemp
            simp [this] at h2
        · exact Or.inr (Or.inl (Or.inl (Or.inr h1)))
        · exact Or.inr (Or.inl (Or.inr h1))
        · exact Or.inr (Or.inr h1)
      · simp at h; subst h
        have hkeep : ∀ n ∈ ({ m with eqs := r.1 } : Model K).known, (elimList E r.2.1).lookup n = none →
            n ∈ ({ m with algs := r.2.2 } : Model K).known := by
          intro n hn hl
          simp only [Model.known, List.mem_cons, List.mem_append, names] at hn ⊢
          rcases hn with h0 | ((((h1 | h1) | h1) | h1) | h1) | h1
          · exact Or.inl h0
          · exact Or.inr (Or.inl (Or.inl (Or.inl (Or.inl (Or.inl h1)))))
          · exact Or.inr (Or.inl (Or.inl (Or.inl (Or.inl (Or.inr h1)))))
          · obtain ⟨w, hw, rfl⟩ := List.mem_map.1 h1
            rcases hs.2 w hw with h2 | h2
            · exact Or.inr (Or.inl (Or.inl (Or.inl (Or.inr h2))))
            · exact absurd hl (zip_lookup_ne_none _ _ _ h2 (by rw [fixValues_length]; simp))
          · exact Or.inr (Or.inl (Or.inl (Or.inr h1)))
          · exact Or.inr (Or.inl (Or.inr h1))
          · exact Or.inr (Or.inr h1)
        intro e he n hn
        have hex : e ∈ ({ m with eqs := r.1 } : Model K).exprs.map (E.sub (elimList E r.2.1)) := by
          simpa [Model.exprs, substDelays_eq, List.map_append, Function.comp_def, elimList] using he
        have := closed_sub hE hc1 hkeep (fun k t hk n hn => hv r hr (k, t) (lookup_mem _ _ _ hk) n hn) e hex n hn
        simpa [Model.known] using this

/-! ## detect_aliases: what the elimination loop removes -/

theorem filter_ne_length : ∀ (xs : List String) (a : String), xs.Nodup → a ∈ xs →
    (xs.filter (· != a)).length + 1 = xs.length
  | [], a, _, h => by simp at h
  | x :: xs, a, hnd, hmem => by
    simp only [List.nodup_cons] at hnd
    by_cases hx : x = a
    · subst hx
      have : xs.filter (· != x) = xs := by
        rw [List.filter_eq_self]; intro y hy
        have : y ≠ x := fun e => hnd.1 (e ▸ hy)
        simpa using this
      simp [List.filter_cons, this]
    · have hm : a ∈ xs := by
        rcases List.mem_cons.1 hmem with h | h
        · exact absurd h.symm hx
        · exact h
      have hx' : (x != a) = true := by simpa using hx
      simp only [List.filter_cons, hx', if_true, List.length_cons]
      have := filter_ne_length xs a hnd.2 hm
      omega

theorem elimClass_spec (c : String) : ∀ (as : List SName) (allSt : List String)
    (r : List (String × Ex K) × List String), elimClass c as allSt = .ok r → allSt.Nodup →
    r.1.map (·.1) = as.map (·.2) ∧ r.2.Nodup ∧ (∀ n, n ∈ r.2 ↔ n ∈ allSt ∧ n ∉ as.map (·.2)) ∧
    (as.map (·.2)).Nodup ∧ (∀ n ∈ as.map (·.2), n ∈ allSt) ∧ r.2.length + as.length = allSt.length ∧
    (∀ p ∈ r.1, p.2 = Ex.sym c ∨ p.2 = Ex.un .neg (Ex.sym c))
  | [], allSt, r, h, hnd => by simp [elimClass] at h; subst h; simp [hnd]
  | a :: as, allSt, r, h, hnd => by
    simp only [elimClass] at h
    split at h
    · simp at h
    · rename_i hmem
      split at h
      · simp at h
      · rename_i r' hr'
        simp at h; subst h
        have hmem' : a.2 ∈ allSt := by simpa using hmem
        have hnd' : (allSt.filter (· != a.2)).Nodup := hnd.sublist List.filter_sublist
        obtain ⟨i1, i2, i3, i4, i5, i6, i7⟩ := elimClass_spec c as _ r' hr' hnd'
        have hlen := filter_ne_length allSt a.2 hnd hmem'
        refine ⟨by simp [i1], i2, ?_, ?_, ?_, ?_, ?_⟩
        · intro n
          rw [i3]
          simp only [List.mem_filter, List.map_cons, List.mem_cons, _root_.not_or]
          constructor
          · rintro ⟨⟨h1, h2⟩, h3⟩; exact ⟨h1, by simpa using h2, h3⟩
          · rintro ⟨h1, h2, h3⟩; exact ⟨⟨h1, by simpa using h2⟩, h3⟩
        · simp only [List.map_cons, List.nodup_cons]
          refine ⟨?_, i4⟩
          intro hin
          have := i5 _ hin
          simp at this
        · intro n hn
          simp only [List.map_cons, List.mem_cons] at hn
          rcases hn with rfl | hn
          · exact hmem'
          · exact (List.mem_filter.1 (i5 n hn)).1
        · simp only [List.length_cons]; omega
        · intro p hp
          rcases List.mem_cons.1 hp with rfl | hp
          · cases a.1 <;> simp
          · exact i7 p hp

theorem elimAliases_spec (old ar : AR) : ∀ (cs allSt : List String) (r : List (String × Ex K) × List String),
    elimAliases old ar cs allSt = .ok r → allSt.Nodup →
    r.2.Nodup ∧ (∀ n, n ∈ r.2 ↔ n ∈ allSt ∧ n ∉ r.1.map (·.1)) ∧ (r.1.map (·.1)).Nodup ∧
    (∀ n ∈ r.1.map (·.1), n ∈ allSt) ∧ r.2.length + r.1.length = allSt.length ∧
    (∀ p ∈ r.1, ∃ c ∈ cs, p.2 = Ex.sym c ∨ p.2 = Ex.un .neg (Ex.sym c))
  | [], allSt, r, h, hnd => by simp [elimAliases] at h; subst h; simp [hnd]
  | c :: cs, allSt, r, h, hnd => by
    simp only [elimAliases] at h
    split at h
    · simp at h
    · split at h
      · simp at h
      · rename_i r1 hr1
        split at h
        · simp at h
        · rename_i r2 hr2
          simp at h; subst h
          obtain ⟨a1, a2, a3, a4, a5, a6, a7⟩ := elimClass_spec c _ _ r1 hr1 hnd
          obtain ⟨b1, b2, b3, b4, b5, b6⟩ := elimAliases_spec old ar cs _ r2 hr2 a2
          have hlen1 : r1.1.length = (newAliases old ar c).length := by
            have := congrArg List.length a1; simpa using this
          refine ⟨b1, ?_, ?_, ?_, ?_, ?_⟩
          · intro n
            rw [b2, a3]
            simp only [List.map_append, List.mem_append, _root_.not_or, a1]
            constructor
            · rintro ⟨⟨h1, h2⟩, h3⟩; exact ⟨h1, h2, h3⟩
            · rintro ⟨h1, h2, h3⟩; exact ⟨⟨h1, h2⟩, h3⟩
          · simp only [List.map_append]
            rw [List.nodup_append]
            refine ⟨by rw [a1]; exact a4, b3, ?_⟩
            intro x hx y hy hxy
            subst hxy
            have := (a3 x).1 (b4 x hy)
            rw [a1] at hx
            exact this.2 hx
          · intro n hn
            simp only [List.map_append, List.mem_append] at hn
            rcases hn with hn | hn
            · rw [a1] at hn; exact a5 n hn
            · exact ((a3 n).1 (b4 n hn)).1
          · simp only [List.length_append]; omega
          · intro p hp
            rcases List.mem_append.1 hp with hp | hp
            · exact ⟨c, by simp, a7 p hp⟩
            · obtain ⟨c', hc', hp'⟩ := b6 p hp
              exact ⟨c', List.mem_cons_of_mem _ hc', hp'⟩

theorem aliasLoop_sub (E : Engine K) (cx : AliasCtx) : ∀ (es : List (Ex K)) (i : Nat) (ar : AR)
    (r : List (Ex K) × AR), aliasLoop E cx i es ar = .ok r → (∀ e ∈ r.1, e ∈ es) ∧ r.1.length ≤ es.length
  | [], i, ar, r, h => by simp [aliasLoop] at h; subst h; simp
  | e :: es, i, ar, r, h => by
    simp only [aliasLoop] at h
    split at h
    · split at h
      · simp at h
      · have ih := aliasLoop_sub E cx es _ _ r h
        exact ⟨fun x hx => List.mem_cons_of_mem _ (ih.1 x hx), by simp only [List.length_cons]; omega⟩
      · split at h
        · simp at h
        · rename_i r' hr'
          simp at h; subst h
          have ih := aliasLoop_sub E cx es _ _ r' hr'
          refine ⟨?_, by simp only [List.length_cons]; omega⟩
          intro x hx
          rcases List.mem_cons.1 hx with rfl | hx
          · simp
          · exact List.mem_cons_of_mem _ (ih.1 x hx)
    · split at h
      · simp at h
      · rename_i r' hr'
        simp at h; subst h
        have ih := aliasLoop_sub E cx es _ _ r' hr'
        refine ⟨?_, by simp only [List.length_cons]; omega⟩
        intro x hx
        rcases List.mem_cons.1 hx with rfl | hx
        · simp
        · exact List.mem_cons_of_mem _ (ih.1 x hx)

theorem filter_remove_count : ∀ (D : List String) (vs : List (Var K)), (names vs).Nodup → D.Nodup →
    (∀ x ∈ D, x ∈ names vs) → (vs.filter fun v => !(D.contains v.name)).length + D.length = vs.length
  | [], vs, _, _, _ => by simp
  | d :: D, vs, hnd, hD, hsub => by
    simp only [List.nodup_cons] at hD
    have hd : d ∈ names vs := hsub d (by simp)
    have hc := filter_name_count hnd hd
    have hnd' := filter_name_nodup (fun v : Var K => v.name != d) hnd
    have ih := filter_remove_count D (vs.filter (·.name != d)) hnd' hD.2 (by
      intro x hx
      obtain ⟨w, hw, rfl⟩ := List.mem_map.1 (hsub x (List.mem_cons_of_mem _ hx))
      refine List.mem_map.2 ⟨w, List.mem_filter.2 ⟨hw, ?_⟩, rfl⟩
      have : w.name ≠ d := fun e => hD.1 (e ▸ hx)
      simpa using this)
    have heq : (vs.filter fun v => !((d :: D).contains v.name)) =
        ((vs.filter (·.name != d)).filter fun v => !(D.contains v.name)) := by
      rw [List.filter_filter]
      congr 1
      funext v
      simp only [List.contains_cons, Bool.not_or, bne, Bool.and_comm]
    rw [heq]
    simp only [List.length_cons]
    omega

/-- detect_aliases keeps the balance provided the alias relation eliminates one algebraic variable
    per dropped equation (the counting property of the signed union-find; see `SimplifyAliasInv`) -/
theorem alias_balanced_of_count {E : Engine K} {allowDer : Bool} {m m' : Model K}
    (h : detectAliases E allowDer m = .ok m')
    (hnd : (names m.states ++ names m.ders ++ names m.algs ++ names m.inputs ++ names m.params ++ names m.consts).Nodup)
    (hcount : ∀ kept ar l left,
      aliasLoop E ⟨names m.states, names m.ders, names m.algs, names m.inputs, names m.params, names m.consts, allowDer⟩
        0 m.eqs m.ar = .ok (kept, ar) →
      elimAliases (K := K) m.ar ar ar.cv
        (names m.states ++ names m.ders ++ names m.algs ++ names m.inputs ++ names m.params ++ names m.consts) = .ok (l, left) →
      kept.length + l.length = m.eqs.length ∧ ∀ x ∈ l.map (·.1), x ∈ names m.algs) :
    Balanced m m' := by
  unfold detectAliases at h
  simp only at h
  split at h
  · simp at h
  · rename_i kept ar hloop
    split at h
    · simp at h
    · rename_i l left hel
      simp at h; subst h
      obtain ⟨hc1, hc2⟩ := hcount kept ar l left hloop hel
      obtain ⟨s1, s2, s3, s4, s5, s6⟩ := elimAliases_spec m.ar ar ar.cv _ (l, left) hel hnd
      have halg_nd : (names m.algs).Nodup := by
        have := hnd
        simp only [List.nodup_append] at this
        exact this.1.1.1.2.1
      have hst_disj : ∀ x ∈ l.map (·.1), x ∉ names m.states := by
        intro x hx hxs
        have hxa := hc2 x hx
        simp only [List.nodup_append, List.mem_append] at hnd
        exact hnd.1.1.1.2.2 x (Or.inl hxs) x hxa rfl
      have hleft : ∀ n, decide (n ∈ left) = true ↔ (n ∈ names m.states ++ names m.ders ++ names m.algs ++ names m.inputs ++ names m.params ++ names m.consts ∧ n ∉ l.map (·.1)) := by
        intro n
        rw [decide_eq_true_iff]
        exact s2 n
      -- states: nothing removed
      have hstates : (m.states.filter fun v => decide (v.name ∈ left)) = m.states := by
        rw [List.filter_eq_self]
        intro v hv
        have hn : v.name ∈ names m.states := List.mem_map.2 ⟨v, hv, rfl⟩
        exact (hleft v.name).2 ⟨by simp [hn], fun hx => hst_disj _ hx hn⟩
      have halgs : (m.algs.filter fun v => decide (v.name ∈ left)) = m.algs.filter fun v => !((l.map (·.1)).contains v.name) := by
        apply List.filter_congr
        intro v hv
        have hn : v.name ∈ names m.algs := List.mem_map.2 ⟨v, hv, rfl⟩
        rw [Bool.eq_iff_iff, hleft v.name]
        simp [hn]
      have hcnt := filter_remove_count (l.map (·.1)) m.algs halg_nd s3 hc2
      simp only [Balanced, nUnknowns, List.length_map, hstates, halgs]
      simp only [List.length_map] at hcnt
      omega

theorem elimAliases_cs_mem (old ar : AR) : ∀ (cs allSt : List String) (r : List (String × Ex K) × List String),
    elimAliases old ar cs allSt = .ok r → allSt.Nodup → ∀ c ∈ cs, c ∈ allSt
  | [], _, _, _, _ => by simp
  | c :: cs, allSt, r, h, hnd => by
    simp only [elimAliases] at h
    split at h
    · simp at h
    · rename_i hc
      split at h
      · simp at h
      · rename_i r1 hr1
        split at h
        · simp at h
        · rename_i r2 hr2
          obtain ⟨a1, a2, a3, _⟩ := elimClass_spec c _ _ r1 hr1 hnd
          have ih := elimAliases_cs_mem old ar cs _ r2 hr2 a2
          intro c' hc'
          rcases List.mem_cons.1 hc' with rfl | hc'
          · simpa using hc
          · exact ((a3 c').1 (ih c' hc')).1

theorem lookup_none_not_mem {α} (l : List (String × α)) (n : String) (h : l.lookup n = none) : n ∉ l.map (·.1) := by
  intro hn
  obtain ⟨p, hp, rfl⟩ := List.mem_map.1 hn
  exact lookup_ne_none_of_mem l p.1 p.2 hp h

/-- detect_aliases keeps the model self-contained provided no canonical variable is itself
    eliminated (a consequence of the class structure of the alias relation) -/
theorem alias_closed_of_kept {I : Interp K} {E : Engine K} (hE : EngineOk I E) {allowDer : Bool} {m m' : Model K}
    (h : detectAliases E allowDer m = .ok m') (hc : Closed m)
    (hnd : (names m.states ++ names m.ders ++ names m.algs ++ names m.inputs ++ names m.params ++ names m.consts).Nodup)
    (hkept : ∀ kept ar l left,
      aliasLoop E ⟨names m.states, names m.ders, names m.algs, names m.inputs, names m.params, names m.consts, allowDer⟩
        0 m.eqs m.ar = .ok (kept, ar) →
      elimAliases (K := K) m.ar ar ar.cv
        (names m.states ++ names m.ders ++ names m.algs ++ names m.inputs ++ names m.params ++ names m.consts) = .ok (l, left) →
      ∀ c ∈ ar.cv, c ∉ l.map (·.1)) :
    Closed m' := by
  unfold detectAliases at h
  simp only at h
  split at h
  · simp at h
  · rename_i kept ar hloop
    split at h
    · simp at h
    · rename_i l left hel
      simp at h; subst h
      have hk := hkept kept ar l left hloop hel
      obtain ⟨s1, s2, s3, s4, s5, s6⟩ := elimAliases_spec m.ar ar ar.cv _ (l, left) hel hnd
      have hcs := elimAliases_cs_mem m.ar ar ar.cv _ (l, left) hel hnd
      have hsub := aliasLoop_sub E _ m.eqs 0 m.ar (kept, ar) hloop
      have hc1 : Closed ({ m with eqs := kept } : Model K) := by
        intro e he n hn
        refine hc e ?_ n hn
        simp only [Model.exprs, List.mem_append] at he ⊢
        rcases he with ((he | he) | he) | he
        · exact Or.inl (Or.inl (Or.inl (hsub.1 e he)))
        · exact Or.inl (Or.inl (Or.inr he))
        · exact Or.inl (Or.inr he)
        · exact Or.inr he
      -- membership in the new variable lists
      have hin : ∀ n, n ∈ left → n ∈ names m.states ++ names m.ders ++ names m.algs ++ names m.inputs ++ names m.params →
          n ∈ names ((m.states.filter fun v => decide (v.name ∈ left)).map (markAliased ar)) ++
              names ((m.ders.filter fun v => decide (v.name ∈ left)).map (markAliased ar)) ++
              names ((m.algs.filter fun v => decide (v.name ∈ left)).map (markAliased ar)) ++
              names ((m.inputs.filter fun v => decide (v.name ∈ left)).map (markAliased ar)) ++
              names ((m.params.filter fun v => decide (v.name ∈ left)).map (markAliased ar)) := by
        intro n hl hn
        have key : ∀ (vs : List (Var K)), n ∈ names vs →
            n ∈ names ((vs.filter fun v => decide (v.name ∈ left)).map (markAliased ar)) := by
          intro vs hvs
          obtain ⟨w, hw, rfl⟩ := List.mem_map.1 hvs
          refine List.mem_map.2 ⟨markAliased ar w, List.mem_map_of_mem (List.mem_filter.2 ⟨hw, by simpa using hl⟩), ?_⟩
          unfold markAliased; split <;> rfl
        simp only [List.mem_append] at hn ⊢
        rcases hn with (((h1 | h1) | h1) | h1) | h1
        · exact Or.inl (Or.inl (Or.inl (Or.inl (key _ h1))))
        · exact Or.inl (Or.inl (Or.inl (Or.inr (key _ h1))))
        · exact Or.inl (Or.inl (Or.inr (key _ h1)))
        · exact Or.inl (Or.inr (key _ h1))
        · exact Or.inr (key _ h1)
      have hconst : ∀ n, n ∈ names m.consts → n ∈ names (m.consts.map (markAliased ar)) := by
        intro n hn
        obtain ⟨w, hw, rfl⟩ := List.mem_map.1 hn
        refine List.mem_map.2 ⟨markAliased ar w, List.mem_map_of_mem hw, ?_⟩
        unfold markAliased; split <;> rfl
      have hknown : ∀ n, n ∈ m.known → n ∉ l.map (·.1) → n ∈ Model.known
          ({ m with states := (m.states.filter fun v => decide (v.name ∈ left)).map (markAliased ar),
                    ders := (m.ders.filter fun v => decide (v.name ∈ left)).map (markAliased ar),
                    algs := (m.algs.filter fun v => decide (v.name ∈ left)).map (markAliased ar),
                    inputs := (m.inputs.filter fun v => decide (v.name ∈ left)).map (markAliased ar),
                    params := (m.params.filter fun v => decide (v.name ∈ left)).map (markAliased ar),
                    consts := m.consts.map (markAliased ar) } : Model K) := by
        intro n hn hnl
        simp only [Model.known, List.mem_cons] at hn ⊢
        rcases hn with h0 | hn
        · exact Or.inl h0
        · right
          rw [List.mem_append] at hn ⊢
          rcases hn with hn | hn
          · left
            have hall : n ∈ names m.states ++ names m.ders ++ names m.algs ++ names m.inputs ++ names m.params ++ names m.consts :=
              List.mem_append_left _ hn
            exact hin n ((s2 n).2 ⟨hall, hnl⟩) hn
          · exact Or.inr (hconst n hn)
      intro e he n hn
      have hex : e ∈ ({ m with eqs := kept } : Model K).exprs.map (E.sub l) := by
        simpa [Model.exprs, substDelays_eq, List.map_append, Function.comp_def] using he
      obtain ⟨e0, he0, rfl⟩ := List.mem_map.1 hex
      have hn' := hE.norm_syms _ _ hn
      rcases syms_subst l e0 n hn' with ⟨h1, h2⟩ | ⟨k, t, _, h2, h3⟩
      · exact hknown n (hc1 e0 he0 n h1) (lookup_none_not_mem l n h2)
      · obtain ⟨c, hcv, hform⟩ := s6 (k, t) (lookup_mem _ _ _ h2)
        have hnc : n = c := by
          rcases hform with hf | hf <;> simp only at hf <;> rw [hf] at h3 <;> simpa [Ex.syms] using h3
        subst hnc
        refine hknown n ?_ (hk n hcv)
        simp only [Model.known, List.mem_cons]
        right
        have := hcs n hcv
        simpa [AliasCtx.allSt, List.append_assoc] using this

end PymocaVerif.Simplify
