import PymocaVerif.Lemmas.GenFuncMain
import PymocaVerif.Lemmas.GenTotal
import PymocaVerif.Lemmas.GenDelay
import PymocaVerif.Lemmas.GenIndex
import PymocaVerif.Model.RatPrims
/-!
# C11 — the DAE residual equals the Modelica meaning of the flat equations

Property theorems only; helper lemmas are in `Lemmas/Gen*.lean`.  Models: `Model/ExprSem.lean` (the
Modelica meaning `evalM`, `residualM`, `funcSem` over an arbitrary carrier `K` with arbitrary
primitives `Prims K`) and `Model/Gen.lean` (what `generator.py` builds, `gen`/`genMEq`/`genFunc`, and what
CasADi computes for it, `evalC`).  `Refines x y` = wherever the meaning `y` is defined, the generated
term `x` is defined and has the same value.  Every statement quantifies over all expressions /
equations / functions of the model's types (no bound on size or depth), all environments and all
interpretations of the primitives.
-/
namespace PymocaVerif.Gen
open PymocaVerif.ExprSem PymocaVerif.RatPrims

/-- **Translation of expressions is correct** (`exitExpression`, `exitIfExpression`, calls): the term
    generated for a flat expression evaluates, at every point, to the Modelica meaning of the
    expression — for every operator mapping through `OP_MAP`, the unary special cases, `not`,
    `* ↦ mtimes`, the element-wise forms, if-expressions of any length and calls of user functions
    whose translations are correct (`TabOK`).  Structural induction over the expression. -/
theorem gen_correct (P : Prims K) (o : Opts) (T : FTab K) (F : FSem K) (hT : TabOK P T F)
    (hS : NoShadow T) (e : MExpr K) (c : CTerm K) (h : gen P o T e = .ok c) (ρ : Env K) :
    Refines (evalC P ρ c) (evalM P F ρ e) :=
  gen_refines P o T F hT hS e c h ρ

example : ∃ c, gen ratPrims {} (fun _ => none)
      (.bin .div (.bin .pow (.ref "x" []) (.num 2)) (.un .neg (.num (4 : Rat)))) = .ok c ∧
    evalC ratPrims ⟨fun _ => some [3], fun _ => none, fun _ => none⟩ c = some [(-9 : Rat) / 4] := by
  refine ⟨_, rfl, ?_⟩
  decide +kernel

/-- **Every expression of the supported subset is translatable** (division and power included): an
    expression built from literals, references, every Modelica operator other than `<>`, the elementary
    functions `MX` knows by their Modelica name, if-expressions of any length and calls of functions that
    translate (`supported`), is accepted by `gen` — for all options and tables. -/
theorem gen_total (P : Prims K) (o : Opts) (T : FTab K) (e : MExpr K) (h : supported T e = true) :
    ∃ c, gen P o T e = .ok c :=
  gen_total_aux P o T e h

example : supported (fun _ => none : FTab Rat)
    (.ife (.cons (.bin .le (.ref "x" []) (.num 1)) (.bin .div (.num 1) (.num 2))
      (.last (.un (.elem .sqrt) (.bin .pow (.ref "x" []) (.num 2)))))) = true := by decide

/-- What lies outside: Modelica's `<>` and the inverse trigonometric functions are rejected with
    "Unknown function" unless a user function of that name exists (no `OP_MAP` entry / `MX` attribute). -/
theorem ne_is_rejected (P : Prims K) (o : Opts) (a b : MExpr K) (ta tb : CTerm K)
    (ha : gen P o (fun _ => none) a = .ok ta) (hb : gen P o (fun _ => none) b = .ok tb) :
    gen P o (fun _ => none) (.bin .ne a b) = .error (.unknownFunction "<>") := by
  simp [gen, ha, hb, bind, Except.bind, genBin, opMap, userCall, binName]

example : gen ratPrims {} (fun _ => none) (.bin .ne (.num 1) (.num (2 : Rat))) = .error (.unknownFunction "<>") :=
  ne_is_rejected ratPrims {} _ _ _ _ rfl rfl

/-- **The backwards `if_else` loop is "first true branch"**: folding `if_else(cond, value, src)` from
    the last branch to the first (what `exitIfExpression`, `exitIfEquation` and `exitIfStatement` do)
    yields the chain that tests the conditions in source order and takes the first true one. -/
theorem if_fold_first_true (cs es : List (CTerm K)) (hlen : cs.length + 1 = es.length) :
    foldFromLast cs es = nestAll cs es :=
  foldFromLast_eq_nestAll cs es hlen

/-- … and that chain evaluates like the if-expression: conditions in order, only the taken branch. -/
theorem if_chain_semantics (P : Prims K) (ρ : Env K) (c e : CTerm K) (cs es : List (CTerm K)) :
    evalC P ρ (nestAll (c :: cs) (e :: es)) =
      (do let vc ← evalC P ρ c
          let b ← condOf P vc
          if b then evalC P ρ e else evalC P ρ (nestAll cs es)) := by
  simp [nestAll, evalC]

example : foldFromLast [CTerm.const (1 : Rat), .const 0] [.const 10, .const 20, .const 30] =
    .ifElse (.const 1) (.const 10) (.ifElse (.const 0) (.const 20) (.const 30)) := by
  rw [if_fold_first_true _ _ (by decide)]; rfl

/-- **The residual of an equation is `lhs - rhs`** (`exitEquation`), with the outputs of a called
    function truncated to what the left-hand side takes. -/
theorem residual_is_lhs_minus_rhs (P : Prims K) (o : Opts) (T : FTab K) (F : FSem K)
    (hT : TabOK P T F) (hS : NoShadow T) (e : SEq K) (c : CTerm K) (h : genSEq P o T e = .ok c)
    (ρ : Env K) : Refines (evalC P ρ c) (residualSEq P F ρ e) :=
  genSEq_refines P o T F hT hS e c h ρ

example : ∃ c, genSEq ratPrims {} (fun _ => none) ⟨[.ref "x" []], .num 5⟩ = .ok c ∧
    evalC ratPrims ⟨fun _ => some [3], fun _ => none, fun _ => none⟩ c = some [(-2 : Rat)] := by
  refine ⟨_, rfl, ?_⟩
  decide +kernel

/-- **The loop values are the Modelica range**: `np.arange(start, stop ± 1, step)` is
    `start : step : stop`, for positive and negative steps, whether or not the step divides the span. -/
theorem forloop_range (a s b : Int) : arangeCode a s b = modelicaRange a s b :=
  arangeCode_eq a s b

example : arangeCode 1 2 4 = [1, 3] ∧ arangeCode 5 (-2) 0 = [5, 3, 1] ∧ arangeCode 3 1 2 = [] := by
  decide

/-- For contrast: the iteration used before the upstream fix 4aad8e2, `arange(start, stop + step, step)`,
    is the Modelica range only when the step divides the span (and overshoots otherwise). -/
theorem forloop_range_old_needs_divisibility (a s b : Int) (hs : 0 < s) (hab : a ≤ b) (hdiv : s ∣ (b - a)) :
    arangeOld a s b = modelicaRange a s b :=
  arangeOld_pos_dvd a s b hs hab hdiv

example : arangeOld 1 2 4 = [1, 3, 5] ∧ modelicaRange 1 2 4 = [1, 3] := by decide

/-- **Every flat equation** — plain, if-equation (block of the first true condition), for-equation
    (body instantiated for every value of the Modelica range, laid out body-major) — has the residual
    the Modelica meaning prescribes. -/
theorem equation_correct (P : Prims K) (o : Opts) (T : FTab K) (F : FSem K) (hT : TabOK P T F)
    (hS : NoShadow T) (ienv : String → Option Int) (q : MEq K) (c : CTerm K)
    (h : genMEq P o T ienv q = .ok c) (ρ : Env K) (hidx : ρ.idx = ienv) :
    Refines (evalC P ρ c) (residualM P F ρ q) :=
  genMEq_refines P o T F hT hS ienv q c h ρ hidx

example : ∃ c, genMEq ratPrims {} (fun _ => none) (fun _ => none)
      (.foreq "i" 1 (.lit 3) 2 [⟨[.ref "v" [.at (.var "i")]], .bin .mul (.idx "i") (.ref "x" [])⟩]) = .ok c ∧
    evalC ratPrims ⟨fun n => if n = "v" then some [10, 20, 30] else some [2],
      fun n => if n = "v" then some [3] else none, fun _ => none⟩ c = some [(8 : Rat), 24] := by
  refine ⟨_, rfl, ?_⟩
  decide +kernel

/-- **Sequential substitution is imperative execution** (`get_function`, `exitAssignmentStatement`,
    `exitIfStatement`, `exitForStatement`): a function translates to a `Function` computing exactly what
    running its algorithm section computes.  `SafeFunc` asks for what the translation needs to be right at
    all: scalar variables without subscripts (`mClosed`), locals distinct from inputs, and if-statements
    whose branches assign the same variables in the same order with conditions that do not read a
    variable assigned before the last one — outside that class the real translation is wrong (known
    finding C11-F3) or raises.  Assignments, if-statements with any number of branches and variables, and
    for-statements (any range, the loop index usable as a number) are all covered. -/
theorem function_subst (P : Prims K) (o : Opts) (T : FTab K) (F : FSem K) (hT : TabOK P T F)
    (hS : NoShadow T) (f : MFunc K) (hf : SafeFunc f) (fn : CFunc K) (h : genFunc P o T f = .ok fn)
    (vs : List (List K)) : Refines (evalCF P fn vs) (funcSem P F f vs) :=
  genFunc_refines P o T F hT hS f hf fn h vs

/-- The substitution lemma behind it: `ca.substitute` on a term = evaluating the term with the
    substituted symbols bound to the values of their replacements, also under the binders of mapped
    loops (replacement terms are closed: no free loop index). -/
theorem substitute_is_rebinding (P : Prims K) (σ : SymVals K) (hσ : ValsClosed σ) (t : CTerm K) (ρ : Env K)
    (hsh : ∀ x s, SymVals.get σ x = some s → ρ.shape x = none) :
    evalC P ρ (subst σ t) = evalC P (over P ρ σ) t :=
  evalC_subst P σ hσ t ρ hsh

/-- The column-wise merge of `exitIfStatement` (`expanded_blocks`): for branches that assign the
    variables `xs` in the same order, one column of right-hand sides per variable. -/
theorem if_statement_columns (xs : List String) (hn : xs.Nodup) (r : List (CTerm K))
    (rest : List (List (CTerm K))) (h : ∀ q ∈ r :: rest, q.length = xs.length) :
    expandBlocks ((r :: rest).map (fun q => xs.zip q)).flatten = xs.zip (colsOf xs.length (r :: rest)) :=
  expandBlocks_aligned xs hn r rest h

def exampleFunc : MFunc Rat :=
  { name := "f", inputs := ["a"], outputs := ["r"], locals := ["t"],
    body := [.assign "t" (.bin .add (.bin .mul (.num 2) (.ref "a" [])) (.num 1)),
             .ifs [.bin .gt (.ref "a" []) (.num 0)]
               ([[.ref "t" [], .bin .add (.ref "r" []) (.num 1)], [.un .neg (.ref "t" []), .ref "t" []]].map
                 fun q => ["r", "t"].zip q),
             .for "k" 1 (.lit 3) 2 [("r", .bin .add (.ref "r" []) (.bin .mul (.idx "k") (.ref "t" [])))],
             .assign "r" (.bin .sub (.ref "r" []) (.ref "a" []))] }

example : SafeFunc exampleFunc ∧
    (∃ fn, genFunc ratPrims {} (fun _ => none) exampleFunc = .ok fn ∧ evalCF ratPrims fn [[3]] = some [36]) ∧
    funcSem ratPrims (fun _ => none) exampleFunc [[3]] = some [36] := by
  refine ⟨⟨?_, by decide⟩, ⟨_, rfl, by decide +kernel⟩, by decide +kernel⟩
  intro s hs
  simp only [exampleFunc, List.mem_cons, List.mem_nil_iff, or_false] at hs
  rcases hs with rfl | rfl | rfl | rfl
  · exact .assign _ _ (by decide)
  · exact .ifs _ ["r", "t"] _ _ (by decide) (by decide) (by decide) (by decide) (by decide) (by decide)
  · exact .for _ _ _ _ _ (by decide)
  · exact .assign _ _ (by decide)

/-- Function tables: functions are declared before use; the translated table refines the table of
    meanings (every function in the class of `function_subst`). -/
theorem function_table_correct (P : Prims K) (o : Opts) : ∀ (fs : List (MFunc K)),
    (∀ f ∈ fs, SafeFunc f) → NoShadow (genTable P o fs) → TabOK P (genTable P o fs) (funcTable P fs)
  | [], _, _ => ⟨fun _ => rfl, fun f fn h => by simp [genTable] at h⟩
  | f :: rest, hsafe, hS => by
    have hS' : NoShadow (genTable P o rest) := by
      refine ⟨fun e => ?_, fun op => ?_⟩
      · have := hS.1 e; simp only [genTable] at this; split at this <;> simp_all
      · have := hS.2 op; simp only [genTable] at this; split at this <;> simp_all
    have ih := function_table_correct P o rest (fun g hg => hsafe g (by simp [hg])) hS'
    refine ⟨fun n => ?_, fun n fn h => ?_⟩
    · simp only [genTable, funcTable]
      split
      · simp
      · exact ih.dom n
    · simp only [genTable] at h
      simp only [funcTable]
      split at h
      · rename_i hn
        simp only [Option.some.injEq] at h
        refine ⟨funcSem P (funcTable P rest) f, by simp [hn], fun vs => ?_⟩
        exact genFunc_refines P o (genTable P o rest) (funcTable P rest) ih hS' f (hsafe f (by simp)) fn h vs
      · rename_i hn
        simp only [hn, if_false]
        exact ih.sem n fn h

/-- **The residual functions**: if the generator accepts the model, then at every point where the
    Modelica meaning of all (initial) equations is defined, the generated DAE / initial residual function
    returns exactly `lhs - rhs` of each flat equation — plain, if- and for-equations, calls of functions
    with assignments, if-statements and for-statements (`SafeFunc`, see `function_subst`). -/
theorem residual_function_correct (P : Prims K) (o : Opts) (ienv : String → Option Int)
    (m : MModel K) (initial : Bool) (fn : CFunction K) (h : genResidual P o ienv m initial = .ok fn)
    (hsafe : ∀ f ∈ m.funcs, SafeFunc f) (hS : NoShadow (genTable P o m.funcs))
    (ρ : Env K) (hidx : ρ.idx = ienv) :
    Refines (evalFn P ρ fn) (residualsOfModel P ρ m initial) := by
  unfold genResidual at h
  obtain ⟨ts, hts, hc⟩ := bind_ok.mp h
  cases hc
  exact genMEqs_refines P o _ _ (function_table_correct P o m.funcs hsafe hS) hS ienv _ ts hts ρ hidx

example : ∃ fn, genResidual ratPrims {} (fun _ => none)
      ⟨[exampleFunc], [.simple ⟨[.ref "y" []], .call "f" (.cons (.ref "x" []) .nil)⟩], []⟩ false = .ok fn ∧
    evalFn ratPrims ⟨fun n => if n = "x" then some [3] else some [1], fun _ => none, fun _ => none⟩ fn
      = some [[(-35 : Rat)]] := by
  refine ⟨_, rfl, ?_⟩
  decide +kernel

/-- **A delay operator is an independent input**: whatever its operands, `delay(e, d)` contributes the
    symbol `_pymoca_delay_k` to the residual, on both sides (the operands only feed the delay-argument
    function). -/
theorem delay_is_free_input (P : Prims K) (o : Opts) (T : FTab K) (F : FSem K) (k : Nat) (e d : MExpr K)
    (c : CTerm K) (h : gen P o T (.delay k e d) = .ok c) (ρ : Env K) :
    evalC P ρ c = ρ.val (delayName k) ∧ evalM P F ρ (.delay k e d) = ρ.val (delayName k) := by
  simp only [gen] at h
  obtain ⟨_, _, h2⟩ := bind_ok.mp h
  obtain ⟨_, _, hc⟩ := bind_ok.mp h2
  cases hc
  simp [evalC, evalM, Env.lookup]

/-- **The delay-argument function** returns, per delay operator in walking order, the Modelica value
    of the delayed expression and of the duration. -/
theorem delay_arguments_correct (P : Prims K) (o : Opts) (m : MModel K) (fn : CFunction K)
    (h : genDelayFunction P o m = .ok fn) (hsafe : ∀ f ∈ m.funcs, SafeFunc f)
    (hS : NoShadow (genTable P o m.funcs)) (ρ : Env K) :
    Refines (evalFn P ρ fn) (delayArgsOfModel P ρ m) := by
  unfold genDelayFunction at h
  obtain ⟨ts, hts, hc⟩ := bind_ok.mp h
  cases hc
  exact genDelayArgs_refines P o _ _ (function_table_correct P o m.funcs hsafe hS) hS _ ts hts ρ

example : ∃ fn, genDelayFunction ratPrims {}
      ⟨[], [.simple ⟨[.ref "y" []], .delay 0 (.bin .add (.ref "x" []) (.num 1)) (.ref "p" [])⟩], []⟩ = .ok fn ∧
    evalFn ratPrims ⟨fun n => if n = "x" then some [3] else some [2], fun _ => none, fun _ => none⟩ fn
      = some [[(4 : Rat)], [2]] := by
  refine ⟨_, rfl, ?_⟩
  decide +kernel

/-! ### What subscripts mean (the specification side: 1-based, Modelica ranges, column-major) -/

/-- A range subscript `lo : s : hi` selects the elements whose 1-based indices are the values of the
    Modelica range `lo : s : hi` (ascending, inside the dimension; the step need not divide the span). -/
theorem subscript_range_is_modelica_range (ienv : String → Option Int) (d : Nat) (lo hi : IdxE)
    (l h s : Int) (hlo : lo.eval ienv = some l) (hhi : hi.eval ienv = some h) (hs : 0 < s) (hl : 1 ≤ l)
    (hlh : l ≤ h) (hin : l + ((h - l) / s).toNat * s ≤ d) :
    subPositions ienv d (.range (some lo) (some hi) s) =
      some ((modelicaRange l s h).map fun v => (v - 1).toNat) :=
  subPositions_range ienv d lo hi l h s hlo hhi hs hl hlh hin

example : subPositions (fun _ => none) 6 (.range (some (.lit 2)) (some (.lit 6)) 3) = some [1, 4] := by decide

/-- Element `[i, j]` of an `r × c` matrix is the column-major position `(i-1) + (j-1)·r`. -/
theorem matrix_element_is_column_major (ienv : String → Option Int) (r c : Nat) (ei ej : IdxE) (i j : Int)
    (hi : ei.eval ienv = some i) (hj : ej.eval ienv = some j) (hir : 1 ≤ i ∧ i ≤ r) (hjc : 1 ≤ j ∧ j ≤ c) :
    positions ienv [r, c] [.at ei, .at ej] = some [(i - 1).toNat + (j - 1).toNat * r] :=
  positions_matrix_element ienv r c ei ej i j hi hj hir hjc

example : positions (fun _ => none) [2, 3] [.at (.lit 2), .at (.lit 3)] = some [5] := by decide

end PymocaVerif.Gen
