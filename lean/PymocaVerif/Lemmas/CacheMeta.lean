import PymocaVerif.Model.CacheMeta
/-!
Row bookkeeping of the cached metadata (`Model/CacheMeta.lean`): the rows `load_model` reads
for a variable are the rows `save_model`'s metadata function holds for it.
-/
namespace PymocaVerif.CacheMeta

variable {P E V : Type} [Inhabited V]

/-- the element values `load_model` must reproduce for an `MX` attribute: one per scalar
    element, a scalar attribute being repeated (`repmat`) -/
def broadcast (n : Nat) (l : List V) : List V := (List.range n).map (pick l)

/-- Agreement of a loaded attribute with the original one. -/
def AttrOk (nanEnv : E) (n : Nat) (a : Attr P E V) (la : LAttr P E V) : Prop :=
  match a with
  | .py p => la = .py (some p)
  | .mx dep f => ∃ g, la = .mx g ∧ ∀ e, (dep = false → f e = f nanEnv) → g e = broadcast n (f e)

/-- `MX_INDEPENDENT` attributes do not change with the parameters (what CasADi's
    `is_constant()` / `depends_on` promise). -/
def AttrWF (nanEnv : E) : Attr P E V → Prop
  | .mx false f => ∀ e, f e = f nanEnv
  | _ => True

structure Matches (nA : Nat) (nanEnv : E) (v : Var P E V) (lv : LVar P E V) : Prop where
  name : lv.name = v.name
  rows : lv.rows = v.rows
  cols : lv.cols = v.cols
  pyType : lv.pyType = v.pyType
  aliases : lv.aliases = v.aliases
  attrs : ∀ j, j < nA → AttrOk nanEnv v.numel (v.attrs j) (lv.attrs j)

theorem length_rowsOf (nA : Nat) (embed : P → List V) (v : Var P E V) (e : E) :
    (rowsOf nA embed v e).length = v.numel := by
  simp [rowsOf]

theorem colSlice_rowsOf (nA : Nat) (embed : P → List V) (v : Var P E V) (e : E)
    (pre post : List (List V)) (j : Nat) (hj : j < nA) :
    colSlice (pre ++ (rowsOf nA embed v e ++ post)) pre.length v.numel j
      = (List.range v.numel).map (fun k => elemOf embed (v.attrs j) e k) := by
  unfold colSlice
  rw [List.drop_left]
  have hlen := length_rowsOf nA embed v e
  rw [List.take_left' hlen]
  simp only [rowsOf, List.map_map]
  apply List.map_congr_left
  intro k _
  simp [Function.comp, List.getD, hj]

/-- Main induction: with `row` rows (`pre`) of earlier variables in front, the loop reads for
    every variable exactly its own rows. -/
theorem loadVars_matches (nA : Nat) (embed : P → List V) (nanEnv : E) (metaFn : E → List (List V)) :
    ∀ (vars : List (Var P E V)) (row : Nat) (pre : E → List (List V)),
      (∀ e, (pre e).length = row) → (∀ e, metaFn e = pre e ++ metaOf nA embed vars e) →
      List.Forall₂ (Matches nA nanEnv) vars
        (loadVars nanEnv metaFn row (vars.map toDict) (vars.map (fun v j => classify (v.attrs j)))) := by
  intro vars
  induction vars with
  | nil => intro row pre _ _; exact List.Forall₂.nil
  | cons v rest ih =>
    intro row pre hpre hmeta
    simp only [List.map_cons, loadVars]
    refine List.Forall₂.cons ?_ ?_
    · refine ⟨rfl, rfl, rfl, rfl, rfl, ?_⟩
      intro j hj
      have hslice : ∀ e, colSlice (metaFn e) row (toDict v).numel j
          = (List.range v.numel).map (fun k => elemOf embed (v.attrs j) e k) := by
        intro e
        rw [hmeta e, ← hpre e]
        simp only [metaOf, List.flatMap_cons]
        exact colSlice_rowsOf nA embed v e (pre e) _ j hj
      cases hattr : v.attrs j with
      | py p => simp [AttrOk, classify, toDict, hattr]
      | mx dep f =>
        cases dep with
        | true =>
          simp only [AttrOk, classify]
          refine ⟨_, rfl, ?_⟩
          intro e _
          rw [hslice e]
          simp [broadcast, elemOf, hattr]
        | false =>
          simp only [AttrOk, classify]
          refine ⟨_, rfl, ?_⟩
          intro e hc
          rw [hslice nanEnv, hc rfl]
          simp [broadcast, elemOf, hattr]
    · apply ih (row + (toDict v).numel) (fun e => pre e ++ rowsOf nA embed v e)
      · intro e
        rw [List.length_append, hpre e, length_rowsOf]
        rfl
      · intro e
        rw [hmeta e]
        simp [metaOf, List.flatMap_cons, List.append_assoc]

/-- the running offset at variable `i` is the sum of the element counts before it -/
theorem loadVars_row0 (nanEnv : E) (metaFn : E → List (List V)) :
    ∀ (ds : List (VarDict P)) (ms : List (Nat → Dep)) (row : Nat), ds.length = ms.length →
      (loadVars nanEnv metaFn row ds ms).map (·.row0)
        = (List.range ds.length).map (fun i => row + ((ds.take i).map VarDict.numel).sum) := by
  intro ds
  induction ds with
  | nil => intro ms row _; cases ms <;> simp [loadVars]
  | cons d rest ih =>
    intro ms row hlen
    cases ms with
    | nil => simp at hlen
    | cons m ms =>
      simp only [List.length_cons, Nat.add_right_cancel_iff] at hlen
      simp only [loadVars, List.map_cons, List.length_cons, List.range_succ_eq_map, List.map_map]
      rw [ih ms _ hlen]
      simp only [List.take_zero, List.map_nil, List.sum_nil, Nat.add_zero, List.cons.injEq, true_and]
      apply List.map_congr_left
      intro i _
      simp [Function.comp, Nat.add_assoc]

end PymocaVerif.CacheMeta
