import Drivers.Proto
import PymocaVerif.Model.SimplifyJson
/-! Driver for C15: same model and protocol as C14 (`simplify.pass` reports the unknown and
    equation counts and the dangling symbols of the resulting state). -/
def main : IO Unit := Drivers.serve PymocaVerif.Simplify.J.handle
