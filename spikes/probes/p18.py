import numpy as np, casadi as ca, os, tempfile
from pymoca import parser
from pymoca.backends.casadi import generator as gen
from pymoca.backends.casadi.api import transfer_model
def build(txt, name, opts):
    d = tempfile.mkdtemp(); open(os.path.join(d, name + ".mo"), "w").write(txt)
    return transfer_model(d, name, opts)
txt = """model Sub Real c[3](each min=-1, start={1,2,3}); Real s(nominal=7); end Sub;
model M
 Sub a[2]; Real w[2,2](start={{10,20},{30,40}}, max={{1,2},{3,4}}); output Real o[3]; parameter Real p[2] = {5, 6};
equation
 w[1,1] = 1; w[1,2] = p[1]; w[2,1] = 3*w[1,2]; w[2,2] = 4; o = {1,2,3}*w[2,1]; der(a.s) = {1, 2}; a[1].c = {1,2,3}; a[2].c[2] = 5;
end M;"""
try:
    m0 = build(txt, "M", {})
    print("unexpanded:", [(v.symbol.name(), v.symbol.shape) for v in m0.states + m0.alg_states])
except Exception as e:
    print("unexpanded EXC", type(e).__name__, str(e)[:200])
try:
    m1 = build(txt, "M", {"expand_vectors": True})
    for k in ["states", "der_states", "alg_states", "parameters"]:
        print(k, [(v.symbol.name(), str(v.start), str(v.min), str(v.max), str(v.nominal), str(v.value)) for v in getattr(m1, k)])
    print("outputs", m1.outputs)
    print("eqs", m1.equations)
except Exception as e:
    import traceback; traceback.print_exc()
