import PymocaVerif.Model.FlattenSrc
/-! Lemmas about spelled modifications: desugaring does not see the spelling. -/
namespace PymocaVerif.Flatten

theorem desugarList_append (pre : Path) (a b : List SMod) :
    desugarList pre (a ++ b) = desugarList pre a ++ desugarList pre b := by
  induction a with
  | nil => simp [desugarList]
  | cons m ms ih => simp [desugarList, ih]

theorem desugar_nestName (pre : Path) (name : List Name) (subs : List SMod) (v : Option Expr) :
    (nestName name subs v).desugar pre = desugarList (pre ++ name) subs ++ optMod (pre ++ name) v := by
  induction name generalizing pre with
  | nil => simp [nestName, SMod.desugar]
  | cons n ns ih =>
    cases ns with
    | nil => simp [nestName, SMod.desugar]
    | cons n' ns' =>
      simp only [nestName, SMod.desugar, desugarList, List.append_nil]
      rw [ih (pre ++ [n])]
      simp [optMod]

mutual
  theorem desugar_toNested (pre : Path) : (m : SMod) → m.toNested.desugar pre = m.desugar pre
    | .mk name subs value => by
      simp only [SMod.toNested, SMod.desugar]
      rw [desugar_nestName, desugarList_toNested (pre ++ name) subs]
  theorem desugarList_toNested (pre : Path) : (ms : List SMod) → desugarList pre (toNestedList ms) = desugarList pre ms
    | [] => by simp [toNestedList, desugarList]
    | m :: ms => by
      simp only [toNestedList, desugarList]
      rw [desugar_toNested pre m, desugarList_toNested pre ms]
end

mutual
  theorem desugar_toDotted (pre0 pre : Path) : (m : SMod) →
      desugarList pre0 (m.toDotted pre) = m.desugar (pre0 ++ pre)
    | .mk name subs value => by
      simp only [SMod.toDotted, SMod.desugar, desugarList_append]
      rw [desugarList_toDotted pre0 (pre ++ name) subs]
      cases value <;> simp [desugarList, SMod.desugar, optMod, List.append_assoc]
  theorem desugarList_toDotted (pre0 pre : Path) : (ms : List SMod) →
      desugarList pre0 (toDottedList pre ms) = desugarList (pre0 ++ pre) ms
    | [] => by simp [toDottedList, desugarList]
    | m :: ms => by
      simp only [toDottedList, desugarList, desugarList_append]
      rw [desugar_toDotted pre0 pre m, desugarList_toDotted pre0 pre ms]
end

end PymocaVerif.Flatten

namespace PymocaVerif.Flatten

theorem mapE_map {α β γ ε : Type} (g : β → Except ε γ) (h : α → β) (l : List α) :
    mapE g (l.map h) = mapE (fun a => g (h a)) l := by
  induction l with
  | nil => rfl
  | cons a as ih => simp [mapE, ih]

theorem mapE_congr {α β ε : Type} (f g : α → Except ε β) (l : List α) (h : ∀ a ∈ l, f a = g a) :
    mapE f l = mapE g l := by
  induction l with
  | nil => rfl
  | cons a as ih =>
    simp only [mapE]
    rw [h a (by simp), ih (fun x hx => h x (by simp [hx]))]

/-- a respelling: a function on spelled modification lists that desugaring cannot see -/
def Respelling (f : List SMod → List SMod) : Prop := ∀ pre ms, desugarList pre (f ms) = desugarList pre ms

theorem respelling_toNested : Respelling toNestedList := fun pre ms => desugarList_toNested pre ms

theorem respelling_toDotted : Respelling (toDottedList []) := fun pre ms => by
  simpa using desugarList_toDotted pre [] ms

mutual
  theorem paths_respell (f : List SMod → List SMod) (pre : Path) : (c : SClass) → (c.respell f).paths pre = c.paths pre
    | .mk name kind alias exts classes comps eqs => by
      simp only [SClass.respell, SClass.paths]
      rw [pathsList_respell f (pre ++ [name]) classes]
  theorem pathsList_respell (f : List SMod → List SMod) (pre : Path) : (cs : List SClass) →
      pathsList pre (respellList f cs) = pathsList pre cs
    | [] => by simp [respellList, pathsList]
    | c :: cs => by
      simp only [respellList, pathsList]
      rw [paths_respell f pre c, pathsList_respell f pre cs]
end

theorem elabComp_respell {f : List SMod → List SMod} (hf : Respelling f) (paths : List Path) (scope : Path) (k : SComp) :
    elabComp paths scope (k.respell f) = elabComp paths scope k := by
  simp [elabComp, SComp.respell, hf [] k.mods]

theorem elabExt_respell {f : List SMod → List SMod} (hf : Respelling f) (paths : List Path) (scope : Path) (e : SExt) :
    elabExt paths scope (e.respell f) = elabExt paths scope e := by
  simp [elabExt, SExt.respell, hf [] e.mods]

mutual
  theorem elab_respell {f : List SMod → List SMod} (hf : Respelling f) (paths : List Path) (pre : Path) :
      (c : SClass) → (c.respell f).elab paths pre = c.elab paths pre
    | .mk name kind alias exts classes comps eqs => by
      simp only [SClass.respell, SClass.elab]
      rw [elabList_respell hf paths (pre ++ [name]) classes, mapE_map, mapE_map]
      rw [mapE_congr _ _ exts (fun e _ => elabExt_respell hf paths (pre ++ [name]) e),
          mapE_congr _ _ comps (fun k _ => elabComp_respell hf paths (pre ++ [name]) k)]
      cases alias with
      | none => rfl
      | some a => simp [hf [] a.2]
  theorem elabList_respell {f : List SMod → List SMod} (hf : Respelling f) (paths : List Path) (pre : Path) :
      (cs : List SClass) → elabList paths pre (respellList f cs) = elabList paths pre cs
    | [] => by simp [respellList, elabList]
    | c :: cs => by
      simp only [respellList, elabList]
      rw [elab_respell hf paths pre c, elabList_respell hf paths pre cs]
end

theorem elabLib_respell {f : List SMod → List SMod} (hf : Respelling f) (src : SLib) :
    elabLib (respellList f src) = elabLib src := by
  simp [elabLib, pathsList_respell, elabList_respell hf]

theorem flattenSrc_respell {f : List SMod → List SMod} (hf : Respelling f) (src : SLib) (target : Path) :
    flattenSrc (respellList f src) target = flattenSrc src target := by
  simp [flattenSrc, elabLib_respell hf, defaultFuel, pathsList_respell]

end PymocaVerif.Flatten

namespace PymocaVerif.Flatten

theorem findScope_spec {paths : List Path} {h : Name} {scope : Path} {i : Nat} {s : Path}
    (hf : findScope paths h scope i = some s) :
    ∃ j, j ≤ i ∧ s = scope.take j ∧ s ++ [h] ∈ paths ∧
      ∀ j', j < j' → j' ≤ i → scope.take j' ++ [h] ∉ paths := by
  induction i with
  | zero =>
    simp only [findScope] at hf
    split at hf
    · rename_i hc
      cases hf
      exact ⟨0, Nat.le_refl _, rfl, by simpa using hc, fun j' h1 h2 => by omega⟩
    · cases hf
  | succ i ih =>
    simp only [findScope] at hf
    split at hf
    · rename_i hc
      cases hf
      exact ⟨i + 1, Nat.le_refl _, rfl, by simpa using hc, fun j' h1 h2 => by omega⟩
    · rename_i hc
      obtain ⟨j, hj, hs, hin, hno⟩ := ih hf
      refine ⟨j, by omega, hs, hin, ?_⟩
      intro j' h1 h2
      by_cases hj' : j' = i + 1
      · subst hj'; simpa using hc
      · exact hno j' h1 (by omega)

/-- Lexical lookup: a successful lookup of `h :: t` from `scope` yields the class `s ++ h :: t`
    where `s` is the innermost enclosing scope (a prefix of `scope`) declaring a class `h`. -/
theorem resolveRef_lexical {paths : List Path} {scope : Path} {h : Name} {t : List Name} {p : Path}
    (hr : resolveRef paths scope (h :: t) = .ok (.cls p)) :
    ∃ j, j ≤ scope.length ∧ p = scope.take j ++ h :: t ∧ p ∈ paths ∧ scope.take j ++ [h] ∈ paths ∧
      ∀ j', j < j' → j' ≤ scope.length → scope.take j' ++ [h] ∉ paths := by
  simp only [resolveRef] at hr
  split at hr
  · split at hr <;> cases hr
  · split at hr
    · cases hr
    · rename_i s hs
      split at hr
      · rename_i hc
        cases hr
        obtain ⟨j, hj, rfl, hin, hno⟩ := findScope_spec hs
        exact ⟨j, hj, rfl, by simpa using hc, hin, hno⟩
      · cases hr

end PymocaVerif.Flatten
