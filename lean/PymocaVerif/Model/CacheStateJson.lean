import Lean.Data.Json
import PymocaVerif.Model.CacheState
import PymocaVerif.Model.CacheFile
/-!
JSON front end of the model-cache models, shared by the drivers of C20 and C21 (the drivers
themselves only dispatch on `op`).  Decoding only; every decision comes from
`CacheState.step` / `CacheFile.step`.
-/
open Lean

namespace PymocaVerif.CacheState

/-- The "compiled model" of the driver: what it was compiled from. -/
structure Built where
  version : Nat
  sources : List (List (String × Nat))
  opts : Opts
  deriving DecidableEq, Repr

def arrAt (a : Array Json) (i : Nat) : Json := a[i]?.getD Json.null

def parseOpts (j : Json) : Except String Opts := do
  let libs ← (← (← j.getObjVal? "libs").getArr?).toList.mapM (·.getNat?)
  let rest ← (← (← j.getObjVal? "rest").getArr?).toList.mapM fun kv => do
    let a ← kv.getArr?
    pure ((← (arrAt a 0).getStr?), (← (arrAt a 1).getStr?))
  pure { libs := libs, mtimeCheck := ← j.getObjValAs? Bool "mtime_check", cache := ← j.getObjValAs? Bool "cache",
         codegen := ← j.getObjValAs? Bool "codegen", expandMx := ← j.getObjValAs? Bool "expand_mx", rest := rest }

def parseExc (j : Json) : Except String Exc := do
  let mro ← (← (← j.getObjVal? "mro").getArr?).toList.mapM (·.getStr?)
  pure { mro := mro, deser := ← j.getObjValAs? Bool "deser" }

def parseIntr (j : Json) : Except String Interrupt :=
  match j with
  | .str "done" => pure .done
  | .str "beforeOpen" => pure .beforeOpen
  | j => do pure (.after (← j.getNat?))

def parseOp (j : Json) : Except String Op := do
  let a ← j.getArr?
  match ← (arrAt a 0).getStr? with
  | "write" => pure (.write (← (arrAt a 1).getNat?) (← (arrAt a 2).getStr?) (← (arrAt a 3).getNat?) (← (arrAt a 4).getNat?))
  | "version" => pure (.setVersion (← (arrAt a 1).getNat?))
  | "transfer" => pure (.transfer (← parseOpts (arrAt a 1)) (← (arrAt a 2).getNat?) (← (arrAt a 3).getNat?))
  | "crashed" => pure (.crashedTransfer (← parseOpts (arrAt a 1)) (← (arrAt a 2).getNat?) (← (arrAt a 3).getNat?) (← parseIntr (arrAt a 4)))
  | "truncate" => pure (.truncate (← (arrAt a 1).getNat?) (← (arrAt a 2).getNat?))
  | k => throw s!"bad-op {k}"

def cacheJson (w : World Built) : Json :=
  match w.cache with
  | none => Json.null
  | some c => Json.mkObj [("mtime", c.mtime), ("size", c.size), ("written", c.written),
      ("version", c.db.version), ("complete", c.complete)]

/-- `{"op":"cache.run","excl":bool,"version":n,"errs":[[k,exc]…],"err_default":exc,"ops":[…]}` →
    per step: the outcome kind of a transfer, whether the returned model differs from the
    compile of the current sources (`stale`), and the cache file state after the step. -/
def runJson (req : Json) : Except String Json := do
  let excl ← req.getObjValAs? Bool "excl"
  let v0 ← req.getObjValAs? Nat "version"
  let dflt ← parseExc (← req.getObjVal? "err_default")
  let errs ← (← (← req.getObjVal? "errs").getArr?).toList.mapM fun kv => do
    let a ← kv.getArr?
    pure ((← (arrAt a 0).getNat?), (← parseExc (arrAt a 1)))
  let cfg : Cfg Built :=
    { compile := fun v s o => ⟨v, s, o⟩, truncErr := fun n => (errs.lookup n).getD dflt, exclLibs := excl }
  let ops ← (← (← req.getObjVal? "ops").getArr?).toList.mapM parseOp
  let mut w : World Built := ⟨fun _ => [], none, v0⟩
  let mut outs : Array Json := #[]
  for op in ops do
    let r := step cfg w op
    let o : Json := match op, r.2 with
      | .transfer o _ _, some out =>
        let want := compileNow cfg w o.norm
        -- the folders enter the compile only through the sources read from them
        let same (a b : Built) : Bool :=
          a.version == b.version && a.sources == b.sources && { a.opts with libs := [] } == { b.opts with libs := [] }
        Json.mkObj [("kind", out.kind), ("stale", match out.model? with | some m => !(same m want) | none => false)]
      | .crashedTransfer o now size _, _ =>
        -- what the interrupted call was doing (it never returns): outcome of the same call uninterrupted
        Json.mkObj [("kind", (transfer cfg w o now size).2.kind), ("crashed", true)]
      | _, _ => Json.mkObj []
    w := r.1
    outs := outs.push (o.setObjVal! "cache" (cacheJson w))
  pure (Json.mkObj [("ok", true), ("steps", Json.arr outs)])

/-- `{"op":"cache.convert","excs":[exc…]}` → how `load_model` treats each exception of
    `pickle.load`: `"raise"` or the reason of the `InvalidCacheError`. -/
def convertJson (req : Json) : Except String Json := do
  let excs ← (← (← req.getObjVal? "excs").getArr?).toList.mapM parseExc
  pure (Json.mkObj [("ok", true), ("verdicts", Json.arr (excs.map fun e =>
    match convert e with | none => Json.str "raise" | some r => Json.str r.name).toArray)])

end PymocaVerif.CacheState

namespace PymocaVerif.CacheFile

def parseAct (j : Json) : Except String Act := do
  let a ← j.getArr?
  let i := (← (CacheState.arrAt a 1).getNat?) != 0
  match ← (CacheState.arrAt a 0).getStr? with
  | "load" => pure (.load i)
  | "open" => pure (.openW i)
  | "write" => pure (.write i (← (CacheState.arrAt a 2).getNat?))
  | "close" => pure (.close i)
  | "replace" => pure (.replace i)
  | k => throw s!"bad-act {k}"

def phaseJson : Phase → Json
  | .start => "start" | .missed => "missed" | .writing p => Json.mkObj [("writing", p)]
  | .done true => "hit" | .done false => "wrote"

/-- `{"op":"file.run","B":[bytes…],"f0":null|[bytes…],"acts":[…]}` → after every act: was it
    enabled, the file bytes, the two phases. -/
def fileRunJson (req : Json) : Except String Json := do
  let bl ← (← (← req.getObjVal? "B").getArr?).toList.mapM (·.getNat?)
  let B : Nat → Nat := fun j => bl.getD j 0
  let N := bl.length
  let f0 : Option File ← match (← req.getObjVal? "f0") with
    | .null => pure none
    | j => do
      let l ← (← j.getArr?).toList.mapM (·.getNat?)
      pure (some ⟨l.length, fun k => l.getD k 0⟩)
  let acts ← (← (← req.getObjVal? "acts").getArr?).toList.mapM parseAct
  let valid : File → Bool := fun f => f.isAll B N
  let mut s := init f0
  let mut outs : Array Json := #[]
  for a in acts do
    match step B N valid s a with
    | none => outs := outs.push (Json.mkObj [("enabled", false)])
    | some s' =>
      s := s'
      outs := outs.push (Json.mkObj [("enabled", true),
        ("file", match s.file with | none => Json.null | some f => Json.arr (f.bytes.map (fun (b : Nat) => (b : Json))).toArray),
        ("ph", Json.arr #[phaseJson (s.ph false), phaseJson (s.ph true)])])
  pure (Json.mkObj [("ok", true), ("steps", Json.arr outs)])

end PymocaVerif.CacheFile
