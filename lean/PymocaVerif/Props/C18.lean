/-! # C18 — property theorems (stub: not built yet) -/
