import PymocaVerif.Lemmas.Flatten
/-! The initial-equation view of a library (`initView`) has the same classes, members, elementary
    types and instance structure; its equations are the original library's initial equations. -/
namespace PymocaVerif.Flatten

def ClassDef.init (d : ClassDef) : ClassDef := { d with eqs := d.ieqs }

theorem find_initView (lib : Lib) (p : Path) : (initView lib).find p = (lib.find p).map ClassDef.init := by
  induction lib with
  | nil => rfl
  | cons x xs ih =>
    obtain ⟨k, d⟩ := x
    simp only [initView, Lib.find, List.map_cons, List.lookup_cons] at ih ⊢
    cases hk : (p == k) with
    | true => simp [ClassDef.init]
    | false => simpa using ih

theorem find_initView_some {lib : Lib} {p : Path} {d : ClassDef} (h : (initView lib).find p = some d) :
    ∃ d0, lib.find p = some d0 ∧ d = d0.init := by
  rw [find_initView] at h
  cases hd : lib.find p with
  | none => simp [hd] at h
  | some d0 => simp [hd] at h; exact ⟨d0, rfl, h.symm⟩

theorem isElem_initView {lib : Lib} {t : Ty} {b : String} : IsElem (initView lib) t b ↔ IsElem lib t b := by
  constructor
  · intro h
    induction h with
    | builtin b => exact .builtin b
    | short hf hs he _ ih =>
      obtain ⟨d0, hd0, rfl⟩ := find_initView_some hf
      exact .short hd0 hs he ih
  · intro h
    induction h with
    | builtin b => exact .builtin b
    | short hf hs he _ ih =>
      exact .short (d := ClassDef.init _) (by rw [find_initView, hf]; rfl) hs he ih

theorem memberOf_initView {lib : Lib} {p : Path} {k : Comp} : MemberOf (initView lib) p k ↔ MemberOf lib p k := by
  constructor
  · intro h
    induction h with
    | own hf hk =>
      obtain ⟨d0, hd0, rfl⟩ := find_initView_some hf
      exact .own hd0 hk
    | inh hf he _ ih =>
      obtain ⟨d0, hd0, rfl⟩ := find_initView_some hf
      exact .inh hd0 he ih
  · intro h
    induction h with
    | own hf hk => exact .own (d := ClassDef.init _) (by rw [find_initView, hf]; rfl) hk
    | inh hf he _ ih => exact .inh (d := ClassDef.init _) (by rw [find_initView, hf]; rfl) he ih

theorem memberEq_initView {lib : Lib} {p : Path} {e : Eqn} : MemberEq (initView lib) p e ↔ MemberIEq lib p e := by
  constructor
  · intro h
    induction h with
    | own hf hk =>
      obtain ⟨d0, hd0, rfl⟩ := find_initView_some hf
      exact .own hd0 hk
    | inh hf he _ ih =>
      obtain ⟨d0, hd0, rfl⟩ := find_initView_some hf
      exact .inh hd0 he ih
  · intro h
    induction h with
    | own hf hk => exact .own (d := ClassDef.init _) (by rw [find_initView, hf]; rfl) hk
    | inh hf he _ ih => exact .inh (d := ClassDef.init _) (by rw [find_initView, hf]; rfl) he ih

theorem instAt_initView {lib : Lib} {c q c' : Path} : InstAt (initView lib) c q c' ↔ InstAt lib c q c' := by
  constructor
  · intro h
    induction h with
    | here c => exact .here c
    | sub hm hc hne _ ih =>
      exact .sub (memberOf_initView.mp hm) hc (fun b hb => hne b (isElem_initView.mpr hb)) ih
  · intro h
    induction h with
    | here c => exact .here c
    | sub hm hc hne _ ih =>
      exact .sub (memberOf_initView.mpr hm) hc (fun b hb => hne b (isElem_initView.mp hb)) ih

end PymocaVerif.Flatten
