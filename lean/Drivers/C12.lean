import Drivers.Proto
import PymocaVerif.Model.GenJson
/-! Driver for C12: the same handler as C11; requests carry the three representation options. -/
def main : IO Unit := Drivers.serve PymocaVerif.GenJson.handle
