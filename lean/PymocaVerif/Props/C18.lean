import PymocaVerif.Lemmas.VecExpandResidual
/-!
# C18 — vector expansion is a faithful renaming to scalars

Property theorems about `PymocaVerif.Model.VecExpand` (the model of `Model._expand_vectors`).
Helper lemmas live in `Lemmas/VecExpand.lean`.
-/
namespace PymocaVerif.VecExpand

/-! ## Index enumeration -/

/-- `np.ndindex` order: the tuples of `ndindex ds` are exactly the in-range tuples, there are
    `prod ds` of them and tuple `idx` sits at its row-major rank (so each occurs once). -/
theorem ndindex_rowmajor (ds idx : List Nat) :
    (ndindex ds).length = prod ds ∧
    (InRange ds idx → (ndindex ds)[ravel ds idx]? = some idx) ∧
    (idx ∈ ndindex ds ↔ InRange ds idx) := by
  refine ⟨ndindex_length ds, ?_, ?_⟩
  · intro h
    have hlt := ravel_lt ds idx h
    rw [List.getElem?_eq_getElem (by rw [ndindex_length]; exact hlt), ndindex_getElem, unravel_ravel ds idx h]
  · constructor
    · intro h
      simp only [ndindex, List.mem_map, List.mem_range] at h
      obtain ⟨k, hk, e⟩ := h
      rw [← e]; exact unravel_inRange ds k hk
    · intro h
      simp only [ndindex, List.mem_map, List.mem_range]
      exact ⟨ravel ds idx, ravel_lt ds idx h, unravel_ravel ds idx h⟩

example : InRange [2, 3] [1, 2] ∧ ravel [2, 3] [1, 2] = 5 ∧ ndindex [2, 2] = [[0, 0], [0, 1], [1, 0], [1, 1]] :=
  ⟨by simp [InRange], by decide, by decide⟩

/-- Which variables are expanded: exactly those with an array level anywhere in the nested name
    (`set(_modelica_shape) != {(None,)}`), whatever the sizes — a scalar inside a component array
    of size one (`Pump one[1]`, shape `((1,), (None,))`) is expanded and gets the single name
    `one[1].y`; only names all of whose levels are scalar are kept. -/
theorem expanded_iff_array_level (ms : MShape) (hne : ms ≠ []) :
    (needsExpand ms = true ↔ ∃ l ∈ ms, l ≠ none) ∧
    (∀ n : Nat, needsExpand (some [n] :: ms) = true ∧ needsExpand (ms ++ [some [n]]) = true) := by
  constructor
  · cases ms with
    | nil => exact absurd rfl hne
    | cons l ms =>
      simp only [needsExpand, List.isEmpty_cons, Bool.false_or, List.any_eq_true, Option.isSome_iff_ne_none]
  · intro n
    cases ms <;> simp [needsExpand]

example : needsExpand [some [1], none] = true ∧ needsExpand [none, none] = false ∧
    (Decl.ofName ['o', '.', 'y'] [some [1], none]).names = [['o', '[', '1', ']', '.', 'y']] := by decide

/-! ## The substitution value -/

/-- The arithmetic identity behind `reshape(vertcat(elements), reversed(shape)).T` under
    column-major storage: for a symbol of shape `(r, c)` the value has that shape and its entry
    `(i, j)` is the element created `(i·c + j)`-th, i.e. in row-major order. -/
theorem subst_entry {α} [Inhabited α] (r c : Nat) (elems : List α) (i j : Nat) (hi : i < r) (hj : j < c) :
    (substValue r c elems).rows = r ∧ (substValue r c elems).cols = c ∧
    (substValue r c elems).entry i j = elems.getD (i * c + j) default := by
  refine ⟨rfl, rfl, ?_⟩
  show (substValue r c elems).data.getD (i + j * r) default = _
  rw [substValue_data, getD_map_range _ _ _ _ (lin_lt hi hj), lin_div hi, lin_mod hi, Nat.add_comm]

example : (substValue 2 3 [10, 11, 12, 20, 21, 22]).entry 1 2 = 22 ∧
    (substValue 2 3 [10, 11, 12, 20, 21, 22]).data = [10, 20, 11, 21, 12, 22] := by decide

/-- `value[i, j]` is the symbol named `x[i+1, j+1]`, for every variable shape: at the storage
    position of element `idx` of the unexpanded symbol (column-major for 1-D/2-D, the raveled
    column of `_MTensor` beyond) the substitution value holds the scalar named with `idx`. -/
theorem subst_entry_named (d : Decl) (idx : List Nat) (hne : d.dims ≠ []) (h : InRange d.dims idx) :
    (substValue (mxShape d.dims).1 (mxShape d.dims).2 d.names).data.getD (elemPos d.dims idx) default
      = d.scalar idx := by
  obtain ⟨hlt, hpos⟩ := pos_lemma d.dims idx hne h
  rw [substValue_data, getD_map_range _ _ _ _ (by rw [Nat.mul_comm]; exact hlt), hpos]
  have hr := ravel_lt _ _ h
  simp only [Decl.names, ndindex, List.map_map]
  rw [getD_map_range _ _ _ _ hr]
  simp [unravel_ravel _ _ h]

example : exW.dims ≠ [] ∧ InRange exW.dims [1, 0] ∧ exW.scalar [1, 0] = ['w', '[', '2', ',', '1', ']'] ∧
    elemPos exW.dims [1, 0] = 1 := ⟨by decide, by simp [exW, Decl.dims, iterShape, InRange], by decide, by decide⟩

/-! ## Names -/

/-- Within one variable the name determines the index tuple (no two scalars share a name). -/
theorem names_injective (d : Decl) (hp : d.parts.length = d.ms.length) (i1 i2 : List Nat)
    (h1 : i1.length = d.dims.length) (h2 : i2.length = d.dims.length)
    (h : d.scalar i1 = d.scalar i2) : i1 = i2 := by
  simp only [Decl.scalar, scalarNameP, List.append_assoc] at h
  have h' := List.append_cancel_left h
  have hn := need_zip d.parts d.ms hp
  exact (dotJoin_nameLevels_inj _ i1 i2 _ _ (by rw [hn]; exact h1) (by rw [hn]; exact h2) h').1

example : exW.parts.length = exW.ms.length ∧ exW.scalar [0, 1] ≠ exW.scalar [1, 0] := by decide

/-- `der(` … `)` is split off as a prefix and a suffix (not as character sets): for a name that
    does not itself start with `der(` nor end with `)`, whatever its letters (`rho`, `d`, `e1`, `drum.e` …),
    the derivative symbol `der(name)` is parsed into exactly `der(`, `name`, `)`. -/
theorem splitName_der_wrap (core : List Char) (h1 : stripDer core = ([], core))
    (h2 : core.reverse.takeWhile (· == ')') = []) :
    splitName (['d', 'e', 'r', '('] ++ core ++ [')']) = (['d', 'e', 'r', '('], core, [')']) := by
  have hd : core.reverse.dropWhile (· == ')') = core.reverse := by
    have := List.takeWhile_append_dropWhile (p := (· == ')')) (l := core.reverse)
    rw [h2] at this; simpa using this
  simp only [splitName, List.cons_append, List.nil_append, stripDer]
  have hs : stripDer (core ++ [')']) = ([], core ++ [')']) := by
    -- `core ++ [")"]` starts with `der(` only if `core` does
    match core, h1 with
    | 'd' :: 'e' :: 'r' :: '(' :: rest, h1 => simp [stripDer] at h1
    | [], _ => rfl
    | [a], _ => unfold stripDer; split <;> simp_all
    | [a, b], _ => unfold stripDer; split <;> simp_all
    | [a, b, c], _ => unfold stripDer; split <;> simp_all
    | a :: b :: c :: d :: rest, h1 =>
      by_cases hm : a = 'd' ∧ b = 'e' ∧ c = 'r' ∧ d = '('
      · obtain ⟨rfl, rfl, rfl, rfl⟩ := hm; simp [stripDer] at h1
      · simp only [List.cons_append]
        unfold stripDer
        split
        · next heq =>
          simp only [List.cons.injEq] at heq
          exact absurd ⟨heq.1, heq.2.1, heq.2.2.1, heq.2.2.2.1⟩ hm
        · rfl
  rw [hs]
  simp [List.reverse_append, List.takeWhile, List.dropWhile, h2, hd]

example : splitName ['d','e','r','(','r','h','o',')'] = (['d','e','r','('], ['r','h','o'], [')']) ∧
    stripDer ['d','r','u','m','.','e'] = ([], ['d','r','u','m','.','e']) ∧
    (['e', '1'] : List Char).reverse.takeWhile (· == ')') = [] := by decide

/-- Stripping the bracket groups of a scalar's name gives back the variable's name. -/
theorem name_strips_to_variable (d : Decl) (hp : d.parts.length = d.ms.length)
    (hpre : NoBr d.pre) (hpost : NoBr d.post) (hparts : ∀ p ∈ d.parts, NoBr p) (idx : List Nat) :
    unbr false (d.scalar idx) = d.pre ++ dotJoin d.parts ++ d.post := by
  simp only [Decl.scalar, scalarNameP, List.append_assoc]
  have hpo : unbr false d.post = d.post := by
    have := unbr_append_noBr d.post [] hpost
    simpa [unbr] using this
  rw [unbr_append_noBr _ _ hpre, unbr_dotJoin_nameLevels, map_fst_zip _ _ hp, hpo]
  · intro pl m
    exact hparts pl.1 (List.of_mem_zip m).1

example : NoBr exW.pre ∧ NoBr exW.post ∧ (∀ p ∈ exW.parts, NoBr p) ∧
    unbr false (exW.scalar [1, 1]) = ['w'] := ⟨by simp [NoBr, exW], by simp [NoBr, exW], by simp [NoBr, exW], by decide⟩

/-- Scalars of different variables have different names (the variables' names contain no `[`). -/
theorem names_injective_across (d1 d2 : Decl) (hp1 : d1.parts.length = d1.ms.length)
    (hp2 : d2.parts.length = d2.ms.length)
    (hb1 : NoBr d1.pre ∧ NoBr d1.post ∧ ∀ p ∈ d1.parts, NoBr p)
    (hb2 : NoBr d2.pre ∧ NoBr d2.post ∧ ∀ p ∈ d2.parts, NoBr p)
    (i1 i2 : List Nat) (h : d1.scalar i1 = d2.scalar i2) :
    d1.pre ++ dotJoin d1.parts ++ d1.post = d2.pre ++ dotJoin d2.parts ++ d2.post := by
  rw [← name_strips_to_variable d1 hp1 hb1.1 hb1.2.1 hb1.2.2 i1,
      ← name_strips_to_variable d2 hp2 hb2.1 hb2.2.1 hb2.2.2 i2, h]

-- `der(a.b.c)` with shape ((2,), (None,), (2, 3)), index (1, 0, 2)  ↦  `der(a[2].b.c[1,3])`
example : (Decl.ofName ['d','e','r','(','a','.','b','.','c',')'] [some [2], none, some [2, 3]]).scalar [1, 0, 2]
    = ['d','e','r','(','a','[','2',']','.','b','.','c','[','1',',','3',']',')'] := by decide

example : expandDelayNames ['_','d'] [2, 1] = [['_','d','[','1',',','1',']'], ['_','d','[','2',',','1',']']] := by
  decide

/-! ## Attributes -/

/-- An attribute list whose shape `ds` is the variable's iterator shape, or only its trailing
    dimensions (the attribute was given inside the class of an array of components: iterator
    shape `lead ++ ds`): the scalar with index tuple `idx` gets the scalar element reached with the
    last `ds.length` indices, and no exception is raised. -/
theorem attr_element (v : NList) (lead ds idx : List Nat) (hs : Shaped v ds)
    (hpos : ∀ d ∈ ds, 0 < d) (hr : InRange (lead ++ ds) idx) :
    selList v idx = v.sel (idx.drop lead.length) ∧ ∃ x, selList v idx = .ok (.leaf x) := by
  have hdrop : ∀ (l idx : List Nat), InRange (l ++ ds) idx → InRange ds (idx.drop l.length) := by
    intro l
    induction l with
    | nil => intro idx h; simpa using h
    | cons d l ih =>
      intro idx h
      cases idx with
      | nil => simp [InRange] at h
      | cons i is => simp only [List.cons_append, InRange] at h; simpa using ih is h.2
  have e : idx.length - v.depth = lead.length := by
    rw [depth_shaped v ds hs hpos, inRange_length _ _ hr]; simp
  have e' : selList v idx = v.sel (idx.drop lead.length) := by
    simp only [selList, e]
  exact ⟨e', by rw [e']; exact sel_shaped v ds _ hs (hdrop lead idx hr)⟩

/-- the attribute has the full shape: element `idx` itself -/
theorem attr_element_full (v : NList) (ds idx : List Nat) (hs : Shaped v ds)
    (hpos : ∀ d ∈ ds, 0 < d) (hr : InRange ds idx) :
    selList v idx = v.sel idx ∧ ∃ x, selList v idx = .ok (.leaf x) := by
  have := attr_element v [] ds idx hs hpos (by simpa using hr)
  simpa using this

/-- What commit 5f5e413 fixed (DESIGN §6 row 19, finding C18-F1): applying the whole index tuple
    made the very first scalar fail with `TypeError` as soon as there was an enclosing array level. -/
theorem attr_inner_raised_before_fix (v : NList) (ds : List Nat) (n : Nat) (hs : Shaped v ds)
    (hpos : ∀ d ∈ ds, 0 < d) :
    selListFull v (List.replicate (ds.length + n + 1) 0) = .error "TypeError" := by
  induction ds generalizing v with
  | nil =>
    cases v with
    | leaf x => simp [selListFull, List.replicate, NList.sel, NList.nth]
    | nil => simp [Shaped] at hs
    | cons _ _ => simp [Shaped] at hs
  | cons d ds ih =>
    have hd : 0 < d := hpos d (by simp)
    obtain ⟨x, hx, hsx⟩ := nth_shaped v d ds 0 hs hd
    have : List.replicate ((d :: ds).length + n + 1) 0 = 0 :: List.replicate (ds.length + n + 1) 0 := by
      rw [show (d :: ds).length + n + 1 = (ds.length + n + 1) + 1 by simp; omega, List.replicate_succ]
    rw [this]
    simp only [selListFull, NList.sel, hx]
    exact ih x hsx (fun d m => hpos d (by simp [m]))

example : Shaped (.cons (.leaf 1) (.cons (.leaf 2) (.cons (.leaf 3) .nil))) [3] ∧
    selListFull (.cons (.leaf 1) (.cons (.leaf 2) (.cons (.leaf 3) .nil))) [0, 0] = .error "TypeError" ∧
    selList (.cons (.leaf 1) (.cons (.leaf 2) (.cons (.leaf 3) .nil))) [1, 2] = .ok (.leaf 3) := by
  refine ⟨⟨2, [], rfl, rfl, 1, [], rfl, rfl, 0, [], rfl, rfl, [], rfl⟩, rfl, rfl⟩

/-- `value[ind]` on a DM: with the variable's shape `(r, c)` the entry `(i, j)`; a DM column of an
    inner 1-D symbol (`lead` enclosing dimensions, `n ≠ 1` or no 2-D match) is indexed by the last index. -/
theorem attr_element_dm (lead : List Nat) (r c i j : Nat) (hi : i < r) (hj : j < c) :
    selDM (lead ++ [r, c]) r c (lead.map (fun _ => 0) ++ [i, j]) = .ok (i + j * r) := by
  simp [selDM, selDMFull, hi, hj]

example : selDM [3, 2] 3 2 [2, 1] = .ok 5 ∧ selDM [4, 3] 3 1 [2, 1] = .ok 1 := ⟨rfl, rfl⟩

/-- Shapes with a dimension of size 1 and DM attributes of inner symbols: a column matrix `x[n,1]`
    with a DM attribute of shape `(n, 1)` gives `x[i,1]` entry `i` (two indices are applied, the test
    is `iterator_shape[-2:] == value.shape`, not "the DM is a column"); a vector `w[n]` inside an array
    of `l` components (`n ≠ 1` or `l ≠ n`: the last two dimensions are not the DM's shape) gives
    `a[k].w[i]` entry `i` for every `k`. -/
theorem attr_element_dm_column (n l k i : Nat) (hi : i < n) :
    selDM [n, 1] n 1 [i, 0] = .ok i ∧ selDM [n] n 1 [i] = .ok i ∧
    (([l, n] : List Nat) ≠ [n, 1] → selDM [l, n] n 1 [k, i] = .ok i) := by
  refine ⟨by simp [selDM, selDMFull, hi], by simp [selDM, selDMFull, hi], ?_⟩
  intro hne
  simp [selDM, selDMFull, hne, hi]

example : selDM [3, 1] 3 1 [2, 0] = .ok 2 ∧ selDM [2, 3] 3 1 [1, 2] = .ok 2 ∧ ([2, 3] : List Nat) ≠ [3, 1] :=
  ⟨rfl, rfl, by decide⟩

/-- A non-scalar MX attribute (an expression of array parameters, shape `(r, c)` = the variable's
    MX shape): the scalar `(i, j)` reads the storage position of element `(i, j)` — the same
    position `elemPos` the renamed point uses — and a 1-D variable's scalar `i` reads position `i`. -/
theorem attr_element_mx (r c i j : Nat) (hi : i < r) (hj : j < c) :
    selMX r c [i, j] = .ok (elemPos [r, c] [i, j]) ∧ selMX r 1 [i] = .ok (elemPos [r] [i]) := by
  have h1 : i < r * 1 := by omega
  simp [selMX, elemPos, hi, hj, h1]

example : selMX 2 3 [1, 2] = .ok 5 ∧ selMX 2 3 [0, 1] = .ok 2 := ⟨rfl, rfl⟩

/-! ## Outputs and delay states -/

/-- An output that is an array variable is replaced, in place, by the variable's scalars in
    creation order; other outputs are untouched. -/
theorem outputs_renamed (l1 l2 : List (List Char)) (name : List Char) (new : List (List Char)) (h : name ∉ l1) :
    splice (l1 ++ name :: l2) name new = l1 ++ new ++ l2 ∧
    (∀ xs, name ∉ xs → splice xs name new = xs) :=
  ⟨splice_at l1 l2 name new h, fun xs hx => splice_absent xs name new hx⟩

example : splice [['y'], ['w'], ['z']] ['w'] [['a'], ['b']] = [['y'], ['a'], ['b'], ['z']] := by decide

/-- A delay state that is expanded is removed and its scalars (all dimensions indexed) are appended. -/
theorem delay_renamed (xs : List (List Char)) (name : List Char) (shape : List Nat) (h : name ∈ xs) :
    delayMove xs name (expandDelayNames name shape) = xs.erase name ++ (ndindex shape).map (fun idx => name ++ idxText idx) ∧
    (∀ ys, name ∉ ys → delayMove ys name (expandDelayNames name shape) = ys) := by
  refine ⟨by simp [delayMove, h, expandDelayNames], fun ys hy => by simp [delayMove, hy]⟩


example : delayMove [['d'], ['e']] ['d'] (expandDelayNames ['d'] [2, 1])
    = [['e'], ['d', '[', '1', ',', '1', ']'], ['d', '[', '2', ',', '1', ']']] := by decide

/-- The delay state named `name[i+1,j+1]` (the `(i·c + j)`-th created) delays entry `(i, j)` of the
    delayed matrix expression, i.e. reads storage position `i + j·r` — not position `i·c + j`. -/
theorem delay_arg_element (name : List Char) (r c i j : Nat) (hi : i < r) (hj : j < c) :
    (expandDelayNames name [r, c])[i * c + j]? = some (name ++ idxText [i, j]) ∧
    (delayArgPositions [r, c])[i * c + j]? = some (i + j * r) := by
  have hr : InRange [r, c] [i, j] := by simp [InRange, hi, hj]
  have h := (ndindex_rowmajor [r, c] [i, j]).2.1 hr
  have e : ravel [r, c] [i, j] = i * c + j := by simp [ravel, prod]
  rw [e] at h
  simp only [expandDelayNames, delayArgPositions, List.getElem?_map, h, Option.map_some, elemPos]
  refine ⟨?_, ?_⟩ <;> first | trivial | rfl

example : delayArgPositions [2, 3] = [0, 2, 4, 1, 3, 5] ∧
    (expandDelayNames ['_', 'd'] [2, 3])[1]? = some ['_', 'd', '[', '1', ',', '2', ']'] := by decide

/-! ## The residual under the renaming -/

/-- Substituting `reshape(vertcat(scalars), reversed(shape)).T` for every array symbol and
    evaluating at the renamed point gives the value of the original expression. -/
theorem eval_renamed (ds : List Decl) (env : Env) (hwf : WF ds env) (e : Expr) (hc : Closed ds e) :
    eval (renameEnv ds env) (expandE (tableOf ds) e) = eval env e := by
  induction e with
  | var n =>
    obtain ⟨d, hd, hn⟩ := hc
    subst hn
    simp only [expandE, tableOf_decl ds env hwf d hd, Decl.entry]
    by_cases hdim : d.dims = []
    · simp only [hdim, if_true, eval]
      exact renameEnv_scalar_decl ds env hwf d hd hdim
    · simp only [hdim, if_false]
      exact eval_pack ds env hwf d hd hdim
  | pack r c names => exact absurd hc (by simp [Closed])
  | el e k ih => simp only [expandE, eval, ih hc]
  | const m => rfl
  | add a b iha ihb => simp only [expandE, eval, iha hc.1, ihb hc.2]
  | sub a b iha ihb => simp only [expandE, eval, iha hc.1, ihb hc.2]
  | emul a b iha ihb => simp only [expandE, eval, iha hc.1, ihb hc.2]
  | smul k a ih => simp only [expandE, eval, ih hc]
  | neg a ih => simp only [expandE, eval, ih hc]

example : eval (renameEnv exDecls exEnv) (expandE (tableOf exDecls) exEq) = some ⟨2, 2, [-4, 4, -1, 11]⟩ := by decide

/-- **The expanded residual equals the unexpanded residual under the renaming**: for well-formed
    declarations (distinct names without brackets, one nesting level per name component) and a
    point giving every symbol a matrix of its shape, the entries of the expanded equations
    (`vertsplit(vec(substitute(eq)))`) evaluated at the point that assigns to each scalar name the
    matching element are the column-major entries of the original residuals, in order. -/
theorem residual_renamed (ds : List Decl) (env : Env) (hwf : WF ds env) (eqs : List Expr)
    (hc : ∀ e ∈ eqs, Closed ds e) :
    residual (renameEnv ds env) (eqs.map (expandE (tableOf ds))) = residual env eqs := by
  induction eqs with
  | nil => rfl
  | cons e es ih =>
    simp only [List.map_cons, residual, eval_renamed ds env hwf e (hc e (by simp)),
      ih (fun e' m => hc e' (by simp [m]))]

/-- the renamed point assigns to each scalar name the matching element (the hypothesis of the
    informal statement is what `renameEnv` computes) -/
theorem renamed_point (ds : List Decl) (env : Env) (hwf : WF ds env) (d : Decl) (hd : d ∈ ds) (hdim : d.dims ≠ [])
    (m : IMat) (hm : env d.name = some m) (idx : List Nat) (hi : InRange d.dims idx) :
    renameEnv ds env (d.scalar idx) = some ⟨1, 1, [m.data.getD (elemPos d.dims idx) 0]⟩ :=
  renameEnv_elem ds env hwf d hd hdim m hm idx ((ndindex_rowmajor d.dims idx).2.2.2 hi)

-- `Real w[2,2]; Real z;`, `w = [[1,2],[3,4]]`, `z = 5`, equation `w .* w - z`: entries (1,1), (2,1), (1,2), (2,2)
example : WF exDecls exEnv ∧ Closed exDecls exEq ∧
    residual (renameEnv exDecls exEnv) [expandE (tableOf exDecls) exEq] = some [-4, 4, -1, 11] :=
  ⟨exWF, exClosed, by decide⟩

example : renameEnv exDecls exEnv (exW.scalar [0, 1]) = some ⟨1, 1, [2]⟩ := by decide

end PymocaVerif.VecExpand
