/-!
# Model `Index` — array subscripts in the CasADi backend (property C23)

Follows `Generator.get_indexed_symbol`, `ForLoop.__init__` / `ForLoop.register_indexed_symbol` and the
part of `exitForEquation` that applies the registered index lists
(`src/pymoca/backends/casadi/generator.py`), together with the two CasADi indexing rules the code relies on
(`Slice::all` for Python slices, index lists with wrap-around).

An outcome is `none` (generation raises) or the selected 0-based positions.  Nothing is defaulted away: every
place where the Python raises — the range check on integer subscripts, `get_integer` on a literal with a
unary minus, CasADi's assertions on slices and index lists, `ForLoop.__init__` on a non-literal start,
(before commit 8f76abc also `Function.map` with zero iterations) — is an explicit `none`.

Three checks are switches of the model (`Cfg`): a range check on slice bounds, a range check on the values a
loop-dependent subscript takes, and the Modelica reading `start:step:stop` of three-part ranges.
`Cfg.checked` is the tree as it is now (since commits 4aad8e2 and b779a95, the fixes C23-2 and C23-1);
`Cfg.asIs` is the tree before them, the state in which the findings C23-F1..F3 were recorded.
-/
namespace PymocaVerif.Index

/-- An integer as it is written in a subscript or range.  `lit k`: the literal `k`; `neg k`: the literal
    with a unary minus `-k` (`get_integer` raises on it: the operand is a Python number, not an `MX`);
    `par v`: anything `get_integer` evaluates to `v` — an `Integer` parameter or constant, a constant
    expression such as `1-2`. -/
inductive IntS where
  | lit (k : Nat)
  | neg (k : Nat)
  | par (v : Int)
  deriving Repr, DecidableEq

/-- The value the text denotes. -/
def IntS.val : IntS → Int
  | .lit k => k
  | .neg k => -(k : Int)
  | .par v => v

/-- `Generator.get_integer`: `none` = raises. -/
def IntS.eval : IntS → Option Int
  | .lit k => some k
  | .neg _ => none
  | .par v => some v

/-- A written integer whose value, when it comes from a parameter, is not negative (steps of three-part
    ranges: negative steps reach CasADi's reversed slices, which this model does not cover). -/
inductive NatS where
  | lit (k : Nat)
  | neg (k : Nat)
  | par (k : Nat)
  deriving Repr, DecidableEq

def NatS.toIntS : NatS → IntS
  | .lit k => .lit k
  | .neg k => .neg k
  | .par k => .par k

def NatS.val (s : NatS) : Int := s.toIntS.val

def NatS.eval : NatS → Option Nat
  | .lit k => some k
  | .neg _ => none
  | .par k => some k

/-- A subscript that does not depend on a loop index. -/
inductive FSub where
  | idx (k : IntS)                      -- `x[k]`
  | range (lo hi : IntS)                -- `x[lo:hi]`
  | range3 (a : IntS) (b c : NatS)      -- `x[a:b:c]` as written
  | all                                 -- `x[:]`
  deriving Repr, DecidableEq

/-- Checks the tree may contain. -/
structure Cfg where
  sliceCheck : Bool   -- slice bounds are checked against the dimension, empty ranges select nothing
  loopCheck : Bool    -- the values of a loop-dependent subscript are checked against the dimension
  stepOrder : Bool    -- `a:b:c` is read as start `a`, step `b`, stop `c`
  deriving Repr, DecidableEq

def Cfg.asIs : Cfg := ⟨false, false, false⟩
def Cfg.checked : Cfg := ⟨true, true, true⟩

/-! ## CasADi's rules -/

/-- `start, start+step, …` below `stop` (`casadi::range`). -/
def stepList (start stop step : Nat) : List Nat :=
  (List.range ((stop - start + step - 1) / step)).map (fun i => start + i * step)

/-- `MX.__getitem__` with a Python `slice(start, stop, step)` on `len` entries, `step ≥ 0`
    (`casadi::Slice::all`): bounds below zero are counted from the end, `stop ≤ len` and `start ≥ 0`
    are asserted, `stop ≤ start` selects nothing; step 0 is rejected by the SWIG layer. -/
def casadiSlice (len : Nat) (start stop : Option Int) (step : Nat) : Option (List Nat) :=
  if step = 0 then none else
  let st : Int := match start with
    | none => 0
    | some a => if a < 0 then a + len else a
  let sp : Int := match stop with
    | none => len
    | some b => if b < 0 then b + len else b
  if sp > len ∨ st < 0 then none
  else if sp ≤ st then some []
  else some (stepList st.toNat sp.toNat step)

/-- `MX.__getitem__` with a list of integers: each must lie in `[-len, len)`, negative ones count from the
    end. -/
def casadiPick (len : Nat) : List Int → Option (List Nat)
  | [] => some []
  | k :: ks =>
    if k < -(len : Int) ∨ k ≥ len then none else
    match casadiPick len ks with
    | none => none
    | some ps => some ((if k < 0 then k + len else k).toNat :: ps)

/-! ## One dimension, subscript independent of the loop -/

/-- The `slice` branch of `get_indexed_symbol` for evaluated bounds `a:b` and a step. -/
def sliceSel (cfg : Cfg) (n len : Nat) (a b : Int) (step : Nat) : Option (List Nat) :=
  if cfg.sliceCheck = true ∧ 0 < step then
    if a ≤ b then
      let last := a + (b - a) / step * step
      if a < 1 ∨ last > n then none else casadiSlice len (some (a - 1)) (some last) step
    else casadiSlice len (some 0) (some 0) step
  else casadiSlice len (some (a - 1)) (some b) step

/-- Positions selected in a dimension declared with size `n`, indexing storage of `len` entries
    (`len = n` except when a 2-D array gets a single subscript). -/
def fixedSel (cfg : Cfg) (n len : Nat) : FSub → Option (List Nat)
  | .idx k =>
    match k.eval with
    | none => none
    | some v => if v ≤ 0 ∨ v > n then none else casadiPick len [v - 1]
  | .range lo hi =>
    match lo.eval, hi.eval with
    | some a, some b => sliceSel cfg n len a b 1
    | _, _ => none
  | .range3 a b c =>
    match a.eval, b.eval, c.eval with
    | some a, some b, some c =>
      if cfg.stepOrder = true then sliceSel cfg n len a c b else sliceSel cfg n len a b c
    | _, _, _ => none
  | .all => casadiSlice len none none 1

/-! ## The loop's values and loop-dependent subscripts -/

/-- `numpy.arange(start, stop, step)` for a positive step. -/
def arange (start stop : Int) (step : Nat) : List Int :=
  (List.range ((stop - start + step - 1) / step).toNat).map (fun (j : Nat) => start + (j : Int) * (step : Int))

inductive LoopRange where
  | two (a b : IntS)                 -- `for i in a:b`
  | three (a : IntS) (b c : NatS)    -- `for i in a:b:c` as written
  deriving Repr, DecidableEq

/-- `e.start.value` / `e.step.value`: only an integer literal (`ast.Primary`) has `.value` -/
def IntS.litVal : IntS → Option Nat
  | .lit k => some k
  | _ => none

def NatS.litVal : NatS → Option Nat
  | .lit k => some k
  | _ => none

/-- `ForLoop.__init__`: start and step are read with `.value` (integer literals only), the stop with
    `get_integer`; the values are `arange(start, stop + 1, step)` — before commit 4aad8e2
    `arange(start, stop + step, step)` with the second and third written number exchanged. -/
def loopValues (cfg : Cfg) : LoopRange → Option (List Int)
  | .two a b =>
    match a.litVal, b.eval with
    | some k, some e => some (arange k (e + 1) 1)
    | _, _ => none
  | .three a b c =>
    if cfg.stepOrder = true then
      match a.litVal, b.litVal, c.eval with
      | some k, some st, some e => if st = 0 then none else some (arange k ((e : Int) + 1) st)
      | _, _, _ => none
    else
      match a.litVal, b.eval, c.litVal with
      | some k, some e, some st => if st = 0 then none else some (arange k ((e : Int) + st) st)
      | _, _, _ => none

/-- A subscript `mul*i + off` (`mul ≠ 0`) over the loop values: `register_indexed_symbol` computes the index
    values (for an empty loop there is nothing to compute — commit 8f76abc; before it `Function.map` over zero
    values raised), checks them against the dimension (commit b779a95), and `exitForEquation` hands
    `values - 1` to CasADi as an index list. -/
def loopIdxSel (cfg : Cfg) (n len : Nat) (vals : List Int) (mul off : Int) : Option (List Nat) :=
  let idx := vals.map (fun v => mul * v + off)
  if cfg.loopCheck = true ∧ idx.any (fun i => decide (i < 1 ∨ i > (n : Int))) = true then none
  else casadiPick len (idx.map (· - 1))

/-! ## A whole reference `x[…]` in one equation -/

inductive Dims where
  | scalar
  | d1 (n : Nat)
  | d2 (n m : Nat)
  deriving Repr, DecidableEq

/-- The subscript list of one reference (at most one subscript depends on the loop index). -/
inductive Subs where
  | f1 (a : FSub)
  | l1 (mul off : Int)
  | ff (a b : FSub)
  | lf (mul off : Int) (b : FSub)
  | fl (a : FSub) (mul off : Int)
  | more                               -- three or more subscripts
  deriving Repr, DecidableEq

structure Case where
  dims : Dims
  subs : Subs
  loop : Option LoopRange
  deriving Repr, DecidableEq

abbrev Pos := Nat × Nat

def col1 (ps : List Nat) : List Pos := ps.map (fun p => (p, 0))
/-- linear (column-major) positions of a matrix with `n` rows -/
def lin (n : Nat) (ps : List Nat) : List Pos := ps.map (fun p => (p % n, p / n))
def mat2 (rs cs : List Nat) : List (List Pos) := rs.map (fun r => cs.map (fun c => (r, c)))
/-- the entries of the sub-matrix `rs × cs`, column by column (`ca.vec`) -/
def vec2 (rs cs : List Nat) : List Pos := cs.flatMap (fun c => rs.map (fun r => (r, c)))

/-- an equation whose residual has no entry is discarded -/
def norm (rows : List (List Pos)) : List (List Pos) :=
  if rows.all (fun r => r.isEmpty) then [] else rows

/-- A product by the literal 0 is folded by CasADi, so `0*i + off` is an integer subscript. -/
def constIdx (off : Int) : FSub := .idx (.par off)

/-- Outside a loop: `none` = raises, else the residual's entries (rows × columns). -/
def outcomeEq (cfg : Cfg) : Dims → Subs → Option (List (List Pos))
  | .scalar, _ => none                         -- "is not an array" / "too many indices"
  | .d1 n, .f1 a => (fixedSel cfg n n a).map (fun ps => norm (ps.map (fun p => [(p, 0)])))
  | .d2 n m, .f1 a => (fixedSel cfg n (n * m) a).map (fun ps => norm ((lin n ps).map (fun e => [e])))
  | .d2 n m, .ff a b =>
    match fixedSel cfg n n a, fixedSel cfg m m b with
    | some rs, some cs => some (norm (mat2 rs cs))
    | _, _ => none
  | _, _ => none                               -- too many subscripts, or a loop index outside a loop

/-- Inside `for i in … loop x[…] = … end for` with value list `vals`: one row per iteration. -/
def outcomeLoop (cfg : Cfg) (vals : List Int) : Dims → Subs → Option (List (List Pos))
  | .scalar, _ => none
  | .d1 n, .f1 a => (fixedSel cfg n n a).map (fun ps => norm (vals.map (fun _ => col1 ps)))
  | .d1 n, .l1 mul off =>
    if mul = 0 then (fixedSel cfg n n (constIdx off)).map (fun ps => norm (vals.map (fun _ => col1 ps)))
    else (loopIdxSel cfg n n vals mul off).map (fun ps => norm (ps.map (fun p => [(p, 0)])))
  | .d2 n m, .f1 a => (fixedSel cfg n (n * m) a).map (fun ps => norm (vals.map (fun _ => lin n ps)))
  | .d2 n m, .l1 mul off =>
    if mul = 0 then (fixedSel cfg n (n * m) (constIdx off)).map (fun ps => norm (vals.map (fun _ => lin n ps)))
    else (loopIdxSel cfg n (n * m) vals mul off).map (fun ps => norm ((lin n ps).map (fun e => [e])))
  | .d2 n m, .ff a b =>
    match fixedSel cfg n n a, fixedSel cfg m m b with
    | some rs, some cs => some (norm (vals.map (fun _ => vec2 rs cs)))
    | _, _ => none
  | .d2 n m, .lf mul off b =>
    if mul = 0 then
      match fixedSel cfg n n (constIdx off), fixedSel cfg m m b with
      | some rs, some cs => some (norm (vals.map (fun _ => vec2 rs cs)))
      | _, _ => none
    else
      match fixedSel cfg m m b with
      | none => none
      | some [] => some []                      -- empty indexed symbol: not registered, equation discarded
      | some cs =>
        (loopIdxSel cfg n n vals mul off).map (fun rs => norm (rs.map (fun r => cs.map (fun c => (r, c)))))
  | .d2 n m, .fl a mul off =>
    if mul = 0 then
      match fixedSel cfg n n a, fixedSel cfg m m (constIdx off) with
      | some rs, some cs => some (norm (vals.map (fun _ => vec2 rs cs)))
      | _, _ => none
    else
      match fixedSel cfg n n a with
      | none => none
      | some [] => some []
      | some rs =>
        (loopIdxSel cfg m m vals mul off).map (fun cs => norm (cs.map (fun c => rs.map (fun r => (r, c)))))
  | _, _ => none

/-- Generation of a one-equation model holding the reference. -/
def outcome (cfg : Cfg) (c : Case) : Option (List (List Pos)) :=
  match c.loop with
  | none => outcomeEq cfg c.dims c.subs
  | some r =>
    match loopValues cfg r with
    | none => none
    | some vals => outcomeLoop cfg vals c.dims c.subs

/-- Fix C23-3 (finding C23-F4, commit 8f5c8e6): subscripts missing at the end of the list stand for `:`. -/
def padSubs : Dims → Subs → Subs
  | .d2 _ _, .f1 a => .ff a .all
  | .d2 _ _, .l1 mul off => .lf mul off .all
  | _, s => s

/-- Generation on the tree as it is now: `get_indexed_symbol` zips the padded subscript list with the shape
    (commit 8f5c8e6).  Before that commit `outcome` itself applied, which indexes the storage linearly when a
    2-D array gets a single subscript. -/
def outcomePadded (cfg : Cfg) (c : Case) : Option (List (List Pos)) :=
  outcome cfg ⟨c.dims, padSubs c.dims c.subs, c.loop⟩

/-! ## References through components: `d.v[…]`, `c[…].v[…]`, `g.f[…].v[…]`

`tree.indices` holds one subscript list per part of the name and `_modelica_shape` one dimension list per
part; `get_indexed_symbol` walks them level by level: more subscripts than dimensions at a level is
"Too many indices" (a subscript on a scalar level "is not an array"), fewer are padded with `:`; the
(subscript, dimension) pairs of all levels, in order, index the flattened symbol.
(Before commit 5a52c09 the tree did not apply the "is not an array" test to a subscript that is the bare loop
variable — finding C23-F5; the model has always followed the fixed behaviour.) -/

/-- a subscript of either kind -/
inductive ASub where
  | fixed (f : FSub)
  | loop (mul off : Int)
  deriving Repr, DecidableEq

/-- one part of the name: its declared dimensions and the subscripts written on it -/
structure Level where
  dims : List Nat
  subs : List ASub
  deriving Repr, DecidableEq

/-- the level's (subscript, dimension) pairs; `none`: more subscripts than dimensions -/
def padLevel (l : Level) : Option (List (ASub × Nat)) :=
  if l.subs.length > l.dims.length then none
  else some ((l.subs ++ List.replicate (l.dims.length - l.subs.length) (ASub.fixed FSub.all)).zip l.dims)

def padLevels : List Level → Option (List (ASub × Nat))
  | [] => some []
  | l :: ls =>
    match padLevel l, padLevels ls with
    | some a, some b => some (a ++ b)
    | _, _ => none

/-- The flattened symbol's dimensions and subscripts; `none`: more than two dimensions (not supported by the
    backend) or two loop-dependent subscripts (outside this model, never generated). -/
def pairsToCase (loop : Option LoopRange) : List (ASub × Nat) → Option Case
  | [(.fixed a, n)] => some ⟨.d1 n, .f1 a, loop⟩
  | [(.loop mul off, n)] => some ⟨.d1 n, .l1 mul off, loop⟩
  | [(.fixed a, n), (.fixed b, m)] => some ⟨.d2 n m, .ff a b, loop⟩
  | [(.loop mul off, n), (.fixed b, m)] => some ⟨.d2 n m, .lf mul off b, loop⟩
  | [(.fixed a, n), (.loop mul off, m)] => some ⟨.d2 n m, .fl a mul off, loop⟩
  | _ => none

/-- Generation of a one-equation model holding a reference through components (at least one dimension in
    total). -/
def outcomeNested (cfg : Cfg) (levels : List Level) (loop : Option LoopRange) : Option (List (List Pos)) :=
  match padLevels levels with
  | none => none
  | some [] =>
    -- a scalar without any subscript: the variable itself, once per iteration inside a loop
    match loop with
    | none => some [[(0, 0)]]
    | some r => (loopValues cfg r).map (fun vals => norm (vals.map (fun _ => [(0, 0)])))
  | some pairs =>
    match pairsToCase loop pairs with
    | none => none
    | some c => outcome cfg c

/-! ## Several references in one equation (stencils `x[i+1] - x[i-1]`)

Every reference is a `ComponentRef` node of its own: `get_indexed_symbol` runs once per reference, creates an
indexed symbol of its own and registers an index list of its own in the loop (`indexed_symbols` is keyed by
the symbol object, not by its name), so the references are checked and selected independently. -/

/-- the residual of `z = x[…] + w * x[…]`, row by row: the first reference's entries, then the second's -/
def joinRows : List (List Pos) → List (List Pos) → List (List Pos)
  | r :: rs, q :: qs => (r ++ q) :: joinRows rs qs
  | _, _ => []

/-- Generation of a one-equation model holding two references (same loop, if any): `none` as soon as one
    of them raises. -/
def outcomePair (cfg : Cfg) (c₁ c₂ : Case) : Option (List (List Pos)) :=
  match outcomePadded cfg c₁, outcomePadded cfg c₂ with
  | some r₁, some r₂ => some (joinRows r₁ r₂)
  | _, _ => none

/-! ## Modelica's meaning of a subscript (the specification side; not used by `outcome`) -/

/-- `a, a+s, a+2s, …` up to `b` (`s > 0`); empty when `b < a`. -/
def upRange (a : Int) (s : Nat) (b : Int) : List Int :=
  (List.range ((b - a) / (s : Int) + 1).toNat).map (fun (j : Nat) => a + (j : Int) * (s : Int))

/-- `a, a-s, a-2s, …` down to `b` (`s > 0`); empty when `a < b`. -/
def downRange (a : Int) (s : Nat) (b : Int) : List Int :=
  (List.range ((a - b) / (s : Int) + 1).toNat).map (fun (j : Nat) => a - (j : Int) * (s : Int))

/-- Modelica `a : st : b`; `none` for the illegal step 0. -/
def mRange (a st b : Int) : Option (List Int) :=
  if st = 0 then none
  else if 0 < st then some (upRange a st.toNat b)
  else some (downRange a (-st).toNat b)

/-- The 1-based indices a subscript denotes in a dimension of size `n` (`none`: ill-formed). -/
def FSub.denote (n : Nat) : FSub → Option (List Int)
  | .idx k => some [k.val]
  | .range lo hi => some (upRange lo.val 1 hi.val)
  | .range3 a b c => mRange a.val b.val c.val
  | .all => some (upRange 1 1 n)

/-- every index lies in `1..n` -/
def InRange (n : Nat) (d : List Int) : Prop := ∀ i ∈ d, 1 ≤ i ∧ i ≤ (n : Int)

/-- 0-based positions of 1-based indices -/
def pos (d : List Int) : List Nat := d.map (fun i => (i - 1).toNat)

/-- The values of a Modelica loop range. -/
def LoopRange.denote : LoopRange → Option (List Int)
  | .two a b => some (upRange a.val 1 b.val)
  | .three a b c => mRange a.val b.val c.val

/-- The subscripts on which the tree's checks suffice.  Integer subscripts and `:` always; a two-part slice
    when slice bounds are checked, or else when its lower bound is at least 1 and its upper bound not negative
    (the values CasADi does not count from the end); a three-part range only when it is read as
    `start:step:stop`, with the same condition on its bounds. -/
def Safe (cfg : Cfg) : FSub → Prop
  | .idx _ => True
  | .all => True
  | .range lo hi => cfg.sliceCheck = true ∨ (1 ≤ lo.val ∧ 0 ≤ hi.val)
  | .range3 a _ c => cfg.stepOrder = true ∧ (cfg.sliceCheck = true ∨ (1 ≤ a.val ∧ 0 ≤ c.val))

/-- The loop-dependent subscripts `mul*i + off` on which the tree's checks suffice: all of them when the
    loop check is present, else those that never go below 1. -/
def LoopSafe (cfg : Cfg) (vals : List Int) (mul off : Int) : Prop :=
  cfg.loopCheck = true ∨ ∀ v ∈ vals, 1 ≤ mul * v + off

/-- A subscript that must be rejected in a dimension of size `n`: ill-formed (step 0) or denoting an index
    outside `1..n`. -/
def Bad (n : Nat) (s : FSub) : Prop :=
  s.denote n = none ∨ ∃ d, s.denote n = some d ∧ ∃ i ∈ d, i < 1 ∨ (n : Int) < i

end PymocaVerif.Index
