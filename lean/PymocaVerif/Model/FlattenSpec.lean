import PymocaVerif.Model.Flatten
/-!
# Specification relations for the instance tree (no fuel, no environments)

Independent inductive descriptions of *what* the instance tree of a class in a resolved library
is: which types are elementary, which components / equations / extends-clause modifications a
class has (own and inherited), which classes are instantiated at which instance prefix, and
which elementary leaves exist.  The theorems of Props/C07 and Props/C08 relate the executable
`instF` / `flattenF` to these.
-/
namespace PymocaVerif.Flatten

/-- `t` is builtin `b`, possibly through short class definitions -/
inductive IsElem (lib : Lib) : Ty → String → Prop
  | builtin (b : String) : IsElem lib (.builtin b) b
  | short {p : Path} {d : ClassDef} {t : Ty} {m : List Mod} {b : String} :
      lib.find p = some d → d.isShort = true → d.exts = [(t, m)] → IsElem lib t b → IsElem lib (.cls p) b

/-- `k` is a component of class `p`, declared there or in a (transitive) base class -/
inductive MemberOf (lib : Lib) : Path → Comp → Prop
  | own {p : Path} {d : ClassDef} {k : Comp} : lib.find p = some d → k ∈ d.comps → MemberOf lib p k
  | inh {p b : Path} {d : ClassDef} {m : List Mod} {k : Comp} :
      lib.find p = some d → (Ty.cls b, m) ∈ d.exts → MemberOf lib b k → MemberOf lib p k

/-- `e` is an equation of class `p`, written there or in a (transitive) base class -/
inductive MemberEq (lib : Lib) : Path → Eqn → Prop
  | own {p : Path} {d : ClassDef} {e : Eqn} : lib.find p = some d → e ∈ d.eqs → MemberEq lib p e
  | inh {p b : Path} {d : ClassDef} {m : List Mod} {e : Eqn} :
      lib.find p = some d → (Ty.cls b, m) ∈ d.exts → MemberEq lib b e → MemberEq lib p e

/-- `e` is an initial equation of class `p`, written there or in a (transitive) base class -/
inductive MemberIEq (lib : Lib) : Path → Eqn → Prop
  | own {p : Path} {d : ClassDef} {e : Eqn} : lib.find p = some d → e ∈ d.ieqs → MemberIEq lib p e
  | inh {p b : Path} {d : ClassDef} {m : List Mod} {e : Eqn} :
      lib.find p = some d → (Ty.cls b, m) ∈ d.exts → MemberIEq lib b e → MemberIEq lib p e

/-- `ms` is the modification list of an extends clause of `p` or of a (transitive) base class -/
inductive ExtClauseOf (lib : Lib) : Path → List Mod → Prop
  | own {p : Path} {d : ClassDef} {t : Ty} {ms : List Mod} : lib.find p = some d → (t, ms) ∈ d.exts → ExtClauseOf lib p ms
  | inh {p b : Path} {d : ClassDef} {m ms : List Mod} :
      lib.find p = some d → (Ty.cls b, m) ∈ d.exts → ExtClauseOf lib b ms → ExtClauseOf lib p ms

/-- class `c''` is instantiated at the (relative) instance path `q` below an instance of class `c` -/
inductive InstAt (lib : Lib) : Path → Path → Path → Prop
  | here (c : Path) : InstAt lib c [] c
  | sub {c c' c'' : Path} {k : Comp} {q : Path} :
      MemberOf lib c k → k.ty = .cls c' → (∀ b, ¬ IsElem lib k.ty b) → InstAt lib c' q c'' →
      InstAt lib c (k.name :: q) c''

/-- `Leaf lib c q k b ds`: below an instance of `c`, the instance path `q` ends in the elementary
    component declared as `k`, of builtin type `b`; `ds` are the array dimensions of the
    components along `q`, outermost first. -/
inductive Leaf (lib : Lib) : Path → Path → Comp → String → List Nat → Prop
  | leaf {c : Path} {k : Comp} {b : String} :
      MemberOf lib c k → IsElem lib k.ty b → Leaf lib c [k.name] k b k.dims
  | sub {c c' : Path} {k k' : Comp} {q : Path} {b : String} {ds : List Nat} :
      MemberOf lib c k → k.ty = .cls c' → (∀ b, ¬ IsElem lib k.ty b) → Leaf lib c' q k' b ds →
      Leaf lib c (k.name :: q) k' b (k.dims ++ ds)

/-- the expression `e` is written in class `c` (or a base class of it) as a modification:
    on a component declaration, or in an extends clause -/
def WrittenIn (lib : Lib) (c : Path) (e : Expr) : Prop :=
  (∃ k m, MemberOf lib c k ∧ m ∈ k.mods ∧ m.value = e) ∨
  (∃ ms m, ExtClauseOf lib c ms ∧ m ∈ ms ∧ m.value = e)

end PymocaVerif.Flatten
