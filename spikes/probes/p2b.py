import sys, tempfile, multiprocessing as mp, traceback
from pathlib import Path
def worker(d, barrier, q, i):
    import sys; sys.path.insert(0,"/tmp/probe/scratch"); import pymoca
    pymoca.__version__ = "1.0"
    from pymoca import parser
    txt = "model A Real x; equation x = %d; end A;" % (i % 3)
    barrier.wait()
    try:
        t = parser.parse(txt, model_cache_folder=Path(d))
        q.put((i, "ok" if t is not None else "none"))
    except Exception as e:
        tb = traceback.extract_tb(e.__traceback__)
        q.put((i, "EXC %s line %s" % (type(e).__name__, [f.lineno for f in tb if 'parser.py' in f.filename])))
if __name__ == "__main__":
    N = int(sys.argv[1]); rounds = int(sys.argv[2]); pre = sys.argv[3]
    bad = 0
    from collections import Counter
    cnt = Counter()
    for r in range(rounds):
        with tempfile.TemporaryDirectory() as d:
            if pre == "existing":
                import pymoca; pymoca.__version__="1.0"
                from pymoca import parser
                parser.parse("model Z end Z;", model_cache_folder=Path(d))
            b = mp.Barrier(N); q = mp.Queue()
            ps = [mp.Process(target=worker, args=(d, b, q, i)) for i in range(N)]
            [p.start() for p in ps]; res = [q.get() for _ in ps]; [p.join() for p in ps]
            for x in res: cnt[x[1]] += 1
    print(cnt)
