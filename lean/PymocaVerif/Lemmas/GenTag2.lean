import PymocaVerif.Lemmas.GenTag
/-!
# Lemmas for C12 (continued): equations, statements, functions and tables commute with retagging
-/
namespace PymocaVerif.Gen
open PymocaVerif.ExprSem

theorem genL_retag (P : Prims K) (o o' : Opts) (T : FTab K) : ∀ es : List (MExpr K),
    genL P o' (retagTab o' T) es = (genL P o T es).map (List.map (retag o'))
  | [] => by simp [genL]
  | e :: es => by
    simp only [genL, gen_retag P o o' T e, genL_retag P o o' T es]
    cases gen P o T e with
    | error e => rfl
    | ok t =>
      cases genL P o T es with
      | error e => rfl
      | ok ts => simp [bind, Except.bind]

theorem lhsTerm_retag (o : Opts) (tl : List (CTerm K)) :
    lhsTerm (tl.map (retag o)) = retag o (lhsTerm tl) := by
  unfold lhsTerm
  match tl with
  | [] => simp [retag, retags, CTerms.ofList]
  | [t] => simp
  | t1 :: t2 :: rest => simp [retag, retags_ofList]

theorem knownFn_retagTab (o : Opts) (T : FTab K) : knownFn (retagTab o T) = knownFn T := by
  funext f
  simp [knownFn, retagTab]

theorem genSEq_retag (P : Prims K) (o o' : Opts) (T : FTab K) (e : SEq K) :
    genSEq P o' (retagTab o' T) e = (genSEq P o T e).map (retag o') := by
  unfold genSEq
  simp only [genL_retag P o o' T e.ls, gen_retag P o o' T e.r, knownFn_retagTab]
  cases genL P o T e.ls with
  | error e => rfl
  | ok tl =>
    cases gen P o T e.r with
    | error e => rfl
    | ok tr =>
      simp only [bind, Except.bind, emap_ok, lhsTerm_retag]
      split <;> simp [retag]

theorem genBlock_retag (P : Prims K) (o o' : Opts) (T : FTab K) : ∀ b : List (SEq K),
    genBlock P o' (retagTab o' T) b = (genBlock P o T b).map (List.map (retag o'))
  | [] => by simp [genBlock]
  | e :: es => by
    simp only [genBlock, genSEq_retag P o o' T e, genBlock_retag P o o' T es]
    cases genSEq P o T e with
    | error e => rfl
    | ok t =>
      cases genBlock P o T es with
      | error e => rfl
      | ok ts => simp [bind, Except.bind]

theorem genBlocks_retag (P : Prims K) (o o' : Opts) (T : FTab K) : ∀ bs : List (List (SEq K)),
    genBlocks P o' (retagTab o' T) bs = (genBlocks P o T bs).map (List.map (retag o'))
  | [] => by simp [genBlocks]
  | b :: bs => by
    simp only [genBlocks, genBlock_retag P o o' T b, genBlocks_retag P o o' T bs]
    cases genBlock P o T b with
    | error e => rfl
    | ok ts =>
      cases genBlocks P o T bs with
      | error e => rfl
      | ok rest => simp [bind, Except.bind, retag, retags_ofList]

theorem genMEq_retag (P : Prims K) (o o' : Opts) (T : FTab K) (ienv : String → Option Int) (q : MEq K) :
    genMEq P o' (retagTab o' T) ienv q = (genMEq P o T ienv q).map (retag o') := by
  cases q with
  | simple e => simpa [genMEq] using genSEq_retag P o o' T e
  | ifeq cs bs =>
    simp only [genMEq, genL_retag P o o' T cs, genBlocks_retag P o o' T bs]
    cases genL P o T cs with
    | error e => rfl
    | ok tcs =>
      cases genBlocks P o T bs with
      | error e => rfl
      | ok tbs =>
        simp only [bind, Except.bind, emap_ok, List.length_map]
        split
        · rfl
        · split
          · simp [foldFromLast_retag]
          · rfl
  | foreq i start stop step body =>
    simp only [genMEq]
    cases stop.eval ienv with
    | none => rfl
    | some hi =>
      simp only [bind, Except.bind, pure, Except.pure]
      split
      · rfl
      · simp only [genBlock_retag P o o' T body]
        cases genBlock P o T body with
        | error e => rfl
        | ok ts =>
          simp only [emap_ok]
          split
          · simp [retag, retags]
          · simp [retag, retags_ofList]

theorem genMEqs_retag (P : Prims K) (o o' : Opts) (T : FTab K) (ienv : String → Option Int) :
    ∀ qs : List (MEq K),
    genMEqs P o' (retagTab o' T) ienv qs = (genMEqs P o T ienv qs).map (List.map (retag o'))
  | [] => by simp [genMEqs]
  | q :: qs => by
    simp only [genMEqs, genMEq_retag P o o' T ienv q, genMEqs_retag P o o' T ienv qs]
    cases genMEq P o T ienv q with
    | error e => rfl
    | ok t =>
      cases genMEqs P o T ienv qs with
      | error e => rfl
      | ok ts => simp [bind, Except.bind]

/-! ## Functions -/

def retagVals (o : Opts) (σ : SymVals K) : SymVals K := σ.map (fun p => (p.1, retag o p.2))

theorem get_retagVals (o : Opts) (x : String) : ∀ σ : SymVals K,
    SymVals.get (retagVals o σ) x = (SymVals.get σ x).map (retag o)
  | [] => rfl
  | (y, t) :: rest => by
    simp only [retagVals, List.map_cons, SymVals.get]
    split
    · rfl
    · exact get_retagVals o x rest

mutual
theorem subst_retag (o : Opts) (σ : SymVals K) : ∀ t : CTerm K,
    subst (retagVals o σ) (retag o t) = retag o (subst σ t)
  | .const q => by simp [subst, retag]
  | .ref n [] => by
    simp only [retag, subst, get_retagVals]
    cases SymVals.get σ n <;> simp [retag]
  | .ref n (s :: ss) => by simp [subst, retag]
  | .idx i => by simp [subst, retag]
  | .op1 f a => by simp [subst, retag, subst_retag o σ a]
  | .op2 f a b => by simp [subst, retag, subst_retag o σ a, subst_retag o σ b]
  | .ifElse c t f => by simp [subst, retag, subst_retag o σ c, subst_retag o σ t, subst_retag o σ f]
  | .vcat ts => by simp [subst, retag, substs_retag o σ ts]
  | .map m i vals tr body => by simp [subst, retag, subst_retag o σ body]
  | .mapAt m i v body => by simp [subst, retag, subst_retag o σ body]
  | .call inl fn args => by simp [subst, retag, substs_retag o σ args]
theorem substs_retag (o : Opts) (σ : SymVals K) : ∀ ts : CTerms K,
    substs (retagVals o σ) (retags o ts) = retags o (substs σ ts)
  | .nil => by simp [substs, retags]
  | .cons t ts => by simp [substs, retags, subst_retag o σ t, substs_retag o σ ts]
end

theorem applyAssigns_retag (o : Opts) : ∀ (as : List (String × CTerm K)) (vals : SymVals K),
    applyAssigns (retagVals o vals) (retagVals o as) = retagVals o (applyAssigns vals as)
  | [], vals => rfl
  | (x, t) :: rest, vals => by
    simp only [retagVals, List.map_cons, applyAssigns]
    have := applyAssigns_retag o rest ((x, subst vals t) :: vals)
    simp only [retagVals, List.map_cons] at this
    rw [← this]
    congr 2
    exact congrArg (Prod.mk x) (subst_retag o vals t)

theorem genRhs_retag (P : Prims K) (o o' : Opts) (T : FTab K) : ∀ b : List (String × MExpr K),
    genRhs P o' (retagTab o' T) b = (genRhs P o T b).map (retagVals o')
  | [] => by simp [genRhs, retagVals]
  | (x, e) :: rest => by
    simp only [genRhs, gen_retag P o o' T e, genRhs_retag P o o' T rest]
    cases gen P o T e with
    | error e => rfl
    | ok t =>
      cases genRhs P o T rest with
      | error e => rfl
      | ok ts => simp [bind, Except.bind, retagVals]

theorem genRhsBlocks_retag (P : Prims K) (o o' : Opts) (T : FTab K) :
    ∀ bs : List (List (String × MExpr K)),
    genRhsBlocks P o' (retagTab o' T) bs = (genRhsBlocks P o T bs).map (List.map (retagVals o'))
  | [] => by simp [genRhsBlocks]
  | b :: bs => by
    simp only [genRhsBlocks, genRhs_retag P o o' T b, genRhsBlocks_retag P o o' T bs]
    cases genRhs P o T b with
    | error e => rfl
    | ok t =>
      cases genRhsBlocks P o T bs with
      | error e => rfl
      | ok ts => simp [bind, Except.bind]

def retagCols (o : Opts) (ex : List (String × List (CTerm K))) : List (String × List (CTerm K)) :=
  ex.map (fun p => (p.1, p.2.map (retag o)))

theorem expandInto_retag (o : Opts) (x : String) (t : CTerm K) : ∀ acc : List (String × List (CTerm K)),
    expandInto (retagCols o acc) x (retag o t) = retagCols o (expandInto acc x t)
  | [] => by simp [expandInto, retagCols]
  | (y, ts) :: rest => by
    simp only [retagCols, List.map_cons, expandInto]
    split
    · simp
    · have := expandInto_retag o x t rest
      simp only [retagCols] at this
      simp [this]

theorem foldl_expand_retag (o : Opts) : ∀ (as : List (String × CTerm K)) (acc : List (String × List (CTerm K))),
    (retagVals o as).foldl (fun a p => expandInto a p.1 p.2) (retagCols o acc) =
      retagCols o (as.foldl (fun a p => expandInto a p.1 p.2) acc)
  | [], acc => rfl
  | (x, t) :: rest, acc => by
    simp only [retagVals, List.map_cons, List.foldl_cons, expandInto_retag]
    exact foldl_expand_retag o rest (expandInto acc x t)

theorem expandBlocks_retag (o : Opts) (as : List (String × CTerm K)) :
    expandBlocks (retagVals o as) = retagCols o (expandBlocks as) := by
  simpa [expandBlocks, retagCols] using foldl_expand_retag o as []

theorem mergeIf_retag (o : Opts) (tcs vals : List (CTerm K)) :
    mergeIf (tcs.map (retag o)) (vals.map (retag o)) = retag o (mergeIf tcs vals) :=
  foldFromLast_retag o tcs vals

theorem flatten_retagVals (o : Opts) : ∀ bs : List (List (String × CTerm K)),
    (bs.map (retagVals o)).flatten = retagVals o bs.flatten
  | [] => rfl
  | b :: bs => by simp [retagVals, flatten_retagVals o bs]

theorem sameLengths_retagCols (o : Opts) (ex : List (String × List (CTerm K))) :
    sameLengths ((retagCols o ex).map (·.2)) = sameLengths (ex.map (·.2)) := by
  cases ex with
  | nil => rfl
  | cons p rest =>
    simp only [retagCols, List.map_cons, sameLengths, List.length_map, List.map_map, List.all_map]
    congr 1
    funext q
    simp

theorem genStmt_retag (P : Prims K) (o o' : Opts) (T : FTab K) (s : Stmt K) :
    genStmt P o' (retagTab o' T) s = (genStmt P o T s).map (retagVals o') := by
  cases s with
  | assign x e =>
    simp only [genStmt, gen_retag P o o' T e]
    cases gen P o T e with
    | error e => rfl
    | ok t => simp [bind, Except.bind, retagVals]
  | ifs cs bs =>
    simp only [genStmt, genL_retag P o o' T cs, genRhsBlocks_retag P o o' T bs]
    cases genL P o T cs with
    | error e => rfl
    | ok tcs =>
      cases genRhsBlocks P o T bs with
      | error e => rfl
      | ok tbs =>
        simp only [bind, Except.bind, emap_ok, flatten_retagVals, expandBlocks_retag, sameLengths_retagCols]
        split
        · rfl
        · split
          · rfl
          · simp [retagVals, retagCols, mergeIf_retag]
  | «for» i start stop step body =>
    simp only [genStmt]
    cases stop.eval (fun _ => none) with
    | none => rfl
    | some hi =>
      simp only [bind, Except.bind, pure, Except.pure]
      split
      · rfl
      · simp only [genRhs_retag P o o' T body]
        cases genRhs P o T body with
        | error e => rfl
        | ok rhs =>
          simp [retagVals, retag, List.map_flatMap, Function.comp_def]

theorem genStmts_retag (P : Prims K) (o o' : Opts) (T : FTab K) : ∀ (ss : List (Stmt K)) (vals : SymVals K),
    genStmts P o' (retagTab o' T) ss (retagVals o' vals) = (genStmts P o T ss vals).map (retagVals o')
  | [], vals => by simp [genStmts]
  | s :: ss, vals => by
    simp only [genStmts, genStmt_retag P o o' T s]
    cases genStmt P o T s with
    | error e => rfl
    | ok as =>
      simp only [bind, Except.bind, emap_ok, applyAssigns_retag]
      exact genStmts_retag P o o' T ss (applyAssigns vals as)

theorem lookupAll_retag (o : Opts) (vals : SymVals K) : ∀ xs : List String,
    lookupAll (retagVals o vals) xs = (lookupAll vals xs).map (retagVals o)
  | [] => by simp [lookupAll, retagVals]
  | x :: xs => by
    simp only [lookupAll, get_retagVals, lookupAll_retag o vals xs]
    cases SymVals.get vals x with
    | none => rfl
    | some t =>
      simp only [Option.map_some]
      cases lookupAll vals xs with
      | error e => rfl
      | ok rest => simp [bind, Except.bind, retagVals]

theorem genFunc_retag (P : Prims K) (o o' : Opts) (T : FTab K) (f : MFunc K) :
    genFunc P o' (retagTab o' T) f = (genFunc P o T f).map (retagF o') := by
  unfold genFunc
  have hinit : (f.inputs.map (fun x => (x, (CTerm.ref x [] : CTerm K)))) =
      retagVals o' (f.inputs.map (fun x => (x, (CTerm.ref x [] : CTerm K)))) := by
    simp [retagVals, retag]
  have key := genStmts_retag P o o' T f.body (f.inputs.map (fun x => (x, (CTerm.ref x [] : CTerm K))))
  rw [← hinit] at key
  dsimp only
  rw [key]
  cases genStmts P o T f.body (f.inputs.map (fun x => (x, (CTerm.ref x [] : CTerm K)))) with
  | error e => rfl
  | ok vals =>
    simp only [bind, Except.bind, emap_ok, lookupAll_retag]
    cases lookupAll vals f.outputs with
    | error e => rfl
    | ok outs =>
      cases lookupAll vals f.locals with
      | error e => rfl
      | ok tmps =>
        simp only [emap_ok, retagF, retags_ofList, List.map_map]
        congr 3
        simp only [retagVals, List.map_map]
        apply List.map_congr_left
        intro p _
        simpa [retagVals] using subst_retag o' tmps p.2

theorem genTable_retag (P : Prims K) (o o' : Opts) : ∀ fs : List (MFunc K),
    genTable P o' fs = retagTab o' (genTable P o fs)
  | [] => by funext n; simp [genTable, retagTab]
  | f :: rest => by
    funext n
    simp only [genTable, retagTab]
    split
    · simp only [Option.map_some, Option.some.injEq]
      rw [genTable_retag P o o' rest]
      exact genFunc_retag P o o' (genTable P o rest) f
    · rw [genTable_retag P o o' rest]; rfl

end PymocaVerif.Gen
