import PymocaVerif.Model.ExprGrammar
/-!
# Lemmas about the expression-parser model (C03, C24)

Fuel monotonicity, the absorption lemma for precedence climbing (`absorb`), the round trip for the table
printer (`parse_pr`), the Modelica printer as the table printer of `conv` (`mpr_eq_pr`), value preservation.
Core Lean only.
-/
namespace PymocaVerif.ExprGrammar
variable (T : Tbl)

/-! ### one-step unfoldings -/

theorem parsePrimary_succ (f ts) : parsePrimary T (f+1) ts =
    (match ts with
    | Tok.atom a :: r =>
      match a, r with
      | Atom.ref n, Tok.lp :: Tok.rp :: r' => some (E.call n Args.nil, r')
      | Atom.ref n, Tok.lp :: r' =>
        match parseArgs T f r' with
        | some (as, r'') => some (E.call n as, r'')
        | none => none
      | _, _ => some (E.atom a, r)
    | Tok.lp :: r =>
      match parseX T f r with
      | some (e, Tok.rp :: r') => some (e, r')
      | _ => none
    | _ => none) := by
  rw [parsePrimary.eq_def]; rfl

theorem parsePrefix_succ (f ts) : parsePrefix T (f+1) ts =
    (match ts with
    | Tok.op s :: r =>
      match s.pre? with
      | some q =>
        match parseE T f (T.plvl q) r with
        | some (e, r') => some (E.pre q e, r')
        | none => none
      | none => none
    | _ =>
      match parsePrimary T f ts with
      | some (a, Tok.op s :: r) =>
        match s.pow? with
        | some w =>
          match parsePrimary T f r with
          | some (b, r') => some (E.pow w a b, r')
          | none => none
        | none => some (a, Tok.op s :: r)
      | some (a, r) => some (a, r)
      | none => none) := by
  rw [parsePrefix.eq_def]; rfl

theorem parseE_succ (f p ts) : parseE T (f+1) p ts =
    (match parsePrefix T f ts with
    | some (l, r) => parseLoop T f p l r
    | none => none) := by
  rw [parseE.eq_def]; rfl

theorem parseLoop_succ (f p l ts) : parseLoop T (f+1) p l ts =
    (match ts with
    | Tok.op s :: r =>
      match s.bin? with
      | some o =>
        if p ≤ T.lvl o then
          match parseE T f (T.rl o) r with
          | some (rt, r') => parseLoop T f p (E.bin o l rt) r'
          | none => none
        else some (l, ts)
      | none => some (l, ts)
    | _ => some (l, ts)) := by
  rw [parseLoop.eq_def]; rfl

theorem parseX_succ (f ts) : parseX T (f+1) ts =
    (match ts with
    | Tok.kif :: r =>
      match parseX T f r with
      | some (c, Tok.kthen :: r1) =>
        match parseX T f r1 with
        | some (t, r2) =>
          match parseEls T f r2 with
          | some (el, r3) => some (E.ite c t el, r3)
          | none => none
        | none => none
      | _ => none
    | _ => parseE T f 0 ts) := by
  rw [parseX.eq_def]; rfl

theorem parseEls_succ (f ts) : parseEls T (f+1) ts =
    (match ts with
    | Tok.kelse :: r =>
      match parseX T f r with
      | some (e, r') => some (Els.els e, r')
      | none => none
    | Tok.kelseif :: r =>
      match parseX T f r with
      | some (c, Tok.kthen :: r1) =>
        match parseX T f r1 with
        | some (t, r2) =>
          match parseEls T f r2 with
          | some (el, r3) => some (Els.elif c t el, r3)
          | none => none
        | none => none
      | _ => none
    | _ => none) := by
  rw [parseEls.eq_def]; rfl

theorem parseArgs_succ (f ts) : parseArgs T (f+1) ts =
    (match parseX T f ts with
    | some (e, Tok.comma :: r) =>
      match parseArgs T f r with
      | some (as, r') => some (Args.cons e as, r')
      | none => none
    | some (e, Tok.rp :: r) => some (Args.cons e Args.nil, r)
    | _ => none) := by
  rw [parseArgs.eq_def]; rfl

/-! ### fuel monotonicity -/

theorem mono_step : ∀ f,
    (∀ ts, (parsePrimary T f ts).isSome → parsePrimary T (f+1) ts = parsePrimary T f ts) ∧
    (∀ ts, (parsePrefix T f ts).isSome → parsePrefix T (f+1) ts = parsePrefix T f ts) ∧
    (∀ p ts, (parseE T f p ts).isSome → parseE T (f+1) p ts = parseE T f p ts) ∧
    (∀ p l ts, (parseLoop T f p l ts).isSome → parseLoop T (f+1) p l ts = parseLoop T f p l ts) ∧
    (∀ ts, (parseX T f ts).isSome → parseX T (f+1) ts = parseX T f ts) ∧
    (∀ ts, (parseEls T f ts).isSome → parseEls T (f+1) ts = parseEls T f ts) ∧
    (∀ ts, (parseArgs T f ts).isSome → parseArgs T (f+1) ts = parseArgs T f ts) := by
  intro f
  induction f with
  | zero =>
    refine ⟨?_, ?_, ?_, ?_, ?_, ?_, ?_⟩ <;> intros <;>
      simp_all [parsePrimary, parsePrefix, parseE, parseLoop, parseX, parseEls, parseArgs]
  | succ f ih =>
    obtain ⟨ihP, ihF, ihE, ihL, ihX, ihS, ihA⟩ := ih
    refine ⟨?_, ?_, ?_, ?_, ?_, ?_, ?_⟩
    · intro ts h
      rw [parsePrimary_succ] at h
      rw [parsePrimary_succ T (f+1), parsePrimary_succ T f]
      (repeat' split at h) <;> simp_all
    · intro ts h
      rw [parsePrefix_succ] at h
      rw [parsePrefix_succ T (f+1), parsePrefix_succ T f]
      (repeat' split at h) <;> simp_all
    · intro p ts h
      rw [parseE_succ] at h
      rw [parseE_succ T (f+1), parseE_succ T f]
      (repeat' split at h) <;> simp_all
    · intro p l ts h
      rw [parseLoop_succ] at h
      rw [parseLoop_succ T (f+1), parseLoop_succ T f]
      (repeat' split at h) <;> simp_all
      rw [if_neg (by omega), if_neg (by omega)]
    · intro ts h
      rw [parseX_succ] at h
      rw [parseX_succ T (f+1), parseX_succ T f]
      (repeat' split at h) <;> simp_all
    · intro ts h
      rw [parseEls_succ] at h
      rw [parseEls_succ T (f+1), parseEls_succ T f]
      (repeat' split at h) <;> simp_all
    · intro ts h
      rw [parseArgs_succ] at h
      rw [parseArgs_succ T (f+1), parseArgs_succ T f]
      (repeat' split at h) <;> simp_all


theorem monoP {f f' ts r} (h : parsePrimary T f ts = some r) (hle : f ≤ f') : parsePrimary T f' ts = some r := by
  induction hle with
  | refl => exact h
  | step _ ih => rw [(mono_step T _).1 _ (by simp [ih])]; exact ih
theorem monoF {f f' ts r} (h : parsePrefix T f ts = some r) (hle : f ≤ f') : parsePrefix T f' ts = some r := by
  induction hle with
  | refl => exact h
  | step _ ih => rw [(mono_step T _).2.1 _ (by simp [ih])]; exact ih
theorem monoE {f f' p ts r} (h : parseE T f p ts = some r) (hle : f ≤ f') : parseE T f' p ts = some r := by
  induction hle with
  | refl => exact h
  | step _ ih => rw [(mono_step T _).2.2.1 _ _ (by simp [ih])]; exact ih
theorem monoL {f f' p l ts r} (h : parseLoop T f p l ts = some r) (hle : f ≤ f') :
    parseLoop T f' p l ts = some r := by
  induction hle with
  | refl => exact h
  | step _ ih => rw [(mono_step T _).2.2.2.1 _ _ _ (by simp [ih])]; exact ih
theorem monoX {f f' ts r} (h : parseX T f ts = some r) (hle : f ≤ f') : parseX T f' ts = some r := by
  induction hle with
  | refl => exact h
  | step _ ih => rw [(mono_step T _).2.2.2.2.1 _ (by simp [ih])]; exact ih
theorem monoS {f f' ts r} (h : parseEls T f ts = some r) (hle : f ≤ f') : parseEls T f' ts = some r := by
  induction hle with
  | refl => exact h
  | step _ ih => rw [(mono_step T _).2.2.2.2.2.1 _ (by simp [ih])]; exact ih
theorem monoA {f f' ts r} (h : parseArgs T f ts = some r) (hle : f ≤ f') : parseArgs T f' ts = some r := by
  induction hle with
  | refl => exact h
  | step _ ih => rw [(mono_step T _).2.2.2.2.2.2 _ (by simp [ih])]; exact ih

theorem monoTop {f f' ts e} (h : parseTop T f ts = some e) (hle : f ≤ f') : parseTop T f' ts = some e := by
  unfold parseTop at h ⊢
  split at h
  · next e' heq => rw [monoX T heq hle]; exact h
  · simp at h

/-! ### what may follow a printed expression -/

def isCloser : Tok → Bool
  | .rp | .comma | .kthen | .kelseif | .kelse => true
  | _ => false

/-- the next token (if any) closes the current `expression` -/
def Closer : List Tok → Prop
  | [] => True
  | t :: _ => isCloser t = true

/-- the next token closes the expression or is a binary operator of level at most `p` -/
def Follow (p : Nat) : List Tok → Prop
  | [] => True
  | Tok.op s :: _ => ∃ o, s.bin? = some o ∧ T.lvl o ≤ p
  | t :: _ => isCloser t = true

/-- the operator loop at level `p` does not continue into these tokens -/
def Stops (p : Nat) : List Tok → Prop
  | Tok.op s :: _ => ∀ o, s.bin? = some o → T.lvl o < p
  | _ => True

theorem Closer.follow {p rest} (h : Closer rest) : Follow T p rest := by
  match rest with
  | [] => trivial
  | t :: ts => cases t <;> simp_all [Closer, Follow, isCloser]

theorem Follow.mono {p p' rest} (h : Follow T p rest) (hle : p ≤ p') : Follow T p' rest := by
  match rest with
  | [] => trivial
  | t :: ts =>
    cases t <;> simp_all [Follow]
    obtain ⟨o, h1, h2⟩ := h
    exact ⟨o, h1, by omega⟩

theorem Follow.stops {p p' rest} (h : Follow T p rest) (hlt : p < p') : Stops T p' rest := by
  match rest with
  | [] => trivial
  | t :: ts =>
    cases t <;> simp_all [Follow, Stops]
    obtain ⟨o, h1, h2⟩ := h
    intro o' ho'
    rw [h1] at ho'
    cases ho'
    omega

theorem Follow.stops_ne {p rest} (h : Follow T p rest) (hne : ∀ o, T.lvl o ≠ p) : Stops T p rest := by
  match rest with
  | [] => trivial
  | t :: ts =>
    cases t <;> simp_all [Follow, Stops]
    obtain ⟨o, h1, h2⟩ := h
    intro o' ho'
    rw [h1] at ho'
    cases ho'
    have := hne o
    omega

theorem Closer.stops {p rest} (h : Closer rest) : Stops T p rest := by
  match rest with
  | [] => trivial
  | t :: ts => cases t <;> simp_all [Closer, Stops, isCloser]

theorem bin_not_pow {s : Sym} {o : BOp} (h : s.bin? = some o) : s.pow? = none := by
  cases s <;> simp_all [Sym.bin?, Sym.pow?]

@[simp] theorem BOp.sym_bin (o : BOp) : o.sym.bin? = some o := by cases o <;> rfl
@[simp] theorem POp.sym_pre (q : POp) : q.sym.pre? = some q := by cases q <;> rfl
@[simp] theorem WOp.sym_pow (w : WOp) : w.sym.pow? = some w := by cases w <;> rfl
@[simp] theorem WOp.sym_pre (w : WOp) : w.sym.pre? = none := by cases w <;> rfl
@[simp] theorem WOp.sym_bin (w : WOp) : w.sym.bin? = none := by cases w <;> rfl

/-- the loop stops when the next token is not a binary operator of level ≥ p -/
theorem loop_stop {p l rest} (h : Stops T p rest) : parseLoop T 1 p l rest = some (l, rest) := by
  rw [parseLoop_succ]
  split
  · next s r =>
    split
    · next o ho =>
      have := h o ho
      rw [if_neg (by omega)]
    · rfl
  · rfl


/-- side conditions on a table under which the printer `pr` is inverted by the parser -/
structure TblOK (T : Tbl) : Prop where
  lvl_pos : ∀ o, 1 ≤ T.lvl o
  left_assoc : ∀ o, T.lvl o < T.rl o
  plvl_pos : ∀ q, 1 ≤ T.plvl q
  pre_ne : ∀ q o, T.lvl o ≠ T.plvl q

def E.isIte : E → Bool
  | .ite _ _ _ => true
  | _ => false

/-- first token of a printed expression: never a closer, and `if` only for a bare if-expression -/
theorem pr_head (hT : TblOK T) : ∀ (e : E) (p : Nat),
    ∃ t, (pr T p e).head? = some t ∧ isCloser t = false ∧ (t = Tok.kif → p = 0 ∧ e.isIte = true)
  | .atom a, p => ⟨Tok.atom a, by simp [pr], rfl, by simp⟩
  | .bin o l r, p => by
    obtain ⟨t, h1, h2, h3⟩ := pr_head hT l (T.lvl o)
    have := hT.lvl_pos o
    by_cases hp : p ≤ T.lvl o
    · refine ⟨t, by simp [pr, hp, h1], h2, ?_⟩
      intro ht; have := (h3 ht).1; omega
    · exact ⟨Tok.lp, by simp [pr, hp], rfl, by simp⟩
  | .pre q e, p => by
    by_cases hp : p ≤ T.plvl q
    · exact ⟨Tok.op q.sym, by simp [pr, hp], rfl, by simp⟩
    · exact ⟨Tok.lp, by simp [pr, hp], rfl, by simp⟩
  | .pow w a b, p => by
    by_cases ha : a.isPrimary
    · obtain ⟨t, h1, h2, h3⟩ := pr_head hT a 0
      refine ⟨t, by simp [pr, ha, h1], h2, ?_⟩
      intro ht
      have := (h3 ht).2
      cases a <;> simp_all [E.isPrimary, E.isIte]
    · exact ⟨Tok.lp, by simp [pr, ha], rfl, by simp⟩
  | .paren e, p => ⟨Tok.lp, by simp [pr], rfl, by simp⟩
  | .ite c t r, p => by
    by_cases hp : p = 0
    · exact ⟨Tok.kif, by simp [pr, hp], rfl, by simp [hp, E.isIte]⟩
    · exact ⟨Tok.lp, by simp [pr, hp], rfl, by simp⟩
  | .call f as, p => ⟨Tok.atom (Atom.ref f), by simp [pr], rfl, by simp⟩


/-! ### small steps of the parser -/

theorem Follow.nopow {p rest} (h : Follow T p rest) : ∀ s r, rest = Tok.op s :: r → s.pow? = none := by
  intro s r hr
  subst hr
  obtain ⟨o, ho, _⟩ := h
  exact bin_not_pow ho

theorem Follow.nolp {p rest} (h : Follow T p rest) : ∀ r, rest ≠ Tok.lp :: r := by
  intro r hr
  subst hr
  simp [Follow, isCloser] at h

theorem primary_atom {f a rest} (h : ∀ r, rest ≠ Tok.lp :: r) :
    parsePrimary T (f+1) (Tok.atom a :: rest) = some (E.atom a, rest) := by
  rw [parsePrimary_succ]
  simp only
  split
  · next r' => exact absurd rfl (h _)
  · next r' _ => exact absurd rfl (h _)
  · rfl

theorem prefix_of_primary {f ts x rest} (hts : ∀ s r, ts ≠ Tok.op s :: r)
    (hP : parsePrimary T f ts = some (x, rest)) (hrest : ∀ s r, rest = Tok.op s :: r → s.pow? = none) :
    parsePrefix T (f+1) ts = some (x, rest) := by
  rw [parsePrefix_succ]
  split
  · next s r => exact absurd rfl (hts s r)
  · rw [hP]
    split
    · next a s r heq =>
      simp only [Option.some.injEq, Prod.mk.injEq] at heq
      rw [hrest s r heq.2, heq.1, heq.2]
    · next a r _ heq =>
      simp only [Option.some.injEq, Prod.mk.injEq] at heq
      rw [heq.1, heq.2]
    · next heq => simp at heq

theorem prefix_pow {f ts a w mid b rest} (hts : ∀ s r, ts ≠ Tok.op s :: r)
    (hPa : parsePrimary T f ts = some (a, Tok.op w.sym :: mid))
    (hPb : parsePrimary T f mid = some (b, rest)) :
    parsePrefix T (f+1) ts = some (E.pow w a b, rest) := by
  rw [parsePrefix_succ]
  split
  · next s r => exact absurd rfl (hts s r)
  · rw [hPa]
    simp only [WOp.sym_pow, hPb]

theorem pe_of_prefix {ts x rest p0 res} (hF : ∃ f, parsePrefix T f ts = some (x, rest))
    (hL : ∃ f, parseLoop T f p0 x rest = some res) : ∃ f, parseE T f p0 ts = some res := by
  obtain ⟨f1, h1⟩ := hF
  obtain ⟨f2, h2⟩ := hL
  refine ⟨max f1 f2 + 1, ?_⟩
  rw [parseE_succ, monoF T h1 (Nat.le_max_left _ _)]
  exact monoL T h2 (Nat.le_max_right _ _)

theorem parseX_of_E {f ts t r} (hh : ts.head? = some t) (ht : t ≠ Tok.kif)
    (h : parseE T f 0 ts = some r) : parseX T (f+1) ts = some r := by
  rw [parseX_succ]
  split
  · next r' => simp at hh; exact absurd hh.symm ht
  · exact h

theorem pe_paren {inner x p p0 rest res}
    (hX : ∃ f, parseX T f (inner ++ Tok.rp :: rest) = some (x, Tok.rp :: rest))
    (hfol : Follow T p rest) (hL : ∃ f, parseLoop T f p0 x rest = some res) :
    ∃ f, parseE T f p0 (Tok.lp :: (inner ++ Tok.rp :: rest)) = some res := by
  obtain ⟨f1, h1⟩ := hX
  refine pe_of_prefix T ⟨f1 + 2, ?_⟩ hL
  refine prefix_of_primary T (by simp) ?_ hfol.nopow
  rw [parsePrimary_succ]
  simp only [h1]

theorem pp_paren {inner x rest}
    (hX : ∃ f, parseX T f (inner ++ Tok.rp :: rest) = some (x, Tok.rp :: rest)) :
    ∃ f, parsePrimary T f (Tok.lp :: (inner ++ Tok.rp :: rest)) = some (x, rest) := by
  obtain ⟨f1, h1⟩ := hX
  refine ⟨f1 + 1, ?_⟩
  rw [parsePrimary_succ]
  simp only [h1]


theorem prArgs_head (hT : TblOK T) : ∀ (as : Args), as ≠ Args.nil →
    ∃ t, (prArgs T as).head? = some t ∧ t ≠ Tok.rp
  | .nil, h => absurd rfl h
  | .cons e .nil, _ => by
    obtain ⟨t, h1, h2, _⟩ := pr_head T hT e 0
    exact ⟨t, by simp [prArgs, List.head?_append, h1], by intro h; simp [h, isCloser] at h2⟩
  | .cons e (.cons e' r), _ => by
    obtain ⟨t, h1, h2, _⟩ := pr_head T hT e 0
    exact ⟨t, by simp [prArgs, List.head?_append, h1], by intro h; simp [h, isCloser] at h2⟩

/-! ### the absorption lemma -/

/-- parsing `pr p e ++ rest` at level `p0 ≤ p` = continuing the operator loop with `strip e` accumulated -/
def PE (e : E) : Prop :=
  ∀ (p p0 : Nat) (rest : List Tok) (res : E × List Tok),
    p0 ≤ p → (e.isIte = true → p ≠ 0) → Follow T p rest →
    (∃ f, parseLoop T f p0 (strip e) rest = some res) →
    ∃ f, parseE T f p0 (pr T p e ++ rest) = some res

/-- in an `expression` position, before a closing token -/
def PX (e : E) : Prop :=
  ∀ rest, Closer rest → ∃ f, parseX T f (pr T 0 e ++ rest) = some (strip e, rest)

/-- a primary, by rule `primary` -/
def PP (e : E) : Prop :=
  e.isPrimary = true → ∀ rest, (∀ r, rest ≠ Tok.lp :: r) →
    ∃ f, parsePrimary T f (pr T 0 e ++ rest) = some (strip e, rest)

theorem px_of_pe (hT : TblOK T) (e : E) (hne : e.isIte = false) (hE : PE T e) : PX T e := by
  intro rest hc
  obtain ⟨f, hf⟩ := hE 0 0 rest (strip e, rest) (Nat.le_refl _) (by simp [hne]) (hc.follow T)
    ⟨1, loop_stop T (hc.stops T)⟩
  obtain ⟨t, h1, _, h3⟩ := pr_head T hT e 0
  refine ⟨f + 1, parseX_of_E T (t := t) (by simp [List.head?_append, h1]) ?_ hf⟩
  intro ht
  have := (h3 ht).2
  simp [hne] at this

theorem pe_of_pp (e : E) (hp : e.isPrimary = true) (hP : PP T e) : PE T e := by
  intro p p0 rest res _ _ hfol hL
  obtain ⟨f, hf⟩ := hP hp rest hfol.nolp
  have hpr : pr T p e = pr T 0 e := by cases e <;> simp_all [E.isPrimary, pr]
  rw [hpr]
  refine pe_of_prefix T ⟨f + 1, prefix_of_primary T ?_ hf hfol.nopow⟩ hL
  cases e <;> simp_all [E.isPrimary, pr]

theorem prEls_closer (r : Els) (rest : List Tok) : Closer (prEls T r ++ rest) := by
  cases r <;> simp [prEls, Closer, isCloser]

/-- argument of `^`: a primary as it is, anything else in parentheses -/
theorem prim_arg (a : E) (hX : PX T a) (hP : PP T a) (rest : List Tok) (hr : ∀ r, rest ≠ Tok.lp :: r) :
    (∃ f, parsePrimary T f ((if a.isPrimary then pr T 0 a else Tok.lp :: pr T 0 a ++ [Tok.rp]) ++ rest)
      = some (strip a, rest)) ∧
    (∀ s r, (if a.isPrimary then pr T 0 a else Tok.lp :: pr T 0 a ++ [Tok.rp]) ++ rest ≠ Tok.op s :: r) := by
  by_cases ha : a.isPrimary = true
  · simp only [ha, if_true]
    refine ⟨hP ha rest hr, ?_⟩
    cases a <;> simp_all [E.isPrimary, pr]
  · simp only [ha]
    refine ⟨?_, by simp⟩
    have := pp_paren T (inner := pr T 0 a) (rest := rest) (hX (Tok.rp :: rest) (by simp [Closer, isCloser]))
    simpa using this

mutual
theorem absorb (hT : TblOK T) : ∀ (e : E), PE T e ∧ PX T e ∧ PP T e
  | .atom a => by
    have hP : PP T (.atom a) := by
      intro _ rest hr
      exact ⟨1, by simpa [pr, strip] using primary_atom T (f := 0) (a := a) hr⟩
    have hE := pe_of_pp T _ rfl hP
    exact ⟨hE, px_of_pe T hT _ rfl hE, hP⟩
  | .paren e => by
    have hP : PP T (.paren e) := by
      intro _ rest _
      have := pp_paren T (inner := pr T 0 e) (rest := rest)
        ((absorb hT e).2.1 (Tok.rp :: rest) (by simp [Closer, isCloser]))
      simpa [pr, strip] using this
    have hE := pe_of_pp T _ rfl hP
    exact ⟨hE, px_of_pe T hT _ rfl hE, hP⟩
  | .call fn as => by
    have hP : PP T (.call fn as) := by
      intro _ rest _
      match as with
      | .nil => exact ⟨1, by simp [pr, prArgs, strip, stripArgs, parsePrimary_succ]⟩
      | .cons e as' =>
        obtain ⟨f, hf⟩ := absorbArgs hT (.cons e as') rest (by simp)
        obtain ⟨t, ht1, ht2⟩ := prArgs_head T hT (.cons e as') (by simp)
        obtain ⟨tl, htl⟩ := List.head?_eq_some_iff.mp ht1
        refine ⟨f + 1, ?_⟩
        rw [parsePrimary_succ]
        simp only [pr, strip, List.cons_append]
        rw [htl] at hf ⊢
        simp only [List.cons_append] at hf ⊢
        split
        · next heq => simp at heq; exact absurd heq.1 ht2
        · next r' _ hn heq =>
          simp only [List.cons.injEq, true_and] at heq
          cases hn
          rw [← heq, hf]
        · next h1 h2 => exact absurd rfl (h2 fn _ rfl)
    have hE := pe_of_pp T _ rfl hP
    exact ⟨hE, px_of_pe T hT _ rfl hE, hP⟩
  | .bin o l r => by
    have hlv := hT.lvl_pos o
    have hrl := hT.left_assoc o
    have body : ∀ p0' rest' res', p0' ≤ T.lvl o → Follow T (T.lvl o) rest' →
        (∃ f, parseLoop T f p0' (E.bin o (strip l) (strip r)) rest' = some res') →
        ∃ f, parseE T f p0' ((pr T (T.lvl o) l ++ Tok.op o.sym :: pr T (T.rl o) r) ++ rest') = some res' := by
      intro p0' rest' res' hp0 hfol' ⟨f1, hf1⟩
      obtain ⟨f2, hf2⟩ := (absorb hT r).1 (T.rl o) (T.rl o) rest' (strip r, rest') (Nat.le_refl _)
        (by intro _; omega) (hfol'.mono T (Nat.le_of_lt hrl)) ⟨1, loop_stop T (hfol'.stops T hrl)⟩
      have hloop : ∃ f, parseLoop T f p0' (strip l) (Tok.op o.sym :: (pr T (T.rl o) r ++ rest')) = some res' := by
        refine ⟨max f1 f2 + 1, ?_⟩
        rw [parseLoop_succ]
        simp only [BOp.sym_bin, hp0, if_true, monoE T hf2 (Nat.le_max_right f1 f2)]
        exact monoL T hf1 (Nat.le_max_left _ _)
      have := (absorb hT l).1 (T.lvl o) p0' (Tok.op o.sym :: (pr T (T.rl o) r ++ rest')) res' hp0
        (by intro _; omega) ⟨o, by simp, Nat.le_refl _⟩ hloop
      simpa [List.append_assoc] using this
    have hE : PE T (.bin o l r) := by
      intro p p0 rest res hp _ hfol hL
      simp only [strip] at hL
      by_cases hlvp : p ≤ T.lvl o
      · have := body p0 rest res (by omega) (hfol.mono T hlvp) hL
        simpa [pr, hlvp] using this
      · obtain ⟨f3, hf3⟩ := body 0 (Tok.rp :: rest) (E.bin o (strip l) (strip r), Tok.rp :: rest)
          (Nat.zero_le _) (by simp [Follow, isCloser]) ⟨1, loop_stop T (by simp [Stops])⟩
        obtain ⟨t, ht1, _, ht3⟩ := pr_head T hT l (T.lvl o)
        have hX : ∃ f, parseX T f ((pr T (T.lvl o) l ++ Tok.op o.sym :: pr T (T.rl o) r) ++ Tok.rp :: rest)
            = some (E.bin o (strip l) (strip r), Tok.rp :: rest) :=
          ⟨f3 + 1, parseX_of_E T (t := t) (by simp [List.head?_append, ht1])
            (by intro h; have := (ht3 h).1; omega) hf3⟩
        have := pe_paren T hX hfol hL
        simpa [pr, hlvp, List.append_assoc] using this
    exact ⟨hE, px_of_pe T hT _ rfl hE, by intro h; simp [E.isPrimary] at h⟩
  | .pre q e => by
    have hpl := hT.plvl_pos q
    have body : ∀ rest', Follow T (T.plvl q) rest' →
        ∃ f, parsePrefix T f (Tok.op q.sym :: pr T (T.plvl q) e ++ rest') = some (E.pre q (strip e), rest') := by
      intro rest' hr
      have hstop : Stops T (T.plvl q) rest' := hr.stops_ne T (fun o => hT.pre_ne q o)
      obtain ⟨f2, hf2⟩ := (absorb hT e).1 (T.plvl q) (T.plvl q) rest' (strip e, rest') (Nat.le_refl _)
        (by intro _; omega) hr ⟨1, loop_stop T hstop⟩
      refine ⟨f2 + 1, ?_⟩
      rw [parsePrefix_succ]
      simp only [List.cons_append, POp.sym_pre, hf2]
    have hE : PE T (.pre q e) := by
      intro p p0 rest res hp _ hfol hL
      simp only [strip] at hL
      by_cases hlvp : p ≤ T.plvl q
      · have := pe_of_prefix T (body rest (hfol.mono T hlvp)) hL
        simpa [pr, hlvp] using this
      · obtain ⟨f2, hf2⟩ := body (Tok.rp :: rest) (by simp [Follow, isCloser])
        have hX : ∃ f, parseX T f ((Tok.op q.sym :: pr T (T.plvl q) e) ++ Tok.rp :: rest)
            = some (E.pre q (strip e), Tok.rp :: rest) := by
          obtain ⟨f4, hf4⟩ := pe_of_prefix T (p0 := 0) ⟨f2, hf2⟩ ⟨1, loop_stop T (by simp [Stops])⟩
          exact ⟨f4 + 1, parseX_of_E T (t := Tok.op q.sym) (by simp) (by simp) hf4⟩
        have := pe_paren T hX hfol hL
        simpa [pr, hlvp, List.append_assoc] using this
    exact ⟨hE, px_of_pe T hT _ rfl hE, by intro h; simp [E.isPrimary] at h⟩
  | .pow w a b => by
    have hE : PE T (.pow w a b) := by
      intro p p0 rest res hp _ hfol hL
      simp only [strip] at hL
      obtain ⟨⟨fb, hb⟩, _⟩ := prim_arg T b (absorb hT b).2.1 (absorb hT b).2.2 rest hfol.nolp
      obtain ⟨⟨fa, ha⟩, hna⟩ := prim_arg T a (absorb hT a).2.1 (absorb hT a).2.2
        (Tok.op w.sym :: ((if b.isPrimary then pr T 0 b else Tok.lp :: pr T 0 b ++ [Tok.rp]) ++ rest)) (by simp)
      have := pe_of_prefix T ⟨max fa fb + 1, prefix_pow T hna (monoP T ha (Nat.le_max_left _ _))
        (monoP T hb (Nat.le_max_right _ _))⟩ hL
      simpa [pr, List.append_assoc] using this
    exact ⟨hE, px_of_pe T hT _ rfl hE, by intro h; simp [E.isPrimary] at h⟩
  | .ite c t r => by
    have hX : ∀ rest, Closer rest → ∃ f, parseX T f
        (Tok.kif :: (pr T 0 c ++ Tok.kthen :: (pr T 0 t ++ prEls T r)) ++ rest)
          = some (E.ite (strip c) (strip t) (stripEls r), rest) := by
      intro rest hc
      obtain ⟨f1, h1⟩ := (absorb hT c).2.1 (Tok.kthen :: (pr T 0 t ++ (prEls T r ++ rest))) (by simp [Closer, isCloser])
      obtain ⟨f2, h2⟩ := (absorb hT t).2.1 (prEls T r ++ rest) (prEls_closer T r rest)
      obtain ⟨f3, h3⟩ := absorbEls hT r rest hc
      refine ⟨max f1 (max f2 f3) + 1, ?_⟩
      rw [parseX_succ]
      simp only [List.cons_append, List.append_assoc,
        monoX T h1 (Nat.le_max_left f1 (max f2 f3)),
        monoX T h2 (Nat.le_trans (Nat.le_max_left f2 f3) (Nat.le_max_right f1 _)),
        monoS T h3 (Nat.le_trans (Nat.le_max_right f2 f3) (Nat.le_max_right f1 _))]
    have hE : PE T (.ite c t r) := by
      intro p p0 rest res hp hp0 hfol hL
      simp only [strip] at hL
      have hpne : p ≠ 0 := hp0 rfl
      have := pe_paren T (hX (Tok.rp :: rest) (by simp [Closer, isCloser])) hfol hL
      simpa [pr, hpne, List.append_assoc] using this
    refine ⟨hE, ?_, by intro h; simp [E.isPrimary] at h⟩
    intro rest hc
    simpa [pr, strip] using hX rest hc
theorem absorbEls (hT : TblOK T) : ∀ (r : Els) (rest : List Tok), Closer rest →
    ∃ f, parseEls T f (prEls T r ++ rest) = some (stripEls r, rest)
  | .els e, rest, hc => by
    obtain ⟨f, hf⟩ := (absorb hT e).2.1 rest hc
    refine ⟨f + 1, ?_⟩
    rw [parseEls_succ]
    simp only [prEls, stripEls, List.cons_append, hf]
  | .elif c t r, rest, hc => by
    obtain ⟨f1, h1⟩ := (absorb hT c).2.1 (Tok.kthen :: (pr T 0 t ++ (prEls T r ++ rest))) (by simp [Closer, isCloser])
    obtain ⟨f2, h2⟩ := (absorb hT t).2.1 (prEls T r ++ rest) (prEls_closer T r rest)
    obtain ⟨f3, h3⟩ := absorbEls hT r rest hc
    refine ⟨max f1 (max f2 f3) + 1, ?_⟩
    rw [parseEls_succ]
    simp only [prEls, stripEls, List.cons_append, List.append_assoc,
      monoX T h1 (Nat.le_max_left f1 (max f2 f3)),
      monoX T h2 (Nat.le_trans (Nat.le_max_left f2 f3) (Nat.le_max_right f1 _)),
      monoS T h3 (Nat.le_trans (Nat.le_max_right f2 f3) (Nat.le_max_right f1 _))]
theorem absorbArgs (hT : TblOK T) : ∀ (as : Args) (rest : List Tok), as ≠ Args.nil →
    ∃ f, parseArgs T f (prArgs T as ++ rest) = some (stripArgs as, rest)
  | .nil, _, h => absurd rfl h
  | .cons e .nil, rest, _ => by
    obtain ⟨f, hf⟩ := (absorb hT e).2.1 (Tok.rp :: rest) (by simp [Closer, isCloser])
    refine ⟨f + 1, ?_⟩
    rw [parseArgs_succ]
    simp only [prArgs, stripArgs, List.append_assoc, List.singleton_append, hf]
  | .cons e (.cons e' r), rest, _ => by
    obtain ⟨f1, h1⟩ := (absorb hT e).2.1 (Tok.comma :: (prArgs T (.cons e' r) ++ rest)) (by simp [Closer, isCloser])
    obtain ⟨f2, h2⟩ := absorbArgs hT (.cons e' r) rest (by simp)
    refine ⟨max f1 f2 + 1, ?_⟩
    rw [parseArgs_succ]
    simp only [prArgs, List.append_assoc, List.cons_append, monoX T h1 (Nat.le_max_left _ _),
      monoA T h2 (Nat.le_max_right _ _)]
    simp [stripArgs]
end


/-- the printer relative to a table is inverted by the parser for that table -/
theorem parse_pr (hT : TblOK T) (e : E) : ∃ f, parseTop T f (pr T 0 e) = some (strip e) := by
  obtain ⟨f, hf⟩ := (absorb T hT e).2.1 [] trivial
  refine ⟨f, ?_⟩
  simp only [List.append_nil] at hf
  simp [parseTop, hf]

/-! ### the Modelica printer is the table printer of `conv` (for `modelicaTbl`) -/

theorem modelicaTbl_ok : TblOK modelicaTbl where
  lvl_pos := by intro o; cases o <;> simp [modelicaTbl]
  left_assoc := by intro o; cases o <;> simp [modelicaTbl]
  plvl_pos := by intro q; cases q <;> simp [modelicaTbl]
  pre_ne := by intro q o; cases q <;> cases o <;> simp [modelicaTbl]

/-- printed as a Modelica `term` with pymoca's levels: a product chain of factors -/
def E.termLike : E → Bool
  | .bin o l _ => o.isMul && l.termLike
  | .pre _ _ => false
  | .ite _ _ _ => false
  | _ => true

theorem conv6_termLike : ∀ (e : E), (conv 6 e).termLike = true
  | .atom _ => by simp [conv, E.termLike]
  | .bin o l r => by
    have := conv6_termLike l
    cases o <;> simp_all [conv, BOp.mlv, E.termLike, BOp.isMul]
  | .pre q e => by cases q <;> simp [conv, E.termLike]
  | .pow _ _ _ => by simp [conv, E.termLike]
  | .paren _ => by simp [conv, E.termLike]
  | .ite _ _ _ => by simp [conv, E.termLike]
  | .call _ _ => by simp [conv, E.termLike]

theorem conv8_primary (e : E) : (conv 8 e).isPrimary = true := by
  cases e with
  | bin o l r => cases o <;> simp [conv, BOp.mlv, E.isPrimary]
  | pre q e => cases q <;> simp [conv, E.isPrimary]
  | _ => simp [conv, E.isPrimary]

theorem pr_primary_indep {x : E} (h : x.isPrimary = true) (p p' : Nat) : pr T p x = pr T p' x := by
  cases x <;> simp_all [E.isPrimary, pr]

theorem pushSign_pr (s : POp) (hs : s ≠ POp.not) : ∀ (x : E) (p : Nat), x.termLike = true → p ≤ 7 →
    pr modelicaTbl p (pushSign s x) = Tok.op s.sym :: pr modelicaTbl 7 x
  | .bin o l r, p, h, hp => by
    simp only [E.termLike, Bool.and_eq_true] at h
    have ih := pushSign_pr s hs l 7 h.2 (Nat.le_refl _)
    have hl : modelicaTbl.lvl o = 7 := by cases o <;> simp_all [BOp.isMul, modelicaTbl]
    simp [pushSign, h.1, pr, hl, hp, ih]
  | .atom a, p, _, hp => by cases s <;> simp_all [pushSign, pr, modelicaTbl] <;> omega
  | .pow w a b, p, _, hp => by cases s <;> simp_all [pushSign, pr, modelicaTbl] <;> omega
  | .paren e, p, _, hp => by cases s <;> simp_all [pushSign, pr, modelicaTbl] <;> omega
  | .call f as, p, _, hp => by cases s <;> simp_all [pushSign, pr, modelicaTbl] <;> omega
  | .pre _ _, _, h, _ => by simp [E.termLike] at h
  | .ite _ _ _, _, h, _ => by simp [E.termLike] at h

/-- Modelica level `m` and table level `p` describe the same position -/
def Compat (m p : Nat) : Prop := (m = 0 ∧ p = 0) ∨ (1 ≤ m ∧ 1 ≤ p ∧ p ≤ m + 1)

theorem bop_levels (o : BOp) :
    modelicaTbl.lvl o = o.mlv.1 + 1 ∧ Compat o.mlv.2.1 (modelicaTbl.lvl o) ∧ Compat o.mlv.2.2 (modelicaTbl.rl o) := by
  cases o <;> simp [modelicaTbl, BOp.mlv, Compat]

mutual
theorem mpr_eq_pr : ∀ (e : E) (m p : Nat), Compat m p → mpr m e = pr modelicaTbl p (conv m e)
  | .atom a, m, p, _ => by simp [mpr, conv, pr]
  | .bin o l r, m, p, hc => by
    obtain ⟨h1, h2, h3⟩ := bop_levels o
    have ihl := mpr_eq_pr l _ _ h2
    have ihr := mpr_eq_pr r _ _ h3
    by_cases hm : m ≤ o.mlv.1
    · have hp : p ≤ modelicaTbl.lvl o := by
        rcases hc with ⟨_, hp⟩ | ⟨_, _, hp⟩ <;> omega
      simp [mpr, conv, pr, hm, hp, ihl, ihr]
    · simp [mpr, conv, pr, hm, ihl, ihr]
  | .pre .not e, m, p, hc => by
    have ih := mpr_eq_pr e 4 4 (Or.inr ⟨by omega, by omega, by omega⟩)
    by_cases hm : m ≤ 3
    · have hp : p ≤ 4 := by rcases hc with ⟨_, hp⟩ | ⟨_, _, hp⟩ <;> omega
      simp [mpr, conv, pr, POp.mlv, hm, modelicaTbl, hp, ih]
    · simp [mpr, conv, pr, POp.mlv, hm, modelicaTbl, ih]
  | .pre .neg e, m, p, hc => by
    have ih := mpr_eq_pr e 6 7 (Or.inr ⟨by omega, by omega, by omega⟩)
    have hps := fun p hp => pushSign_pr .neg (by simp) (conv 6 e) p (conv6_termLike e) hp
    by_cases hm : m ≤ 5
    · have hp : p ≤ 7 := by rcases hc with ⟨_, hp⟩ | ⟨_, _, hp⟩ <;> omega
      simp [mpr, conv, POp.mlv, hm, ih, hps p hp]
    · simp [mpr, conv, pr, POp.mlv, hm, ih, hps 0 (by omega)]
  | .pre .pos e, m, p, hc => by
    have ih := mpr_eq_pr e 6 7 (Or.inr ⟨by omega, by omega, by omega⟩)
    have hps := fun p hp => pushSign_pr .pos (by simp) (conv 6 e) p (conv6_termLike e) hp
    by_cases hm : m ≤ 5
    · have hp : p ≤ 7 := by rcases hc with ⟨_, hp⟩ | ⟨_, _, hp⟩ <;> omega
      simp [mpr, conv, POp.mlv, hm, ih, hps p hp]
    · simp [mpr, conv, pr, POp.mlv, hm, ih, hps 0 (by omega)]
  | .pow w a b, m, p, _ => by
    have iha := mpr_eq_pr a 8 1 (Or.inr ⟨by omega, by omega, by omega⟩)
    have ihb := mpr_eq_pr b 8 1 (Or.inr ⟨by omega, by omega, by omega⟩)
    rw [pr_primary_indep modelicaTbl (conv8_primary a) 1 0] at iha
    rw [pr_primary_indep modelicaTbl (conv8_primary b) 1 0] at ihb
    by_cases hm : m ≤ 7
    · simp [mpr, conv, pr, hm, iha, ihb, conv8_primary]
    · simp [mpr, conv, pr, hm, iha, ihb, conv8_primary]
  | .paren e, m, p, _ => by
    have ih := mpr_eq_pr e 0 0 (Or.inl ⟨rfl, rfl⟩)
    simp [mpr, conv, pr, ih]
  | .ite c t r, m, p, hc => by
    have ihc := mpr_eq_pr c 0 0 (Or.inl ⟨rfl, rfl⟩)
    have iht := mpr_eq_pr t 0 0 (Or.inl ⟨rfl, rfl⟩)
    have ihr := mprEls_eq r
    by_cases hm : m = 0
    · have hp : p = 0 := by rcases hc with ⟨_, hp⟩ | ⟨_, _, hp⟩ <;> omega
      simp [mpr, conv, pr, hm, hp, ihc, iht, ihr]
    · simp [mpr, conv, pr, hm, ihc, iht, ihr]
  | .call f as, m, p, _ => by
    simp [mpr, conv, pr, mprArgs_eq as]
theorem mprEls_eq : ∀ (r : Els), mprEls r = prEls modelicaTbl (convEls r)
  | .els e => by simp [mprEls, convEls, prEls, mpr_eq_pr e 0 0 (Or.inl ⟨rfl, rfl⟩)]
  | .elif c t r => by
    simp [mprEls, convEls, prEls, mpr_eq_pr c 0 0 (Or.inl ⟨rfl, rfl⟩), mpr_eq_pr t 0 0 (Or.inl ⟨rfl, rfl⟩),
      mprEls_eq r]
theorem mprArgs_eq : ∀ (as : Args), mprArgs as = prArgs modelicaTbl (convArgs as)
  | .nil => by simp [mprArgs, convArgs, prArgs]
  | .cons e .nil => by simp [mprArgs, convArgs, prArgs, mpr_eq_pr e 0 0 (Or.inl ⟨rfl, rfl⟩)]
  | .cons e (.cons e' r) => by
    have := mprArgs_eq (.cons e' r)
    simp only [convArgs] at this
    simp [mprArgs, convArgs, prArgs, mpr_eq_pr e 0 0 (Or.inl ⟨rfl, rfl⟩), this]
end

/-- **Round trip for Modelica text**: the parser with pymoca's table rebuilds `expected e` from the Modelica
print of `e`. -/
theorem parse_mprint_lemma (e : E) : ∃ f, parseTop modelicaTbl f (mprint e) = some (expected e) := by
  unfold mprint expected
  rw [mpr_eq_pr e 0 0 (Or.inl ⟨rfl, rfl⟩)]
  exact parse_pr modelicaTbl modelicaTbl_ok (conv 0 e)

/-! ### values -/

mutual
theorem eval_strip {V : Type} (I : Interp V) : ∀ (e : E), eval I (strip e) = eval I e
  | .atom _ => by simp [strip, eval]
  | .bin o l r => by simp [strip, eval, eval_strip I l, eval_strip I r]
  | .pre q e => by simp [strip, eval, eval_strip I e]
  | .pow w a b => by simp [strip, eval, eval_strip I a, eval_strip I b]
  | .paren e => by simp [strip, eval, eval_strip I e]
  | .ite c t r => by simp [strip, eval, eval_strip I c, eval_strip I t, evalEls_strip I r]
  | .call f as => by simp [strip, eval, evalArgs_strip I as]
theorem evalEls_strip {V : Type} (I : Interp V) : ∀ (r : Els), evalEls I (stripEls r) = evalEls I r
  | .els e => by simp [stripEls, evalEls, eval_strip I e]
  | .elif c t r => by simp [stripEls, evalEls, eval_strip I c, eval_strip I t, evalEls_strip I r]
theorem evalArgs_strip {V : Type} (I : Interp V) : ∀ (as : Args), evalArgs I (stripArgs as) = evalArgs I as
  | .nil => by simp [stripArgs, evalArgs]
  | .cons e r => by simp [stripArgs, evalArgs, eval_strip I e, evalArgs_strip I r]
end

theorem eval_pushSign {V : Type} (I : Interp V) (hI : I.SignLaw) (s : POp) (hs : s ≠ POp.not) :
    ∀ (x : E), eval I (pushSign s x) = I.pre s (eval I x)
  | .bin o l r => by
    by_cases ho : o.isMul = true
    · simp [pushSign, ho, eval, eval_pushSign I hI s hs l, hI s o _ _ hs ho]
    · simp [pushSign, ho, eval]
  | .atom _ => by simp [pushSign, eval]
  | .pre _ _ => by simp [pushSign, eval]
  | .pow _ _ _ => by simp [pushSign, eval]
  | .paren _ => by simp [pushSign, eval]
  | .ite _ _ _ => by simp [pushSign, eval]
  | .call _ _ => by simp [pushSign, eval]

mutual
theorem eval_conv {V : Type} (I : Interp V) (hI : I.SignLaw) : ∀ (e : E) (m : Nat), eval I (conv m e) = eval I e
  | .atom _, _ => by simp [conv, eval]
  | .bin o l r, m => by
    by_cases hm : m ≤ o.mlv.1 <;> simp [conv, hm, eval, eval_conv I hI l, eval_conv I hI r]
  | .pre .not e, m => by
    by_cases hm : m ≤ 3 <;> simp [conv, hm, eval, eval_conv I hI e]
  | .pre .neg e, m => by
    by_cases hm : m ≤ 5 <;> simp [conv, hm, eval, eval_pushSign I hI, eval_conv I hI e]
  | .pre .pos e, m => by
    by_cases hm : m ≤ 5 <;> simp [conv, hm, eval, eval_pushSign I hI, eval_conv I hI e]
  | .pow w a b, m => by
    by_cases hm : m ≤ 7 <;> simp [conv, hm, eval, eval_conv I hI a, eval_conv I hI b]
  | .paren e, _ => by simp [conv, eval, eval_conv I hI e]
  | .ite c t r, m => by
    by_cases hm : m = 0 <;> simp [conv, hm, eval, eval_conv I hI c, eval_conv I hI t, evalEls_conv I hI r]
  | .call f as, _ => by simp [conv, eval, evalArgs_conv I hI as]
theorem evalEls_conv {V : Type} (I : Interp V) (hI : I.SignLaw) : ∀ (r : Els), evalEls I (convEls r) = evalEls I r
  | .els e => by simp [convEls, evalEls, eval_conv I hI e]
  | .elif c t r => by simp [convEls, evalEls, eval_conv I hI c, eval_conv I hI t, evalEls_conv I hI r]
theorem evalArgs_conv {V : Type} (I : Interp V) (hI : I.SignLaw) :
    ∀ (as : Args), evalArgs I (convArgs as) = evalArgs I as
  | .nil => by simp [convArgs, evalArgs]
  | .cons e r => by simp [convArgs, evalArgs, eval_conv I hI e, evalArgs_conv I hI r]
end

theorem eval_expected_lemma {V : Type} (I : Interp V) (hI : I.SignLaw) (e : E) :
    eval I (expected e) = eval I e := by
  unfold expected
  rw [eval_strip, eval_conv I hI]

/-! ### `paren`-free trees, injectivity of the printers -/

mutual
theorem noParen_strip : ∀ (e : E), noParen (strip e) = true
  | .atom _ => by simp [strip, noParen]
  | .bin o l r => by simp [strip, noParen, noParen_strip l, noParen_strip r]
  | .pre q e => by simp [strip, noParen, noParen_strip e]
  | .pow w a b => by simp [strip, noParen, noParen_strip a, noParen_strip b]
  | .paren e => by simp [strip, noParen_strip e]
  | .ite c t r => by simp [strip, noParen, noParen_strip c, noParen_strip t, noParenEls_strip r]
  | .call f as => by simp [strip, noParen, noParenArgs_strip as]
theorem noParenEls_strip : ∀ (r : Els), noParenEls (stripEls r) = true
  | .els e => by simp [stripEls, noParenEls, noParen_strip e]
  | .elif c t r => by simp [stripEls, noParenEls, noParen_strip c, noParen_strip t, noParenEls_strip r]
theorem noParenArgs_strip : ∀ (as : Args), noParenArgs (stripArgs as) = true
  | .nil => by simp [stripArgs, noParenArgs]
  | .cons e r => by simp [stripArgs, noParenArgs, noParen_strip e, noParenArgs_strip r]
end

mutual
theorem strip_of_noParen : ∀ (e : E), noParen e = true → strip e = e
  | .atom _, _ => by simp [strip]
  | .bin o l r, h => by
    simp only [noParen, Bool.and_eq_true] at h
    simp [strip, strip_of_noParen l h.1, strip_of_noParen r h.2]
  | .pre q e, h => by
    simp only [noParen] at h
    simp [strip, strip_of_noParen e h]
  | .pow w a b, h => by
    simp only [noParen, Bool.and_eq_true] at h
    simp [strip, strip_of_noParen a h.1, strip_of_noParen b h.2]
  | .paren e, h => by simp [noParen] at h
  | .ite c t r, h => by
    simp only [noParen, Bool.and_eq_true] at h
    simp [strip, strip_of_noParen c h.1.1, strip_of_noParen t h.1.2, stripEls_of_noParen r h.2]
  | .call f as, h => by
    simp only [noParen] at h
    simp [strip, stripArgs_of_noParen as h]
theorem stripEls_of_noParen : ∀ (r : Els), noParenEls r = true → stripEls r = r
  | .els e, h => by
    simp only [noParenEls] at h
    simp [stripEls, strip_of_noParen e h]
  | .elif c t r, h => by
    simp only [noParenEls, Bool.and_eq_true] at h
    simp [stripEls, strip_of_noParen c h.1.1, strip_of_noParen t h.1.2, stripEls_of_noParen r h.2]
theorem stripArgs_of_noParen : ∀ (as : Args), noParenArgs as = true → stripArgs as = as
  | .nil, _ => by simp [stripArgs]
  | .cons e r, h => by
    simp only [noParenArgs, Bool.and_eq_true] at h
    simp [stripArgs, strip_of_noParen e h.1, stripArgs_of_noParen r h.2]
end

/-- the printer for a table is injective up to `paren` nodes -/
theorem pr_injective (T : Tbl) (hT : TblOK T) (e e' : E) (h : pr T 0 e = pr T 0 e') : strip e = strip e' := by
  obtain ⟨f1, h1⟩ := parse_pr T hT e
  obtain ⟨f2, h2⟩ := parse_pr T hT e'
  have a := monoTop T h1 (Nat.le_max_left f1 f2)
  have b := monoTop T h2 (Nat.le_max_right f1 f2)
  rw [h] at a
  rw [a] at b
  exact Option.some.inj b


theorem mprint_injective (e e' : E) (h : mprint e = mprint e') : expected e = expected e' := by
  obtain ⟨f1, h1⟩ := parse_mprint_lemma e
  obtain ⟨f2, h2⟩ := parse_mprint_lemma e'
  have a := monoTop _ h1 (Nat.le_max_left f1 f2)
  have b := monoTop _ h2 (Nat.le_max_right f1 f2)
  rw [h] at a
  rw [a] at b
  exact Option.some.inj b

end PymocaVerif.ExprGrammar
