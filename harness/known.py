"""Predicates recognising the inputs / histories of the findings listed in known_findings.json.

A predicate gets (case, what) — the case dict the check reported and the oracle's message —
and must recognise *that* finding only, so that a different violation of the same property
is still reported."""
from harness.common import known_predicate  # noqa: F401
