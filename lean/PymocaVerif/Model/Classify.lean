/-!
# Model of state annotation and variable classification (C10)

Transcription of

* `pymoca.tree.TreeWalker.walk` / `StateAnnotator` / `annotate_states` (tree.py): the walker
  visits every AST node reachable through `__dict__` (dicts and lists flattened) and calls
  `enter<Class>` / `exit<Class>`; the listener keeps a counter `in_der`, incremented when an
  `Expression` whose operator is the *string* `"der"` is entered and decremented when it is left;
  on leaving a `ComponentRef` while `in_der > 0` it asserts that the reference has no `child`
  and appends `"state"` to the prefixes of the class's symbol of that name (if there is one and
  it does not carry it yet).
* `Generator.exitClass` + `_ast_symbols_to_variables` (backends/casadi/generator.py): symbols
  sorted (stably) by `order`, first match of `constant`, `parameter`, `input`, `state`, else
  algebraic; empty symbols (a zero dimension) dropped; `String`-typed constants/parameters in
  the string lists; `der(<name>)` per state; delay inputs first in `inputs`; `outputs` = names
  of the output-prefixed states then algebraic variables — built with `v.symbol.name()`, which
  raises `AttributeError` for a `StringVariable`.

An AST node is a rose tree `Node kind name flag kids`: `kind` = Python class name, `name` =
`ComponentRef.name` / a string `Expression.operator` / `""`, `flag` = "the ComponentRef has a
child", `kids` = the child nodes in walk order.
-/
namespace PymocaVerif.Classify

inductive Node where
  | mk (kind : String) (name : String) (flag : Bool) (kids : List Node)

/-- Events of `TreeWalker.walk`. -/
inductive Ev where
  | enter (kind name : String)
  | exit (kind name : String) (flag : Bool)

mutual
/-- `TreeWalker.walk`: enter, children in order, exit. -/
def walk : Node → List Ev
  | .mk k n f kids => Ev.enter k n :: (walkList kids ++ [Ev.exit k n f])
def walkList : List Node → List Ev
  | [] => []
  | t :: ts => walk t ++ walkList ts
end

/-- `tree.operator == "der"` on an `Expression`. -/
def isDer (k n : String) : Bool := k == "Expression" && n == "der"

/-- State of `StateAnnotator`: the counter, the symbols to receive `"state"` (in visiting
    order), and whether the `assert len(tree.child) == 0` failed. -/
structure AState where
  inDer : Nat
  marked : List String
  failed : Bool

/-- One listener callback.  `names` = keys of `node.symbols`. -/
def step (names : List String) (s : AState) : Ev → AState
  | .enter k n => if isDer k n then { s with inDer := s.inDer + 1 } else s
  | .exit k n f =>
    let s1 : AState :=
      if k == "ComponentRef" && decide (s.inDer > 0) then
        (if f then { s with failed := true }
         else if n ∈ names then { s with marked := s.marked ++ [n] } else s)
      else s
    if isDer k n then { s1 with inDer := s1.inDer - 1 } else s1

def run (names : List String) (evs : List Ev) (s : AState) : AState := evs.foldl (step names) s

structure Sym where
  name : String
  prefixes : List String
  type : String
  order : Int
  dims : List Int
  deriving DecidableEq, Repr

/-- `if "state" not in s.prefixes: s.prefixes.append("state")` for the marked symbols. -/
def annotateSym (marked : List String) (s : Sym) : Sym :=
  if s.name ∈ marked ∧ "state" ∉ s.prefixes then { s with prefixes := s.prefixes ++ ["state"] } else s

/-- `annotate_states(node)`: `none` = AssertionError. -/
def annotate (syms : List Sym) (t : Node) : Option (List Sym) :=
  let r := run (syms.map (·.name)) (walk t) ⟨0, [], false⟩
  if r.failed then none else some (syms.map (annotateSym r.marked))

inductive Cat where
  | const | param | input | state | alg
  deriving DecidableEq, Repr

/-- The `if/elif` chain of `exitClass`. -/
def catOf (p : List String) : Cat :=
  if "constant" ∈ p then .const
  else if "parameter" ∈ p then .param
  else if "input" ∈ p then .input
  else if "state" ∈ p then .state
  else .alg

def Sym.isEmpty (s : Sym) : Bool := s.dims.any (· == 0)
def Sym.isString (s : Sym) : Bool := s.type == "String"
def Sym.cat (s : Sym) : Cat := catOf s.prefixes

/-- `sorted(tree.symbols.values(), key=lambda x: x.order)` (stable). -/
def sortSyms (syms : List Sym) : List Sym := syms.mergeSort (fun a b => decide (a.order ≤ b.order))

def derName (n : String) : String := "der(" ++ n ++ ")"
def delayName (k : Nat) : String := "_pymoca_delay_" ++ toString k

mutual
/-- Number of `delay(expr, duration)` expressions (each allocates one input symbol). -/
def countDelays : Node → Nat
  | .mk k n _ kids =>
    (if k == "Expression" &&
        ((n == "delay" && kids.length == 2) ||
         (n == "" && kids.length == 3 &&
            (match kids with
             | (.mk k0 n0 _ _) :: _ => k0 == "ComponentRef" && n0 == "delay"
             | [] => false)))
     then 1 else 0) + countDelaysList kids
def countDelaysList : List Node → Nat
  | [] => 0
  | t :: ts => countDelays t + countDelaysList ts
end

structure Lists where
  states : List String
  derStates : List String
  algStates : List String
  inputs : List String
  parameters : List String
  constants : List String
  stringParameters : List String
  stringConstants : List String
  outputs : List String

/-- Symbols of one category that become variables (`_ast_symbols_to_variables` drops empty ones). -/
def pick (sorted : List Sym) (c : Cat) : List Sym :=
  (sorted.filter (fun s => s.cat == c)).filter (fun s => !s.isEmpty)

def names (l : List Sym) : List String := l.map (·.name)

/-- Output-prefixed states then algebraic variables. -/
def outputSyms (sorted : List Sym) : List Sym :=
  (pick sorted .state ++ pick sorted .alg).filter (fun s => "output" ∈ s.prefixes)

/-- `Generator.exitClass` on annotated symbols; `none` = AttributeError while building `outputs`. -/
def exitClass (ndelay : Nat) (syms : List Sym) : Option Lists :=
  let sorted := sortSyms syms
  let st := pick sorted .state
  if (outputSyms sorted).any (·.isString) then none else
  some {
    states := names st
    derStates := (names st).map derName
    algStates := names (pick sorted .alg)
    inputs := (List.range ndelay).map delayName ++ names (pick sorted .input)
    parameters := names ((pick sorted .param).filter (fun s => !s.isString))
    constants := names ((pick sorted .const).filter (fun s => !s.isString))
    stringParameters := names ((pick sorted .param).filter (·.isString))
    stringConstants := names ((pick sorted .const).filter (·.isString))
    outputs := names (outputSyms sorted) }

/-! ## The prefixes `flatten_symbols` leaves on a flat symbol

`tree.flatten_symbols(class_, instance_name)` renames every symbol of an instance to
`instance_name + "." + name` and — before it looks at the symbol's type at all (elementary,
derived from an elementary type, or a component class) — removes the first `"input"` and the
first `"output"` from the prefixes when the instance is nested (`instance_prefix` non-empty). -/

/-- Which branch of `flatten_symbols` handles the symbol's type. -/
inductive TypeKind where
  | elementary      -- `Real`, `Integer`, `Boolean`, `String`
  | derived         -- `type Volt = Real(...)`, also derived from a derived type
  deriving DecidableEq, Repr

/-- `for kw in ["input", "output"]: try: sym.prefixes.remove(kw) except ValueError: pass`. -/
def stripNested (p : List String) : List String := (p.erase "input").erase "output"

/-- Prefixes of the flat symbol for a symbol declared with prefixes `p` in an instance whose
    path is `instPrefix` (`""` for the class being flattened itself). -/
def flatPrefixes (instPrefix : String) (_kind : TypeKind) (p : List String) : List String :=
  if instPrefix = "" then p else stripNested p

def flatSym (instPrefix : String) (kind : TypeKind) (s : Sym) : Sym :=
  { s with name := instPrefix ++ s.name, prefixes := flatPrefixes instPrefix kind s.prefixes }

inductive Outcome where
  | assertionError
  | attributeError
  | ok (l : Lists)

/-- flatten's last step + the generator's class exit, on the flat class before annotation. -/
def classify (syms : List Sym) (t : Node) : Outcome :=
  match annotate syms t with
  | none => .assertionError
  | some syms' =>
    match exitClass (countDelays t) syms' with
    | none => .attributeError
    | some l => .ok l

end PymocaVerif.Classify
