import Drivers.Proto
import PymocaVerif.Model.Connect
/-! Driver for C09: runs the `Connect` model (heap reading of `flow_connections`; equal to the value
    reading the theorems are about by `heap_pass_eq_value_pass`) on the flat connect clauses of one generated model
    and reports the derived equations and the final connection sets. -/
open Lean Drivers PymocaVerif.Connect

def parseVar (j : Json) : Except String CVar := do
  let a ← j.getArr?
  let n ← (a[0]?.getD Json.null).getStr?
  let ps ← (← (a[1]?.getD Json.null).getArr?).toList.mapM (·.getStr?)
  pure { name := n, prefixes := ps }

def parseEdge (j : Json) : Except String Edge := do
  let pre ← getStr j "pre"
  let l ← (← getArr j "l").toList.mapM (·.getStr?)
  let r ← (← getArr j "r").toList.mapM (·.getStr?)
  let vars ← (← getArr j "vars").toList.mapM parseVar
  pure { pre := pre, l := l, r := r, vars := vars }

def eqnJson : Eqn → Json
  | .pot l r => Json.arr #[Json.str "pot", Json.str l, Json.str r]
  | .sum ops => Json.arr #[Json.str "sum",
      Json.arr (ops.map fun (n, neg) => Json.arr #[Json.str n, Json.bool neg]).toArray]
  | .zero v => Json.arr #[Json.str "zero", Json.str v]

def keyJson (k : Key) : Json := Json.arr #[Json.str k.1, Json.bool k.2]

def handle (req : Json) : Except String Json := do
  let op ← getStr req "op"
  match op with
  | "connect.expand" => do
    let syms ← (← getArr req "flowSyms").toList.mapM (·.getStr?)
    let edges ← (← getArr req "edges").toList.mapM parseEdge
    let pol ← match (req.getObjValAs? String "policy").toOption.getD "face" with
      | "name" => pure PopPolicy.byName
      | "face" => pure PopPolicy.byFace
      | p => throw s!"bad-policy {p}"
    let inp : Input := { flowSyms := syms, edges := edges, policy := pol }
    match expandHeap inp, finalSetsHeap inp with
    | .ok eqs, .ok sets =>
      pure (Json.mkObj [("ok", true), ("raised", Json.null),
        ("eqs", Json.arr (eqs.map eqnJson).toArray),
        ("sets", Json.arr (sets.map fun s => Json.arr (s.map keyJson).toArray).toArray)])
    | .error (.unsupportedPrefixes v ps), _ =>
      pure (Json.mkObj [("ok", true), ("raised", "Exception"), ("var", v), ("prefixes", jstrs ps)])
    | _, _ => throw "inconsistent-model-results"
  | o => throw s!"unknown-op {o}"

def main : IO Unit := serve handle
