import PymocaVerif.Lemmas.Cli
/-!
# C26 — the compiler CLI's exit status counts exactly the errors

Property theorems over the model `Cli.main` of `tools/compiler.py` (`Model/Cli.lean`), for
invocations with any number of paths, files, options and requested models.

* `Variant.fixed` is the code as it is (commit c313463 = `proposed_fixes/C26-1.diff`); for it
  the property holds for every invocation (`exit_counts`, `per_model_independent`,
  `sympy_written`, `argparse_is_2`).
* `Variant.old` is the code before that commit; `exit_counts_old_partial` proves the property
  outside three input classes, and `old_*` characterise that code on exactly those classes
  (the findings C26-F1 … C26-F4, now fixed): each change of the commit is necessary.
-/
namespace PymocaVerif.Cli

/-- Argument errors — argparse's own, and `-t` without `-m` — leave with status 2 whatever
    else is wrong with the invocation, in both variants. -/
theorem argparse_is_2 (v : Variant) (inv : Inv)
    (h : inv.argparse = .error ∨ (inv.argparse = .ok ∧ inv.target ≠ .none ∧ inv.models = [])) :
    main v inv = .sysexit 2 := by
  rcases h with h | ⟨h, ht, hm⟩
  · simp [main, h]
  · simp [main, h, ht, hm]

example : (⟨.ok, .sympy, false, [⟨false, []⟩], [false], []⟩ : Inv).argparse = .ok ∧
    (⟨.ok, .sympy, false, [⟨false, []⟩], [false], []⟩ : Inv).target ≠ .none := by decide

/-- **Exit status = usage errors + files with parse errors + failing models** (the code as it
    is), for every invocation argparse accepts; in particular 0 on full success. -/
theorem exit_counts (inv : Inv) (hap : inv.argparse = .ok)
    (hm : ¬ (inv.target ≠ .none ∧ inv.models = [])) :
    ∃ w, main .fixed inv = .ret (usageCount inv + parseErrorFiles inv + failingModels inv) w := by
  have hm' : ¬(inv.target ≠ .none ∧ inv.models.isEmpty = true) := by
    simpa [List.isEmpty_iff] using hm
  unfold main
  rw [hap]
  simp only [if_neg hm']
  by_cases hu : usageErrors inv = 0
  · by_cases hf : (allFiles inv).isEmpty = true
    · cases ht : inv.target <;>
        simp [hu, hf, ht, usageCount, parseErrorFiles, failingModels]
    · by_cases hb : ∀ a ∈ allFiles inv, a.parse = .ok
      · have hfil : (allFiles inv).filter (fun f => !decide (f.parse = .ok)) = [] := by
          simpa [List.filter_eq_nil_iff] using hb
        cases ht : inv.target
        · simp [hu, hf, ht, hfil, usageCount, parseErrorFiles, failingModels, parseAll_fixed,
            flattenLoop_eq, modelFails_none]
        · simp [hu, hf, ht, hfil, usageCount, parseErrorFiles, failingModels, parseAll_fixed,
            sympyLoop_fixed, modelFails_sympy]
        · simp [hu, hf, ht, usageCount, parseErrorFiles, failingModels, casadiLoop_fixed]
      · cases ht : inv.target
        · simp [hu, hf, ht, hb, usageCount, parseErrorFiles, failingModels, parseAll_fixed]
        · simp [hu, hf, ht, hb, usageCount, parseErrorFiles, failingModels, parseAll_fixed]
        · simp [hu, hf, ht, usageCount, parseErrorFiles, failingModels, casadiLoop_fixed]
  · refine ⟨[], ?_⟩
    simp [hu, usageCount, parseErrorFiles, failingModels]

-- non-vacuity: an accepted invocation with one usage error, and one with a failing model
example : main .fixed ⟨.ok, .none, true, [⟨true, [⟨"A", 0, .ok⟩]⟩], [],
    [⟨"A", true, .ok, []⟩, ⟨"Nope", false, .ok, []⟩]⟩ = .ret 1 [] := by decide

/-- `-t sympy`: the files written are exactly those of the models that succeed, in request order. -/
theorem sympy_written (inv : Inv) (hap : inv.argparse = .ok) (ht : inv.target = .sympy)
    (hms : inv.models ≠ []) (hu : usageCount inv = 0) (hp : parseErrorFiles inv = 0) :
    main .fixed inv = .ret (failingModels inv)
      ((inv.models.filter (fun m => m.sympy == .ok)).map (·.name)) := by
  have hu0 : usageErrors inv = 0 := by unfold usageCount at hu; omega
  have hf : ¬ (allFiles inv).isEmpty = true := by
    intro hf; simp [usageCount, hu0, hf] at hu
  have hb : ∀ a ∈ allFiles inv, a.parse = .ok := by
    simpa [parseErrorFiles, hu, ht, List.filter_eq_nil_iff] using hp
  have hfil : (allFiles inv).filter (fun f => !decide (f.parse = .ok)) = [] := by
    simpa [List.filter_eq_nil_iff] using hb
  have hm' : ¬(inv.target ≠ .none ∧ inv.models.isEmpty = true) := by
    simp [List.isEmpty_iff, hms]
  unfold main
  rw [hap]
  simp only [if_neg hm']
  simp [hu0, hf, ht, hfil, failingModels, hu, hp, parseAll_fixed, sympyLoop_fixed, modelFails_sympy]

/-- **Per-model independence** (the code as it is): when nothing stops the tool
    before the model loop, the status of an invocation requesting `ms` is the sum of the
    statuses of the same invocation requesting each model alone — a model succeeds or fails
    the same way whatever else is requested. -/
theorem per_model_independent (inv : Inv) (hap : inv.argparse = .ok)
    (hu : usageCount inv = 0) (hp : parseErrorFiles inv = 0) (ms : List ModelReq) (hms : ms ≠ []) :
    (main .fixed (inv.withModels ms)).status =
      some ((ms.map (fun m => ((main .fixed (inv.withModels [m])).status).getD 0)).sum) := by
  have key : ∀ l : List ModelReq, l ≠ [] →
      (main .fixed (inv.withModels l)).status
        = some ((l.filter (modelFails inv.target (allFiles inv))).length) := by
    intro l hl
    obtain ⟨w, hw⟩ := exit_counts (inv.withModels l) hap (by simp [Inv.withModels, hl])
    have h1 : usageCount (inv.withModels l) = usageCount inv := rfl
    have h2 : parseErrorFiles (inv.withModels l) = parseErrorFiles inv := rfl
    have h3 : failingModels (inv.withModels l)
        = (l.filter (modelFails inv.target (allFiles inv))).length := by
      show (if usageCount inv = 0 ∧ parseErrorFiles inv = 0 then _ else 0) = _
      simp [hu, hp, Inv.withModels, allFiles]
    rw [hw, h1, h2, h3, hu, hp]
    simp [Outcome.status]
  rw [key ms hms, count_eq_sum]
  congr 1
  apply congrArg
  apply List.map_congr_left
  intro m _
  rw [key [m] (by simp)]
  cases h : modelFails inv.target (allFiles inv) m <;> simp [List.filter_cons, h]

example : usageCount ⟨.ok, .none, true, [⟨true, [⟨"A", 0, .ok⟩]⟩], [], []⟩ = 0 ∧
    parseErrorFiles ⟨.ok, .none, true, [⟨true, [⟨"A", 0, .ok⟩]⟩], [], []⟩ = 0 := by decide

/-- **The code before c313463**, outside the input classes of the findings it fixed: no listed file
    makes `parse_file` raise (C26-F4), `-t sympy` only with models whose translation succeeds
    (C26-F1, C26-F2), `-t casadi` only with models that have at least one listed file of that
    name (C26-F3).  *Missing for the full property:* exactly these three classes — see
    `old_sympy_exception_escapes`, `old_sympy_failures_not_counted`,
    `old_casadi_counts`, `old_undecodable_escapes`. -/
theorem exit_counts_old_partial (inv : Inv) (hap : inv.argparse = .ok)
    (hm : ¬ (inv.target ≠ .none ∧ inv.models = []))
    (h4 : ∀ f ∈ allFiles inv, f.parse ≠ .raise)
    (h12 : inv.target = .sympy → ∀ m ∈ inv.models, m.sympy = .ok)
    (h3 : inv.target = .casadi → ∀ m ∈ inv.models,
            (allFiles inv).filter (fun f => f.stem = m.name) ≠ []) :
    ∃ w, main .old inv = .ret (usageCount inv + parseErrorFiles inv + failingModels inv) w := by
  have hm' : ¬(inv.target ≠ .none ∧ inv.models.isEmpty = true) := by
    simpa [List.isEmpty_iff] using hm
  unfold main
  rw [hap]
  simp only [if_neg hm']
  by_cases hu : usageErrors inv = 0
  · by_cases hf : (allFiles inv).isEmpty = true
    · cases ht : inv.target <;>
        simp [hu, hf, ht, usageCount, parseErrorFiles, failingModels]
    · by_cases hb : ∀ a ∈ allFiles inv, a.parse = .ok
      · have hfil : (allFiles inv).filter (fun f => !decide (f.parse = .ok)) = [] := by
          simpa [List.filter_eq_nil_iff] using hb
        cases ht : inv.target
        · simp [hu, hf, ht, hfil, usageCount, parseErrorFiles, failingModels, parseAll_old _ h4,
            flattenLoop_eq, modelFails_none]
        · have hno : ∀ m ∈ inv.models, m.sympy ≠ .raise := by
            intro m hmm; rw [h12 ht m hmm]; decide
          have hall : inv.models.filter (fun m => m.sympy != .ok) = [] := by
            simp only [List.filter_eq_nil_iff]
            intro m hmm; simp [h12 ht m hmm]
          simp [hu, hf, ht, hfil, usageCount, parseErrorFiles, failingModels, parseAll_old _ h4,
            sympyLoop_old _ _ _ hno, modelFails_sympy, hall]
        · have hc : inv.models.filter
                (fun m => oldCasadiCounts m ((allFiles inv).filter (fun f => f.stem = m.name)))
              = inv.models.filter (modelFails .casadi (allFiles inv)) := by
            apply List.filter_congr
            intro m hmm
            exact oldCasadiCounts_eq m _ (h3 ht m hmm)
          simp [hu, hf, ht, usageCount, parseErrorFiles, failingModels, casadiLoop_old, hc]
      · cases ht : inv.target
        · simp [hu, hf, ht, hb, usageCount, parseErrorFiles, failingModels, parseAll_old _ h4]
        · simp [hu, hf, ht, hb, usageCount, parseErrorFiles, failingModels, parseAll_old _ h4]
        · have hc : inv.models.filter
                (fun m => oldCasadiCounts m ((allFiles inv).filter (fun f => f.stem = m.name)))
              = inv.models.filter (modelFails .casadi (allFiles inv)) := by
            apply List.filter_congr
            intro m hmm
            exact oldCasadiCounts_eq m _ (h3 ht m hmm)
          simp [hu, hf, ht, usageCount, parseErrorFiles, failingModels, casadiLoop_old, hc]
  · refine ⟨[], ?_⟩
    simp [hu, usageCount, parseErrorFiles, failingModels]

-- non-vacuity: flatten-only with a failing model and casadi with an ambiguous one satisfy the hypotheses
example : main .old ⟨.ok, .casadi, true, [⟨true, [⟨"A", 0, .ok⟩, ⟨"A", 1, .ok⟩, ⟨"B", 1, .ok⟩]⟩], [],
    [⟨"A", true, .ok, [(0, true), (1, true)]⟩, ⟨"B", true, .ok, [(1, false)]⟩]⟩ = .ret 2 [] := by decide

/-- C26-F1 on the model: before the fix, with `-t sympy` a model whose translation raises makes the
    exception escape `main` (nothing is counted, later models are not attempted). -/
theorem old_sympy_exception_escapes (inv : Inv) (hap : inv.argparse = .ok)
    (ht : inv.target = .sympy) (hu : usageCount inv = 0) (hp : parseErrorFiles inv = 0)
    (h4 : ∀ f ∈ allFiles inv, f.parse ≠ .raise)
    (hr : ∃ m ∈ inv.models, m.sympy = .raise) : main .old inv = .raised := by
  have hu0 : usageErrors inv = 0 := by unfold usageCount at hu; omega
  have hf : ¬ (allFiles inv).isEmpty = true := by
    intro hf; simp [usageCount, hu0, hf] at hu
  have hb : ∀ a ∈ allFiles inv, a.parse = .ok := by
    simpa [parseErrorFiles, hu, ht, List.filter_eq_nil_iff] using hp
  have hfil : (allFiles inv).filter (fun f => !decide (f.parse = .ok)) = [] := by
    simpa [List.filter_eq_nil_iff] using hb
  have hms : inv.models ≠ [] := by
    obtain ⟨m, hm, _⟩ := hr; intro h; simp [h] at hm
  have hm' : ¬(inv.target ≠ .none ∧ inv.models.isEmpty = true) := by
    simp [List.isEmpty_iff, hms]
  unfold main
  rw [hap]
  simp only [if_neg hm']
  simp [hu0, hf, ht, hfil, parseAll_old _ h4, sympyLoop_old_raise _ _ _ hr]

/-- C26-F2 on the model: before the fix, with `-t sympy` and no raising model the status is 0 however
    many translations report failure. -/
theorem old_sympy_failures_not_counted (inv : Inv) (hap : inv.argparse = .ok)
    (ht : inv.target = .sympy) (hms : inv.models ≠ []) (hu : usageCount inv = 0)
    (hp : parseErrorFiles inv = 0) (h4 : ∀ f ∈ allFiles inv, f.parse ≠ .raise)
    (hr : ∀ m ∈ inv.models, m.sympy ≠ .raise) :
    main .old inv = .ret 0 ((inv.models.filter (fun m => m.sympy == .ok)).map (·.name)) := by
  have hu0 : usageErrors inv = 0 := by unfold usageCount at hu; omega
  have hf : ¬ (allFiles inv).isEmpty = true := by
    intro hf; simp [usageCount, hu0, hf] at hu
  have hb : ∀ a ∈ allFiles inv, a.parse = .ok := by
    simpa [parseErrorFiles, hu, ht, List.filter_eq_nil_iff] using hp
  have hfil : (allFiles inv).filter (fun f => !decide (f.parse = .ok)) = [] := by
    simpa [List.filter_eq_nil_iff] using hb
  have hm' : ¬(inv.target ≠ .none ∧ inv.models.isEmpty = true) := by
    simp [List.isEmpty_iff, hms]
  unfold main
  rw [hap]
  simp only [if_neg hm']
  simp [hu0, hf, ht, hfil, parseAll_old _ h4, sympyLoop_old _ _ _ hr]

/-- C26-F3 on the model: before the fix, `-t casadi` counts ambiguous models and failing transfers, but
    not the models for which no listed file exists. -/
theorem old_casadi_counts (inv : Inv) (hap : inv.argparse = .ok) (ht : inv.target = .casadi)
    (hms : inv.models ≠ []) (hu : usageCount inv = 0) :
    main .old inv = .ret ((inv.models.filter
      (fun m => oldCasadiCounts m ((allFiles inv).filter (fun f => f.stem = m.name)))).length) [] := by
  have hu0 : usageErrors inv = 0 := by unfold usageCount at hu; omega
  have hf : ¬ (allFiles inv).isEmpty = true := by
    intro hf; simp [usageCount, hu0, hf] at hu
  have hm' : ¬(inv.target ≠ .none ∧ inv.models.isEmpty = true) := by
    simp [List.isEmpty_iff, hms]
  unfold main
  rw [hap]
  simp only [if_neg hm']
  simp [hu0, hf, ht, casadiLoop_old]

/-- C26-F4 on the model: before the fix, a listed file on which `parse_file` raises (undecodable
    bytes) makes the exception escape `main` unless `-t casadi` is given. -/
theorem old_undecodable_escapes (inv : Inv) (hap : inv.argparse = .ok)
    (hm : ¬ (inv.target ≠ .none ∧ inv.models = [])) (ht : inv.target ≠ .casadi)
    (hu : usageErrors inv = 0) (hr : ∃ f ∈ allFiles inv, f.parse = .raise) :
    main .old inv = .raised := by
  have hm' : ¬(inv.target ≠ .none ∧ inv.models.isEmpty = true) := by
    simpa [List.isEmpty_iff] using hm
  have hf : ¬ (allFiles inv).isEmpty = true := by
    obtain ⟨f, hf, _⟩ := hr
    intro h; simp [List.isEmpty_iff] at h; simp [h] at hf
  unfold main
  rw [hap]
  simp only [if_neg hm']
  cases h : inv.target
  · simp [hu, hf, parseAll_old_raise _ hr]
  · simp [hu, hf, parseAll_old_raise _ hr]
  · exact absurd h ht

-- the four classes are inhabited, and there the old status differs from the count
example : main .old ⟨.ok, .sympy, true, [⟨true, [⟨"A", 0, .ok⟩]⟩], [], [⟨"Nope", false, .raise, []⟩]⟩ = .raised := by decide
example : main .old ⟨.ok, .sympy, true, [⟨true, [⟨"A", 0, .ok⟩]⟩], [], [⟨"A", true, .retFalse, []⟩]⟩ = .ret 0 [] ∧
    main .fixed ⟨.ok, .sympy, true, [⟨true, [⟨"A", 0, .ok⟩]⟩], [], [⟨"A", true, .retFalse, []⟩]⟩ = .ret 1 [] := by decide
example : main .old ⟨.ok, .casadi, true, [⟨true, [⟨"A", 0, .ok⟩]⟩], [], [⟨"Nope", false, .ok, []⟩]⟩ = .ret 0 [] ∧
    main .fixed ⟨.ok, .casadi, true, [⟨true, [⟨"A", 0, .ok⟩]⟩], [], [⟨"Nope", false, .ok, []⟩]⟩ = .ret 1 [] := by decide
example : main .old ⟨.ok, .none, true, [⟨true, [⟨"L", 0, .raise⟩]⟩], [], []⟩ = .raised ∧
    main .fixed ⟨.ok, .none, true, [⟨true, [⟨"L", 0, .raise⟩]⟩], [], []⟩ = .ret 1 [] := by decide

end PymocaVerif.Cli
