import PymocaVerif.Lemmas.GenIf
/-!
# Lemmas for C11: whole functions — `get_function` computes what running the algorithm section computes
-/
namespace PymocaVerif.Gen
open PymocaVerif.ExprSem

theorem mergeIf_eq_foldFromLast (tcs ts : List (CTerm K)) : mergeIf tcs ts = foldFromLast tcs ts := rfl

/-- The statements covered by the function theorem. -/
inductive SafeStmt : Stmt K → Prop
  /-- `x := e` -/
  | assign (x : String) (e : MExpr K) (he : mClosed [] e = true) : SafeStmt (.assign x e)
  /-- An if-statement whose branches (rows of right-hand sides, the else branch last) all assign the
      variables `xs` once each in this order, and whose conditions do not read a variable assigned
      before the last one. -/
  | ifs (cs : List (MExpr K)) (xs : List String) (r : List (MExpr K)) (rest : List (List (MExpr K)))
      (hn : xs.Nodup) (hl : ∀ q ∈ r :: rest, q.length = xs.length) (hlen : (r :: rest).length = cs.length + 1)
      (hcc : cs.all (mClosed []) = true) (hrc : ∀ q ∈ r :: rest, q.all (mClosed []) = true)
      (hm : ∀ c ∈ cs, ∀ y ∈ xs.dropLast, mentions y c = false) :
      SafeStmt (.ifs cs ((r :: rest).map fun q => xs.zip q))
  /-- A for-statement over assignments (the loop index may be used as a number). -/
  | for (i : String) (start : Int) (stop : IdxE) (step : Int) (body : List (String × MExpr K))
      (hb : ∀ b ∈ body, mClosed [i] b.2 = true) : SafeStmt (.for i start stop step body)

theorem sameLengths_aligned (xs : List String) (r : List (MExpr K)) (rest : List (List (MExpr K)))
    (hl : ∀ q ∈ r :: rest, q.length = xs.length) :
    sameLengths ((r :: rest).map fun q => xs.zip q) = true := by
  simp only [List.map_cons, sameLengths, List.all_map, List.all_eq_true]
  intro q hq
  simp [hl q (by simp [hq]), hl r (by simp)]

theorem genStmt_ifs (P : Prims K) (o : Opts) (T : FTab K) (F : FSem K) (hT : TabOK P T F)
    (hS : NoShadow T) (cs : List (MExpr K)) (xs : List String) (r : List (MExpr K))
    (rest : List (List (MExpr K))) (hn : xs.Nodup) (hl : ∀ q ∈ r :: rest, q.length = xs.length)
    (hlen : (r :: rest).length = cs.length + 1) (hcc : cs.all (mClosed []) = true)
    (hrc : ∀ q ∈ r :: rest, q.all (mClosed []) = true)
    (hm : ∀ c ∈ cs, ∀ y ∈ xs.dropLast, mentions y c = false) (as : List (String × CTerm K))
    (h : genStmt P o T (.ifs cs ((r :: rest).map fun q => xs.zip q)) = .ok as) :
    StmtSpec P F (.ifs cs ((r :: rest).map fun q => xs.zip q)) as := by
  simp only [genStmt] at h
  obtain ⟨tcs, htcs, h2⟩ := bind_ok.mp h
  obtain ⟨tbs, htbs, h3⟩ := bind_ok.mp h2
  obtain ⟨rowsT, hrowsT, rfl⟩ := genRhsBlocks_aligned P o T xs (r :: rest) tbs hl htbs
  have hspec := genRows_spec P o T xs.length (r :: rest) rowsT hl hrowsT
  have hrcl := genRows_closed P o T (r :: rest) rowsT hrc hrowsT
  cases rowsT with
  | nil => simp at hspec
  | cons rT restT =>
    rw [sameLengths_aligned xs r rest hl] at h3
    simp only [Bool.not_true, Bool.false_eq_true, if_false] at h3
    rw [expandBlocks_aligned xs hn rT restT hspec.2] at h3
    split at h3
    · cases h3
    · simp only [Except.ok.injEq] at h3
      have htl : tcs.length = cs.length := genL_length P o T cs tcs htcs
      have hcol : ∀ p ∈ xs.zip (colsOf xs.length (rT :: restT)), mergeIf tcs p.2 = nestAll tcs p.2 := by
        intro p hp
        have hc := colsOf_col_length xs.length (rT :: restT) hspec.2 p.2 (List.of_mem_zip hp).2
        rw [mergeIf_eq_foldFromLast, foldFromLast_eq_nestAll]
        rw [hc, hspec.1, hlen, htl]
      have has : as = ifAssigns tcs xs (rT :: restT) := by
        rw [← h3]
        simp only [ifAssigns]
        exact List.map_congr_left (fun p hp => by rw [hcol p hp])
      subst has
      refine ⟨fun p hp => ?_, fun σ => ?_⟩
      · simp only [ifAssigns, List.mem_map] at hp
        obtain ⟨q, hq, rfl⟩ := hp
        simp only
        rw [← hcol q hq, mergeIf_eq_foldFromLast]
        refine foldFromLast_closed [] tcs q.2 (genL_closed P o T [] cs tcs hcc htcs) ?_
        rw [List.all_eq_true]
        intro t ht
        obtain ⟨row, hrow, htr⟩ := colsOf_mem xs.length (rT :: restT) q.2 (List.of_mem_zip hq).2 t ht
        exact (List.all_eq_true.mp (hrcl row hrow)) t htr
      · simpa [execStmt] using ifs_refines P o T F hT hS xs cs (r :: rest) tcs (rT :: restT) htcs hrowsT hl hm σ

theorem genStmt_safe (P : Prims K) (o : Opts) (T : FTab K) (F : FSem K) (hT : TabOK P T F)
    (hS : NoShadow T) (s : Stmt K) (hs : SafeStmt s) (as : List (String × CTerm K))
    (h : genStmt P o T s = .ok as) : StmtSpec P F s as := by
  cases hs with
  | assign x e he => exact genStmt_assign P o T F hT hS x e he as h
  | ifs cs xs r rest hn hl hlen hcc hrc hm => exact genStmt_ifs P o T F hT hS cs xs r rest hn hl hlen hcc hrc hm as h
  | «for» i start stop step body hb => exact genStmt_for P o T F hT hS i start stop step body hb as h

def SafeFunc (f : MFunc K) : Prop :=
  (∀ s ∈ f.body, SafeStmt s) ∧ (∀ x ∈ f.locals, x ∉ f.inputs)

theorem genStmts_inv (P : Prims K) (o : Opts) (T : FTab K) (F : FSem K) (hT : TabOK P T F)
    (hS : NoShadow T) (ρin : Env K) (hsh : ρin.shape = fun _ => none) (hix : ρin.idx = fun _ => none) :
    ∀ (body : List (Stmt K)), (∀ s ∈ body, SafeStmt s) → ∀ (vals vals' : SymVals K) (σ σ' : Store K),
    genStmts P o T body vals = .ok vals' → execBody P F body σ = some σ' →
    Inv P ρin vals σ → Inv P ρin vals' σ'
  | [], _, vals, vals', σ, σ', hg, he, hinv => by
    simp [genStmts] at hg; simp [execBody] at he; subst hg; subst he; exact hinv
  | s :: ss, hs, vals, vals', σ, σ', hg, he, hinv => by
    simp only [genStmts] at hg
    obtain ⟨as, has, hg2⟩ := bind_ok.mp hg
    have hspec := genStmt_safe P o T F hT hS s (hs s (by simp)) as has
    simp only [execBody] at he
    cases he1 : execStmt P F σ s with
    | none => simp [he1] at he
    | some σ1 =>
      simp [he1] at he
      have hrun := hspec.sem σ σ1 he1
      have hinv1 := applyAssigns_inv P ρin hsh hix as vals σ σ1 hspec.closed hrun hinv
      exact genStmts_inv P o T F hT hS ρin hsh hix ss (fun s' hs' => hs s' (by simp [hs'])) _ vals' σ1 σ' hg2 he hinv1

theorem get_init (inputs : List String) (y : String) :
    SymVals.get (inputs.map (fun x => (x, (CTerm.ref x [] : CTerm K)))) y =
      if y ∈ inputs then some (.ref y []) else none := by
  induction inputs with
  | nil => simp [SymVals.get]
  | cons a rest ih =>
    simp only [List.map_cons, SymVals.get, ih, List.mem_cons]
    by_cases h : a = y
    · subst h; simp
    · have h' : ¬ y = a := fun e => h e.symm
      simp [h, h']

theorem store_get_mem : ∀ (xs : List String) (vs : List (List K)) (y : String) (v : List K),
    Store.get (xs.zip vs) y = some v → y ∈ xs
  | [], vs, y, v, h => by simp [Store.get] at h
  | x :: xs, [], y, v, h => by simp [Store.get] at h
  | x :: xs, w :: vs, y, v, h => by
    simp only [List.zip_cons_cons, Store.get] at h
    by_cases hxy : x = y
    · simp [hxy]
    · simp only [hxy, if_false] at h
      simp [store_get_mem xs vs y v h]

theorem lookupAll_cons_ok {vals : SymVals K} {x : String} {xs : List String}
    {ps : List (String × CTerm K)} (h : lookupAll vals (x :: xs) = .ok ps) :
    ∃ t rest, SymVals.get vals x = some t ∧ lookupAll vals xs = .ok rest ∧ ps = (x, t) :: rest := by
  simp only [lookupAll] at h
  cases hg : SymVals.get vals x with
  | none => simp [hg] at h
  | some t =>
    simp only [hg] at h
    obtain ⟨rest, hrest, hc⟩ := bind_ok.mp h
    cases hc
    exact ⟨t, rest, rfl, hrest, rfl⟩

theorem lookupAll_spec (vals : SymVals K) : ∀ (xs : List String) (ps : List (String × CTerm K)),
    lookupAll vals xs = .ok ps →
    ps.map (·.1) = xs ∧ ∀ p ∈ ps, SymVals.get vals p.1 = some p.2
  | [], ps, h => by simp [lookupAll] at h; subst h; simp
  | x :: xs, ps, h => by
    obtain ⟨t, rest, hget, hrest, rfl⟩ := lookupAll_cons_ok h
    have ih := lookupAll_spec vals xs rest hrest
    refine ⟨by simp [ih.1], ?_⟩
    intro p hp
    simp only [List.mem_cons] at hp
    cases hp with
    | inl h1 => subst h1; exact hget
    | inr h1 => exact ih.2 p h1

theorem get_of_lookupAll (vals : SymVals K) (xs : List String) (ps : List (String × CTerm K))
    (h : lookupAll vals xs = .ok ps) (y : String) (s : CTerm K) (hy : SymVals.get ps y = some s) :
    y ∈ xs := by
  have hk := (lookupAll_spec vals xs ps h).1
  have : y ∈ ps.map (·.1) := by
    clear hk h
    induction ps with
    | nil => simp [SymVals.get] at hy
    | cons p rest ih =>
      simp only [SymVals.get] at hy
      by_cases hp : p.1 = y
      · simp [hp]
      · simp only [hp, if_false] at hy
        simp [ih hy]
  rwa [hk] at this


theorem get_mem : ∀ (σ : SymVals K) (x : String) (s : CTerm K), SymVals.get σ x = some s → (x, s) ∈ σ
  | [], _, _, h => by simp [SymVals.get] at h
  | (y, t) :: rest, x, s, h => by
    simp only [SymVals.get] at h
    by_cases hyx : y = x
    · simp only [hyx, if_true, Option.some.injEq] at h
      subst h; subst hyx; simp
    · simp only [hyx, if_false] at h
      simp [get_mem rest x s h]

/-- `get_function`: the translated function computes what running the algorithm section computes. -/
theorem genFunc_refines (P : Prims K) (o : Opts) (T : FTab K) (F : FSem K) (hT : TabOK P T F)
    (hS : NoShadow T) (f : MFunc K) (hf : SafeFunc f) (fn : CFunc K) (h : genFunc P o T f = .ok fn)
    (vs : List (List K)) : Refines (evalCF P fn vs) (funcSem P F f vs) := by
  unfold genFunc at h
  obtain ⟨vals, hvals, h2⟩ := bind_ok.mp h
  obtain ⟨outs, houts, h3⟩ := bind_ok.mp h2
  obtain ⟨tmps, htmps, hc⟩ := bind_ok.mp h3
  cases hc
  intro r hr
  unfold funcSem at hr
  split at hr
  · rename_i hlen
    cases hσ : execBody P F f.body (f.inputs.zip vs) with
    | none => simp [hσ] at hr
    | some σ =>
      cases hov : getAll σ f.outputs with
      | none => simp [hσ, hov] at hr
      | some ovs =>
        simp [hσ, hov] at hr
        let ρin : Env K := funcEnv f.inputs vs
        have hsh : ρin.shape = fun _ => none := rfl
        have hix : ρin.idx = fun _ => none := rfl
        have hinit : Inv P ρin (f.inputs.map (fun x => (x, .ref x []))) (f.inputs.zip vs) := by
          refine ⟨fun y => ?_, fun y s hy => ?_⟩
          · simp only [over, get_init]
            by_cases hy : y ∈ f.inputs
            · simp [hy, evalC, Env.lookup, ρin, funcEnv, storeEnv]
            · simp [hy, ρin, funcEnv, storeEnv]
          · rw [get_init] at hy
            split at hy
            · cases hy; rfl
            · cases hy
        have hinv := genStmts_inv P o T F hT hS ρin hsh hix f.body hf.1 _ vals _ σ hvals hσ hinit
        have htc : ValsClosed tmps := by
          intro x s hx
          have hmem := get_mem tmps x s hx
          exact hinv.2 x s ((lookupAll_spec vals f.locals tmps htmps).2 (x, s) hmem)
        have hle : Env.le ρin (over P ρin tmps) := by
          refine ⟨fun x v hx => ?_, rfl, rfl⟩
          simp only [over]
          cases hg : SymVals.get tmps x with
          | none => exact hx
          | some s =>
            have hloc := get_of_lookupAll vals f.locals tmps htmps x s hg
            have hin : x ∈ f.inputs := store_get_mem f.inputs vs x v (by simpa [ρin, funcEnv, storeEnv] using hx)
            exact absurd hin (hf.2 x hloc)
        have key : ∀ (xs : List String) (ps : List (String × CTerm K)) (ws : List (List K)),
            lookupAll vals xs = .ok ps → getAll σ xs = some ws →
            evalCL P ρin (ps.map fun p => subst tmps p.2) = some ws := by
          intro xs
          induction xs with
          | nil =>
            intro ps ws hp hw
            simp [lookupAll] at hp; simp [getAll] at hw; subst hp; subst hw; simp [evalCL]
          | cons x xs ih =>
            intro ps ws hp hw
            obtain ⟨t, rest, hget, hrest, rfl⟩ := lookupAll_cons_ok hp
            simp only [getAll] at hw
            cases hw1 : Store.get σ x with
            | none => simp [hw1] at hw
            | some w =>
              cases hw2 : getAll σ xs with
              | none => simp [hw1, hw2] at hw
              | some ws' =>
                simp [hw1, hw2] at hw; subst hw
                have hval : evalC P ρin t = some w := by
                  have := hinv.1 x
                  simpa [over, hget, hw1] using this
                have hsub : evalC P ρin (subst tmps t) = some w := by
                  rw [evalC_subst P tmps htc t ρin (fun y s _ => by simp [hsh])]
                  exact evalC_mono P t ρin (over P ρin tmps) hle w hval
                simp [evalCL, hsub, ih rest ws' hrest hw2]
        have := key f.outputs outs ovs houts hov
        simp [evalCF, hlen, evalCs_ofList, ρin] at this ⊢
        simp [this, hr]
  · cases hr

end PymocaVerif.Gen
