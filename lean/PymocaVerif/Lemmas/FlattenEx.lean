import PymocaVerif.Lemmas.FlattenMods
/-! The shape of a successful `flattenF`, and a small concrete library used by the `example`s of
    Props/C07 and Props/C08 to show that the theorems' hypotheses are satisfiable. -/
namespace PymocaVerif.Flatten

instance {ε α : Type} [DecidableEq ε] [DecidableEq α] : DecidableEq (Except ε α)
  | .ok a, .ok b => if h : a = b then isTrue (by rw [h]) else isFalse (fun h' => by cases h'; exact h rfl)
  | .error a, .error b => if h : a = b then isTrue (by rw [h]) else isFalse (fun h' => by cases h'; exact h rfl)
  | .ok _, .error _ => isFalse (fun h => by cases h)
  | .error _, .ok _ => isFalse (fun h => by cases h)

theorem flattenF_ok {fuel : Nat} {lib : Lib} {t : Path} {m : FlatModel} (h : flattenF fuel lib t = .ok m) :
    ∃ r, instF fuel lib t [] [] [] = .ok r ∧ m = assemble r ∧ instTop fuel lib t = .ok r := by
  unfold flattenF at h
  split at h
  · cases h
  · rename_i r hr
    cases h
    have hr' := hr
    unfold instTop at hr
    split at hr
    · cases hr
    · cases hr
    · exact ⟨r, hr, rfl, hr'⟩

/-! ## a small library used to show that hypotheses are satisfiable -/

/-- `model Leaf parameter Real k = 1; input Real u; Real w[2]; equation w[1] = k*u; end Leaf;`
    `model Base Leaf lb(k = 5); Real b(start = 1); equation b = lb.u; end Base;`
    `model M extends Base(b(start = 3)); Leaf l2[3]; output Real y; equation y = l2[1].u + b; end M;` -/
def exLeaf : ClassDef := ClassDef.mk false []
  [Comp.mk "k" (.builtin "Real") ["parameter"] [] [Mod.mk [] (.num 1)],
   Comp.mk "u" (.builtin "Real") ["input"] [] [],
   Comp.mk "w" (.builtin "Real") [] [2] []]
  [(.ref [("w", [1])], .bin "*" (.ref [("k", [])]) (.ref [("u", [])]))]
def exBase : ClassDef := ClassDef.mk false []
  [Comp.mk "lb" (.cls ["Leaf"]) [] [] [Mod.mk ["k"] (.num 5)],
   Comp.mk "b" (.builtin "Real") [] [] [Mod.mk ["start"] (.num 1)]]
  [(.ref [("b", [])], .ref [("lb", []), ("u", [])])]
def exM : ClassDef := ClassDef.mk false [(.cls ["Base"], [Mod.mk ["b", "start"] (.num 3)])]
  [Comp.mk "l2" (.cls ["Leaf"]) [] [3] [],
   Comp.mk "y" (.builtin "Real") ["output"] [] []]
  [(.ref [("y", [])], .bin "+" (.ref [("l2", [1]), ("u", [])]) (.ref [("b", [])]))]
def exLib : Lib := [(["Leaf"], exLeaf), (["Base"], exBase), (["M"], exM)]

def exFlat : FlatModel := (match flattenF 6 exLib ["M"] with | .ok m => m | .error _ => ⟨[], []⟩)

theorem exFlat_ok : flattenF 6 exLib ["M"] = .ok exFlat := by
  have h : (flattenF 6 exLib ["M"]).toOption.isSome = true := by decide +kernel
  unfold exFlat
  split
  · rename_i m hm; rw [hm]
  · rename_i e he; rw [he] at h; simp [Except.toOption] at h

theorem exFlat_paths : exFlat.vars.map (·.path) =
    [["lb", "k"], ["lb", "u"], ["lb", "w"], ["b"], ["l2", "k"], ["l2", "u"], ["l2", "w"], ["y"]] := by
  decide +kernel


theorem exInst_ok : ∃ r, instF 6 exLib ["M"] [] [] [] = .ok r ∧ exFlat = assemble r := by
  obtain ⟨r, hr, hm, _⟩ := flattenF_ok exFlat_ok
  exact ⟨r, hr, hm⟩

end PymocaVerif.Flatten
