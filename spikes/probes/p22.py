import os, tempfile, itertools
import numpy as np, casadi as ca
from pymoca.backends.casadi.api import transfer_model
def build(txt, name, opts=None):
    d = tempfile.mkdtemp(); open(os.path.join(d, name + ".mo"), "w").write(txt)
    try:
        m = transfer_model(d, name, opts or {})
        return "accepted", m
    except Exception as e:
        return "REJECT %s: %s" % (type(e).__name__, str(e)[:70]), None
durs = {"const": "c", "param": "p", "fixed_input": "uf", "free_input": "u", "state": "x", "alg": "y", "time": "time", "der": "der(x)", "param+const": "p + c", "literal": "3", "param*input_fixed": "p*uf", "alg_zero": "0*y"}
for k, d in durs.items():
    txt = """model M
 constant Real c = 2; parameter Real p = 3; input Real uf(fixed=true); input Real u; Real x; Real y; Real z;
equation
 der(x) = u + uf; y = 2*x; z = delay(x + y, %s);
end M;""" % d
    r, m = build(txt, "M")
    extra = ""
    if m is not None:
        f = m.delay_arguments_function
        extra = " delay_states=%s nout=%d" % (m.delay_states, f.n_out())
    print("%-20s %-14s -> %s%s" % (k, d, r, extra))
# options neutrality C12 quick
txt = """function f input Real a; output Real b; algorithm b := 2*a + 1; end f;
model M Real x[3]; Real y; parameter Real p = 2;
equation for i in 1:3 loop x[i] = f(i*p) + y; end for; der(y) = f(y);
end M;"""
res = {}
for ul, inl, ex in itertools.product([True, False], repeat=3):
    r, m = build(txt, "M", {"unroll_loops": ul, "inline_functions": inl, "expand_mx": ex})
    if m is None: print((ul, inl, ex), r); continue
    f = m.dae_residual_function
    out = f(0.5, [2.0], [0.25], [1.0, 3.0, -2.0], [], [], [4.0])
    res[(ul, inl, ex)] = ([v.symbol.name() for v in m.states + m.alg_states + m.parameters], np.array(out).ravel().tolist())
vals = set(str(v) for v in res.values()); print("C12 distinct results:", len(vals)); print(list(res.values())[0])
