"""Predicates of the open findings of C24 (SymPy backend).  Each recognises one failing input
class at one call site, from the case and the oracle's message alone."""
import keyword
import re

from harness.common import known_predicate


def _flat_names(case):
    cls_of = {x["cls"]: x for x in case.get("subs", [])}
    dotted = ["%s.%s" % (i["n"], d["n"]) for i in case.get("insts", []) for d in cls_of[i["cls"]]["decls"]]
    return [d["n"] for d in case.get("decls", [])] + dotted


def _vars(e, acc):
    if e[0] == "v":
        acc.add(e[1])
    elif e[0] == "b":
        _vars(e[2], acc), _vars(e[3], acc)
    elif e[0] in ("u", "c"):
        _vars(e[2], acc)
    elif e[0] == "d":
        _vars(e[1], acc)
    return acc


def _colliding(case):
    """Flat names that share their mangled form with another declared name: equal after
    '.' -> '__', or equal up to trailing underscores (the builtin-avoidance suffix)."""
    names = _flat_names(case)
    key = {}
    for n in names:
        key.setdefault(n.replace(".", "__").rstrip("_"), []).append(n)
    out = set()
    for k, group in key.items():
        if len(set(group)) > 1:
            out |= set(group)
    return out


@known_predicate
def c24_unparenthesised_operands(case, what):
    """exitExpression pastes operand texts without parentheses: an equation whose tree regroups
    under Python's precedence evaluates differently (only while the committed printer is in use)."""
    f = case.get("focus", {})
    return (f.get("printer") == "cur" and f.get("stage") == "eqs" and f.get("needs_parens") is True
            and what.startswith("an element of eqs evaluates differently"))


@known_predicate
def c24_mangled_name_collision(case, what):
    """Two flat names with one mangled identifier (a.b / a__b, a_.b / a._b, copy / copy_)."""
    f = case.get("focus", {})
    col = _colliding(case)
    if not col:
        return False
    if f.get("stage") in ("lists", "distinct"):
        return True
    if f.get("stage") == "eqs" and what.startswith(("an element of eqs evaluates differently", "equation")):
        used = set()
        for side in f.get("flat") or []:
            _vars(side, used)
        return bool(used & col) or not f.get("flat")
    return False


@known_predicate
def c24_expression_valued_constant(case, what):
    """A parameter/constant whose value is an expression (e.g. -2) is rendered as `name : ,`."""
    f = case.get("focus", {})
    if f.get("stage") != "compile" or not re.match(r"^\S+ : ,$", f.get("line") or ""):
        return False
    return any(d.get("val") is not None and d["val"][0] != "n" for d in case.get("decls", []))


_TEMPLATE_NAMES = {"self", "super", "sympy", "mech"}


@known_predicate
def c24_reserved_python_name(case, what):
    """A variable named like a Python keyword or like a name the template itself uses."""
    f = case.get("focus", {})
    names = set(_flat_names(case))
    if f.get("stage") == "compile":
        kws = [n for n in names if keyword.iskeyword(n)]
        line = f.get("line") or ""
        return any(re.search(r"(?<![\w.])%s(?!\w)" % re.escape(k), line) for k in kws)
    if f.get("stage") == "exec":
        return bool(names & _TEMPLATE_NAMES) and f.get("exc") in ("UnboundLocalError", "AttributeError", "TypeError")
    return False


@known_predicate
def c24_other_prefix_symbol_dropped(case, what):
    """A symbol whose only prefix is `discrete` is put in no list and never created."""
    f = case.get("focus", {})
    disc = [d["n"] for d in case.get("decls", []) if d.get("pre") == "discrete"]
    if not disc:
        return False
    if f.get("stage") == "exec" and f.get("exc") == "NameError":
        return any(("'%s'" % n) in (f.get("msg") or "") for n in disc)
    if f.get("stage") == "lists" and f.get("list") == "v":
        return True
    if f.get("stage") == "distinct" and what.startswith("number of created symbols"):
        return True
    return False
