"""Predicates of the open C26 findings (the input classes of proposed_fixes/C26-1.diff)."""
from harness.common import known_predicate


def _reaches_models(case):
    return case.get("stage") == "models" and all(p == "ok" for p in case.get("parse", []))


@known_predicate
def c26_sympy_exception_escapes(case, what):
    """-t sympy, nothing wrong before the model loop, some requested model's translation raises."""
    return (what == "exception escaped main" and case.get("target") == "sympy" and _reaches_models(case)
            and any(m["sympy"] == "raise" for m in case.get("labels", []))
            and str(case.get("observed", "")).startswith("raised:"))


@known_predicate
def c26_sympy_false_ignored(case, what):
    """-t sympy, no raising model, status 0 although k translations returned False."""
    labels = case.get("labels", [])
    nfalse = sum(1 for m in labels if m["sympy"] == "false")
    return (what == "exit status differs from the error count" and case.get("target") == "sympy" and _reaches_models(case)
            and not any(m["sympy"] == "raise" for m in labels)
            and nfalse > 0 and case.get("expected") == nfalse and case.get("observed") == 0)


@known_predicate
def c26_casadi_nomatch_uncounted(case, what):
    """-t casadi: the status is short by exactly the number of requested models without any listed file."""
    nomatch = sum(1 for n in case.get("matches", []) if n == 0)
    exp, obs = case.get("expected"), case.get("observed")
    return (what == "exit status differs from the error count" and case.get("target") == "casadi"
            and case.get("stage") == "models" and nomatch > 0 and isinstance(exp, int) and isinstance(obs, int)
            and exp - obs == nomatch)


@known_predicate
def c26_undecodable_file_escapes(case, what):
    """a listed file cannot be decoded and the tool parses files itself (no -t casadi)."""
    return (what == "exception escaped main" and case.get("target") != "casadi" and case.get("stage") == "parse"
            and "raise" in case.get("parse", []) and case.get("observed") == "raised:UnicodeDecodeError")
