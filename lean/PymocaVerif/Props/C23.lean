/-! # C23 — property theorems (stub: not built yet) -/
