"""Predicates of the open findings of C20 (see known/C20.json)."""
from harness.common import known_predicate


def _ops(case):
    return case.get("ops", []) if isinstance(case, dict) else []


@known_predicate
def c20_library_folders_switch(case, what):
    """A cache hit that is stale, in a history whose `library_folders` list changed since the cache
    was written (load_model excludes that key from the option comparison)."""
    if "(decision: hit)" not in what or "differs from a fresh compile" not in what:
        return False
    libs_seen = [tuple(op[1]) for op in _ops(case) if op[0] == "libs"]
    return len(set(libs_seen)) >= 2 and not any(op[0] == "transfer-keep" for op in _ops(case))


@known_predicate
def c20_live_shared_library(case, what):
    """A stale hit after the shared libraries were rebuilt while a CachedModel loaded from the old
    ones is still alive in the process (dlopen returns the library that is already loaded)."""
    if "(decision: hit)" not in what or "differs from a fresh compile" not in what:
        return False
    ops = _ops(case)
    keep = [i for i, op in enumerate(ops) if op[0] == "transfer-keep" and op[1] == "codegen"]
    if not keep:
        return False
    later = ops[keep[0] + 1:]
    return any(op[0] == "write" for op in later) and ops[-1][0] in ("transfer", "transfer-keep") and ops[-1][1] == "codegen"
