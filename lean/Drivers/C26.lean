import Drivers.Proto
import PymocaVerif.Model.Cli
/-! Driver for C26: evaluates `Cli.main` on one abstracted invocation. -/
open Lean Drivers PymocaVerif.Cli

def parseParse (s : String) : Except String ParseOutcome :=
  match s with
  | "ok" => pure .ok | "error" => pure .error | "raise" => pure .raise
  | o => throw s!"bad parse outcome {o}"

def parseSympy (s : String) : Except String SympyOutcome :=
  match s with
  | "ok" => pure .ok | "false" => pure .retFalse | "raise" => pure .raise
  | o => throw s!"bad sympy outcome {o}"

def parseFile (j : Json) : Except String FileInfo := do
  pure { stem := ← getStr j "stem", dir := ← getNat j "dir", parse := ← parseParse (← getStr j "parse") }

def parsePath (j : Json) : Except String PathInfo := do
  let fs ← (← getArr j "files").toList.mapM parseFile
  pure { pexists := ← getBool j "exists", files := fs }

def parsePair (j : Json) : Except String (Nat × Bool) := do
  let a ← j.getArr?
  let d ← (a[0]?.getD Json.null).getNat?
  let b ← (a[1]?.getD Json.null).getBool?
  pure (d, b)

def parseModel (j : Json) : Except String ModelReq := do
  let cs ← (← getArr j "casadi").toList.mapM parsePair
  pure { name := ← getStr j "name", flattenOk := ← getBool j "flatten_ok",
         sympy := ← parseSympy (← getStr j "sympy"), casadi := cs }

def parseInv (req : Json) : Except String Inv := do
  let ap ← match (← getStr req "argparse") with
    | "ok" => pure Argparse.ok | "error" => pure Argparse.error | "exit0" => pure Argparse.exit0
    | o => throw s!"bad argparse verdict {o}"
  let tg ← match (← getStr req "target") with
    | "none" => pure Target.none | "sympy" => pure Target.sympy | "casadi" => pure Target.casadi
    | o => throw s!"bad target {o}"
  let paths ← (← getArr req "paths").toList.mapM parsePath
  let opts ← (← getArr req "options").toList.mapM (·.getBool?)
  let models ← (← getArr req "models").toList.mapM parseModel
  pure { argparse := ap, target := tg, outdirOk := ← getBool req "outdir_ok", paths := paths,
         options := opts, models := models }

def handle (req : Json) : Except String Json := do
  let op ← getStr req "op"
  match op with
  | "cli.main" => do
    let v ← match (← getStr req "variant") with
      | "old" => pure Variant.old | "fixed" => pure Variant.fixed
      | o => throw s!"bad variant {o}"
    let inv ← parseInv req
    let spec := usageCount inv + parseErrorFiles inv + failingModels inv
    match PymocaVerif.Cli.main v inv with
    | .ret n w => pure (Json.mkObj [("ok", true), ("kind", "return"), ("code", Json.num (n : Int)),
        ("written", jstrs w), ("spec", Json.num (spec : Int))])
    | .sysexit n => pure (Json.mkObj [("ok", true), ("kind", "sysexit"), ("code", Json.num (n : Int)),
        ("written", jstrs []), ("spec", Json.num (spec : Int))])
    | .raised => pure (Json.mkObj [("ok", true), ("kind", "raised"), ("written", jstrs []),
        ("spec", Json.num (spec : Int))])
  | o => throw s!"unknown-op {o}"

def main : IO Unit := serve handle
