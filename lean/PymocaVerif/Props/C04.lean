import PymocaVerif.Lemmas.ClassAsm
/-!
# C04 — the parsed class structure reflects the source declarations

Property theorems only (helper lemmas live in `Lemmas/ClassAsm.lean`).  They are about the model
`Model/ClassAsm.lean`: `runListener` is `ASTListener` as a state machine over the walker's enter/exit
events, `expected` / `specClass` the structural specification; `ClassSrc` values are class
descriptions of any size and nesting depth.  The readings `ClassSrc.names / views / declVis / exts /
imps / nested / deep`, `Sections.items` say what the source declares, in source order.
-/
namespace PymocaVerif.ClassAsm

/-- A small file used to show that the hypotheses below are satisfiable: two clauses (one with three
    declarators, clause-level and own subscripts, a modification), a nested class re-using a component
    name, an extends clause, an import, two public sections, equation sections in both flavours. -/
def demoClass : ClassSrc :=
  .mk ⟨"model", false, false, "A", "demo", none, 0⟩
    (.comp ⟨["parameter", "input"], ["Real"], some ["3"],
        [⟨"a", none, [], 0, "", 0⟩, ⟨"b", some ["2"], [.cm ["start=1"], .val "4"], 1, "cb", 0⟩, ⟨"c", none, [], 0, "", 0⟩]⟩
      (.cls (.mk ⟨"record", false, false, "R", "", none, 0⟩ (.comp ⟨[], ["Integer"], none, [⟨"a", none, [], 0, "", 0⟩]⟩ .nil) .nil)
        (.ext ⟨["Base"], ["x=1"], [.m]⟩ (.imp (.qual ["P", "Q"]) .nil))))
    (.elems .pub (.comp ⟨[], ["Real"], none, [⟨"d", none, [], 0, "", 0⟩]⟩ .nil)
      (.eqs false ["a = 1"]
        (.elems .prot (.comp ⟨["flow"], ["Real"], none, [⟨"e", none, [], 0, "", 0⟩]⟩ .nil)
          (.eqs true ["d = 0"]
            (.elems .pub (.comp ⟨[], ["Boolean"], none, [⟨"f", some [":"], [], 0, "", 0⟩]⟩ .nil)
              (.algs false ["d := 2"] .nil))))))

def demoFile : List (Bool × ClassSrc) := [(true, demoClass)]

/-- the demo class is accepted by the specification -/
theorem demo_ok : ∃ a k', specClass demoClass ⟨0, .none, 0⟩ = .ok (a, k') := ⟨_, _, rfl⟩

/-- **Refinement.**  Walking the event stream of any file with the listener machine gives exactly
    the tree (or the failure) of the structural specification. -/
theorem asm_refines (file : List (Bool × ClassSrc)) : runListener file = expected file :=
  runListener_eq_expected file

example : (fileEvents demoFile).length = 56 := by decide

/-- The class's components are its declarators: each exactly once, in declaration order. -/
theorem each_component_once {c : ClassSrc} {k k' : Ctr} {a : ClassAst} (h : specClass c k = .ok (a, k')) :
    a.info.symbols.map (·.name) = c.names ∧ c.names.Nodup :=
  class_names h

example : demoClass.names = ["a", "b", "c", "d", "e", "f"] := by decide

/-- Every component carries its declarator's name, its clause's type and prefix list (one entry per
    keyword), its dimensions (own subscripts, then the clause's), its comment and its modification. -/
theorem components_exact {c : ClassSrc} {k k' : Ctr} {a : ClassAst} (h : specClass c k = .ok (a, k')) :
    a.info.symbols.map Sym.view = c.views := by
  match c with
  | .mk hd first ss =>
    obtain ⟨S, hS, hv, _⟩ := class_symbols h
    rw [hS, ← hv]
    simp [Function.comp_def, Sym.view]

example : (demoClass.views.map (·.dims)) = [[["3"]], [["2"], ["3"]], [["3"]], [["None"]], [["None"]], [[":"]]] ∧
    (demoClass.views.map (·.prefixes)).head? = some ["parameter", "input"] ∧
    (demoClass.views.map (·.cmod))[1]? = some (some ["start=1", "value=4"]) := by decide

/-- Declaration numbers increase in declaration order within a class, and every number used inside a
    class (nested classes included) lies between the counter values before and after the class — so
    classes that do not contain each other never share a number. -/
theorem order_is_declaration_order {c : ClassSrc} {k k' : Ctr} {a : ClassAst} (h : specClass c k = .ok (a, k')) :
    a.info.symbols.Pairwise (fun x y => x.order < y.order) ∧
    ∀ y ∈ deepSyms a, k.symCount ≤ y.order ∧ y.order < k'.symCount := by
  constructor
  · match c with
    | .mk hd first ss =>
      obtain ⟨S, hS, _, _, ho, _⟩ := class_symbols h
      rw [hS, List.pairwise_map]
      exact ho
  · intro y hy
    have := (class_ids c k a k' h).2.2 y hy
    unfold Sym.Between at this
    omega

/-- Every component and every extends clause has the visibility of the section it stands in —
    every section, in any number and order. -/
theorem visibility_of_section {c : ClassSrc} {k k' : Ctr} {a : ClassAst} (h : specClass c k = .ok (a, k')) :
    a.info.symbols.map (·.vis) = c.declVis ∧ a.info.extends_.map (·.vis) = c.extVis := by
  match c with
  | .mk hd first ss =>
    constructor
    · obtain ⟨S, hS, _, hs, _⟩ := class_symbols h
      rw [← class_secs_vis, ← hs, hS]
      simp [Function.comp_def]
    · rw [← class_extSecs_vis]
      exact (class_extends h).2.1

example : demoClass.declVis = [.priv, .priv, .priv, .pub, .prot, .pub] ∧ demoClass.extVis = [.priv] := by decide

/-- Equations and statements appear in source order, each in its initial or non-initial list; the
    header fields are the declared ones. -/
theorem sections_in_order {hd : ClassHdr} {first : Elems} {ss : Sections} {k k' : Ctr} {a : ClassAst}
    (h : specClass (.mk hd first ss) k = .ok (a, k')) :
    a.info.equations = ss.items false false ∧ a.info.initialEquations = ss.items false true ∧
    a.info.statements = ss.items true false ∧ a.info.initialStatements = ss.items true true ∧
    a.info.name = some hd.name ∧ a.info.kind = hd.kind ∧ a.info.partial_ = hd.partial_ ∧
    a.info.encapsulated = hd.encapsulated ∧ a.info.comment = hd.comment ∧ a.info.annotation = hd.annotation := by
  obtain ⟨h1, h2, h3, h4, _, h6, h7, h8, h9, h10, h11⟩ := class_sections h
  exact ⟨h8, h9, h10, h11, h1, h2, h3, h4, h6, h7⟩

theorem nestedAll_names {ss : List (ClassSrc ⊕ ShortSrc)} {As : List ClassAst} (h : NestedAll ss As) :
    As.map (·.name) = ss.map (fun s => some (nestedName s)) := by
  induction h with
  | nil => rfl
  | @cons s a ss as hs _ ih =>
    simp only [List.map_cons, ih, List.cons.injEq, and_true]
    cases s with
    | inl c =>
      obtain ⟨k, k', hc⟩ := hs
      match c with
      | .mk hd first rest => exact (class_sections hc).1
    | inr sh =>
      have : a = specShort sh := hs
      subst this
      rfl

/-- Nested classes, extends clauses and imports are attached to the class that declares them: the
    class dict is built from the trees of the class's own nested definitions, in source order (and *is*
    that list when their names differ); extends clauses and imports are the class's own. -/
theorem nested_attached {c : ClassSrc} {k k' : Ctr} {a : ClassAst} (h : specClass c k = .ok (a, k')) :
    (∃ As, NestedAll c.nested As ∧ a.classes = As.foldl dictSet [] ∧
      ((c.nested.map nestedName).Nodup → a.classes = As)) ∧
    a.info.extends_.map (fun e => (e.path, e.args)) = c.exts.map (fun e => (e.path, e.args)) ∧
    importsFold c.imps [] = .ok a.info.imports := by
  match c with
  | .mk hd first ss =>
    obtain ⟨As, hA, hc⟩ := class_nested h
    refine ⟨⟨As, hA, hc, ?_⟩, (class_extends h).1, (class_extends h).2.2⟩
    intro hn
    rw [hc, foldl_dictSet_nodup As []]
    · rfl
    · rw [List.nil_append, nestedAll_names hA]
      have : (List.map (fun s => some (nestedName s)) (ClassSrc.mk hd first ss).nested) =
          ((ClassSrc.mk hd first ss).nested.map nestedName).map some := by simp
      rw [this]
      exact List.Pairwise.map some (fun _ _ h => by simpa using h) hn

example : demoClass.nested.map nestedName = ["R"] ∧ demoClass.exts.map (·.path) = [["Base"]] ∧
    demoClass.imps = [.qual ["P", "Q"]] := by decide

/-- No aliasing: the `type`, `dimensions` and `prefixes` objects of any two different components of
    a file (same clause, same class or different classes) are different objects. -/
theorem no_aliasing {file : List (Bool × ClassSrc)} {r : List ClassAst} (h : expected file = .ok r) :
    (deepSymsList r).Pairwise Sym.Distinct :=
  (specFile_ok file [] ⟨0, .none, 0⟩ ⟨0, .none, 0⟩ r h (Leq.refl _) (by simp) (by simp)).1

/-- the same inside one class (nested classes included) -/
theorem no_aliasing_in_class {c : ClassSrc} {k k' : Ctr} {a : ClassAst} (h : specClass c k = .ok (a, k')) :
    (deepSyms a).Pairwise Sym.Distinct :=
  (class_ids c k a k' h).2.1

example : ∃ r, expected demoFile = .ok r := ⟨_, rfl⟩

/-- A component declared twice in one class — at any nesting depth — makes the listener reject the
    file, with one of the listener's own failures (`IOError`). -/
theorem duplicate_rejected {file : List (Bool × ClassSrc)}
    (h : ∃ c ∈ file, ∃ c' ∈ c.2.deep, ¬ c'.names.Nodup) : ∃ e, runListener file = .error e ∧ e.Listener := by
  rw [asm_refines]
  cases hr : expected file with
  | error e => exact ⟨e, rfl, specFile_err _ _ _ _ hr⟩
  | ok r =>
    obtain ⟨c, hc, c', hc', hn⟩ := h
    exact absurd ((specFile_ok file [] ⟨0, .none, 0⟩ ⟨0, .none, 0⟩ r hr (Leq.refl _) (by simp) (by simp)).2.1 c hc c' hc').1 hn

/-- the re-declared name is the one reported: a declarator whose name the class already has fails
    with `alreadyDefined` of that name -/
theorem duplicate_reports_name {cl : ClauseSt} {names : List String} {sec : Nat} {k : Ctr} {d : Decl} {e : Err} :
    specDecl cl names sec k d = .error e ↔ d.name ∈ names ∧ e = .alreadyDefined d.name :=
  specDecl_err

example : ∃ c ∈ [(false, ClassSrc.mk ⟨"model", false, false, "D", "", none, 0⟩
      (.comp ⟨[], ["Real"], none, [⟨"x", none, [], 0, "", 0⟩, ⟨"x", none, [], 0, "", 0⟩]⟩ .nil) .nil)],
    ∃ c' ∈ c.2.deep, ¬ c'.names.Nodup := by decide

/-- Exactly the clean files are accepted: the walk yields a tree iff no class of the file (at any
    depth) declares a component twice or has clashing import clauses. -/
theorem accepted_iff_clean (file : List (Bool × ClassSrc)) :
    (∃ r, runListener file = .ok r) ↔ ∀ c ∈ file, ∀ c' ∈ c.2.deep, c'.Clean := by
  rw [asm_refines]
  constructor
  · rintro ⟨r, hr⟩
    exact (specFile_ok file [] ⟨0, .none, 0⟩ ⟨0, .none, 0⟩ r hr (Leq.refl _) (by simp) (by simp)).2.1
  · intro h
    exact file_accepted file [] _ h

example : ∀ c ∈ demoFile, ∀ c' ∈ c.2.deep, c'.Clean := by
  rw [← accepted_iff_clean, asm_refines]; exact ⟨_, rfl⟩

/-- The only failures of a walk over a class description are the two `IOError`s the listener raises
    itself: never an ill-formed event stream, never the `AttributeError` on `symbol_node = None`. -/
theorem failures_are_listener_failures {file : List (Bool × ClassSrc)} {e : Err} (h : runListener file = .error e) :
    e.Listener := by
  rw [asm_refines] at h
  exact specFile_err _ _ _ _ h

/-- Top-level classes: the file dict is built from the trees of the file's own definitions (with
    their `final` flag), in source order. -/
theorem top_level_attached {file : List (Bool × ClassSrc)} {r : List ClassAst} (h : runListener file = .ok r) :
    ∃ As, FileAll file As ∧ r = As.foldl dictSet [] := by
  rw [asm_refines] at h
  exact (specFile_ok file [] ⟨0, .none, 0⟩ ⟨0, .none, 0⟩ r h (Leq.refl _) (by simp) (by simp)).2.2

end PymocaVerif.ClassAsm
