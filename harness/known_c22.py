"""Predicates of the open findings of C22 (see known/C22.json)."""
from harness.common import known_predicate


def _loop_delays(case):
    from harness.props import c22
    out = []
    for q in case.get("ieqs", []) + case.get("eqs", []):
        if q[0] == "for":
            for node, loop in c22.delays_of_eq(q):
                out.append((node, loop, q))
    return out


@known_predicate
def c22_loop_duration_placeholder(case, what):
    """C22-F1: inside a for-loop the duration of a delay() mentions the loop index or a loop-indexed variable.  The
    generator keeps the loop-local placeholder symbols in DelayArgument.duration: `_post_checks` does not see the real
    variables (a duration on an algebraic/state vector element is accepted) and `delay_arguments_function` cannot be
    built (free variables)."""
    from harness.props import c22
    hit = False
    for node, loop, _ in _loop_delays(case):
        for a in c22.atoms(node[2], [], loop[0]):
            if a[0] in ("loopidx", "loopvar"):
                hit = True
    if not hit:
        return False
    return ("accepted a model whose delay duration" in what or "delay-argument or residual functions raised" in what
            or what.startswith("disagreement:"))


@known_predicate
def c22_loop_delay_lonely_symbol(case, what):
    """C22-F2: a loop-indexed delay() whose delayed expression mentions a scalar symbol (or time) that occurs nowhere else
    in the loop body: `exitForEquation` asserts that every symbol of the delayed expression is an argument of the loop
    body function and raises AssertionError, although the duration is allowed."""
    from harness.props import c22
    if "AssertionError" not in what:
        return False
    for node, loop, q in _loop_delays(case):
        inside = c22.atoms(node[1], [], loop[0])
        if not any(a[0] == "loopidx" for a in inside):
            continue
        scal = set(a for a in inside if a[0] in ("var", "time", "der"))
        # atoms of the loop body outside this delay node
        other = []

        def strip(e):
            if e is node:
                return
            t = e[0]
            if t == "delay":
                return  # another delay: replaced by its symbol in the body
            if t in ("ref", "idx", "time", "der"):
                c22.atoms(e, other, loop[0])
            elif t == "neg":
                strip(e[1])
            elif t == "op":
                strip(e[2])
                strip(e[3])

        for b in q[4]:
            strip(b[1])
            strip(b[2])
        if scal - set(other):
            return True
    return False
