import Drivers.Proto
import PymocaVerif.Model.VecExpand
/-! Driver for C18: names, attribute element selection, output/delay renaming and the residual of
    the expanded equations, all computed by `PymocaVerif.Model.VecExpand`. -/
open Lean Drivers PymocaVerif.VecExpand

def cs (s : String) : List Char := s.toList
def sc (l : List Char) : String := String.ofList l

def parseLevel (j : Json) : Except String Level :=
  match j with
  | .null => pure none
  | _ => do
    let a ← j.getArr?
    let ds ← a.toList.mapM (·.getNat?)
    pure (some ds)

def parseLevels (j : Json) : Except String MShape := do
  let a ← j.getArr?
  a.toList.mapM parseLevel

def parseNats (j : Json) : Except String (List Nat) := do
  let a ← j.getArr?
  a.toList.mapM (·.getNat?)

def parseInts (j : Json) : Except String (List Int) := do
  let a ← j.getArr?
  a.toList.mapM (·.getInt?)

partial def parseNList (j : Json) : Except String NList :=
  match j with
  | .arr a => do
    let xs ← a.toList.mapM parseNList
    pure (xs.foldr (fun h t => NList.cons h t) NList.nil)
  | _ => do
    let v ← j.getInt?
    pure (.leaf v)

def namesOfVar (j : Json) : Except String (Except String (List (List Char))) := do
  let name ← getStr j "name"
  let delay ← getBool j "delay"
  if delay then
    let shape ← parseNats (← getObj j "shape")
    pure (.ok (expandDelayNames (cs name) shape))
  else
    let ms ← parseLevels (← getObj j "levels")
    if needsExpand ms then pure (expandNames (cs name) ms) else pure (.ok [cs name])

/-- JSON AST → `Expr`; `dimsOf` gives the iterator shape of a declared symbol -/
partial def parseExpr (dimsOf : String → Option (List Nat)) (j : Json) : Except String Expr := do
  let a ← j.getArr?
  let tag ← (a[0]?.getD Json.null).getStr?
  let arg (i : Nat) : Json := a[i]?.getD Json.null
  match tag with
  | "var" => do
    let n ← (arg 1).getStr?
    pure (.var (cs n))
  | "el" => do
    let n ← (arg 1).getStr?
    let idx ← parseNats (arg 2)
    match dimsOf n with
    | some ds => pure (.el (.var (cs n)) (elemPos ds idx))
    | none => throw s!"unknown symbol {n}"
  | "lit" => do
    let v ← parseInts (arg 1)
    pure (.const ⟨v.length, 1, v⟩)
  | "num" => do
    let k ← (arg 1).getInt?
    pure (.const ⟨1, 1, [k]⟩)
  | "ones" => do
    let r ← (arg 1).getNat?
    let c ← (arg 2).getNat?
    pure (.const ⟨r, c, List.replicate (r * c) 1⟩)
  | "fill" => do
    let k ← (arg 1).getInt?
    let r ← (arg 2).getNat?
    let c ← (arg 3).getNat?
    pure (.const ⟨r, c, List.replicate (r * c) k⟩)
  | "add" => do pure (.add (← parseExpr dimsOf (arg 1)) (← parseExpr dimsOf (arg 2)))
  | "sub" => do pure (.sub (← parseExpr dimsOf (arg 1)) (← parseExpr dimsOf (arg 2)))
  | "eq" => do pure (.sub (← parseExpr dimsOf (arg 1)) (← parseExpr dimsOf (arg 2)))
  | "emul" => do pure (.emul (← parseExpr dimsOf (arg 1)) (← parseExpr dimsOf (arg 2)))
  | "smul" => do
    let k ← (arg 1).getInt?
    pure (.smul k (← parseExpr dimsOf (arg 2)))
  | "neg" => do pure (.neg (← parseExpr dimsOf (arg 1)))
  | t => throw s!"bad-expr {t}"

def jints (xs : List Int) : Json := Json.arr (xs.map fun (x : Int) => Json.num (JsonNumber.fromInt x)).toArray

def handle (req : Json) : Except String Json := do
  let op ← getStr req "op"
  match op with
  | "expand.names" => do
    let vars ← getArr req "vars"
    let mut out : List String := []
    for v in vars.toList do
      match ← namesOfVar v with
      | .ok ns => out := out ++ ns.map sc
      | .error e => return Json.mkObj [("ok", true), ("error", Json.str e)]
    pure (Json.mkObj [("ok", true), ("names", jstrs out)])
  | "expand.attr" => do
    let dims ← parseNats (← getObj req "dims")
    let attr ← getObj req "attr"
    let kind ← getStr attr "kind"
    let mode ← getStr req "mode"
    let idxs := ndindex dims
    match kind with
    | "list" => do
      let v ← parseNList (← getObj attr "v")
      let mut vals : List Json := []
      for idx in idxs do
        match (if mode == "full" then selListFull v idx else selList v idx) with
        | .ok (.leaf x) => vals := vals ++ [Json.num (JsonNumber.fromInt x)]
        | .ok _ => vals := vals ++ [Json.str "list"]
        | .error e => return Json.mkObj [("ok", true), ("error", Json.str e)]
      pure (Json.mkObj [("ok", true), ("values", Json.arr vals.toArray)])
    | "dm" => do
      let shape ← parseNats (← getObj attr "shape")
      let r := shape.getD 0 1
      let c := shape.getD 1 1
      let mut vals : List Json := []
      for idx in idxs do
        match (if mode == "full" then selDMFull r c idx else selDM dims r c idx) with
        | .ok p => vals := vals ++ [Json.num (JsonNumber.fromNat p)]
        | .error e => return Json.mkObj [("ok", true), ("error", Json.str e)]
      pure (Json.mkObj [("ok", true), ("positions", Json.arr vals.toArray)])
    | "mx" => do
      let shape ← parseNats (← getObj attr "shape")
      let r := shape.getD 0 1
      let c := shape.getD 1 1
      let mut vals : List Json := []
      for idx in idxs do
        match selMX r c idx with
        | .ok p => vals := vals ++ [Json.num (JsonNumber.fromNat p)]
        | .error e => return Json.mkObj [("ok", true), ("error", Json.str e)]
      pure (Json.mkObj [("ok", true), ("positions", Json.arr vals.toArray)])
    | k => throw s!"bad-attr-kind {k}"
  | "expand.outputs" => do
    let outs ← (← getArr req "outputs").toList.mapM (·.getStr?)
    let dels ← (← getArr req "delay").toList.mapM (·.getStr?)
    let blocksJ ← getArr req "blocks"
    let blocks ← blocksJ.toList.mapM fun b => do
      let a ← b.getArr?
      let n ← (a[0]?.getD Json.null).getStr?
      let ns ← (← (a[1]?.getD Json.null).getArr?).toList.mapM (·.getStr?)
      pure (cs n, ns.map cs)
    let o := spliceAll (outs.map cs) blocks
    let d := delayMoveAll (dels.map cs) (blocks.filter fun b => b.1 ∈ dels.map cs)
    pure (Json.mkObj [("ok", true), ("outputs", jstrs (o.map sc)), ("delay", jstrs (d.map sc))])
  | "expand.delayargs" => do
    let shape ← parseNats (← getObj req "shape")
    pure (Json.mkObj [("ok", true),
      ("positions", Json.arr ((delayArgPositions shape).map fun (p : Nat) => Json.num (JsonNumber.fromNat p)).toArray)])
  | "expand.residual" => do
    let declsJ ← getArr req "decls"
    let decls ← declsJ.toList.mapM fun d => do
      let n ← getStr d "name"
      let ms ← parseLevels (← getObj d "levels")
      pure (Decl.ofName (cs n) ms)
    let dimsOf : String → Option (List Nat) := fun n =>
      (decls.find? fun d => d.name = cs n).map (·.dims)
    let eqs ← (← getArr req "eqs").toList.mapM (parseExpr dimsOf)
    let point ← getObj req "point"
    let mut bind : List (List Char × IMat) := []
    for d in decls do
      let v ← parseInts (← getObj point (sc d.name))
      let (r, c) := mxShape d.dims
      bind := bind ++ [(d.name, (⟨r, c, v⟩ : IMat))]
    let env : Env := fun n => bind.lookup n
    let tbl := tableOf decls
    let env' := renameEnv decls env
    let mut us : List Json := []
    let mut es : List Json := []
    for e in eqs do
      match residual env [e], residual env' [expandE tbl e] with
      | some u, some x => us := us ++ [jints u]; es := es ++ [jints x]
      | none, _ => return Json.mkObj [("ok", true), ("error", "unexpanded-not-evaluable")]
      | _, none => return Json.mkObj [("ok", true), ("error", "expanded-not-evaluable")]
    pure (Json.mkObj [("ok", true), ("unexpanded", Json.arr us.toArray), ("expanded", Json.arr es.toArray)])
  | o => throw s!"unknown-op {o}"

def main : IO Unit := serve handle
