/-!
# Model of `pymoca.backends.casadi.alias_relation.AliasRelation`

Value-semantics transcription of the three fields and every method.

* `_aliases : dict name -> set` (sets shared between all members of a class) becomes
  `al : SName → Option (List SName)`; a list is read only through membership.
  Sharing of the set objects is represented by all members mapping to equal lists; that
  this is faithful is what the correspondence check (`harness/props/c17.py`) tests.
* `_canonical_variables_map : OrderedDict name -> (name, sign)` becomes `cmap`.
* `_canonical_variables : set` becomes `cv`.

Python names carry their sign as a leading `"-"`; here a signed name is `(negative?, base)`.
Errors the Python code can raise (`AssertionError` in `add`, `KeyError` in `remove`) are
explicit: the operations return `Option`, `none` meaning "raised".
-/
namespace PymocaVerif.AliasRel

abbrev SName := Bool × String

def tog (v : SName) : SName := (!v.1, v.2)

structure AR where
  al   : SName → Option (List SName)
  cmap : SName → Option (String × Bool)   -- (canonical base name, negative sign?)
  cv   : List String

def AR.empty : AR := ⟨fun _ => none, fun _ => none, []⟩

/-- `aliases(a)`: the stored set, or `{a}`. -/
def AR.aliases (s : AR) (a : SName) : List SName := (s.al a).getD [a]

/-- `canonical_signed(a)`. -/
def AR.canonicalSigned (s : AR) (a : SName) : String × Bool := (s.cmap a).getD (a.2, a.1)

/-- sign product: `-sign` in Python when the member is the toggled one. -/
def flipIf (b : Bool) (p : String × Bool) : String × Bool := (p.1, xor b p.2)

/-- `add(a, b)`.  `none` = the `assert a in self.aliases(b)` failed. -/
def AR.add (s : AR) (a b : SName) : Option AR :=
  let A := s.aliases a
  if b ∈ A then (if a ∈ s.aliases b then some s else none) else
  let A' := A ++ s.aliases b
  let I' := s.aliases (tog a) ++ s.aliases (tog b)
  -- the loop `for v in aliases: _aliases[-v] = inverted; _aliases[v] = aliases`
  -- (the second assignment wins when both v and -v are in `aliases`)
  let al' : SName → Option (List SName) := fun k =>
    if k ∈ A' then some A' else if tog k ∈ A' then some I' else s.al k
  -- `canonical_signed` is read *after* `_aliases` was updated but only uses `cmap`
  let ca := s.canonicalSigned a
  let cb := s.canonicalSigned b
  let cv' := (if ca.1 ∈ s.cv then s.cv else s.cv ++ [ca.1]).filter (· != cb.1)
  -- loop `for v in aliases: cmap[v] = (ca, sign); cmap[-v] = (ca, -sign)`: the later
  -- assignment wins; for a class that does not meet its negation the order is immaterial.
  let cmap' : SName → Option (String × Bool) := fun k =>
    if tog k ∈ A' then some (flipIf true ca) else if k ∈ A' then some ca else s.cmap k
  some { al := al', cmap := cmap', cv := cv' }

/-- `remove(a)`.  `none` = `KeyError`. -/
def AR.remove (s : AR) (a : SName) : Option AR :=
  -- `a not in self._canonical_variables`: the set holds plain strings; a signed name
  -- `"-x"` is never equal to a stored base name unless it was stored as such.
  if a.1 = true ∨ a.2 ∉ s.cv then some s else
  match s.al a, s.al (tog a) with
  | some A, some I =>
    let R := A ++ I
    -- `del self._aliases[b]`, `del self._canonical_variables_map[b]` raise when absent
    if R.all (fun b => (s.al b).isSome && (s.cmap b).isSome) then
      some { al := fun k => if k ∈ R then none else s.al k,
             cmap := fun k => if k ∈ R then none else s.cmap k,
             cv := s.cv.filter (· != a.2) }
    else none
  | _, _ => none

/-- `copy()`: in value semantics the identity; the store below gives it a new identity. -/
def AR.copy (s : AR) : AR := s

/-- `__iter__`: one `(canonical, aliases minus canonical)` entry per canonical variable. -/
def AR.iter (s : AR) : List (String × List SName) :=
  s.cv.map fun c => (c, (s.aliases (false, c)).filter (· != (false, c)))

/-! ## Histories over several relation objects (for `copy`) -/

inductive Op where
  | add (obj : Nat) (a b : SName)
  | remove (obj : Nat) (a : SName)
  | copy (src dst : Nat)

/-- A store of relation objects; object 0 exists initially; `copy src dst` (re)binds `dst`. -/
abbrev Store := Nat → AR

def Store.init : Store := fun _ => AR.empty

def step (st : Store) : Op → Option Store
  | .add o a b => (st o).add a b |>.map fun s' => fun i => if i = o then s' else st i
  | .remove o a => (st o).remove a |>.map fun s' => fun i => if i = o then s' else st i
  | .copy src dst => some fun i => if i = dst then (st src).copy else st i

def run (st : Store) : List Op → Option Store
  | [] => some st
  | op :: ops => (step st op).bind (run · ops)

/-- The admissibility condition of the property: an `add` never relates a variable to
    its own negation. -/
def admissible (st : Store) : Op → Bool
  | .add o a b => !(b ∈ (st o).aliases (tog a))
  | _ => true

end PymocaVerif.AliasRel
