import Drivers.Proto
import PymocaVerif.Model.FlattenJson
/-! Driver for C07: flattens a library description with the reference semantics
    (`PymocaVerif.Flatten.flattenSrc`) and returns the canonical flat model plus the Modelica
    text the real parser is to be fed. -/
def main : IO Unit := Drivers.serve PymocaVerif.Flatten.J.handle
