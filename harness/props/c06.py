"""C06 — deep copies of a tree are independent of the original.

Direct oracle (the property statement itself, on the real code): a history of `copy.deepcopy`,
add/remove class/symbol/equation through the AST API on any of the trees — including adding to one
tree a copy (`find_class(copy=True)` / `copy.deepcopy`) of a class taken from another tree or from
the same tree — and flatten (directly,
or the way the SymPy/XML backends do it: on a deep copy) of any class of any tree.  Every edit is
mirrored on a pure description of that tree; after every flatten the result must be the result of
flattening the same class on a fresh parse of the source regenerated from the description of
that tree (so an edit is visible in the tree it was made in — also through component types and
extends clauses — and in none of the others, copies of copies included).  Structural probes after
every copy: the copy shares no object with its source, and every class below the copy has a
parent chain ending in the copy's root.

Tie to the Lean model `PymocaVerif.Model.ObjGraph` (theorems in `Props/C06.lean`): at every copy the
object graph of all live trees is exported (with the per-instance `__deepcopy__` attributes), the
model performs the same `deepcopy`, and the shape of the copy (which objects are new, what every
reference of every new object points to, hooks left behind) must be the real one; the hypotheses
of the theorems (`wfCheck`, `treeCheck`, `rankCheck`, `noScopeCheck`) are evaluated by the model on
the same snapshots; copy flags -> `Generated/CopyFlags.lean` (obligation `flags_ok`).
"""
import copy
import json

from harness.common import HarnessError
from harness.gen import a04, a04_worker
from harness.props import c05

DRIVERS = ["drv_c06"]
RULE = ("a case is one history (deepcopy / add or remove a class, symbol or equation on any live tree / add to a tree a copy "
        "of a class of any live tree / flatten any class "
        "of any live tree, directly or through a backend-style deep copy) over a generated library (packages, nested "
        "classes, extends, class-typed components with modifications, type aliases, connectors, functions, constants, "
        "redeclarations); non-trivial = at least one copy, one edit after it and one flatten after that edit; distinct = "
        "distinct (library, operation list)")
TRUSTED = ["the regenerated source of a tree's description is what a user would have written to obtain the edited tree "
           "(edits are parsed from the same clause text that is added to the description)",
           "canonical flat model = Node.to_json of the flatten result without the parser's running symbol counters (id, order)"]
ASSUMPTIONS = ["an outcome RecursionError on one side only is not compared (the depth at which CPython's recursion limit is hit depends on the caller's stack); counted as recursion-limit-not-compared",
               "edits use the documented API (add_class, remove_class, add_symbol, remove_symbol, add_equation, "
               "remove_equation) with freshly parsed objects; an object is never added to two places",
               "the lookup cache that _find_class keeps for unqualified imports is not part of the observed state"]


# ---- applying one edit to the real tree and to its description ---------------------------------
def _cls(t, path):
    c = t
    for n in path:
        c = c.classes[n]
    return c


def parse_symbol(text, name):
    t = c05.parse("model T__\n  %s\nend T__;\n" % text)
    return t.classes["T__"].symbols[name]


def parse_equation(text):
    t = c05.parse("model T__\nequation\n  %s\nend T__;\n" % text)
    return t.classes["T__"].equations[0]


def parse_class(desc):
    t = c05.parse(a04.render_cls(desc))
    return t.classes[desc["name"]]


def apply_edit(t, lib, e):
    """Returns None, or the class name of an exception the API raised (then the description is
    left unchanged: the edit did not happen)."""
    kind = e["kind"]
    if kind in ("add_class", "remove_class"):
        holder = a04.find_desc(lib, e["parent"]) if e["parent"] else lib
    else:
        holder = a04.find_desc(lib, e["cls"])
    if holder is None:
        return "skipped"

    def real():
        if kind == "add_symbol":
            _cls(t, e["cls"]).add_symbol(parse_symbol(e["text"], e["name"]))
        elif kind == "remove_symbol":
            c = _cls(t, e["cls"])
            sym = c.symbols[e["name"]]
            c.remove_symbol(copy.deepcopy(sym) if e.get("how") == "deepcopy" else sym)
        elif kind == "add_equation":
            _cls(t, e["cls"]).add_equation(parse_equation(e["text"]))
        elif kind == "remove_equation":
            c = _cls(t, e["cls"])
            c.remove_equation(c.equations[e["index"]])
        elif kind == "add_class":
            _cls(t, e["parent"]).add_class(parse_class(e["desc"]))
        elif kind == "remove_class":
            # the argument: the registered object, or what the lookup API hands out (find_class copies by default)
            from pymoca import ast
            p = _cls(t, e["parent"])
            how = e.get("how", "registered")
            if how == "find_class":
                obj = p.find_class(ast.ComponentRef(name=e["name"]))
            elif how == "find_class_root":
                obj = t.find_class(ast.ComponentRef.from_tuple(tuple(e["parent"]) + (e["name"],)))
            elif how == "deepcopy":
                obj = copy.deepcopy(p.classes[e["name"]])
            else:
                obj = p.classes[e["name"]]
            p.remove_class(obj)
        else:
            raise HarnessError("bad edit " + kind)
        return None
    r = a04.outcome(real)
    if r[0] != "ok":
        return r[1]
    if kind == "add_symbol":
        holder["comps"].append(dict(name=e["name"], text=e["text"]))
    elif kind == "remove_symbol":
        holder["comps"] = [k for k in holder["comps"] if k["name"] != e["name"]]
    elif kind == "add_equation":
        holder["eqs"].append(e["text"])
    elif kind == "remove_equation":
        del holder["eqs"][e["index"]]
    elif kind == "add_class":
        # classes[c.name] = c: a class of that name that is already there is replaced (and keeps its place)
        nd = copy.deepcopy(e["desc"])
        if any(c["name"] == nd["name"] for c in holder["classes"]):
            holder["classes"] = [nd if c["name"] == nd["name"] else c for c in holder["classes"]]
        else:
            holder["classes"].append(nd)
    elif kind == "remove_class":
        holder["classes"] = [c for c in holder["classes"] if c["name"] != e["name"]]
    return None


# ---- structural probes ---------------------------------------------------------------------------
def probe_copy(src, cp):
    """None, or what is wrong with `cp` as a copy of `src`."""
    gs, gc = a04.Graph([src]), a04.Graph([cp])
    shared = [type(o).__name__ for o in gc.objs if id(o) in gs.ids]
    if shared:
        return "the copy shares %d object(s) with its source, e.g. %s" % (len(shared), shared[:3])
    bad = []

    def rec(c, path):
        for n, cc in c.classes.items():
            if cc.parent is not c:
                bad.append(".".join(path + [n]))
            rec(cc, path + [n])
    rec(cp, [])
    if bad:
        return "classes of the copy whose parent is not the enclosing class of the copy: %s" % bad[:4]
    if len(gs.objs) != len(gc.objs):
        return "the copy has %d objects, its source %d" % (len(gc.objs), len(gs.objs))
    return None


depths = a04.depths


def model_copy(ctx, drv, trees, i, case):
    """deepcopy of tree i: real shape vs model shape on a snapshot of all live trees."""
    roots = [tr["tree"] for tr in trees]
    g = a04.Graph(roots)
    heap = g.to_json()
    new = copy.deepcopy(trees[i]["tree"])
    sh = a04.shape(new, g)
    hooks_after = sorted([k, g.ids[id(o.__dict__["__deepcopy__"].__self__)]] for k, o in enumerate(g.objs)
                         if "__deepcopy__" in o.__dict__ and getattr(o.__dict__["__deepcopy__"], "__self__", None) is not None
                         and id(o.__dict__["__deepcopy__"].__self__) in g.ids)
    if drv is not None:
        ans = drv.ask({"op": "graph.deepcopy", "heap": heap, "cfg": c05.cfg_for_model(ctx), "x": g.idx(trees[i]["tree"]),
                       "rank": depths(g, roots)})
        if not ans.get("ok"):
            raise HarnessError("model driver rejected deepcopy: %s" % ans)
        ctx.count("model-deepcopy")
        if ans["result"] != sh:
            ctx.disagreement("deepcopy-shape", dict(case, copy_of=i), json.dumps(ans["result"])[:700], json.dumps(sh)[:700])
        elif sorted(ans.get("oldhooks", [])) != hooks_after:
            ctx.disagreement("deepcopy-hooks-left", dict(case, copy_of=i), ans.get("oldhooks"), hooks_after)
        chk = ans.get("checks")
        if chk is not None:
            for k in ("wf", "tree", "rank", "noscope"):
                if not chk.get(k) and not any(o.__dict__.get("__deepcopy__") is not None for o in g.objs):
                    ctx.disagreement("hypothesis-" + k, dict(case, copy_of=i),
                                     "the theorems assume %s of a tree built by the parser and the API" % k, chk)
    return new


def confined(ctx, trees, j, fn, case):
    """Runs an edit of tree j between two snapshots of all live trees: the objects it writes must
    belong to tree j (hypothesis `Confined` of edit_independent); returns the outcome of fn."""
    roots = [tr["tree"] for tr in trees]
    g = a04.Graph(roots)
    before = g.signatures()
    r = a04.outcome(fn)
    after = g.signatures()
    written = [k for k in range(len(before)) if before[k] != after[k]]
    mine = set()
    todo = [g.idx(roots[j])]
    while todo:
        k = todo.pop()
        if k in mine:
            continue
        mine.add(k)
        for tag, m in g.rows[k][2]:
            if tag == "own":
                todo.append(m)
    ctx.count("edit-confinement-probe")
    out = [k for k in written if k not in mine]
    if out:
        ctx.disagreement("edit-confined", dict(case, edited_tree=j),
                         "edits of a tree write only to objects of that tree or to new objects",
                         "wrote %s" % [(g.rows[k][0], g.rows[k][4]) for k in out[:6]])
    return r


# ---- one history ---------------------------------------------------------------------------------
def flatten_outcome(t, path, via, refs=None):
    """`refs`: reference objects of earlier requests of this history (a caller keeps the ComponentRef it asks with)"""
    from pymoca import ast, tree
    name = ".".join(path)
    ref = None
    if refs is not None:
        ref = refs.get(tuple(path))
    if ref is None:
        ref = ast.ComponentRef.from_tuple(tuple(path))
        if refs is not None:
            refs[tuple(path)] = ref
    if via == "direct":
        return a04.outcome(lambda: a04.flat_canon(tree.flatten(t, ref), True))
    if via == "copy":
        return a04.outcome(lambda: a04.flat_canon(tree.flatten(copy.deepcopy(t), ref), True))
    if via == "sympy":
        # (the generated text orders variables by the parser's running counter, which objects made for API
        #  edits do not continue: only success / exception class is compared; what matters is what the call
        #  leaves behind in the tree)
        from pymoca.backends.sympy.generator import generate
        r = a04.outcome(lambda: generate(t, name, {}))
        return ("ok", "generated") if r[0] == "ok" else r
    if via == "xml":
        from pymoca.backends.xml.generator import generate
        return a04.outcome(lambda: generate(t, name))
    raise HarnessError("bad via " + via)


def check_history(ctx, case, drv):
    pending = []
    try:
        run_history(ctx, case, drv, pending)
    finally:
        settle(ctx, case, pending)


def settle(ctx, case, pending):
    """direct oracle for every flatten step of a finished history"""
    fresh = {}
    small = {k: case[k] for k in ("lib", "ops")}
    for (n, i, ntrees, text, path, via, got) in pending:
        key = (text, tuple(path), via)
        if key not in fresh:
            # in an interpreter that never saw this history and is put back to its state after import before each call
            fresh[key] = tuple(a04_worker.fresh().ask({"k": "c06", "text": text, "path": list(path), "via": via}))
        exp = fresh[key]
        ctx.count("op-flatten-%s-%s" % (via, "ok" if exp[0] == "ok" else "fails-fresh"))
        if ("exc", "RecursionError") in (got, exp) and got != exp:
            # the interpreter's recursion limit is hit at a depth that depends on the caller's stack: not an outcome
            ctx.count("recursion-limit-not-compared")
        elif got != exp and exp != ("exc", "does-not-parse"):
            ctx.violation("flattening a class of a tree after copies and edits differs from flattening it on a fresh parse of "
                          "that tree's own source (%s; via %s; %s)" % (c05.describe(exp, got), via, "original tree" if i == 0 else "a copy"),
                          dict(small, upto=n + 1), c05._short(exp), c05._short(got), "history")
            return


def run_history(ctx, case, drv, pending):
    c05.quiet_logs()
    lib0, ops = case["lib"], case["ops"]
    text0 = a04.render(lib0)
    t0 = a04.outcome(lambda: c05.parse(text0))
    if t0[0] != "ok" or t0[1] is None:
        ctx.count("source-does-not-parse")
        return
    trees = [dict(tree=t0[1], lib=copy.deepcopy(lib0))]
    refs = {}
    fresh = {}
    small = {k: case[k] for k in ("lib", "ops")}
    for n, op in enumerate(ops):
        kind = op[0]
        if kind == "copy":
            i = op[1]
            if i >= len(trees):
                continue
            new = a04.outcome(lambda: model_copy(ctx, drv, trees, i, small) if (drv is not None and op[2]) else
                              copy.deepcopy(trees[i]["tree"]))
            if new[0] != "ok":
                if new[1] == "HarnessError":
                    raise HarnessError("harness failure inside copy")
                ctx.violation("copy.deepcopy of a tree raised %s" % new[1], dict(small, upto=n + 1), "a copy", new[1], "history")
                return
            msg = probe_copy(trees[i]["tree"], new[1])
            ctx.count("op-copy")
            if msg:
                import re
                ctx.violation("a deep copy of a tree is not separate from its source: " +
                              re.sub(r"\d+", "N", msg.split(",")[0].split(":")[0]),
                              dict(small, upto=n + 1), "no shared object, parents inside the copy", msg, "history")
                return
            trees.append(dict(tree=new[1], lib=copy.deepcopy(trees[i]["lib"])))
        elif kind == "edit":
            i, e = op[1], op[2]
            if i >= len(trees):
                continue
            if e["kind"] == "remove_class" and drv is not None:
                # the model performs the same removal (by the name of the argument) on the same snapshot
                gs = a04.Graph([tr["tree"] for tr in trees])
                s0 = gs.signatures()
                hidx = a04.outcome(lambda: gs.idx(_cls(trees[i]["tree"], e["parent"])))
                r = apply_edit(trees[i]["tree"], trees[i]["lib"], e)
                s1 = gs.signatures()
                written = [k for k in range(len(s0)) if s0[k] != s1[k]]
                if r is None and hidx[0] == "ok" and hidx[1] is not None:
                    ans = drv.ask({"op": "graph.removeclass", "heap": gs.to_json(), "cfg": c05.cfg_for_model(ctx),
                                   "holder": hidx[1], "name": e["name"], "registered": e.get("how", "registered") == "registered"})
                    ctx.count("model-removeclass")
                    if not ans.get("ok"):
                        raise HarnessError("model driver rejected removeclass: %s" % ans)
                    if sorted(ans.get("written") or []) != written:
                        ctx.disagreement("removeclass-writes", dict(small, upto=n + 1), ans.get("written"),
                                         [(k, gs.rows[k][0], gs.rows[k][4]) for k in written])
            elif n % 3 == 0:
                box = {}

                def do():
                    box["r"] = apply_edit(trees[i]["tree"], trees[i]["lib"], e)
                cr = confined(ctx, trees, i, do, dict(small, upto=n + 1))
                if cr[0] != "ok":
                    raise HarnessError("apply_edit raised " + cr[1])
                r = box["r"]
            else:
                r = apply_edit(trees[i]["tree"], trees[i]["lib"], e)
            ctx.count("op-%s%s" % (e["kind"], "" if r is None else "-rejected"))
            if r is not None and r not in ("skipped",) and not op[3]:
                # the generator only issues edits that are applicable to the description
                ctx.violation("%s through the AST API raised %s on a tree where the edit applies" % (e["kind"], r),
                              dict(small, upto=n + 1), "edit applied", r, "history")
                return
        elif kind == "graft":
            si, spath, dj, dparent, how = op[1], op[2], op[3], op[4], op[5]
            if si >= len(trees) or dj >= len(trees):
                continue
            sd = a04.find_desc(trees[si]["lib"], spath)
            holder = a04.find_desc(trees[dj]["lib"], dparent) if dparent else trees[dj]["lib"]
            if sd is None or holder is None:
                continue

            def real():
                from pymoca import ast
                src = trees[si]["tree"]
                if how == "find_class":
                    c = src.find_class(ast.ComponentRef.from_tuple(tuple(spath)), copy=True)
                else:
                    c = copy.deepcopy(_cls(src, spath))
                _cls(trees[dj]["tree"], dparent).add_class(c)
            gsnap = a04.Graph([tr["tree"] for tr in trees]) if drv is not None else None
            sig0 = gsnap.signatures() if gsnap is not None else None
            idx0 = a04.outcome(lambda: (gsnap.idx(_cls(trees[si]["tree"], spath)), gsnap.idx(_cls(trees[dj]["tree"], dparent)))) \
                if gsnap is not None else ("exc", "")
            r = confined(ctx, trees, dj, real, dict(small, upto=n + 1))
            ctx.count("op-graft-%s%s" % (how, "" if r[0] == "ok" else "-rejected"))
            if gsnap is not None and r[0] == "ok" and idx0[0] == "ok":
                # the model performs the same edit on the same snapshot: same objects written, same new class
                sig1 = gsnap.signatures()
                written = [k for k in range(len(sig0)) if sig0[k] != sig1[k]]
                newc = a04.outcome(lambda: _cls(trees[dj]["tree"], dparent).classes.get(sd["name"]))
                newc = newc[1] if newc[0] == "ok" else None
                ans = drv.ask({"op": "graph.graft", "heap": gsnap.to_json(), "cfg": c05.cfg_for_model(ctx),
                               "c": idx0[1][0], "holder": idx0[1][1]})
                ctx.count("model-graft")
                if not ans.get("ok"):
                    raise HarnessError("model driver rejected graft: %s" % ans)
                if sorted(ans.get("written") or []) != written:
                    ctx.disagreement("graft-writes", dict(small, upto=n + 1), ans.get("written"),
                                     [(k, gsnap.rows[k][0], gsnap.rows[k][4]) for k in written])
                elif newc is not None and ans["result"] != a04.shape(newc, gsnap):
                    ctx.disagreement("graft-shape", dict(small, upto=n + 1), json.dumps(ans["result"])[:600],
                                     json.dumps(a04.shape(newc, gsnap))[:600])
            if r[0] != "ok":
                ctx.violation("adding to a tree a copy of a class of another tree raised %s" % r[1],
                              dict(small, upto=n + 1), "edit applied", r[1], "history")
                return
            nd = copy.deepcopy(sd)
            if any(c["name"] == nd["name"] for c in holder["classes"]):
                holder["classes"] = [nd if c["name"] == nd["name"] else c for c in holder["classes"]]
            else:
                holder["classes"].append(nd)
        elif kind == "flatten":
            i, path, via = op[1], op[2], op[3]
            if i >= len(trees):
                continue
            # the real tree first; what a fresh parse of this tree's regenerated source gives is computed after the
            # whole history (settle), so that the oracle's own calls never sit between two steps of the history
            text = a04.render(trees[i]["lib"])
            got = flatten_outcome(trees[i]["tree"], path, via, refs)
            pending.append((n, i, len(trees), text, list(path), via, got))
        else:
            raise HarnessError("bad op %r" % (op,))


# ---- generator -----------------------------------------------------------------------------------
SW_MODEL = dict(a04.new_cls("SwT", "model"), comps=[dict(name="start", text="Real start;")])
SW_TYPE = a04.new_cls("SwT", "type", short="Real(min = 1)")


def swap_kit(rng):
    """a class `SwT` that is a model or an alias of Real, a class with a component of that type, and
    two classes that pass a modification down to that component (both spellings)"""
    u = a04.new_cls("SwU", "model")
    u["comps"] = [dict(name="t", text="SwT t;"), dict(name="w", text="Real w;")]
    u["eqs"] = ["w = 1;"]
    w1 = a04.new_cls("SwW1", "model")
    w1["comps"] = [dict(name="m", text="SwU m(t(start = 5));")]
    w2 = a04.new_cls("SwW2", "model")
    w2["comps"] = [dict(name="m", text="SwU m(t.start = 7);")]
    return [copy.deepcopy(rng.choice([SW_MODEL, SW_TYPE])), u, w1, w2]


def gen_history(ctx, rng, nops):
    lib, g = a04.gen_library(rng, nmodels=rng.randint(2, 5))
    has_kit = rng.random() < 0.5
    if has_kit:
        lib["classes"] += swap_kit(rng)
    descs = [copy.deepcopy(lib)]     # the generator keeps its own mirror to issue applicable edits
    ops = []
    fresh_n = [0]

    def fresh_name(p):
        fresh_n[0] += 1
        return "%s_e%d" % (p, fresh_n[0])

    import re

    def users(d, name, transitive=True):
        """classes that mention `name` in a clause (imports, extends, components, equations, algorithms), and the
        classes that mention those"""
        allp = [list(p) for p in a04.class_paths(d)]
        out, names, todo = [], set(), [name]
        while todo:
            nm = todo.pop()
            if nm in names:
                continue
            names.add(nm)
            for p in allp:
                c = a04.find_desc(d, p)
                if p in out or p[-1] == nm:
                    continue
                txts = c["imports"] + c["extends"] + [k["text"] for k in c["comps"]] + c["eqs"] + c["algo"]
                if any(re.search(r"(?<![A-Za-z_0-9])%s(?![A-Za-z_0-9])" % re.escape(nm), x) for x in txts):
                    out.append(p)
                    if transitive:
                        todo.append(p[-1])
        return out

    def reaches(d, start, goals):
        """does instantiating class `start` instantiate one of `goals` (class paths)?  Edges: nested classes, and
        every class whose name occurs in a component or extends clause (names are unique in these libraries)."""
        allp = [list(x) for x in a04.class_paths(d)]
        byname = {}
        for x in allp:
            byname.setdefault(x[-1], []).append(x)
        goals = [list(x) for x in goals]
        seen, todo = [], [list(start)]
        while todo:
            c = todo.pop()
            if c in seen:
                continue
            seen.append(c)
            if c in goals:
                return True
            cd = a04.find_desc(d, c)
            if cd is None:
                continue
            for sub in cd["classes"]:
                todo.append(c + [sub["name"]])
            for txt in cd["extends"] + [k["text"] for k in cd["comps"]] + ([cd["short"]] if cd["short"] else []):
                for w in re.findall(r"[A-Za-z_][A-Za-z_0-9]*", txt):
                    for x in byname.get(w, []):
                        todo.append(x)
        return False

    def safe_types(d, holder_path, cands):
        """class paths that can be instantiated inside `holder_path` without recursive instantiation"""
        encl = [holder_path[:k] for k in range(1, len(holder_path) + 1)]
        return [x for x in cands if not reaches(d, x, encl)]
    last_edit = None
    ncopy = 0
    def vias():
        return rng.choice(["direct", "direct", "copy", "xml", "sympy"])
    for _ in range(nops):
        r = rng.random()
        i = rng.randrange(len(descs))
        d = descs[i]
        paths = [list(p) for p in a04.class_paths(d) if not p[0].startswith("Sw")]
        full = [p for p in paths if a04.find_desc(d, p)["short"] is None]
        pat = rng.random()
        if has_kit and pat < 0.10 and a04.find_desc(d, ["SwT"]) is not None:
            # flatten, (copy,) replace SwT by a same-named class of the other kind, flatten its users again
            w = rng.choice([["SwW1"], ["SwW2"], ["SwU"]])
            ops.append(["flatten", i, w, vias()])
            j = i
            if rng.random() < 0.6 and len(descs) < 6:
                ops.append(["copy", i, ncopy < 2])
                descs.append(copy.deepcopy(d))
                ncopy += 1
                j = len(descs) - 1 if rng.random() < 0.7 else i
            dj = descs[j]
            old = a04.find_desc(dj, ["SwT"])
            new = copy.deepcopy(SW_TYPE if old["short"] is None else SW_MODEL)
            ops.append(["edit", j, dict(kind="remove_class", parent=[], name="SwT"), False])
            ops.append(["edit", j, dict(kind="add_class", parent=[], desc=new), False])
            dj["classes"] = [c for c in dj["classes"] if c["name"] != "SwT"] + [copy.deepcopy(new)]
            ops.append(["flatten", j, w, rng.choice(["direct", "copy", "xml"])])
            ops.append(["flatten", j, rng.choice([["SwW1"], ["SwW2"]]), "direct"])
            ops.append(["flatten", rng.randrange(len(descs)), rng.choice([["SwW1"], ["SwW2"]]), "direct"])
            continue
        if pat < 0.18 and full:
            # backend generate, API edit of the same class, the same generate again
            p = rng.choice(full)
            via = rng.choice(["xml", "xml", "sympy"])
            name = fresh_name("s")
            text = "Real %s(%s = %d);" % (name, rng.choice(a04.ATTRS), rng.randint(1, 9))
            ops.append(["flatten", i, p, via])
            ops.append(["edit", i, dict(kind="add_symbol", cls=p, name=name, text=text), False])
            a04.find_desc(d, p)["comps"].append(dict(name=name, text=text))
            ops.append(["flatten", i, p, via])
            ops.append(["flatten", i, p, "direct"])
            continue
        if 0.26 <= pat < 0.42 and full:
            # flatten a user; edit (or replace by a new definition of the same name) a class it uses -- on the tree or on
            # a copy made after the flatten; flatten the user and the class again there, and the user in another tree
            cand = [x for x in full if users(d, x[-1]) and not a04.find_desc(d, x)["prefix"]]
            if cand:
                x = rng.choice(cand)
                us = users(d, x[-1])
                u = rng.choice(us)
                ops.append(["flatten", i, u, rng.choice(["direct", "direct", "copy"])])
                j = i
                if rng.random() < 0.5 and len(descs) < 6:
                    ops.append(["copy", i, ncopy < 2])
                    descs.append(copy.deepcopy(d))
                    ncopy += 1
                    j = len(descs) - 1 if rng.random() < 0.7 else i
                dj = descs[j]
                xd = a04.find_desc(dj, x)
                name = fresh_name("s")
                text = "Real %s(%s = %d);" % (name, rng.choice(a04.ATTRS), rng.randint(1, 9))
                if pat < 0.34 or xd["short"] is not None:
                    ops.append(["edit", j, dict(kind="add_symbol", cls=x, name=name, text=text), False])
                    xd["comps"].append(dict(name=name, text=text))
                else:
                    # a new definition under the same name: changed values of its own declarations, a changed nested
                    # class, a new declaration -- put in place with remove_class + add_class, or with add_class alone
                    nd = copy.deepcopy(xd)
                    for k in nd["comps"]:
                        k["text"] = re.sub(r"= (\d+);$", lambda mm: "= %d;" % (int(mm.group(1)) + 100), k["text"])
                    sub = [c for c in nd["classes"] if c["short"] is None and c["kind"] in ("model", "record", "block")]
                    if sub:
                        sn = fresh_name("s")
                        rng.choice(sub)["comps"].append(dict(name=sn, text="Real %s(start = %d);" % (sn, rng.randint(1, 9))))
                    if nd["kind"] == "package":
                        nd["comps"].append(dict(name=name, text="constant Real %s = %d;" % (name, rng.randint(1, 9))))
                    else:
                        nd["comps"].append(dict(name=name, text=text))
                    holder = a04.find_desc(dj, x[:-1]) if x[:-1] else dj
                    if rng.random() < 0.5:
                        ops.append(["edit", j, dict(kind="remove_class", parent=x[:-1], name=x[-1],
                                                    how=rng.choice(["registered", "find_class", "find_class_root", "deepcopy"])), False])
                        ops.append(["edit", j, dict(kind="add_class", parent=x[:-1], desc=copy.deepcopy(nd)), False])
                        holder["classes"] = [c for c in holder["classes"] if c["name"] != x[-1]] + [nd]
                    else:
                        ops.append(["edit", j, dict(kind="add_class", parent=x[:-1], desc=copy.deepcopy(nd)), False])
                        holder["classes"] = [nd if c["name"] == x[-1] else c for c in holder["classes"]]
                    for c in nd["classes"]:
                        if c["short"] is None and c["kind"] != "function" and rng.random() < 0.7:
                            ops.append(["flatten", j, x + [c["name"]], "direct"])
                ops.append(["flatten", j, u, "direct"])
                ops.append(["flatten", j, x, rng.choice(["direct", "copy"])])
                ops.append(["flatten", rng.randrange(len(descs)), rng.choice(us), "direct"])
                continue
        if pat < 0.26:
            # backend generate, then a class is removed from / added to the root; its users are flattened
            tops = [p for p in paths if len(p) == 1 and users(d, p[0])]
            if tops:
                y = rng.choice(tops)
                us = users(d, y[0])
                ops.append(["flatten", i, rng.choice(us), rng.choice(["sympy", "xml"])])
                saved = copy.deepcopy(a04.find_desc(d, y))
                ops.append(["edit", i, dict(kind="remove_class", parent=[], name=y[0],
                                            how=rng.choice(["registered", "find_class", "deepcopy"])), False])
                d["classes"] = [c for c in d["classes"] if c["name"] != y[0]]
                ops.append(["flatten", i, rng.choice(us), "direct"])
                if rng.random() < 0.5 and len(descs) < 6:
                    ops.append(["copy", i, ncopy < 2])
                    descs.append(copy.deepcopy(d))
                    ncopy += 1
                    ops.append(["flatten", len(descs) - 1, rng.choice(us), "direct"])
                if rng.random() < 0.6 and not saved["prefix"]:
                    ops.append(["edit", i, dict(kind="add_class", parent=[], desc=saved), False])
                    d["classes"].append(copy.deepcopy(saved))
                    ops.append(["flatten", i, rng.choice(us), rng.choice(["direct", "copy"])])
                continue
        if (r < 0.18 and len(descs) < 5) or (ncopy == 0 and r < 0.4):
            ops.append(["copy", i, ncopy < 2])      # the first two copies of a history are also put to the model
            descs.append(copy.deepcopy(d))
            ncopy += 1
        elif r < 0.28 and [x for x in paths if not a04.find_desc(d, x)["prefix"]]:
            # add to tree j a copy (find_class / deepcopy) of a class of tree i; then flatten it in both trees
            # (a `replaceable` class is an element, not a stored definition: it cannot be regenerated at top level)
            sp = rng.choice([x for x in paths if not a04.find_desc(d, x)["prefix"]])
            j = rng.randrange(len(descs))
            dd = descs[j]
            dfull = [list(x) for x in a04.class_paths(dd) if a04.find_desc(dd, x)["short"] is None
                     and a04.find_desc(dd, x)["kind"] in ("package", "model")]
            cands = [[]] + [x for x in dfull if not (i == j and x[:len(sp)] == sp)]
            cands = [x for x in cands if not any(c["name"] == sp[-1] for c in
                                                 (a04.find_desc(dd, x)["classes"] if x else dd["classes"]))]
            if cands:
                dparent = rng.choice(cands)
                tmp = copy.deepcopy(dd)
                nd = copy.deepcopy(a04.find_desc(d, sp))
                (a04.find_desc(tmp, dparent) if dparent else tmp)["classes"].append(nd)
                encl = [dparent[:k] for k in range(1, len(dparent) + 1)]
                if not reaches(tmp, dparent + [sp[-1]], encl):
                    descs[j] = tmp
                    how = rng.choice(["find_class", "deepcopy"])
                    ops.append(["graft", i, sp, j, dparent, how])
                    ops.append(["flatten", i, sp, "direct"])
                    ops.append(["flatten", j, dparent + [sp[-1]], rng.choice(["direct", "copy"])])
                    us = users(descs[i], sp[-1])
                    if us:
                        ops.append(["flatten", i, rng.choice(us), "direct"])
        elif r < 0.6 and full:
            p = rng.choice(full)
            c = a04.find_desc(d, p)
            q = rng.random()
            e = None
            if q < 0.3:
                name = fresh_name("s")
                st = safe_types(d, p, full) if rng.random() < 0.3 else []
                if st:
                    tp = rng.choice(st)
                    text = "%s %s;" % (".".join(tp), name)
                else:
                    pre = rng.choice(["", "", "parameter ", "input "])
                    text = "%sReal %s(%s = %d)%s;" % (pre, name, rng.choice(a04.ATTRS), rng.randint(1, 9),
                                                     " = %d" % rng.randint(1, 9) if pre == "parameter " else "")
                e = dict(kind="add_symbol", cls=p, name=name, text=text)
                c["comps"].append(dict(name=name, text=text))
            elif q < 0.45 and c["comps"]:
                k = rng.choice(c["comps"])
                e = dict(kind="remove_symbol", cls=p, name=k["name"], how=rng.choice(["registered", "registered", "deepcopy"]))
                c["comps"] = [x for x in c["comps"] if x["name"] != k["name"]]
            elif q < 0.7:
                names = [k["name"] for k in c["comps"] if " Real " in " " + k["text"] and "[" not in k["text"]]
                if names and c["kind"] in ("model", "block", "class"):
                    text = "%s = %s + %d;" % (rng.choice(names), rng.choice(names), rng.randint(1, 9))
                    e = dict(kind="add_equation", cls=p, text=text)
                    c["eqs"].append(text)
            elif q < 0.8 and c["eqs"]:
                k = rng.randrange(len(c["eqs"]))
                e = dict(kind="remove_equation", cls=p, index=k)
                del c["eqs"][k]
            elif q < 0.92:
                nd = a04.new_cls(fresh_name("N"), "model")
                nd["comps"].append(dict(name="q", text="Real q(start = %d);" % rng.randint(1, 9)))
                parent = rng.choice([[]] + [x for x in full if a04.find_desc(d, x)["kind"] in ("package", "model")])
                st = safe_types(d, parent + [nd["name"]], full) if rng.random() < 0.5 else []
                if st:
                    nd["comps"].append(dict(name="sub", text="%s sub;" % ".".join(rng.choice(st))))
                nd["eqs"].append("q = %d;" % rng.randint(1, 9))
                e = dict(kind="add_class", parent=parent, desc=nd)
                (a04.find_desc(d, parent) if parent else d)["classes"].append(copy.deepcopy(nd))
            else:
                parent = p[:-1]
                e = dict(kind="remove_class", parent=parent, name=p[-1],
                         how=rng.choice(["registered", "registered", "find_class", "find_class_root", "deepcopy"]))
                h = a04.find_desc(d, parent) if parent else d
                h["classes"] = [x for x in h["classes"] if x["name"] != p[-1]]
            if e is not None:
                ops.append(["edit", i, e, False])
                last_edit = (i, e)
        elif paths:
            p = rng.choice(paths)
            if last_edit is not None and rng.random() < 0.6:
                li, le = last_edit
                tgt = le.get("cls") or (le["parent"] + [le.get("name") or le["desc"]["name"]])
                us = users(descs[li], tgt[-1]) + [tgt]
                i, p = (li if rng.random() < 0.6 else i), rng.choice(us)
                if a04.find_desc(descs[i], p) is None:
                    p = rng.choice([list(x) for x in a04.class_paths(descs[i])] or [p])
            # (the SymPy/XML generators order variables by the parser's running counter, which an object made
            #  for an API edit does not continue; the backends' own step — deep copy, then flatten — is "copy")
            via = rng.choice(["direct", "direct", "copy", "xml", "sympy"])
            ops.append(["flatten", i, p, via])
    return dict(stream="gen", lib=lib, ops=ops)


def nontrivial(ops):
    seen_copy = seen_edit = False
    for op in ops:
        if op[0] == "copy":
            seen_copy = True
        elif op[0] in ("edit", "graft") and seen_copy:
            seen_edit = True
        elif op[0] == "flatten" and seen_edit:
            return True
    return False


def run_case(ctx, case, drv):
    ctx.case({"lib": case["lib"], "ops": case["ops"]}, nontrivial=nontrivial(case["ops"]))
    ctx.count("history-len-%02d" % (10 * (len(case["ops"]) // 10)))
    check_history(ctx, case, drv)


def run(ctx):
    drv = ctx.driver("drv_c06")
    quick = ctx.tier == "quick"
    from harness import corpus
    for c in corpus.load("C06"):
        ctx.count("corpus")
        run_case(ctx, c, drv)
    nlib, nops = (60, 15) if quick else (1600, 40)
    for i in range(nlib):
        if ctx.time_left() < (12 if quick else 0):
            ctx.notes.append("stopped by time budget after %d histories" % i)
            break
        run_case(ctx, gen_history(ctx, ctx.rng, nops), drv)


def replay(ctx, payload):
    run_case(ctx, payload["case"], ctx.driver("drv_c06"))


def search(ctx):
    i = 0
    while ctx.time_left() > 0 and not ctx.violations:
        i += 1
        case = gen_history(ctx, ctx.rng, 40)
        for op in case["ops"]:
            if op[0] == "copy":
                op[2] = False
        run_case(ctx, case, None)
    ctx.notes.append("search: %d extra histories" % i)


def translate(ctx):
    from harness.gen import a04_worker
    a04_worker.fresh()          # the reference interpreter starts importing now
    a04.translate_flags(ctx)


MANIFEST = dict(
    level_text="Lean 4 theorems about an executable object-graph model of copy.deepcopy with pymoca's two __deepcopy__ hooks "
               "(memo by id, parent seeding, scope sharing, per-instance hook attribute): the copy is bisimilar to the original to "
               "every depth (copy_iso), closed and disjoint from everything that existed (copy_closed), leaves the original "
               "untouched, is again a well-formed tree (so copies of copies copy the copy), and edits confined to one tree never "
               "change any view of another tree (edit_independent, by induction over interleaved histories); counterexamples "
               "for the memo test on the object and for the stale per-instance hook. Tied to /repo on every run by the copy "
               "flags extracted from behaviour (obligation over Generated/CopyFlags.lean), by shape correspondence of every "
               "deepcopy in the histories, by evaluating the theorems' hypotheses on the real snapshots, and by the direct "
               "oracle (flatten of the edited tree = flatten of a fresh parse of its regenerated source).",
    level_note="Partial: edits are modelled as arbitrary writes confined to the edited tree's objects (what add_/remove_ do is "
               "observed, not proved); flatten is the real code; CPython's copy module is modelled, not verified.",
    technique="Lean 4 proof (invariant of deepcopy with memo, bisimulation, region separation, induction over histories) + "
              "model/implementation correspondence + direct differential oracle",
)
READY = True
