"""C09 — connections produce exactly the Modelica connection-set equations.

Real code: `pymoca.parser.parse` + `pymoca.tree.flatten` (which runs `expand_connectors`) on generated
models; every flat equation is canonicalised to an exact linear form over `Fraction`.

Direct oracle (this file, independent of the Lean model): Modelica connection semantics computed from
the generator's description by union-find over (connector, face) elements — potentials of a set equal,
inside flows minus outside flows of a set sum to zero, flows of connectors whose inside face (for
top-level connectors: whose only face) is in no connection are zero — and an exact reduced-row-echelon
comparison (Fraction Gaussian elimination) that the real equations and the reference equations span
the same row space, for the whole flat system and for the connect-derived part alone.

Tie: the Lean model `PymocaVerif.Model.Connect` (driver `drv_c09`) gets the same flat connect edges and
flow symbols and returns its equations; flow equations are compared as a multiset of linear forms up
to overall sign, potential equations as the induced partition.
"""
import json
from fractions import Fraction

from harness.gen import a06_connect as G

DRIVERS = ["drv_c09"]
RULE = ("one case = one generated Modelica model (connector classes with 1-3 potential and 1-2 flow variables, "
        "leaf components with linear equations, a top model — in the hierarchical streams also mid-level models with "
        "their own connectors — joined by connect clauses drawn from chains, stars, cycles, duplicate/reversed edges, "
        "late merges of separately built sets, bridges, random pairs, self connections; names from pools with string-prefix "
        "related members; connector classes optionally in packages, two of them sharing the simple name; stream `array`: leaf components "
        "declared as arrays of components with one, two or three dimensions, connect clauses over their elements with literal subscripts); non-trivial = at least two "
        "connect clauses and at least one connection set with three or more members or one merge of two existing sets; "
        "distinct = distinct model description")
TRUSTED = ["the heap reading of `flow_connections` in Model/Connect.lean (`Heap.step`: object identities, in-place `update`, "
           "fresh object for an unknown key, identity de-duplication) is what the driver runs; its equality with the value reading "
           "the other theorems use is proved (`heap_refines_value`, `heap_pass_eq_value_pass`), not assumed",
           "the linear canonicaliser of flat equations in harness/props/c09.py (incl. the element-wise reading of array symbols)",
           "the serialisation of a flow key (flat name, literal subscripts, face) of the code to the model's key (string, face): the "
           "element `r[1,2].p.i` is sent as that string, which is injective on (name, subscripts)"]
ASSUMPTIONS = ["hierarchical models (streams hier, hier-open) go beyond the graph domain the property names; their reference is "
               "the face-wise rule of the Modelica specification 9.2",
               "connector variables are scalar Real and connectors are scalar components (arrays of connectors / array variables "
               "inside connectors are out of scope: the code marks them TODO); arrays of COMPONENTS holding connectors are in scope "
               "(streams array, array-open), subscripts in connect clauses are integer literals",
               "stream array: every connector of an array of components is connected in all elements or in none; partly connected "
               "arrays are the stream array-open (open finding C09-F2: unconnected elements get no `flow = 0`), checked by the direct "
               "oracle only",
               "an unsubscripted flat equation over array symbols is read as the element-wise equations, scalars and constants broadcast",
               "both ends of a connect clause have the same connector class; references are `c` or `comp.c`",
               "no expandable/stream/overdetermined connectors, no inner/outer components, no conditional components",
               "a top-level connector that occurs in a connect clause is left free (the property text: only flows in no connection are zero)"]

SEP = G.SEP

# Which rule takes flows off the "unconnected" list: "face" = the code as it stands (fix 2598ca8 of
# finding C09-F1), "name" = the code before that fix.  The Lean model has both (theorems for both).
# "auto" would observe the real code once per run on a three-line nested model; it is not the default,
# because a regression to pop-by-name must show up as a broken tie as well as an oracle violation.
POP_POLICY = "face"
_policy = {}


def pop_policy(ctx):
    if POP_POLICY != "auto":
        ctx.extra["pop_policy"] = POP_POLICY
        return POP_POLICY
    if "p" not in _policy:
        probe = ("connector P Real v; flow Real i; end P;\nmodel L P a; end L;\n"
                 "model C P p; L r; equation connect(p, r.a); end C;\nmodel T C c; end T;\n")
        real = run_real(probe, "T")
        zero = any(set(f) == {"c.p.i"} for f in real.get("forms", []))
        _policy["p"] = "face" if zero else "name"
        ctx.extra["pop_policy_observed"] = _policy["p"]
    return _policy["p"]


# ---- exact linear algebra -----------------------------------------------------------------
def rref(rows, cols):
    """Reduced row echelon form (list of dict col->Fraction, pivots ascending) of sparse rows."""
    idx = {c: i for i, c in enumerate(cols)}
    basis = {}  # pivot col index -> row (dict idx->Fraction), fully reduced
    for r in rows:
        v = {idx[c]: Fraction(x) for c, x in r.items() if x != 0}
        v = reduce_row(v, basis)
        if not v:
            continue
        p = min(v)
        inv = 1 / v[p]
        v = {c: x * inv for c, x in v.items()}
        for q, b in list(basis.items()):
            if p in b:
                f = b[p]
                nb = dict(b)
                for c, x in v.items():
                    y = nb.get(c, 0) - f * x
                    if y == 0:
                        nb.pop(c, None)
                    else:
                        nb[c] = y
                basis[q] = nb
        basis[p] = v
    return basis


def reduce_row(v, basis):
    v = dict(v)
    for p in sorted(basis):
        if p in v:
            f = v[p]
            for c, x in basis[p].items():
                y = v.get(c, 0) - f * x
                if y == 0:
                    v.pop(c, None)
                else:
                    v[c] = y
    return v


def implied(row, basis, cols):
    idx = {c: i for i, c in enumerate(cols)}
    return not reduce_row({idx[c]: Fraction(x) for c, x in row.items() if x != 0}, basis)


# ---- canonicalisation of real equations ---------------------------------------------------------
class NotLinear(Exception):
    pass


def lin(node):
    """Exact linear form {ref: Fraction, "": const} of a flat pymoca expression.  A `ref` is
    (flat name, subscripts per name part) where the subscripts of a part are a tuple of literal
    integers or None (no subscript written); `expand_form` turns refs into element names."""
    from pymoca import ast
    if isinstance(node, ast.Symbol):
        return {(node.name, None): Fraction(1)}
    if isinstance(node, ast.ComponentRef):
        if node.child:
            raise NotLinear("unflattened reference %s" % node)
        if all(i is None for ia in node.indices for i in ia):
            return {(node.name, None): Fraction(1)}
        per = []
        for ia in node.indices:
            if all(i is None for i in ia):
                per.append(None)
                continue
            vals = [getattr(i, "value", None) for i in ia]
            if any(isinstance(v, bool) or not isinstance(v, int) for v in vals):
                raise NotLinear("non-literal subscript in %s" % node)
            per.append(tuple(vals))
        return {(node.name, tuple(per)): Fraction(1)}
    if isinstance(node, ast.Primary):
        if isinstance(node.value, bool) or not isinstance(node.value, (int, float)):
            raise NotLinear("primary %r" % (node.value,))
        return {"": Fraction(node.value)} if node.value != 0 else {}
    if isinstance(node, ast.Expression) and isinstance(node.operator, str):
        ops = [lin(o) for o in node.operands]
        if node.operator == "+" and len(ops) == 2:
            return add(ops[0], ops[1], 1)
        if node.operator == "+" and len(ops) == 1:
            return ops[0]
        if node.operator == "-" and len(ops) == 2:
            return add(ops[0], ops[1], -1)
        if node.operator == "-" and len(ops) == 1:
            return add({}, ops[0], -1)
        if node.operator == "*" and len(ops) == 2:
            for a, b in ((ops[0], ops[1]), (ops[1], ops[0])):
                if set(a) <= {""}:
                    return add({}, b, a.get("", Fraction(0)))
        if node.operator == "/" and len(ops) == 2 and set(ops[1]) == {""}:
            return add({}, ops[0], 1 / ops[1][""])
    raise NotLinear("unsupported node %s" % type(node).__name__)


def symbol_shape(sym):
    """Dimensions of a flat symbol per name part: `R r[2,3]` with connector `p`, variable `v` gives
    the flat symbol `r.p.v` the shape [(2, 3), (), ()]."""
    parts = sym.name.split(SEP)
    shape = []
    for da in sym.dimensions:
        vals = [getattr(d, "value", d) for d in da]
        if all(v is None for v in vals):
            shape.append(())
        elif all(isinstance(v, int) and not isinstance(v, bool) and v >= 0 for v in vals):
            shape.append(tuple(vals))
        else:
            raise NotLinear("dimension of %s is not a literal" % sym.name)
    if len(shape) > len(parts):
        raise NotLinear("more dimension groups than name parts in %s" % sym.name)
    # dimension groups are aligned with the leading name parts
    return shape + [()] * (len(parts) - len(shape))


def element_names(name, shape):
    """Names of all elements of a flat symbol, row-major: r[1,1].p.v, r[1,2].p.v, ..."""
    parts = name.split(SEP)
    out = [""]
    for k, part in enumerate(parts):
        out = [(o + SEP if k else "") + G.elem(part, idx) for o in out for idx in G.index_tuples(shape[k])]
    return out


def expand_form(f, shapes):
    """Scalar linear forms {element name: Fraction, "": const} of one flat equation: a reference with
    literal subscripts names one element; references that leave array dimensions unsubscripted make
    the equation an element-wise one (all such references must leave the same dimensions free;
    scalars and constants are broadcast)."""
    free = None
    plan = []
    for ref, x in f.items():
        if ref == "":
            plan.append((None, None, None, x))
            continue
        name, per = ref
        if name not in shapes:
            raise NotLinear("reference to unknown flat symbol %s" % name)
        shape = shapes[name]
        parts = name.split(SEP)
        if per is None:
            per = (None,) * len(parts)
        if len(per) != len(parts):
            raise NotLinear("subscript groups do not match the name parts of %s" % name)
        fr = ()
        for k, sub in enumerate(per):
            if sub is None:
                fr += shape[k]
            elif len(sub) != len(shape[k]) or any(not 1 <= i <= n for i, n in zip(sub, shape[k])):
                raise NotLinear("subscripts %r of %s do not fit the dimensions %r" % (sub, name, shape[k]))
        if fr:
            if free is not None and free != fr:
                raise NotLinear("element-wise equation over arrays of different shapes")
            free = fr
        plan.append((parts, per, bool(fr), x))
    out = []
    for idx in G.index_tuples(free or ()):
        g = {}
        for parts, per, is_free, x in plan:
            if parts is None:
                g = add(g, {"": x}, 1)
                continue
            rest = list(idx)
            names = []
            for k, part in enumerate(parts):
                if per[k] is not None:
                    sub = per[k]
                else:
                    n = len(shapes[SEP.join(parts)][k]) if is_free else 0
                    sub, rest = tuple(rest[:n]), rest[n:]
                names.append(G.elem(part, sub))
            g = add(g, {SEP.join(names): x}, 1)
        out.append(g)
    return out


def add(a, b, k):
    out = dict(a)
    for c, x in b.items():
        y = out.get(c, 0) + k * x
        if y == 0:
            out.pop(c, None)
        else:
            out[c] = y
    return out


def norm_scalar(f):
    """Canonical representative of a linear form up to a non-zero factor (hashable)."""
    items = sorted((c, x) for c, x in f.items() if x != 0)
    if not items:
        return ()
    k = items[0][1]
    return tuple((c, x / k) for c, x in items)


def norm_sign(f):
    items = sorted((c, x) for c, x in f.items() if x != 0)
    if not items:
        return ()
    k = -1 if items[0][1] < 0 else 1
    return tuple((c, str(x * k)) for c, x in items)


def show(f):
    items = sorted((c, x) for c, x in f.items() if c != "")
    s = " ".join("%s%s*%s" % ("+" if x > 0 else "-", abs(x), c) for c, x in items) or "0"
    return s + " = %s" % (-f.get("", Fraction(0)))


# ---- reference: Modelica connection semantics ---------------------------------------------------
class UF:
    def __init__(self):
        self.p = {}

    def find(self, a):
        self.p.setdefault(a, a)
        while self.p[a] != a:
            self.p[a] = self.p[self.p[a]]
            a = self.p[a]
        return a

    def union(self, a, b):
        ra, rb = self.find(a), self.find(b)
        if ra != rb:
            self.p[rb] = ra
            return True
        return False

    def classes(self):
        out = {}
        for a in list(self.p):
            out.setdefault(self.find(a), []).append(a)
        return list(out.values())


def reference(case, inst):
    """Reference connection equations, each tagged with what it states."""
    cts = case["ctypes"]
    ctype_of = {c: t for c, t, _top in inst.conns}
    faces, pots = UF(), UF()
    merges = 0
    for e in inst.edges:
        a, b = (e["lflat"], e["linner"]), (e["rflat"], e["rinner"])
        both_old = a in faces.p and b in faces.p
        if faces.union(a, b) and both_old:
            merges += 1
        pots.union(e["lflat"], e["rflat"])
    eqs = []
    for cl in pots.classes():
        t = ctype_of[cl[0]]
        for vn, prefixes in cts[t]:
            if G.var_kind(prefixes) == "pot":
                for x in cl[1:]:
                    eqs.append(("potential", {cl[0] + SEP + vn: Fraction(1), x + SEP + vn: Fraction(-1)}
                                if x != cl[0] else {}, "%s%s%s = %s%s%s" % (cl[0], SEP, vn, x, SEP, vn)))
    sets = faces.classes()
    for cl in sets:
        t = ctype_of[cl[0][0]]
        for vn, prefixes in cts[t]:
            if G.var_kind(prefixes) == "flow":
                f = {}
                for c, inner in cl:
                    f = add(f, {c + SEP + vn: Fraction(1)}, 1 if inner else -1)
                eqs.append(("flow-sum", f, "set %s variable %s" % (sorted(cl), vn)))
    touched = set(faces.p)
    zero_tags = {}
    # elements of a connector of an array of components of which other elements are connected (finding C09-F2)
    partial = set()
    for (comp, conn), paths in G.array_groups(case).items():
        if (comp, conn) in G.partial_arrays(case):
            partial |= set(SEP.join(p) for p in paths)
    for c, t, top in inst.conns:
        if top:
            free = (c, False) not in touched and (c, True) not in touched
            tag = "unconnected"
        else:
            free = (c, True) not in touched
            tag = "unconnected" if (c, False) not in touched else "nested-outside-only"
            if tag == "unconnected" and c in partial:
                tag = "unconnected-element-of-partly-connected-array"
        if free:
            for vn, prefixes in cts[t]:
                if G.var_kind(prefixes) == "flow":
                    eqs.append((tag, {c + SEP + vn: Fraction(1)}, c + SEP + vn))
    return eqs, sets, merges


# ---- real code ------------------------------------------------------------------------------------
def run_real(text, top):
    """Flat equations of the real pipeline as linear forms; exceptions are outcomes."""
    from pymoca import parser, tree, ast
    try:
        t = parser.parse(text, bypass_cache=True)
        if t is None:
            return {"raised": "ParseReturnedNone"}
        flat = tree.flatten(t, ast.ComponentRef.from_string(top))
        cls = flat.classes[top]
        syms = list(cls.symbols.values())
        eqs = list(cls.equations)
    except Exception as e:  # outcome, not a harness failure
        return {"raised": type(e).__name__, "msg": str(e)[:300]}
    try:
        shapes = {s.name: symbol_shape(s) for s in syms}
    except NotLinear as ex:
        return {"raised": None, "unreadable": str(ex), "symbols": [s.name for s in syms]}
    symbols = [n for s in syms for n in element_names(s.name, shapes[s.name])]
    flow_syms = [n for s in syms if "flow" in s.prefixes for n in element_names(s.name, shapes[s.name])]
    forms = []
    for e in eqs:
        try:
            if not isinstance(e, ast.Equation):
                raise NotLinear("flat equation of class %s" % type(e).__name__)
            forms += expand_form(add(lin(e.left), lin(e.right), -1), shapes)
        except NotLinear as ex:
            return {"raised": None, "unreadable": str(ex), "symbols": symbols}
    return {"raised": None, "forms": forms, "symbols": symbols, "flow_syms": flow_syms}


def model_request(case, inst, policy="face"):
    # `vars` is the flattened symbol list of the left connector class as expand_connectors sees it:
    # flatten_symbols has already stripped `input`/`output` from symbols below the top level, and the
    # variables of a connector instance are always below the top level.
    cts = case["ctypes"]
    return {"op": "connect.expand", "flowSyms": inst.flows, "policy": policy,
            "edges": [{"pre": e["pre"], "l": e["l"], "r": e["r"],
                       "vars": [[vn, [q for q in pf if q not in ("input", "output")]] for vn, pf in cts[e["ctype"]]]}
                      for e in inst.edges]}


def canon_connect_forms(forms, inst):
    """Connect-derived equations -> (multiset of flow forms up to sign, potential partition, leftovers)."""
    flows, pots = set(inst.flows), set(inst.pots)
    fl, uf, other = [], UF(), []
    for f in forms:
        vs = [c for c in f if c != ""]
        if not f:
            continue  # x = x from a self connection
        if "" not in f and vs and all(v in flows for v in vs):
            fl.append(norm_sign(f))
        elif "" not in f and len(vs) == 2 and all(v in pots for v in vs) and sorted(f.values()) == [-1, 1]:
            uf.union(vs[0], vs[1])
        else:
            other.append(show(f))
    part = sorted(sorted(c) for c in uf.classes() if len(c) > 1)
    return sorted(fl), part, sorted(other)


def model_forms(ans):
    forms = []
    for e in ans["eqs"]:
        if e[0] == "pot":
            forms.append(add({e[1]: Fraction(1)}, {e[2]: Fraction(1)}, -1))
        elif e[0] == "sum":
            f = {}
            for name, neg in e[1]:
                f = add(f, {name: Fraction(1)}, -1 if neg else 1)
            forms.append(f)
        else:
            forms.append({e[1]: Fraction(1)})
    return forms


# ---- the checker ----------------------------------------------------------------------------------
def check_case(ctx, case, drv, count=True):
    text = G.render(case)
    inst = G.instantiate(case)
    ref, sets, merges = reference(case, inst)
    if count:
        ne = len(inst.edges)
        big = max([len(s) for s in sets] or [0])
        ctx.case(case, nontrivial=ne >= 2 and (big >= 3 or merges >= 1))
        ctx.count("stream-" + case["stream"])
        for fam in set(case.get("families", [])):
            ctx.count("family-" + fam)
        ctx.count("edges-%02d+" % (5 * (ne // 5)))
        ctx.count("sets-%d" % min(len(sets), 6))
        ctx.count("max-set-size-%d" % min(big, 8))
        ctx.count("merges-of-existing-sets-%d" % min(merges, 3))
        kinds = set("all-outside" if not any(i for _c, i in s) else "all-inside" if all(i for _c, i in s) else "mixed"
                    for s in sets)
        for k in kinds:
            ctx.count("set-" + k)
        if any(e["lflat"] == e["rflat"] and e["linner"] == e["rinner"] for e in inst.edges):
            ctx.count("self-connection")
        seen = set()
        for e in inst.edges:
            k = frozenset([(e["lflat"], e["linner"]), (e["rflat"], e["rinner"])])
            if k in seen:
                ctx.count("duplicate-edge")
            seen.add(k)
        ctx.count("ctypes-%d" % len(case["ctypes"]))
        simple = [n.split(SEP)[-1] for n in case["ctypes"]]
        used_types = set(e["ctype"] for e in inst.edges)
        if len(set(simple)) < len(simple):
            ctx.count("same-simple-name-connector-classes" + ("-both-connected" if len(used_types) > 1 else ""))
        arrs = [G.dims_of(d) for m in case["models"] for d in m["decl"] if G.dims_of(d)]
        if arrs:
            for a in arrs:
                ctx.count("array-of-components-%dD" % len(a))
            # connected elements of one array that agree in their first subscript but differ in a later one
            def row(c):
                h = c.split(SEP)[0]
                return (G.base(h), h[len(G.base(h)) + 1:-1].split(",")) if "[" in h else None
            rows_sets = {}
            for si, st in enumerate(sets):
                for c, _inner in st:
                    rw = row(c)
                    if rw and len(rw[1]) >= 2:
                        rows_sets.setdefault((rw[0], rw[1][0], c.split(SEP, 1)[1]), set()).add((si, tuple(rw[1])))
            if any(len(set(x[1] for x in v)) >= 2 for v in rows_sets.values()):
                ctx.count("array-connected-elements-share-first-subscript")
            if any(len(set(x[0] for x in v)) >= 2 for v in rows_sets.values()):
                ctx.count("array-connected-elements-share-first-subscript-in-distinct-sets")
        conn_touched = set(c for c, _i in G.touched_faces(inst))
        if any(b != a and b.startswith(a) for a in conn_touched for b, _t, _top in inst.conns if b not in conn_touched):
            ctx.count("unconnected-connector-name-extends-a-connected-one")
    real = run_real(text, case["top"])
    cs = dict(case, text=text)
    if real["raised"]:
        ctx.violation("flattening a model with valid connect clauses raised %s" % real["raised"], cs,
                      expected="flat equations", observed=real, kind="input")
        return
    if "unreadable" in real:
        ctx.violation("a flat equation is not a linear equation over the flat variables: %s" % real["unreadable"], cs,
                      expected="linear connection equations", observed=real["unreadable"], kind="input")
        return
    forms = real["forms"]
    allvars = sorted(set(inst.flows) | set(inst.pots) | set(inst.skips) | set(real["symbols"])
                     | set(c for f in forms for c in f if c != ""))
    cols = allvars + [""]

    # (A) whole system: component equations + reference connection equations
    ref_all = list(inst.comp_eqs) + [f for _t, f, _d in ref]
    basis_real = rref(forms, cols)
    basis_ref = rref(ref_all, cols)
    problems = []
    for tag, f, d in ref:
        if not implied(f, basis_real, cols):
            problems.append((tag, d, show(f)))
    for f in inst.comp_eqs:
        if not implied(f, basis_real, cols):
            problems.append(("component-equation", show(f), show(f)))
    for f in forms:
        if not implied(f, basis_ref, cols):
            problems.append(("extra", show(f), show(f)))

    # (B) connect-derived part alone: remove one occurrence of every component equation
    rest = list(forms)
    missing_comp = False
    for f in inst.comp_eqs:
        k = norm_scalar(f)
        for i, g in enumerate(rest):
            if norm_scalar(g) == k:
                del rest[i]
                break
        else:
            missing_comp = True
    if not missing_comp and not problems:
        b1 = rref(rest, cols)
        b2 = rref([f for _t, f, _d in ref], cols)
        for tag, f, d in ref:
            if not implied(f, b1, cols):
                problems.append((tag, d, show(f)))
        for f in rest:
            if not implied(f, b2, cols):
                problems.append(("extra", show(f), show(f)))

    if problems:
        tags = set(p[0] for p in problems)
        p0 = problems[0]
        if tags == {"nested-outside-only"}:
            what = ("flow of a nested connector that is connected only as an outside connector inside its own class "
                    "(its inside face is in no connection) is not set to zero")
        elif tags == {"unconnected-element-of-partly-connected-array"}:
            what = ("flow of an unconnected element of an array of components is not set to zero when the same connector of "
                    "another element of the array occurs in a connect clause")
        elif p0[0] == "potential":
            what = "potential variables of one connection set are not forced equal"
        elif p0[0] == "flow-sum":
            what = "the flow sum of a connection set (inside positive, outside negative) is not implied by the flat equations"
        elif p0[0] in ("unconnected", "unconnected-element-of-partly-connected-array"):
            what = "a flow variable that appears in no connection is not zero"
        elif p0[0] == "nested-outside-only":
            what = "flow of a nested connector connected only as outside connector is not zero (together with other defects)"
        elif p0[0] == "component-equation":
            what = "an equation of a component is missing from the flat system"
        else:
            what = "the flat equations imply an equation that Modelica connection semantics does not"
        ctx.violation(what, cs, expected=[list(map(str, p)) for p in problems[:6]],
                      observed=[show(f) for f in forms], kind="input")

    # (C) correspondence with the Lean model.  Not for the stream `array-open`: the model keeps one entry per
    # array element on the list of unconnected flows, the code one entry per array symbol (finding C09-F2),
    # so the tie would only repeat the known finding.
    if drv is not None and case.get("stream") != "array-open":
        ans = drv.ask(model_request(case, inst, pop_policy(ctx)))
        if not ans.get("ok"):
            from harness.common import HarnessError
            raise HarnessError("model driver rejected the case: %s" % json.dumps(ans)[:400])
        if ans.get("raised"):
            ctx.disagreement("connect.expand", cs, model="raised " + str(ans["raised"]), impl="flat equations")
            return
        if missing_comp:
            ctx.disagreement("connect.component-equations", cs, model="component equations kept verbatim",
                             impl=[show(f) for f in forms])
            return
        m = canon_connect_forms(model_forms(ans), inst)
        r = canon_connect_forms(rest, inst)
        if m != r:
            names = ["flow-forms", "potential-partition", "unclassified"]
            diff = {names[i]: {"model": m[i], "impl": r[i]} for i in range(3) if m[i] != r[i]}
            ctx.disagreement("connect.expand", cs, model=diff, impl=None)
        elif count:
            ctx.count("order-exact" if [norm_sign(f) for f in model_forms(ans)] == [norm_sign(f) for f in rest]
                      else "order-differs")


# ---- run ----------------------------------------------------------------------------------------
def exhaustive_small(ctx, drv, limit):
    """All edge lists of length <= 3 (both orientations, self edges included) over two component
    connectors and one top-level connector of one connector class."""
    import itertools
    nodes = [["c0", "a"], ["c1", "a"], ["o0"]]
    pairs = [[a, b] for a in nodes for b in nodes]
    n = 0
    for k in range(0, 4):
        for es in itertools.product(pairs, repeat=k):
            if n >= limit or ctx.time_left() < 0:
                return n
            case = {"stream": "flat", "ctypes": {"P0": [["v0", []], ["i0", ["flow"]]]},
                    "models": [{"name": "L0", "decl": [["a", "P0", "conn"], ["b", "P0", "conn"]],
                                "body": [{"eq": {"terms": [[1, "a.i0"], [1, "b.i0"]], "const": 0}}]},
                               {"name": "T", "decl": [["c0", "L0", "comp"], ["o0", "P0", "conn"], ["c1", "L0", "comp"]],
                                "body": [{"connect": [list(e[0]), list(e[1])]} for e in es]}],
                    "top": "T", "families": ["exhaustive"]}
            check_case(ctx, case, drv)
            n += 1
    return n


def run(ctx):
    drv = ctx.driver("drv_c09")
    quick = ctx.tier == "quick"
    from harness import corpus
    for c in corpus.load("C09"):
        ctx.count("corpus")
        check_case(ctx, c["case"] if "case" in c else c, drv)
    # models of the class of the fixed finding C09-F1 (nested connector connected only as outside
    # connector) keep their own small stream, so that every run exercises the fix
    for _ in range(6 if quick else 80):
        check_case(ctx, G.gen_case(ctx.rng, "hier-open"), drv)
    # exhaustive sweep is deterministic; the quick tier takes a seed-dependent slice of it
    if quick:
        ctx.extra["exhaustive_small"] = exhaustive_small(ctx, drv, 60)
    else:
        ctx.extra["exhaustive_small"] = exhaustive_small(ctx, drv, 1000)
    n = 330 if quick else 8000
    done = 0
    for i in range(n):
        if ctx.time_left() < 0:
            ctx.notes.append("generated graphs stopped by the time budget after %d of %d" % (i, n))
            break
        stream = "flat" if ctx.rng.random() < 0.75 else "hier"
        check_case(ctx, G.gen_case(ctx.rng, stream), drv)
        done += 1
    ctx.extra["generated_graphs"] = done
    # arrays of components with one, two or three dimensions, literal subscripts in the connect clauses.
    # Drawn after the graphs above so that those are the same cases as before for a given seed.
    na = 70 if quick else 1500
    done = 0
    for i in range(na):
        if ctx.time_left() < 0:
            ctx.notes.append("arrays of components stopped by the time budget after %d of %d" % (i, na))
            break
        check_case(ctx, G.gen_array_case(ctx.rng, "array"), drv)
        done += 1
    ctx.extra["generated_array_cases"] = done
    # arrays of components connected in some elements only: the class of the open finding C09-F2
    # (unconnected elements get no `flow = 0`), own stream, direct oracle only
    for _ in range(4 if quick else 40):
        if ctx.time_left() < 0:
            break
        check_case(ctx, G.gen_array_case(ctx.rng, "array-open"), drv)
    ctx.extra["run_s"] = round(45.0 - ctx.time_left() if quick else 600.0 - ctx.time_left(), 1)


def search(ctx):
    """Tie broken without an oracle failure: spend the remaining time on the direct oracle alone."""
    while ctx.time_left() > 0 and not ctx.violations:
        r = ctx.rng.random()
        if r < 0.3:
            check_case(ctx, G.gen_array_case(ctx.rng, "array"), None, count=False)
            continue
        stream = "flat" if r < 0.72 else "hier"
        check_case(ctx, G.gen_case(ctx.rng, stream), None, count=False)


def replay(ctx, payload):
    c = payload["case"]
    c = {k: v for k, v in c.items() if k != "text"}
    check_case(ctx, c, ctx.driver("drv_c09"))


MANIFEST = dict(
    level_text="Lean 4 theorems about an executable model of expand_connectors (connection sets = connected components of the "
               "edge graph for every edge order; potential equalities, signed flow sums, zero for unconnected flows; solution set "
               "equal to the reference connection semantics over any additive commutative group, hence any field; Python's shared, "
               "in-place updated set objects proved indistinguishable from set values; face-wise Modelica rule for hierarchical "
               "models proved for the proposed fix and, under the no-open-nested-connector hypothesis, for the code as it is), tied to the "
               "real parse+flatten pipeline by a per-run differential correspondence on generated connection graphs and an exact "
               "Fraction row-space oracle on the real flat equations.",
    level_note="Trusted: Lean kernel + standard axioms; the harness. The model, not the Python, is what the theorems are about.",
    technique="Lean 4 proof (invariant by induction over the edge list) + model/implementation correspondence",
)
READY = True
