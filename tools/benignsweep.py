#!/venv/bin/python
"""Run every registered check of the seed's property on harmless changes (seeded/benign/*): any non-zero exit is a false alarm."""
import argparse, concurrent.futures as cf, glob, json, os, subprocess, sys
VERIF = os.path.dirname(os.path.dirname(os.path.abspath(__file__)))
ap = argparse.ArgumentParser(); ap.add_argument("ids", nargs="*"); ap.add_argument("--jobs", type=int, default=4); ap.add_argument("--new", action="store_true")
ap.add_argument("--cross", action="store_true", help="run every property whose anchored files the patch touches (results in benign_cross.jsonl)")
a = ap.parse_args()
rp = os.path.join(VERIF, "seeded", "benign_cross.jsonl" if a.cross else "benign_results.jsonl")
anch = {}
for l in open(os.path.join(VERIF, "properties.jsonl")):
    pr = json.loads(l)
    for f in pr["anchors"]["files"]:
        anch.setdefault(f, set()).add(pr["id"])
def props_for(d):
    import re
    files = re.findall(r"^\+\+\+ b/(\S+)", open(d + "/patch.diff").read(), re.M)
    ps = {json.load(open(d + "/meta.json"))["property"]}
    for f in files:
        ps |= anch.get(f, set())
    return sorted(ps)
done = set()
if a.new and os.path.exists(rp):
    done = {os.path.basename(json.loads(l).get("dir", "")) for l in open(rp) if l.strip()}
dirs = [d for d in sorted(glob.glob(os.path.join(VERIF, "seeded", "benign", "C*-b*")))
        if (not a.ids or json.load(open(d + "/meta.json"))["property"] in a.ids) and os.path.basename(d) not in done]
def run(d):
    extra = ["--props", ",".join(props_for(d))] if a.cross else []
    p = subprocess.run(["/venv/bin/python", os.path.join(VERIF, "tools", "seedcheck.py"), d, "--benign"] + extra, stdout=subprocess.PIPE, stderr=subprocess.STDOUT, text=True)
    try:
        return json.loads(p.stdout.strip().splitlines()[-1])
    except Exception:
        return {"dir": d, "error": p.stdout[-300:]}
with cf.ThreadPoolExecutor(a.jobs) as ex:
    for o in ex.map(run, dirs):
        open(rp, "a").write(json.dumps(o) + "\n")
        ck = o.get("checks") or {}
        print(os.path.basename(o.get("dir", "?")), "apply", o.get("apply_rc"), "ALARM" if o.get("alarm") else "quiet",
              {k: (v["rc"], v["violation_lines"][:1]) for k, v in ck.items() if v["rc"] != 0}, o.get("error", ""))
        sys.stdout.flush()
