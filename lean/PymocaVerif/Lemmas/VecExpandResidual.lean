import PymocaVerif.Lemmas.VecExpand
/-!
Lemmas for `residual_renamed` (C18): the renamed point built by `renameEnv` gives every scalar
symbol the element it stands for, and `reshape(vertcat …).T` of those scalars rebuilds the matrix.
-/
namespace PymocaVerif.VecExpand

/-! ## Storage positions are exactly the elements -/

theorem elemPos_surj (ds : List Nat) (k : Nat) (hne : ds ≠ []) (hk : k < (mxShape ds).1 * (mxShape ds).2) :
    ∃ idx, InRange ds idx ∧ elemPos ds idx = k := by
  match ds with
  | [] => exact absurd rfl hne
  | [n] =>
    simp only [mxShape, Nat.mul_one] at hk
    exact ⟨[k], by simp [InRange, hk], rfl⟩
  | [n, m] =>
    simp only [mxShape] at hk
    have hn : 0 < n := by
      rcases Nat.eq_zero_or_pos n with h0 | h0
      · subst h0; simp at hk
      · exact h0
    refine ⟨[k % n, k / n], ?_, ?_⟩
    · simp only [InRange, and_true]
      exact ⟨Nat.mod_lt _ hn, (Nat.div_lt_iff_lt_mul hn).2 (by rw [Nat.mul_comm]; exact hk)⟩
    · simp only [elemPos]
      have := Nat.mod_add_div k n
      rw [Nat.mul_comm] at this
      exact this
  | a :: b :: c :: rest =>
    simp only [mxShape, Nat.mul_one] at hk
    refine ⟨unravel (a :: b :: c :: rest) k, unravel_inRange _ _ hk, ?_⟩
    have e : elemPos (a :: b :: c :: rest) (unravel (a :: b :: c :: rest) k)
        = ravel (a :: b :: c :: rest) (unravel (a :: b :: c :: rest) k) := by
      unfold elemPos; split <;> simp_all [unravel]
    rw [e, ravel_unravel _ _ hk]

/-- `substValue` of the elements listed in row-major order rebuilds the stored matrix -/
theorem substValue_rebuild (ds : List Nat) (hne : ds ≠ []) (data : List Int) (hlen : data.length = prod ds) :
    (substValue (mxShape ds).1 (mxShape ds).2 ((ndindex ds).map fun idx => data.getD (elemPos ds idx) 0)).data
      = data := by
  rw [substValue_data]
  have hp := prod_mxShape ds
  apply List.ext_getElem
  · simp [hlen, ← hp, Nat.mul_comm]
  · intro k h1 h2
    simp only [List.length_map, List.length_range] at h1
    have hk : k < (mxShape ds).1 * (mxShape ds).2 := by rw [Nat.mul_comm]; exact h1
    obtain ⟨idx, hr, he⟩ := elemPos_surj ds k hne hk
    obtain ⟨_, hpos⟩ := pos_lemma ds idx hne hr
    rw [he] at hpos
    simp only [List.getElem_map, List.getElem_range]
    rw [hpos]
    have hrl := ravel_lt ds idx hr
    simp only [ndindex, List.map_map]
    rw [getD_map_range _ _ _ _ hrl]
    simp only [Function.comp, unravel_ravel ds idx hr, he]
    simp [List.getD_eq_getElem?_getD, h2]

/-! ## Association lists -/

theorem lookup_of_unique {V} (L : List (List Char × V)) (k : List Char) (v : V)
    (hmem : (k, v) ∈ L) (huniq : ∀ v', (k, v') ∈ L → v' = v) : L.lookup k = some v := by
  induction L with
  | nil => simp at hmem
  | cons p L ih =>
    obtain ⟨k', v'⟩ := p
    by_cases hk : k = k'
    · subst hk
      have := huniq v' (by simp)
      simp [List.lookup, this]
    · have hne : (k == k') = false := by simpa using hk
      simp only [List.lookup, hne]
      apply ih
      · simp only [List.mem_cons, Prod.mk.injEq] at hmem
        rcases hmem with ⟨e, _⟩ | h
        · exact absurd e hk
        · exact h
      · intro v'' h; exact huniq v'' (by simp [h])

theorem scalars_map {ι} (env : Env) (idxs : List ι) (g : ι → List Char) (f : ι → Int)
    (h : ∀ i ∈ idxs, env (g i) = some ⟨1, 1, [f i]⟩) : scalars env (idxs.map g) = some (idxs.map f) := by
  induction idxs with
  | nil => rfl
  | cons i is ih =>
    have h1 := h i (by simp)
    have h2 := ih (fun j m => h j (by simp [m]))
    simp [scalars, h1, h2]

/-! ## Well-formed declarations and points -/

structure WF (ds : List Decl) (env : Env) : Prop where
  distinct : ∀ d1 ∈ ds, ∀ d2 ∈ ds, d1.name = d2.name → d1 = d2
  parsed : ∀ d ∈ ds, d.name = d.pre ++ dotJoin d.parts ++ d.post
  levels : ∀ d ∈ ds, d.parts.length = d.ms.length
  nobr : ∀ d ∈ ds, NoBr d.pre ∧ NoBr d.post ∧ ∀ p ∈ d.parts, NoBr p
  shaped : ∀ d ∈ ds, ∃ m, env d.name = some m ∧ m.rows = (mxShape d.dims).1 ∧
    m.cols = (mxShape d.dims).2 ∧ m.data.length = prod d.dims

theorem inRange_length (a b : List Nat) (h : InRange a b) : b.length = a.length := by
  induction a generalizing b with
  | nil => cases b <;> simp_all [InRange]
  | cons d a ih => cases b <;> simp_all [InRange]

theorem mem_ndindex_inRange (ds idx : List Nat) (h : idx ∈ ndindex ds) : InRange ds idx := by
  simp only [ndindex, List.mem_map, List.mem_range] at h
  obtain ⟨k, hk, e⟩ := h
  rw [← e]; exact unravel_inRange ds k hk

theorem unbr_name (ds : List Decl) (env : Env) (hwf : WF ds env) (d : Decl) (hd : d ∈ ds) :
    unbr false d.name = d.name := by
  obtain ⟨h1, h2, h3⟩ := hwf.nobr d hd
  rw [hwf.parsed d hd]
  have hj : NoBr (dotJoin d.parts) := by
    have hT : ∀ (l : List (List Char)), (∀ p ∈ l, NoBr p) → NoBr (dotTail l) := by
      intro l
      induction l with
      | nil => intro _; simp [dotTail, NoBr]
      | cons y r ih =>
        intro h
        have hy := h y (by simp)
        have hr := ih (fun p m => h p (by simp [m]))
        simp only [dotTail, NoBr, List.mem_cons, List.mem_append, not_or] at *
        exact ⟨by decide, hy, hr⟩
    cases hp : d.parts with
    | nil => simp [dotJoin, NoBr]
    | cons x r =>
      rw [hp] at h3
      have hx := h3 x (by simp)
      have hr := hT r (fun p m => h3 p (by simp [m]))
      simp only [dotJoin, NoBr, List.mem_append, not_or] at *
      exact ⟨hx, hr⟩
  have hall : NoBr (d.pre ++ dotJoin d.parts ++ d.post) := by
    simp only [NoBr, List.mem_append, not_or] at *
    exact ⟨⟨h1, hj⟩, h2⟩
  have := unbr_append_noBr _ [] hall
  simpa [unbr] using this

theorem unbr_scalar (ds : List Decl) (env : Env) (hwf : WF ds env) (d : Decl) (hd : d ∈ ds) (idx : List Nat) :
    unbr false (d.scalar idx) = d.name := by
  obtain ⟨h1, h2, h3⟩ := hwf.nobr d hd
  simp only [Decl.scalar, scalarNameP, List.append_assoc]
  have hpo : unbr false d.post = d.post := by
    have := unbr_append_noBr d.post [] h2
    simpa [unbr] using this
  rw [unbr_append_noBr _ _ h1, unbr_dotJoin_nameLevels, map_fst_zip _ _ (hwf.levels d hd), hpo,
    hwf.parsed d hd, List.append_assoc]
  intro pl m
  exact h3 pl.1 (List.of_mem_zip m).1

/-- every pair of the renamed association list -/
theorem mem_renameList (ds : List Decl) (env : Env) (k : List Char) (v : IMat) (h : (k, v) ∈ renameList ds env) :
    ∃ d ∈ ds, ∃ m, env d.name = some m ∧
      ((d.dims = [] ∧ k = d.name ∧ v = m) ∨
       (d.dims ≠ [] ∧ ∃ idx ∈ ndindex d.dims, k = d.scalar idx ∧ v = ⟨1, 1, [m.data.getD (elemPos d.dims idx) 0]⟩)) := by
  simp only [renameList, List.mem_flatMap] at h
  obtain ⟨d, hd, hm⟩ := h
  refine ⟨d, hd, ?_⟩
  cases he : env d.name with
  | none => simp [he] at hm
  | some m =>
    refine ⟨m, rfl, ?_⟩
    simp only [he] at hm
    by_cases hdim : d.dims = []
    · simp only [hdim, if_true, List.mem_singleton, Prod.mk.injEq] at hm
      exact Or.inl ⟨hdim, hm.1, hm.2⟩
    · simp only [hdim, if_false, List.mem_map, Prod.mk.injEq] at hm
      obtain ⟨idx, hi, e1, e2⟩ := hm
      exact Or.inr ⟨hdim, idx, hi, e1.symm, e2.symm⟩

theorem renameEnv_scalar_decl (ds : List Decl) (env : Env) (hwf : WF ds env) (d : Decl) (hd : d ∈ ds)
    (hdim : d.dims = []) : renameEnv ds env d.name = env d.name := by
  obtain ⟨m, hm, _⟩ := hwf.shaped d hd
  rw [hm]
  apply lookup_of_unique
  · simp only [renameList, List.mem_flatMap]
    exact ⟨d, hd, by simp [hm, hdim]⟩
  · intro v' hv'
    obtain ⟨d', hd', m', hm', h⟩ := mem_renameList ds env _ _ hv'
    rcases h with ⟨_, e1, e2⟩ | ⟨hne, idx, _, e1, _⟩
    · have := hwf.distinct d hd d' hd' e1
      subst this
      rw [hm] at hm'; cases hm'; exact e2
    · exfalso
      have h1 := unbr_scalar ds env hwf d' hd' idx
      have h2 := unbr_name ds env hwf d hd
      rw [← e1, h2] at h1
      have := hwf.distinct d hd d' hd' h1
      subst this
      exact hne hdim

theorem renameEnv_elem (ds : List Decl) (env : Env) (hwf : WF ds env) (d : Decl) (hd : d ∈ ds)
    (hdim : d.dims ≠ []) (m : IMat) (hm : env d.name = some m) (idx : List Nat) (hi : idx ∈ ndindex d.dims) :
    renameEnv ds env (d.scalar idx) = some ⟨1, 1, [m.data.getD (elemPos d.dims idx) 0]⟩ := by
  apply lookup_of_unique
  · simp only [renameList, List.mem_flatMap]
    exact ⟨d, hd, by simp only [hm, hdim, if_false, List.mem_map]; exact ⟨idx, hi, rfl⟩⟩
  · intro v' hv'
    obtain ⟨d', hd', m', hm', h⟩ := mem_renameList ds env _ _ hv'
    rcases h with ⟨hnil, e1, _⟩ | ⟨_, idx', hi', e1, e2⟩
    · exfalso
      have h1 := unbr_scalar ds env hwf d hd idx
      have h2 := unbr_name ds env hwf d' hd'
      rw [e1, h2] at h1
      have := hwf.distinct d' hd' d hd h1
      subst this
      exact hdim hnil
    · have h1 := unbr_scalar ds env hwf d hd idx
      have h2 := unbr_scalar ds env hwf d' hd' idx'
      rw [e1, h2] at h1
      have := hwf.distinct d' hd' d hd h1
      subst this
      rw [hm] at hm'; cases hm'
      have hl1 := inRange_length _ _ (mem_ndindex_inRange _ _ hi)
      have hl2 := inRange_length _ _ (mem_ndindex_inRange _ _ hi')
      have hpl := hwf.levels d' hd
      -- same variable: the name determines the index tuple
      have hinj : idx = idx' := by
        have h := e1
        simp only [Decl.scalar, scalarNameP, List.append_assoc] at h
        have h' := List.append_cancel_left h
        have hn := need_zip d'.parts d'.ms hpl
        exact (dotJoin_nameLevels_inj _ idx idx' _ _ (by rw [hn]; exact hl1) (by rw [hn]; exact hl2) h').1
      rw [e2, hinj]

theorem tableOf_decl (ds : List Decl) (env : Env) (hwf : WF ds env) (d : Decl) (hd : d ∈ ds) :
    tableOf ds d.name = d.entry := by
  simp only [tableOf]
  cases hf : ds.find? (fun d' => decide (d'.name = d.name)) with
  | none =>
    have := List.find?_eq_none.1 hf d hd
    simp at this
  | some d0 =>
    have h1 := List.find?_some hf
    have h2 := List.mem_of_find?_eq_some hf
    have : d0 = d := hwf.distinct d0 h2 d hd (by simpa using h1)
    rw [this]

/-- the packed scalars of an expanded variable evaluate, at the renamed point, to the variable's value -/
theorem eval_pack (ds : List Decl) (env : Env) (hwf : WF ds env) (d : Decl) (hd : d ∈ ds) (hdim : d.dims ≠ []) :
    eval (renameEnv ds env) (.pack (mxShape d.dims).1 (mxShape d.dims).2 d.names) = env d.name := by
  obtain ⟨m, hm, hr, hc, hl⟩ := hwf.shaped d hd
  have hs : scalars (renameEnv ds env) d.names
      = some ((ndindex d.dims).map fun idx => m.data.getD (elemPos d.dims idx) 0) := by
    simp only [Decl.names]
    exact scalars_map _ _ _ _ (fun idx hi => renameEnv_elem ds env hwf d hd hdim m hm idx hi)
  simp only [eval, hs, List.length_map, ndindex_length, prod_mxShape, if_true, hm]
  congr 1
  have hdata := substValue_rebuild d.dims hdim m.data hl
  cases m with
  | mk rows cols data =>
    simp only at hr hc hdata
    subst hr; subst hc
    simp only [substValue, transpose, reshape, vertcat, Mat.mk.injEq, true_and]
    exact hdata

/-- expressions of the unexpanded model: every symbol is declared, no packed scalars yet -/
def Closed (ds : List Decl) : Expr → Prop
  | .var n => ∃ d ∈ ds, d.name = n
  | .pack _ _ _ => False
  | .el e _ => Closed ds e
  | .const _ => True
  | .add a b => Closed ds a ∧ Closed ds b
  | .sub a b => Closed ds a ∧ Closed ds b
  | .emul a b => Closed ds a ∧ Closed ds b
  | .smul _ a => Closed ds a
  | .neg a => Closed ds a


/-! ### example data: `Real w[2,2]; Real z;` with `w = [[1,2],[3,4]]` (stored 1,3,2,4), `z = 5` -/
def exW : Decl := ⟨['w'], [], [['w']], [], [some [2, 2]]⟩
def exZ : Decl := ⟨['z'], [], [['z']], [], [none]⟩
def exDecls : List Decl := [exW, exZ]
def exEnv : Env := fun n =>
  if n = ['w'] then some ⟨2, 2, [1, 3, 2, 4]⟩ else if n = ['z'] then some ⟨1, 1, [5]⟩ else none
/-- `w .* w - z` -/
def exEq : Expr := .sub (.emul (.var ['w']) (.var ['w'])) (.var ['z'])

theorem exWF : WF exDecls exEnv := by
  refine ⟨?_, ?_, ?_, ?_, ?_⟩
  · intro d1 h1 d2 h2 e
    simp only [exDecls, exW, exZ, List.mem_cons, List.mem_nil_iff, or_false] at h1 h2
    rcases h1 with rfl | rfl <;> rcases h2 with rfl | rfl <;> simp_all
  · intro d h
    simp only [exDecls, exW, exZ, List.mem_cons, List.mem_nil_iff, or_false] at h
    rcases h with rfl | rfl <;> rfl
  · intro d h
    simp only [exDecls, exW, exZ, List.mem_cons, List.mem_nil_iff, or_false] at h
    rcases h with rfl | rfl <;> rfl
  · intro d h
    simp only [exDecls, exW, exZ, List.mem_cons, List.mem_nil_iff, or_false] at h
    rcases h with rfl | rfl <;> simp [NoBr]
  · intro d h
    simp only [exDecls, exW, exZ, List.mem_cons, List.mem_nil_iff, or_false] at h
    rcases h with rfl | rfl
    · exact ⟨⟨2, 2, [1, 3, 2, 4]⟩, by decide, by decide, by decide, by decide⟩
    · exact ⟨⟨1, 1, [5]⟩, by decide, by decide, by decide, by decide⟩

theorem exClosed : Closed exDecls exEq :=
  ⟨⟨⟨exW, by simp [exDecls], rfl⟩, ⟨exW, by simp [exDecls], rfl⟩⟩, ⟨exZ, by simp [exDecls], rfl⟩⟩

end PymocaVerif.VecExpand
