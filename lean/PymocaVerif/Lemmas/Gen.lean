import PymocaVerif.Model.Gen
/-!
# Lemmas for C11 / C12: refinement of Option-valued semantics, list helpers, the if-fold,
  correctness of the expression translation by mutual structural induction.
-/
namespace PymocaVerif.Gen
open PymocaVerif.ExprSem

/-- `x` refines `y`: wherever the specification `y` is defined, `x` is defined and agrees. -/
def Refines (x y : Option α) : Prop := ∀ v, y = some v → x = some v

theorem Refines.refl {x : Option α} : Refines x x := fun _ h => h

theorem Refines.of_eq {x y : Option α} (h : x = y) : Refines x y := fun _ hv => h ▸ hv

theorem Refines.trans {x y z : Option α} (h1 : Refines x y) (h2 : Refines y z) : Refines x z :=
  fun v hv => h1 v (h2 v hv)

theorem Refines.bind {x y : Option α} {f g : α → Option β} (h : Refines x y)
    (hf : ∀ a, Refines (f a) (g a)) : Refines (x >>= f) (y >>= g) := by
  intro v hv
  cases y with
  | none => simp at hv
  | some a =>
    have hx := h a rfl
    subst hx
    simp at hv ⊢
    exact hf a v hv

theorem Refines.bind_same {x : Option α} {f g : α → Option β}
    (hf : ∀ a, Refines (f a) (g a)) : Refines (x >>= f) (x >>= g) := Refines.bind Refines.refl hf

theorem Refines.map {x y : Option α} (f : α → β) (h : Refines x y) : Refines (x.map f) (y.map f) := by
  intro v hv
  cases y with
  | none => simp at hv
  | some a => have hx := h a rfl; subst hx; simpa using hv

/-! ## `Except` -/

theorem bind_ok {ε α β : Type} {x : Except ε α} {f : α → Except ε β} {b : β} :
    (x >>= f) = .ok b ↔ ∃ a, x = .ok a ∧ f a = .ok b := by
  cases x with
  | error e => simp [bind, Except.bind]
  | ok a => simp [bind, Except.bind]

/-! ## Lists of terms -/

theorem evalCs_ofList (P : Prims K) (ρ : Env K) : ∀ ts : List (CTerm K),
    evalCs P ρ (CTerms.ofList ts) = evalCL P ρ ts
  | [] => by simp [CTerms.ofList, evalCs, evalCL]
  | t :: ts => by simp [CTerms.ofList, evalCs, evalCL, evalCs_ofList P ρ ts]

theorem evalCL_append (P : Prims K) (ρ : Env K) : ∀ (xs ys : List (CTerm K)),
    evalCL P ρ (xs ++ ys) = (do let a ← evalCL P ρ xs; let b ← evalCL P ρ ys; some (a ++ b))
  | [], ys => by simp [evalCL]
  | x :: xs, ys => by
    simp only [List.cons_append, evalCL, evalCL_append P ρ xs ys]
    cases evalC P ρ x <;> simp
    cases evalCL P ρ xs <;> simp
    cases evalCL P ρ ys <;> simp

theorem evalCL_length (P : Prims K) (ρ : Env K) : ∀ (ts : List (CTerm K)) vs,
    evalCL P ρ ts = some vs → vs.length = ts.length
  | [], vs, h => by simp [evalCL] at h; subst h; rfl
  | t :: ts, vs, h => by
    simp only [evalCL] at h
    cases ht : evalC P ρ t with
    | none => simp [ht] at h
    | some v =>
      cases hts : evalCL P ρ ts with
      | none => simp [ht, hts] at h
      | some vs' =>
        simp [ht, hts] at h; subst h
        simp [evalCL_length P ρ ts vs' hts]

/-! ## The if-fold -/

/-- Right-nested `if_else` chain: what the backwards loop builds. -/
def nestIf : List (CTerm K) → List (CTerm K) → CTerm K → CTerm K
  | c :: cs, e :: es, last => .ifElse c e (nestIf cs es last)
  | _, _, last => last

theorem foldl_ifElse_rev (cs es : List (CTerm K)) (h : cs.length = es.length) (last : CTerm K) :
    (cs.reverse.zip es.reverse).foldl (fun acc p => CTerm.ifElse p.1 p.2 acc) last = nestIf cs es last := by
  induction cs generalizing es last with
  | nil => cases es <;> simp [nestIf]
  | cons c cs ih =>
    cases es with
    | nil => simp at h
    | cons e es =>
      simp only [List.length_cons, Nat.add_right_cancel_iff] at h
      have hl : cs.reverse.length = es.reverse.length := by simp [h]
      simp only [List.reverse_cons, List.zip_append hl, List.zip_cons_cons, List.zip_nil_right,
        List.foldl_append, List.foldl_cons, List.foldl_nil, nestIf]
      rw [ih es h]

theorem foldFromLast_eq (cs es : List (CTerm K)) (last : CTerm K) (h : cs.length = es.length) :
    foldFromLast cs (es ++ [last]) = nestIf cs es last := by
  simp only [foldFromLast, List.reverse_append, List.reverse_cons, List.reverse_nil, List.nil_append,
    List.cons_append]
  exact foldl_ifElse_rev cs es h last

/-- The same chain over the full list of branch values (the last one is the `else` value). -/
def nestAll : List (CTerm K) → List (CTerm K) → CTerm K
  | [], [last] => last
  | c :: cs, e :: es => .ifElse c e (nestAll cs es)
  | _, _ => .vcat .nil

theorem nestIf_eq_nestAll : ∀ (cs es : List (CTerm K)) (last : CTerm K), cs.length = es.length →
    nestIf cs es last = nestAll cs (es ++ [last])
  | [], [], last, _ => by simp [nestIf, nestAll]
  | [], _ :: _, _, h => by simp at h
  | _ :: _, [], _, h => by simp at h
  | c :: cs, e :: es, last, h => by
    simp only [List.length_cons, Nat.add_right_cancel_iff] at h
    simp [nestIf, nestAll, nestIf_eq_nestAll cs es last h]

/-- Split a non-empty list at its last element. -/
theorem exists_snoc_of_length : ∀ (es : List α) (n : Nat), n + 1 = es.length →
    ∃ init last, es = init ++ [last] ∧ init.length = n
  | [], n, h => by simp at h
  | [x], n, h => ⟨[], x, rfl, by simp at h; simp [h]⟩
  | x :: y :: rest, n, h => by
    cases n with
    | zero => simp at h
    | succ n =>
      have h' : n + 1 = (y :: rest).length := by simp at h ⊢; omega
      obtain ⟨init, last, he, hl⟩ := exists_snoc_of_length (y :: rest) n h'
      exact ⟨x :: init, last, by rw [he]; rfl, by simp [hl]⟩

/-- The backwards `if_else` loop of `exitIfExpression` / `exitIfEquation` builds the right-nested chain
    "first condition, first value, else the rest". -/
theorem foldFromLast_eq_nestAll (cs es : List (CTerm K)) (hlen : cs.length + 1 = es.length) :
    foldFromLast cs es = nestAll cs es := by
  obtain ⟨init, last, rfl, hil⟩ := exists_snoc_of_length es cs.length hlen
  rw [foldFromLast_eq cs init last hil.symm, nestIf_eq_nestAll cs init last hil.symm]

/-! ## Tables -/

/-- The translated function table agrees with the meaning table: same domain, and every translated
    function computes what its meaning computes wherever that is defined. -/
structure TabOK (P : Prims K) (T : FTab K) (F : FSem K) : Prop where
  dom : ∀ f, (T f).isSome = (F f).isSome
  sem : ∀ f fn, T f = some (.ok fn) → ∃ g, F f = some g ∧ ∀ vs, Refines (evalCF P fn vs) (g vs)

/-- No user function is named like an operator or an elementary function (`hasattr(MX, name)` and
    `OP_MAP` take precedence in `exitExpression`). -/
def NoShadow (T : FTab K) : Prop := (∀ e, T (elemName e) = none) ∧ (∀ op, T (binName op) = none)

/-! ## Operators -/

theorem evalOp2_meth (P : Prims K) (op : BinOp) (m : Meth) (h : opMap op = some m) (hne : op ≠ .mul)
    (x y : List K) : evalOp2 P (.meth m) x y = semBin P op x y := by
  cases op <;> simp [opMap] at h <;> subst h <;> simp_all [evalOp2, semBin, methPrim2, BinOp.prim]

theorem evalOp2_mtimes (P : Prims K) (x y : List K) :
    evalOp2 P (.meth .mtimes) x y = semBin P .mul x y := by
  simp [evalOp2, semBin, methPrim2, BinOp.prim]

theorem userCall_ok {o : Opts} {T : FTab K} {name : String} {args : List (CTerm K)} {c : CTerm K}
    (h : userCall o T name args = .ok c) :
    ∃ fn, T name = some (.ok fn) ∧ c = .call o.inline fn (CTerms.ofList args) := by
  unfold userCall at h
  split at h
  · rename_i fn hT; cases h; exact ⟨fn, hT, rfl⟩
  · cases h
  · cases h

theorem genBin_refines (P : Prims K) (o : Opts) (T : FTab K) (hS : NoShadow T) (op : BinOp)
    (ta tb c : CTerm K) (h : genBin o T op ta tb = .ok c) (ρ : Env K) :
    evalC P ρ c = (do let x ← evalC P ρ ta; let y ← evalC P ρ tb; semBin P op x y) := by
  unfold genBin at h
  by_cases hm : op = .mul
  · simp [hm] at h; subst h
    simp only [evalC, evalOp2_mtimes, hm]
  · simp only [hm, if_false] at h
    cases hop : opMap op with
    | none =>
      simp only [hop] at h
      obtain ⟨fn, hT, _⟩ := userCall_ok h
      rw [hS.2 op] at hT; cases hT
    | some m =>
      simp only [hop] at h
      split at h
      · cases h
        simp only [evalC, evalOp2_meth P op m hop hm]
      · cases h

theorem genUn_refines (P : Prims K) (o : Opts) (T : FTab K) (hS : NoShadow T) (op : UnOp)
    (ta c : CTerm K) (h : genUn P o T op ta = .ok c) (ρ : Env K) :
    evalC P ρ c = (do let x ← evalC P ρ ta; semUn P op x) := by
  cases op with
  | neg => simp [genUn] at h; subst h; simp [evalC, evalOp1, semUn, methPrim1]
  | pos => simp [genUn] at h; subst h; simp [semUn]
  | not =>
    simp [genUn] at h; subst h
    simp only [evalC, semUn]
    cases evalC P ρ ta with
    | none => simp
    | some x => cases hcond : condOf P x with
      | none => simp [hcond]
      | some b => cases b <;> simp [hcond]
  | abs => simp [genUn] at h; subst h; simp [evalC, evalOp1, semUn, methPrim1]
  | sum => simp [genUn] at h; subst h; simp [evalC, evalOp1, semUn]
  | elem e =>
    simp only [genUn] at h
    split at h
    · rename_i hh
      cases h
      simp [evalC, evalOp1, semUn, methPrim1, hh]
    · obtain ⟨fn, hT, _⟩ := userCall_ok h
      rw [hS.1 e] at hT; cases hT

/-! ## Correctness of the expression translation -/

theorem evalMs_cons_inv {P : Prims K} {F : FSem K} {ρ : Env K} {e : MExpr K} {es : MExprs K}
    {vs : List (List K)} (h : evalMs P F ρ (.cons e es) = some vs) :
    ∃ v vs', evalM P F ρ e = some v ∧ evalMs P F ρ es = some vs' ∧ vs = v :: vs' := by
  simp only [evalMs] at h
  cases h1 : evalM P F ρ e with
  | none => simp [h1] at h
  | some v =>
    cases h2 : evalMs P F ρ es with
    | none => simp [h1, h2] at h
    | some vs' => simp [h1, h2] at h; exact ⟨v, vs', rfl, rfl, h.symm⟩

mutual
theorem gen_refines (P : Prims K) (o : Opts) (T : FTab K) (F : FSem K) (hT : TabOK P T F)
    (hS : NoShadow T) : ∀ (e : MExpr K) (c : CTerm K), gen P o T e = .ok c →
    ∀ ρ : Env K, Refines (evalC P ρ c) (evalM P F ρ e)
  | .num q, c, h, ρ => by
    simp [gen] at h; subst h; simp [evalC, evalM]; exact Refines.refl
  | .ref n s, c, h, ρ => by
    simp [gen] at h; subst h; simp [evalC, evalM]; exact Refines.refl
  | .idx i, c, h, ρ => by
    simp [gen] at h; subst h; simp [evalC, evalM]; exact Refines.refl
  | .un op a, c, h, ρ => by
    simp only [gen] at h
    obtain ⟨ta, hta, hc⟩ := bind_ok.mp h
    rw [genUn_refines P o T hS op ta c hc ρ]
    simp only [evalM]
    exact Refines.bind (gen_refines P o T F hT hS a ta hta ρ) (fun _ => Refines.refl)
  | .bin op a b, c, h, ρ => by
    simp only [gen] at h
    obtain ⟨ta, hta, h2⟩ := bind_ok.mp h
    obtain ⟨tb, htb, hc⟩ := bind_ok.mp h2
    rw [genBin_refines P o T hS op ta tb c hc ρ]
    simp only [evalM]
    exact Refines.bind (gen_refines P o T F hT hS a ta hta ρ)
      (fun _ => Refines.bind (gen_refines P o T F hT hS b tb htb ρ) (fun _ => Refines.refl))
  | .ife bs, c, h, ρ => by
    simp only [gen] at h
    obtain ⟨ce, hce, hc⟩ := bind_ok.mp h
    cases hc
    have hl := (genBr_refines P o T F hT hS bs ce hce ρ).1
    rw [foldFromLast_eq_nestAll ce.1 ce.2 hl.symm]
    simpa [evalM] using (genBr_refines P o T F hT hS bs ce hce ρ).2
  | .call f args, c, h, ρ => by
    simp only [gen] at h
    obtain ⟨tas, htas, hc⟩ := bind_ok.mp h
    obtain ⟨fn, hTf, rfl⟩ := userCall_ok hc
    obtain ⟨g, hFf, hg⟩ := hT.sem f fn hTf
    simp only [evalC, evalM, evalCs_ofList, hFf]
    exact Refines.bind (gens_refines P o T F hT hS args tas htas ρ) (fun vs => by simpa using hg vs)
  | .delay k e d, c, h, ρ => by
    simp only [gen] at h
    obtain ⟨_, _, h2⟩ := bind_ok.mp h
    obtain ⟨_, _, hc⟩ := bind_ok.mp h2
    cases hc
    simp [evalC, evalM, Env.lookup]; exact Refines.refl
theorem gens_refines (P : Prims K) (o : Opts) (T : FTab K) (F : FSem K) (hT : TabOK P T F)
    (hS : NoShadow T) : ∀ (es : MExprs K) (cs : List (CTerm K)), gens P o T es = .ok cs →
    ∀ ρ : Env K, Refines (evalCL P ρ cs) (evalMs P F ρ es)
  | .nil, cs, h, ρ => by
    simp [gens] at h; subst h; simp [evalCL, evalMs]; exact Refines.refl
  | .cons e es, cs, h, ρ => by
    simp only [gens] at h
    obtain ⟨t, ht, h2⟩ := bind_ok.mp h
    obtain ⟨ts, hts, hc⟩ := bind_ok.mp h2
    cases hc
    simp only [evalCL, evalMs]
    exact Refines.bind (gen_refines P o T F hT hS e t ht ρ)
      (fun _ => Refines.bind (gens_refines P o T F hT hS es ts hts ρ) (fun _ => Refines.refl))
theorem genBr_refines (P : Prims K) (o : Opts) (T : FTab K) (F : FSem K) (hT : TabOK P T F)
    (hS : NoShadow T) : ∀ (bs : MBranches K) (ce : List (CTerm K) × List (CTerm K)),
    genBr P o T bs = .ok ce → ∀ ρ : Env K,
    ce.2.length = ce.1.length + 1 ∧ Refines (evalC P ρ (nestAll ce.1 ce.2)) (evalIfe P F ρ bs)
  | .last e, ce, h, ρ => by
    simp only [genBr] at h
    obtain ⟨t, ht, hc⟩ := bind_ok.mp h
    cases hc
    exact ⟨by simp, by simpa [nestAll, evalIfe] using gen_refines P o T F hT hS e t ht ρ⟩
  | .cons c e rest, ce, h, ρ => by
    simp only [genBr] at h
    obtain ⟨tc, htc, h2⟩ := bind_ok.mp h
    obtain ⟨te, hte, h3⟩ := bind_ok.mp h2
    obtain ⟨ce', hce', hc⟩ := bind_ok.mp h3
    cases hc
    have ih := genBr_refines P o T F hT hS rest ce' hce' ρ
    refine ⟨by simp [ih.1], ?_⟩
    simp only [nestAll, evalC, evalIfe]
    refine Refines.bind (gen_refines P o T F hT hS c tc htc ρ) (fun vc => Refines.bind_same (fun b => ?_))
    cases b
    · simpa using ih.2
    · simpa using gen_refines P o T F hT hS e te hte ρ
end

end PymocaVerif.Gen
