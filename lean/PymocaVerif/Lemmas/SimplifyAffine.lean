import PymocaVerif.Lemmas.SimplifyBase
/-!
# Simplify: `reduce_affine_expression` — the collapse `A x + b` is exact on affine equations
Helper lemmas for C14.
-/
set_option linter.unusedSectionVars false
set_option linter.unusedSimpArgs false
namespace PymocaVerif.Simplify
open PymocaVerif.AliasRel Lean.Grind

variable {K : Type} [Field K] [DecidableEq K]

/-! ## reduce_affine_expression: `A x + b` is the equation when the equation is affine -/

theorem eval_congr' {I : Interp K} {ρ ρ' : Env K} : ∀ (e : Ex K), (∀ n ∈ e.syms, ρ n = ρ' n) → e.eval I ρ = e.eval I ρ' := by
  intro e
  induction e with
  | sym n => intro h; simpa [Ex.eval] using h n (by simp [Ex.syms])
  | const c => intro _; simp [Ex.eval]
  | un o a ih =>
    intro h
    have := ih (by simpa [Ex.syms] using h)
    cases o <;> simp [Ex.eval, this]
  | bin o a b iha ihb =>
    intro h
    have h1 := iha (fun n hn => h n (by simp [Ex.syms, hn]))
    have h2 := ihb (fun n hn => h n (by simp [Ex.syms, hn]))
    cases o <;> simp [Ex.eval, h1, h2]


/-- no symbol of `e` is one of `xs` -/
def FreeOf (xs : List String) (e : Ex K) : Prop := ∀ n ∈ e.syms, n ∉ xs

/-- the affine fragment in the symbols `xs`: the property's precondition for this option -/
def AffineIn (xs : List String) : Ex K → Prop
  | .sym _ => True
  | .const _ => True
  | .un .neg a => AffineIn xs a
  | .un .twice a => AffineIn xs a
  | .bin .add a b => AffineIn xs a ∧ AffineIn xs b
  | .bin .sub a b => AffineIn xs a ∧ AffineIn xs b
  | .bin .mul a b => (FreeOf xs a ∧ AffineIn xs b) ∨ (AffineIn xs a ∧ FreeOf xs b)
  | .bin .div a b => AffineIn xs a ∧ FreeOf xs b
  | e => FreeOf xs e

/-- the environment with every `x ∈ xs` at 0 -/
def zeroed (σ : Env K) (xs : List String) : Env K := fun n => if n ∈ xs then 0 else σ n

theorem upd_zeros (I : Interp K) (σ : Env K) (xs : List String) :
    upd I σ (xs.map fun x => (x, (Ex.const 0 : Ex K))) = zeroed σ xs := by
  funext n
  unfold upd zeroed
  induction xs with
  | nil => simp
  | cons x xs ih =>
    simp only [List.map_cons, List.lookup, List.mem_cons]
    by_cases h : n = x
    · subst h; simp [Ex.eval]
    · have : (n == x) = false := by simpa using h
      simp only [this, h, false_or]
      exact ih

/-- `Σ_x eval σ0 (∂e/∂x) * σ x` -/
def linVal (I : Interp K) (σ σ0 : Env K) (e : Ex K) : List String → K
  | [] => 0
  | x :: xs => (e.diff x).eval I σ0 * σ x + linVal I σ σ0 e xs

theorem eval_linComb (I : Interp K) (σ : Env K) : ∀ (l : List (Ex K × String)) (b : Ex K),
    (linComb l b).eval I σ = (l.foldr (fun p acc => p.1.eval I σ * σ p.2 + acc) (b.eval I σ))
  | [], b => rfl
  | (a, x) :: rest, b => by simp [linComb, Ex.eval, eval_linComb I σ rest b]

theorem diff_free {I : Interp K} {ρ : Env K} {x : String} : ∀ (e : Ex K), x ∉ e.syms → (e.diff x).eval I ρ = 0 := by
  intro e
  induction e with
  | sym n => intro h; have : n ≠ x := fun e => h (by simp [Ex.syms, e]); simp [Ex.diff, this, Ex.eval]
  | const c => intro _; simp [Ex.diff, Ex.eval]
  | un o a ih =>
    intro h
    have := ih (by simpa [Ex.syms] using h)
    cases o <;> simp [Ex.diff, Ex.eval, this] <;> grind
  | bin o a b iha ihb =>
    intro h
    have h1 := iha (fun hn => h (by simp [Ex.syms, hn]))
    have h2 := ihb (fun hn => h (by simp [Ex.syms, hn]))
    cases o <;> simp [Ex.diff, Ex.eval, h1, h2] <;> grind

section lin
variable (I : Interp K) (σ σ0 : Env K)

theorem linVal_neg (a : Ex K) : ∀ ys, linVal I σ σ0 (.un .neg a) ys = - linVal I σ σ0 a ys
  | [] => by simp [linVal] <;> grind
  | y :: ys => by simp [linVal, Ex.diff, Ex.eval, linVal_neg a ys]; grind

theorem linVal_twice (a : Ex K) : ∀ ys, linVal I σ σ0 (.un .twice a) ys = linVal I σ σ0 a ys + linVal I σ σ0 a ys
  | [] => by simp [linVal] <;> grind
  | y :: ys => by simp [linVal, Ex.diff, Ex.eval, linVal_twice a ys]; grind

theorem linVal_add (a b : Ex K) : ∀ ys, linVal I σ σ0 (.bin .add a b) ys = linVal I σ σ0 a ys + linVal I σ σ0 b ys
  | [] => by simp [linVal] <;> grind
  | y :: ys => by simp [linVal, Ex.diff, Ex.eval, linVal_add a b ys]; grind

theorem linVal_sub (a b : Ex K) : ∀ ys, linVal I σ σ0 (.bin .sub a b) ys = linVal I σ σ0 a ys - linVal I σ σ0 b ys
  | [] => by simp [linVal] <;> grind
  | y :: ys => by simp [linVal, Ex.diff, Ex.eval, linVal_sub a b ys]; grind

theorem linVal_mul_left {xs : List String} (a b : Ex K) (ha : FreeOf xs a) : ∀ ys, (∀ y ∈ ys, y ∈ xs) →
    linVal I σ σ0 (.bin .mul a b) ys = a.eval I σ0 * linVal I σ σ0 b ys
  | [], _ => by simp [linVal] <;> grind
  | y :: ys, h => by
    have hy : y ∉ a.syms := fun hin => ha y hin (h y (by simp))
    have := diff_free (I := I) (ρ := σ0) a hy
    simp [linVal, Ex.diff, Ex.eval, this, linVal_mul_left a b ha ys (fun z hz => h z (List.mem_cons_of_mem _ hz))]
    grind

theorem linVal_mul_right {xs : List String} (a b : Ex K) (hb : FreeOf xs b) : ∀ ys, (∀ y ∈ ys, y ∈ xs) →
    linVal I σ σ0 (.bin .mul a b) ys = linVal I σ σ0 a ys * b.eval I σ0
  | [], _ => by simp [linVal] <;> grind
  | y :: ys, h => by
    have hy : y ∉ b.syms := fun hin => hb y hin (h y (by simp))
    have := diff_free (I := I) (ρ := σ0) b hy
    simp [linVal, Ex.diff, Ex.eval, this, linVal_mul_right a b hb ys (fun z hz => h z (List.mem_cons_of_mem _ hz))]
    grind

theorem linVal_div (a b : Ex K) : ∀ ys, linVal I σ σ0 (.bin .div a b) ys = linVal I σ σ0 a ys / b.eval I σ0
  | [] => by simp [linVal]; grind
  | y :: ys => by simp [linVal, Ex.diff, Ex.eval, linVal_div a b ys]; grind

theorem linVal_sym (n : String) : ∀ ys : List String, ys.Nodup →
    linVal I σ σ0 (.sym n) ys = if n ∈ ys then σ n else 0
  | [], _ => by simp [linVal] <;> grind
  | y :: ys, h => by
    simp only [List.nodup_cons] at h
    simp only [linVal, Ex.diff, linVal_sym n ys h.2, List.mem_cons]
    by_cases hny : n = y
    · subst hny
      simp [Ex.eval, h.1]; grind
    · simp [Ex.eval, hny]; grind

theorem linVal_zero_of_diff (e : Ex K) (h : ∀ x, (e.diff x) = Ex.const 0) : ∀ ys, linVal I σ σ0 e ys = 0
  | [] => by simp [linVal] <;> grind
  | y :: ys => by simp [linVal, h y, Ex.eval, linVal_zero_of_diff e h ys]; grind

end lin

/-- **the affine collapse is exact on affine equations**: with `σ0` the environment that puts the
    unknowns `xs` at 0 and keeps every other symbol (constants, parameters, time), an equation of the
    affine fragment is `Σ_x (∂e/∂x)(σ0) · σ x + e(σ0)` -/
theorem affine_eval {I : Interp K} {σ : Env K} {xs : List String} (hnd : xs.Nodup) :
    ∀ (e : Ex K), AffineIn xs e → e.eval I σ = linVal I σ (zeroed σ xs) e xs + e.eval I (zeroed σ xs) := by
  have hfree : ∀ e : Ex K, FreeOf xs e → e.eval I σ = e.eval I (zeroed σ xs) := by
    intro e he
    apply eval_congr'
    intro n hn
    simp [zeroed, he n hn]
  have hsub : ∀ y ∈ xs, y ∈ xs := fun _ h => h
  intro e
  induction e with
  | sym n =>
    intro _
    rw [linVal_sym I σ _ n xs hnd]
    by_cases h : n ∈ xs <;> simp [Ex.eval, zeroed, h] <;> grind
  | const c => intro _; rw [linVal_zero_of_diff I σ _ _ (fun x => rfl)]; simp [Ex.eval]; grind
  | un o a ih =>
    cases o with
    | neg => intro h; rw [linVal_neg, Ex.eval, Ex.eval, ih h]; grind
    | twice => intro h; rw [linVal_twice, Ex.eval, Ex.eval, ih h]; grind
    | sq => intro h; rw [linVal_zero_of_diff I σ _ _ (fun x => rfl), hfree _ h]; grind
    | fabs => intro h; rw [linVal_zero_of_diff I σ _ _ (fun x => rfl), hfree _ h]; grind
    | sqrt => intro h; rw [linVal_zero_of_diff I σ _ _ (fun x => rfl), hfree _ h]; grind
    | other n => intro h; rw [linVal_zero_of_diff I σ _ _ (fun x => rfl), hfree _ h]; grind
  | bin o a b iha ihb =>
    cases o with
    | add => intro h; rw [linVal_add, Ex.eval, Ex.eval, iha h.1, ihb h.2]; grind
    | sub => intro h; rw [linVal_sub, Ex.eval, Ex.eval, iha h.1, ihb h.2]; grind
    | mul =>
      intro h
      rcases h with ⟨hf, hb⟩ | ⟨ha, hf⟩
      · rw [linVal_mul_left I σ _ a b hf xs hsub, Ex.eval, Ex.eval, ihb hb, hfree a hf]; grind
      · rw [linVal_mul_right I σ _ a b hf xs hsub, Ex.eval, Ex.eval, iha ha, hfree b hf]; grind
    | div => intro h; rw [linVal_div, Ex.eval, Ex.eval, iha h.1, hfree b h.2]; grind
    | ifElseZero => intro h; rw [linVal_zero_of_diff I σ _ _ (fun x => rfl), hfree _ h]; grind
    | other n => intro h; rw [linVal_zero_of_diff I σ _ _ (fun x => rfl), hfree _ h]; grind

theorem linComb_val (I : Interp K) (σ σ0 : Env K) (e : Ex K) (zeros : List (String × Ex K))
    (hz : upd I σ zeros = σ0) : ∀ (ys : List String) (b : Ex K),
    (linComb (ys.map fun x => ((e.diff x).subst zeros, x)) b).eval I σ = linVal I σ σ0 e ys + b.eval I σ
  | [], b => by simp [linComb, linVal]; grind
  | y :: ys, b => by
    simp only [List.map_cons, linComb, Ex.eval, linVal, linComb_val I σ σ0 e zeros hz ys b, eval_subst, hz]
    grind

/-- a row of `A x + b` has the value of the equation it replaces -/
theorem affineRow_eval {I : Interp K} {σ : Env K} {xs : List String} (hnd : xs.Nodup) {e : Ex K} (h : AffineIn xs e) :
    (affineRow xs e).eval I σ = e.eval I σ := by
  unfold affineRow
  simp only
  rw [linComb_val I σ (zeroed σ xs) e _ (upd_zeros I σ xs), eval_subst, upd_zeros, ← affine_eval hnd e h]

/-- the precondition of `reduce_affine_expression`: the equations are affine in the unknowns and inputs -/
def AffinePre (m : Model K) : Prop := m.affineVars.Nodup ∧ ∀ e ∈ m.eqs, AffineIn m.affineVars e

theorem reduceAffine_sat {I : Interp K} {σ : Env K} {m : Model K} (h : AffinePre m) :
    Sat I σ (reduceAffine m) ↔ Sat I σ m := by
  have key : EqOk I σ (m.eqs.map (affineRow m.affineVars)) ↔ EqOk I σ m.eqs := by
    unfold EqOk
    constructor
    · intro hh e he
      rw [← affineRow_eval h.1 (h.2 e he)]
      exact hh _ (List.mem_map_of_mem he)
    · intro hh e he
      obtain ⟨e0, he0, rfl⟩ := List.mem_map.1 he
      rw [affineRow_eval h.1 (h.2 e0 he0)]
      exact hh e0 he0
  unfold reduceAffine
  constructor
  · intro hs; exact ⟨key.1 hs.eqs, hs.params, hs.consts, hs.alias⟩
  · intro hs; exact ⟨key.2 hs.eqs, hs.params, hs.consts, hs.alias⟩

end PymocaVerif.Simplify
