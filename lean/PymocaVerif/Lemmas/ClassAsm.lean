import PymocaVerif.Model.ClassAsm
/-!
# Lemmas about the `ClassAsm` model: the listener machine refines the structural specification
-/
namespace PymocaVerif.ClassAsm

/-! ## Small facts -/

@[simp] theorem updLast_append_singleton {α} (g : α → α) (l : List α) (x : α) :
    updLast g (l ++ [x]) = l ++ [g x] := by
  induction l with
  | nil => rfl
  | cons a t ih =>
    cases t with
    | nil => rfl
    | cons b t' => simp only [List.cons_append] at ih ⊢; simp only [updLast]; rw [ih]

theorem tick_of_node {k : Ctr} (h : k.node ≠ .none) : tick k = k := by
  unfold tick; cases hk : k.node <;> simp_all

theorem ticks_of_node (n : Nat) {k : Ctr} (h : k.node ≠ .none) : ticks n k = k := by
  induction n with
  | zero => rfl
  | succ n ih => simp only [ticks, tick_of_node h, ih]

theorem run_ticks (n : Nat) (st : List Frame) (cl : Option ClauseSt) (k : Ctr) (ie : Bool)
    (fc : List ClassAst) (tl : List Event) :
    run ⟨st, cl, k, ie, fc⟩ (List.replicate n .enterElemMod ++ tl) = run ⟨st, cl, ticks n k, ie, fc⟩ tl := by
  induction n generalizing k with
  | zero => rfl
  | succ n ih => simp only [List.replicate_succ, List.cons_append, run, step, ticks]; exact ih _

/-! ## Component clauses -/

theorem run_decl (d : Decl) (f : Frame) (rest : List Frame) (cl : ClauseSt) (k : Ctr)
    (fc : List ClassAst) (tl : List Event) :
    run ⟨f :: rest, some cl, k, false, fc⟩ (declEvents d ++ tl) =
      match specDecl cl ((f.info.symbols ++ cl.syms).map (·.name)) f.closed.length k d with
      | .error e => .error e
      | .ok (y, k') => run ⟨f :: rest, some { cl with syms := cl.syms ++ [y] }, k', false, fc⟩ tl := by
  unfold declEvents specDecl
  simp only [List.append_assoc, List.cons_append, List.nil_append, run, step, Bool.false_eq_true, if_false]
  by_cases hmem : d.name ∈ (f.info.symbols ++ cl.syms).map (·.name)
  · rw [if_pos hmem, if_pos hmem]
  · rw [if_neg hmem, if_neg hmem]
    simp only []
    rw [run_ticks, ticks_of_node _ (by simp)]
    simp only [run, step, updLast_append_singleton]
    rw [run_ticks, ticks_of_node _ (by simp)]
    simp only [run, step, updLast_append_singleton]

theorem specDecl_syms (cl : ClauseSt) (x : List Sym) (names : List String) (sec : Nat) (k : Ctr) (d : Decl) :
    specDecl { cl with syms := x } names sec k d = specDecl cl names sec k d := rfl

theorem specDecls_syms (cl : ClauseSt) (x : List Sym) (names : List String) (sec : Nat) (ds : List Decl)
    (acc : List Sym) (k : Ctr) :
    specDecls { cl with syms := x } names sec ds acc k = specDecls cl names sec ds acc k := by
  induction ds generalizing acc k with
  | nil => rfl
  | cons d t ih =>
    simp only [specDecls, specDecl_syms]
    cases specDecl cl (names ++ acc.map (·.name)) sec k d with
    | error e => rfl
    | ok p => exact ih _ _

theorem run_decls (ds : List Decl) (f : Frame) (rest : List Frame) (cl : ClauseSt) (k : Ctr)
    (fc : List ClassAst) (tl : List Event) :
    run ⟨f :: rest, some cl, k, false, fc⟩ (declsEvents ds ++ tl) =
      match specDecls cl (f.info.symbols.map (·.name)) f.closed.length ds cl.syms k with
      | .error e => .error e
      | .ok (syms, k') => run ⟨f :: rest, some { cl with syms := syms }, k', false, fc⟩ tl := by
  induction ds generalizing cl k with
  | nil => simp [declsEvents, specDecls]
  | cons d t ih =>
    simp only [declsEvents, List.append_assoc, run_decl, specDecls, List.map_append]
    cases specDecl cl (f.info.symbols.map (·.name) ++ cl.syms.map (·.name)) f.closed.length k d with
    | error e => rfl
    | ok p =>
      obtain ⟨y, k'⟩ := p
      simp only []
      rw [ih, specDecls_syms]

theorem run_clause (c : Clause) (f : Frame) (rest : List Frame) (k : Ctr)
    (fc : List ClassAst) (tl : List Event) :
    run ⟨f :: rest, none, k, false, fc⟩ (clauseEvents c ++ tl) =
      match specClause c f k with
      | .error e => .error e
      | .ok (f', k') => run ⟨f' :: rest, none, k', false, fc⟩ tl := by
  unfold clauseEvents specClause
  simp only [List.append_assoc, List.cons_append, List.nil_append, run, step]
  rw [run_decls]
  simp only []
  cases specDecls ⟨c.prefixes, k.nextId, k.nextId + 1, k.nextId + 2, []⟩ (f.info.symbols.map (·.name))
      f.closed.length c.decls [] { k with nextId := k.nextId + 3 } with
  | error e => rfl
  | ok p =>
    obtain ⟨syms, k'⟩ := p
    simp only [run, step]

/-! ## Extends clauses, short classes -/

theorem run_extEvs (evs : List ExtEv) (st : List Frame) (f : Frame) (k : Ctr) (fc : List ClassAst) (tl : List Event) :
    run ⟨f :: st, none, k, true, fc⟩ (extEvsEvents evs ++ tl) = run ⟨f :: st, none, extEvsCtr evs k, true, fc⟩ tl := by
  induction evs generalizing k with
  | nil => rfl
  | cons e t ih =>
    cases e with
    | m => simp only [extEvsEvents, extEvEvents, List.cons_append, List.nil_append, run, step,
             extEvsCtr, extEvCtr]; exact ih _
    | d p ty n =>
      simp only [extEvsEvents, extEvEvents, List.cons_append, List.nil_append, run, step,
        extEvsCtr, extEvCtr, if_true]
      exact ih _

theorem run_ext (e : ExtSrc) (f : Frame) (rest : List Frame) (k : Ctr) (fc : List ClassAst) (tl : List Event) :
    run ⟨f :: rest, none, k, false, fc⟩ (extEvents e ++ tl) =
      run ⟨f.addExt e.path e.args :: rest, none, extEvsCtr e.evs k, false, fc⟩ tl := by
  unfold extEvents
  simp only [List.append_assoc, List.cons_append, List.nil_append, run, step]
  rw [run_extEvs]
  simp only [run, step]

theorem run_short (sh : ShortSrc) (f : Frame) (rest : List Frame) (k : Ctr) (fc : List ClassAst) (tl : List Event) :
    run ⟨f :: rest, none, k, false, fc⟩ (shortEvents sh ++ tl) =
      run ⟨f.attach (specShort sh) :: rest, none, ticks sh.ticks k, false, fc⟩ tl := by
  unfold shortEvents
  simp only [List.append_assoc, List.cons_append, List.nil_append, run, step]
  rw [run_ticks]
  simp only [run, step]
  rfl

/-! ## Classes: the machine computes the structural specification -/

mutual
theorem run_class (c : ClassSrc) (p : Frame) (rest : List Frame) (k : Ctr) (fc : List ClassAst) (tl : List Event) :
    run ⟨p :: rest, none, k, false, fc⟩ (classEvents c ++ tl) =
      match specClass c k with
      | .error e => .error e
      | .ok (a, k') => run ⟨p.attach a :: rest, none, k', false, fc⟩ tl := by
  match c with
  | .mk h first ss =>
    simp only [classEvents, specClass, List.append_assoc, List.cons_append, List.nil_append, run, step]
    rw [run_elems first]
    cases specElems first (Frame.new h.kind h.partial_ h.encapsulated) k with
    | error e => rfl
    | ok r =>
      obtain ⟨f, k1⟩ := r
      simp only [run, step]
      rw [run_sections ss]
      cases specSections ss { f with closed := f.closed ++ [none] } k1 with
      | error e => rfl
      | ok r2 =>
        obtain ⟨f2, k2⟩ := r2
        simp only []
        rw [run_ticks]
        simp only [run, step]
        rfl
theorem run_elems (es : Elems) (f : Frame) (rest : List Frame) (k : Ctr) (fc : List ClassAst) (tl : List Event) :
    run ⟨f :: rest, none, k, false, fc⟩ (elemsEvents es ++ tl) =
      match specElems es f k with
      | .error e => .error e
      | .ok (f', k') => run ⟨f' :: rest, none, k', false, fc⟩ tl := by
  match es with
  | .nil => simp [elemsEvents, specElems]
  | .comp c t =>
    simp only [elemsEvents, specElems, List.append_assoc]
    rw [run_clause]
    cases specClause c f k with
    | error e => rfl
    | ok r => obtain ⟨f1, k1⟩ := r; exact run_elems t f1 rest k1 fc tl
  | .ext e t =>
    simp only [elemsEvents, specElems, List.append_assoc]
    rw [run_ext]
    exact run_elems t _ rest _ fc tl
  | .imp i t =>
    simp only [elemsEvents, specElems, List.cons_append, List.nil_append, run, step]
    cases addImport f.info.imports i with
    | error e => rfl
    | ok imps => exact run_elems t _ rest _ fc tl
  | .cls c t =>
    simp only [elemsEvents, specElems, List.append_assoc]
    rw [run_class c]
    cases specClass c k with
    | error e => rfl
    | ok r => obtain ⟨a, k1⟩ := r; exact run_elems t _ rest k1 fc tl
  | .short sh t =>
    simp only [elemsEvents, specElems, List.append_assoc]
    rw [run_short]
    exact run_elems t _ rest _ fc tl
theorem run_sections (ss : Sections) (f : Frame) (rest : List Frame) (k : Ctr) (fc : List ClassAst) (tl : List Event) :
    run ⟨f :: rest, none, k, false, fc⟩ (sectionsEvents ss ++ tl) =
      match specSections ss f k with
      | .error e => .error e
      | .ok (f', k') => run ⟨f' :: rest, none, k', false, fc⟩ tl := by
  match ss with
  | .nil => simp [sectionsEvents, specSections]
  | .elems vis es t =>
    simp only [sectionsEvents, specSections, List.append_assoc, List.cons_append, List.nil_append]
    rw [run_elems es]
    cases specElems es f k with
    | error e => rfl
    | ok r =>
      obtain ⟨f1, k1⟩ := r
      simp only [run, step]
      exact run_sections t _ rest k1 fc tl
  | .eqs ini items t =>
    simp only [sectionsEvents, specSections, List.cons_append, List.nil_append, run, step,
      updLast_append_singleton, List.nil_append]
    exact run_sections t _ rest k fc tl
  | .algs ini items t =>
    simp only [sectionsEvents, specSections, List.cons_append, List.nil_append, run, step,
      updLast_append_singleton, List.nil_append]
    exact run_sections t _ rest k fc tl
end

theorem run_file (file : List (Bool × ClassSrc)) (root : Frame) (k : Ctr) (fc : List ClassAst) :
    (match run ⟨[root], none, k, false, fc⟩ (fileEvents file) with
      | .ok s => Except.ok s.fileClasses
      | .error e => .error e) = specFile file fc k := by
  induction file generalizing root k fc with
  | nil => rfl
  | cons x t ih =>
    obtain ⟨fin, c⟩ := x
    simp only [fileEvents, specFile, List.append_assoc]
    rw [run_class c]
    cases specClass c k with
    | error e => rfl
    | ok r =>
      obtain ⟨a, k1⟩ := r
      simp only [List.cons_append, List.nil_append, run, step, Frame.attach]
      exact ih _ _ _

theorem runListener_eq_expected (file : List (Bool × ClassSrc)) : runListener file = expected file := by
  unfold runListener expected LState.init
  exact run_file file _ _ _

/-! ## Component clauses, explicitly -/

def Leq (a b : Ctr) : Prop := a.symCount ≤ b.symCount ∧ a.nextId ≤ b.nextId

theorem Leq.refl (a : Ctr) : Leq a a := ⟨Nat.le_refl _, Nat.le_refl _⟩
theorem Leq.trans {a b c : Ctr} (h1 : Leq a b) (h2 : Leq b c) : Leq a c :=
  ⟨Nat.le_trans h1.1 h2.1, Nat.le_trans h1.2 h2.2⟩

/-- The symbol's declaration number and object tags were handed out between `lo` and `hi`. -/
def Sym.Between (lo hi : Ctr) (y : Sym) : Prop :=
  lo.symCount ≤ y.order ∧ y.order < hi.symCount ∧ lo.nextId ≤ y.typeId ∧ y.typeId < hi.nextId ∧
  lo.nextId ≤ y.dimsId ∧ y.dimsId < hi.nextId ∧ lo.nextId ≤ y.prefId ∧ y.prefId < hi.nextId

theorem Sym.Between.mono {lo hi lo' hi' : Ctr} {y : Sym} (h : y.Between lo hi) (h1 : Leq lo' lo) (h2 : Leq hi hi') :
    y.Between lo' hi' := by
  unfold Sym.Between Leq at *; omega

theorem Sym.Between.distinct {a b c d : Ctr} {y z : Sym} (hy : y.Between a b) (hz : z.Between c d) (h : Leq b c) :
    y.Distinct z ∧ y.order < z.order := by
  unfold Sym.Between Leq Sym.Distinct at *; omega

theorem Sym.Distinct.symm {y z : Sym} (h : y.Distinct z) : z.Distinct y :=
  ⟨Ne.symm h.1, Ne.symm h.2.1, Ne.symm h.2.2⟩

/-- The symbol a declarator stands for when its declaration is exited. -/
def declSym (cl : ClauseSt) (sec : Nat) (k : Ctr) (d : Decl) : Sym :=
  { declExit d.dims d.mod k.nextId (newSym cl d.name k.symCount sec) with comment := d.comment }

def declCtr (k : Ctr) (d : Decl) : Ctr := ⟨k.symCount + 1, .none, k.nextId + dimsAlloc d.dims⟩

def declSyms (cl : ClauseSt) (sec : Nat) : List Decl → Ctr → List Sym
  | [], _ => []
  | d :: t, k => declSym cl sec k d :: declSyms cl sec t (declCtr k d)

def declsCtr : List Decl → Ctr → Ctr
  | [], k => k
  | d :: t, k => declsCtr t (declCtr k d)

theorem specDecl_ok {cl : ClauseSt} {names : List String} {sec : Nat} {k : Ctr} {d : Decl} {y : Sym} {k' : Ctr} :
    specDecl cl names sec k d = .ok (y, k') ↔ d.name ∉ names ∧ y = declSym cl sec k d ∧ k' = declCtr k d := by
  unfold specDecl
  by_cases h : d.name ∈ names
  · simp [h]
  · simp only [h, if_false, not_false_eq_true, true_and, Except.ok.injEq, Prod.mk.injEq]
    constructor
    · rintro ⟨rfl, rfl⟩; exact ⟨rfl, rfl⟩
    · rintro ⟨rfl, rfl⟩; exact ⟨rfl, rfl⟩

theorem specDecl_err {cl : ClauseSt} {names : List String} {sec : Nat} {k : Ctr} {d : Decl} {e : Err} :
    specDecl cl names sec k d = .error e ↔ d.name ∈ names ∧ e = .alreadyDefined d.name := by
  unfold specDecl
  by_cases h : d.name ∈ names
  · simp [h, eq_comm]
  · simp [h]

@[simp] theorem declSym_name (cl : ClauseSt) (sec : Nat) (k : Ctr) (d : Decl) : (declSym cl sec k d).name = d.name := by
  unfold declSym declExit newSym; cases d.dims <;> rfl

theorem declSyms_names (cl : ClauseSt) (sec : Nat) (ds : List Decl) (k : Ctr) :
    (declSyms cl sec ds k).map (·.name) = ds.map (·.name) := by
  induction ds generalizing k with
  | nil => rfl
  | cons d t ih => simp [declSyms, ih]

/-- `specDecls` succeeds exactly when no name repeats; then it yields the declarators' symbols. -/
theorem specDecls_ok {cl : ClauseSt} {names : List String} {sec : Nat} {ds : List Decl} {acc : List Sym} {k : Ctr}
    {syms : List Sym} {k' : Ctr} :
    specDecls cl names sec ds acc k = .ok (syms, k') ↔
      (ds.map (·.name)).Nodup ∧ (∀ n ∈ ds.map (·.name), n ∉ names ++ acc.map (·.name)) ∧
      syms = acc ++ declSyms cl sec ds k ∧ k' = declsCtr ds k := by
  induction ds generalizing acc k with
  | nil => simp [specDecls, declSyms, declsCtr, eq_comm]
  | cons d t ih =>
    simp only [specDecls]
    cases h : specDecl cl (names ++ acc.map (·.name)) sec k d with
    | error e =>
      rw [specDecl_err] at h
      simp only [reduceCtorEq, false_iff, not_and]
      intro _ h2
      exact absurd h.1 (h2 d.name (by simp))
    | ok p =>
      obtain ⟨y, k1⟩ := p
      rw [specDecl_ok] at h
      obtain ⟨hn, rfl, rfl⟩ := h
      simp only [ih, List.map_append, List.map_cons, List.map_nil, declSym_name, List.nodup_cons, List.mem_cons,
        forall_eq_or_imp, declSyms, declsCtr, List.append_assoc, List.cons_append, List.nil_append, List.mem_append,
        List.not_mem_nil, or_false]
      constructor
      · rintro ⟨h1, h2, h3, h4⟩
        refine ⟨⟨?_, h1⟩, ⟨?_, ?_⟩, h3, h4⟩
        · intro hm; exact (h2 _ hm) (Or.inr (Or.inr rfl))
        · simpa using hn
        · intro n hn' hc; exact (h2 n hn') (by rcases hc with hc | hc; exact Or.inl hc; exact Or.inr (Or.inl hc))
      · rintro ⟨⟨h1, h1'⟩, ⟨h2, h2'⟩, h3, h4⟩
        refine ⟨h1', ?_, h3, h4⟩
        intro n hn' hc
        rcases hc with hc | hc | hc
        · exact h2' n hn' (Or.inl hc)
        · exact h2' n hn' (Or.inr hc)
        · subst hc; exact h1 hn'



theorem declSyms_length (cl : ClauseSt) (sec : Nat) (ds : List Decl) (k : Ctr) :
    (declSyms cl sec ds k).length = ds.length := by
  induction ds generalizing k with
  | nil => rfl
  | cons d t ih => simp [declSyms, ih]

theorem declsCtr_symCount (ds : List Decl) (k : Ctr) : (declsCtr ds k).symCount = k.symCount + ds.length := by
  induction ds generalizing k with
  | nil => rfl
  | cons d t ih => simp only [declsCtr, ih, declCtr, List.length_cons]; omega

theorem declsCtr_nextId (ds : List Decl) (k : Ctr) : k.nextId ≤ (declsCtr ds k).nextId := by
  induction ds generalizing k with
  | nil => exact Nat.le_refl _
  | cons d t ih => simp only [declsCtr]; exact Nat.le_trans (by simp [declCtr]) (ih _)

theorem declsCtr_node (ds : List Decl) (k : Ctr) (h : ds ≠ []) : (declsCtr ds k).node = .none := by
  induction ds generalizing k with
  | nil => exact absurd rfl h
  | cons d t ih =>
    cases t with
    | nil => rfl
    | cons d' t' => simp only [declsCtr] at ih ⊢; exact ih _ (by simp)

/-- What a declarator's symbol looks like before the clause is exited. -/
theorem declSym_fields (cl : ClauseSt) (sec : Nat) (k : Ctr) (d : Decl) :
    let y := declSym cl sec k d
    y.typeId = cl.typeId ∧ y.prefId = cl.prefId ∧ y.order = k.symCount ∧ y.sec = sec ∧ y.vis = .priv ∧
    y.prefixes = cl.prefixes ∧ y.comment = d.comment ∧ y.cmod = applyMod none d.mod ∧ y.type = [] ∧
    y.dims = dimsSpec none d.dims ∧
    (y.dimsId = cl.dimsId ∨ (y.dimsId = k.nextId ∧ (declCtr k d).nextId = k.nextId + 1)) := by
  unfold declSym declExit newSym declCtr dimsAlloc dimsSpec
  cases d.dims <;> simp

theorem declSyms_fields (cl : ClauseSt) (sec : Nat) (ds : List Decl) (k : Ctr) :
    ∀ y ∈ declSyms cl sec ds k,
      y.typeId = cl.typeId ∧ y.prefId = cl.prefId ∧ y.sec = sec ∧ y.vis = .priv ∧ y.prefixes = cl.prefixes ∧
      y.type = [] ∧ k.symCount ≤ y.order ∧ y.order < (declsCtr ds k).symCount ∧
      (y.dimsId = cl.dimsId ∨ (k.nextId ≤ y.dimsId ∧ y.dimsId < (declsCtr ds k).nextId)) := by
  induction ds generalizing k with
  | nil => intro y hy; cases hy
  | cons d t ih =>
    intro y hy
    simp only [declSyms, List.mem_cons] at hy
    have hs := declsCtr_symCount t (declCtr k d)
    have hn := declsCtr_nextId t (declCtr k d)
    rcases hy with rfl | hy
    · have h := declSym_fields cl sec k d
      simp only at h
      obtain ⟨h1, h2, h3, h4, h5, h6, _, _, h9, _, h11⟩ := h
      refine ⟨h1, h2, h4, h5, h6, h9, by omega, ?_, ?_⟩
      · have := declsCtr_symCount (d :: t) k; simp only [List.length_cons] at this; omega
      · rcases h11 with h | ⟨h, h'⟩
        · exact Or.inl h
        · right; simp only [declsCtr]; omega
    · obtain ⟨h1, h2, h3, h4, h5, h6, h7, h8, h9⟩ := ih _ y hy
      refine ⟨h1, h2, h3, h4, h5, h6, ?_, h8, ?_⟩
      · simp only [declCtr] at h7; omega
      · rcases h9 with h | ⟨h, h'⟩
        · exact Or.inl h
        · right; simp only [declsCtr]; simp only [declCtr] at h; exact ⟨by omega, h'⟩

theorem declSyms_order (cl : ClauseSt) (sec : Nat) (ds : List Decl) (k : Ctr) :
    (declSyms cl sec ds k).Pairwise (fun a b => a.order < b.order) := by
  induction ds generalizing k with
  | nil => exact List.Pairwise.nil
  | cons d t ih =>
    simp only [declSyms, List.pairwise_cons]
    refine ⟨?_, ih _⟩
    intro z hz
    have h := (declSyms_fields cl sec t (declCtr k d) z hz).2.2.2.2.2.2.1
    have h0 := (declSym_fields cl sec k d).2.2.1
    simp only [declCtr] at h
    omega

theorem declSyms_views (cl : ClauseSt) (sec : Nat) (ds : List Decl) (k : Ctr) :
    (declSyms cl sec ds k).map Sym.view =
      ds.map fun d => ⟨d.name, [], cl.prefixes, dimsSpec none d.dims, d.comment, applyMod none d.mod⟩ := by
  induction ds generalizing k with
  | nil => rfl
  | cons d t ih =>
    simp only [declSyms, List.map_cons, ih, List.cons.injEq, and_true]
    have h := declSym_fields cl sec k d
    simp only at h
    obtain ⟨_, _, _, _, _, h6, h7, h8, h9, h10, _⟩ := h
    simp [Sym.view, h6, h7, h8, h9, h10]



theorem mem_copyTail {n : Nat} {l : List Sym} {z : Sym} (hz : z ∈ copyTail n l) :
    ∃ y ∈ l, ∃ j, j < l.length ∧ z.dimsId = n + 3 * j ∧ z.prefId = n + 3 * j + 1 ∧ z.typeId = n + 3 * j + 2 ∧
      z.order = y.order ∧ z.sec = y.sec ∧ z.vis = y.vis := by
  induction l generalizing n with
  | nil => cases hz
  | cons y t ih =>
    simp only [copyTail, List.mem_cons] at hz
    rcases hz with rfl | hz
    · exact ⟨y, by simp, 0, by simp, rfl, rfl, rfl, rfl, rfl, rfl⟩
    · obtain ⟨y', hy', j, hj, h1, h2, h3, h4, h5, h6⟩ := ih hz
      refine ⟨y', by simp [hy'], j + 1, by simp [hj], ?_, ?_, ?_, h4, h5, h6⟩ <;> omega

theorem copyTail_good (n : Nat) (l : List Sym) (h : l.Pairwise (fun a b => a.order < b.order)) :
    (copyTail n l).Pairwise (fun a b => a.Distinct b ∧ a.order < b.order) := by
  induction l generalizing n with
  | nil => exact List.Pairwise.nil
  | cons y t ih =>
    rw [List.pairwise_cons] at h
    simp only [copyTail, List.pairwise_cons]
    refine ⟨?_, ih _ h.2⟩
    intro z hz
    obtain ⟨y', hy', j, _, h1, h2, h3, h4, _, _⟩ := mem_copyTail hz
    have := h.1 y' hy'
    unfold Sym.Distinct
    simp only
    omega


end PymocaVerif.ClassAsm
