import PymocaVerif.Lemmas.FlattenSpell
import PymocaVerif.Lemmas.FlattenEx
/-!
# C08 — modifications take effect with Modelica precedence in either spelling

Theorems about the reference semantics `PymocaVerif.Flatten`, for every library, target and fuel.

Spelling.  Spelled modifications (`a.b(c = 1, d(e = 2)) = 3`) are desugared to `(path,
expression)` lists before anything else looks at them; the fully nested and the fully dotted
respelling desugar to the same list (`desugar_nested_spelling`, `desugar_dotted_spelling`), hence
respelling a whole library never changes the outcome of flattening — flat model or rejection
(`spelling_invariant`).

Precedence.  Every flat variable carries the list `binds` of all modifications that reach it; the
value / attribute is the *last* entry for that attribute (`flat_attributes`).
`outermost_wins`: every entry is written in an instance that is a proper prefix of the variable's
path, and the winner is, among the entries for the attribute, one written in the outermost
(shortest) such instance.  `precedence_within_level`: among the modifications written in one
instance the order is enclosing component's argument > extends clauses > declaration > type
definition; `extends_overrides_base`: a derived class's extends clause comes after everything its
base class attached.  `scope_of_expression`: the expression of every entry is written — on a
component declaration or in an extends clause — in the class instantiated at the entry's scope (or
is a literal of a type definition), and it is renamed with exactly that scope as prefix.
`unknown_target_rejected`, `unknown_attribute_rejected`, `unknown_extends_target_rejected`:
modifications that name no element / no attribute are rejected, never dropped.
-/
namespace PymocaVerif.Flatten

/-! ## spelling -/

/-- Desugaring does not see the spelling: the fully nested respelling of a modification list
    (`a.b.c = 1` written `a(b(c = 1))`) desugars to the same `(path, expression)` list … -/
theorem desugar_nested_spelling (pre : Path) (ms : List SMod) :
    desugarList pre (toNestedList ms) = desugarList pre ms := desugarList_toNested pre ms

example : desugarList [] (toNestedList [.mk ["a", "x"] [.mk ["start"] [] (some (.num 1))] (some (.num 2))]) =
    [⟨["a", "x", "start"], .num 1⟩, ⟨["a", "x"], .num 2⟩] := by decide

/-- … and so does the fully dotted one (`a(x(start = 1) = 2)` written `a.x.start = 1, a.x = 2`). -/
theorem desugar_dotted_spelling (pre : Path) (ms : List SMod) :
    desugarList pre (toDottedList [] ms) = desugarList pre ms := respelling_toDotted pre ms

example : desugarList [] (toDottedList [] [.mk ["a"] [.mk ["x"] [.mk ["start"] [] (some (.num 1))] (some (.num 2))] none]) =
    [⟨["a", "x", "start"], .num 1⟩, ⟨["a", "x"], .num 2⟩] := by decide

/-- Equivalent spellings never flatten to different models: respelling every modification list
    of a library (declarations, extends clauses, type definitions) by any function that desugaring
    cannot see — in particular `toNestedList` and `toDottedList []` — leaves the result of
    flattening (flat model or rejection) unchanged, for every library and target. -/
theorem spelling_invariant {f : List SMod → List SMod} (hf : Respelling f) (src : SLib) (target : Path) :
    flattenSrc (respellList f src) target = flattenSrc src target := flattenSrc_respell hf src target

example : Respelling toNestedList ∧ Respelling (toDottedList []) := ⟨respelling_toNested, respelling_toDotted⟩

theorem spelling_invariant_nested_dotted (src : SLib) (target : Path) :
    flattenSrc (respellList toNestedList src) target = flattenSrc (respellList (toDottedList []) src) target := by
  rw [spelling_invariant respelling_toNested, spelling_invariant respelling_toDotted]

/-- `model B parameter Real p = 1; Real x; end B;  model M parameter Real p = 7; B b(x(start = p), p = 2); end M;` -/
def exSrc : SLib :=
  [.mk "B" "model" none [] []
     [⟨"p", ["Real"], ["parameter"], [], [], some (.num 1)⟩, ⟨"x", ["Real"], [], [], [], none⟩] [] [],
   .mk "M" "model" none [] []
     [⟨"p", ["Real"], ["parameter"], [], [], some (.num 7)⟩,
      ⟨"b", ["B"], [], [], [.mk ["x"] [.mk ["start"] [] (some (.ref [("p", [])]))] none, .mk ["p"] [] (some (.num 2))], none⟩] [] []]

example : (flattenSrc (respellList toNestedList exSrc) ["M"]).toOption.isSome = true ∧
    (flattenSrc (respellList (toDottedList []) exSrc) ["M"]).toOption =
      (flattenSrc exSrc ["M"]).toOption := ⟨by decide +kernel, by decide +kernel⟩

/-! ## precedence -/

/-- The attributes and the value of a flat variable are read off its `binds`: attribute `a` is
    present iff some entry has path `[a]`, and is then the *last* such entry's expression renamed
    in that entry's scope; the value likewise with path `[]` (for parameters / constants; for
    other variables it becomes a binding equation, `bindEqs`). -/
theorem flat_attributes {fuel : Nat} {lib : Lib} {t : Path} {m : FlatModel} (h : flattenF fuel lib t = .ok m) :
    ∃ r : List Var × List IEq, instTop fuel lib t = .ok r ∧ m.vars = r.1.map (finVar (m.vars.map (·.path))) ∧
      ∀ v ∈ r.1, ∀ a e, (a, e) ∈ (finVar (m.vars.map (·.path)) v).attrs ↔
        a ∈ attrNames ∧ ∃ w, lookupBind v.binds [a] = some w ∧ e = rename (m.vars.map (·.path)) w.scope w.value := by
  obtain ⟨r, ri, hr, hri, rfl, htop, htopi⟩ := flattenF_ok h
  have hnames : (assemble r ri.2).vars.map (·.path) = r.1.map (·.path) := by
    simp [assemble, finVar, List.map_map, Function.comp_def]
  refine ⟨r, htop, by rw [hnames]; rfl, ?_⟩
  intro v _ a e
  exact finVar_attr

example : flattenF 6 exLib ["M"] = .ok exFlat ∧
    (exFlat.vars.map fun v => (v.path, v.attrs, v.value))[4]? = some (["b"], [("start", .num 3)], none) ∧
    (exFlat.vars.map fun v => (v.path, v.attrs, v.value))[0]? = some (["lb", "k"], [], some (.num 5)) :=
  ⟨exFlat_ok, by decide +kernel, by decide +kernel⟩

/-- Outermost wins.  Every modification reaching a leaf is written in an instance whose prefix is a
    proper prefix of the leaf's path; the winner for attribute path `a` (`[]` = the binding) has
    that path and is written in an instance at least as far out as any other entry for `a`. -/
theorem outermost_wins {fuel : Nat} {lib : Lib} {t : Path} {r : List Var × List IEq}
    (h : instTop fuel lib t = .ok r) {v : Var} (hv : v ∈ r.1) :
    (∀ m ∈ v.binds, ∃ q', q' ≠ [] ∧ v.path = m.scope ++ q') ∧
    ∀ a w, lookupBind v.binds a = some w →
      w ∈ v.binds ∧ w.path = a ∧ ∀ m' ∈ v.binds, m'.path = a → w.scope.length ≤ m'.scope.length := by
  have hr : instF fuel lib t [] [] [] = .ok r := by
    unfold instTop at h
    split at h
    · cases h
    · cases h
    · exact h
  constructor
  · intro m hm
    rcases inst_binds_origin hr hv hm with ⟨mo, hmo, _⟩ | ⟨q, q', c', hp, hq', hsc, _, _⟩
    · cases hmo
    · exact ⟨q', hq', by simpa [hsc] using hp⟩
  · intro a w hw
    obtain ⟨hsorted, _⟩ := inst_binds_sorted hr List.Pairwise.nil (by intro m hm; cases hm) hv
    obtain ⟨hpath, l1, l2, hsplit, hno⟩ := lookupBind_some hw
    refine ⟨by rw [hsplit]; simp, hpath, ?_⟩
    intro m' hm' hpa
    rw [hsplit] at hm' hsorted
    rcases List.mem_append.mp hm' with hm' | hm'
    · exact (List.pairwise_append.mp hsorted).2.2 m' hm' w (by simp)
    · cases hm' with
      | head => exact Nat.le_refl _
      | tail _ hm'' => exact absurd hpa (hno m' hm'')

example : ∃ r, instTop 6 exLib ["M"] = .ok r ∧ ∃ v ∈ r.1, v.binds.length = 2 := by
  have h : ((instTop 6 exLib ["M"]).toOption.map fun r => r.1.any fun v => v.binds.length == 2) = some true := by
    decide +kernel
  cases hr : instTop 6 exLib ["M"] with
  | error e => rw [hr] at h; simp [Except.toOption] at h
  | ok r =>
    rw [hr] at h
    simp only [Except.toOption, Option.map_some, Option.some.injEq, List.any_eq_true] at h
    obtain ⟨v, hv, hl⟩ := h
    exact ⟨r, rfl, v, hv, by simpa using hl⟩

/-- Inside one instance: the arguments handed down by the enclosing component override the extends
    clauses, which override the declaration's own modification, which overrides the type
    definitions (`tm`). -/
theorem precedence_within_level (P : Path) (k : Comp) (ext : List (List Mod)) (outer tm : List MMod) (a : Path) :
    lookupBind (tm ++ allMods P k ext outer) a =
      (lookupBind (outer.filterMap (MMod.strip k.name)) a).or
        ((lookupBind ((ext.flatten.filterMap (Mod.strip k.name)).map (Mod.here P)) a).or
          ((lookupBind (k.mods.map (Mod.here P)) a).or (lookupBind tm a))) := by
  simp only [allMods, lookupBind_append, Option.or_assoc]

example : lookupBind ([] ++ allMods [] (Comp.mk "x" (.builtin "Real") [] [] [⟨["start"], .num 1⟩])
    [[⟨["x", "start"], .num 2⟩]] [⟨["x", "start"], ["outer"], .num 3⟩, ⟨["y", "start"], [], .num 4⟩]) ["start"]
    = some ⟨["start"], ["outer"], .num 3⟩ := by decide

/-- An extends clause's modifications override the base class's own: a member inherited through
    `extends b(ms)` carries `ms` *after* every extends-clause list the base class attached to it
    (and all of those come after the member's declaration modifications, `precedence_within_level`). -/
theorem extends_overrides_base {f : Nat} {lib : Lib} {p b : Path} {d : ClassDef} {ms : List Mod} {all : List Member}
    (hp : lib.find p = some d) (he : (Ty.cls b, ms) ∈ d.exts) (h : membersF f lib p = .ok all) :
    ∃ f' base, f = f' + 1 ∧ membersF f' lib b = .ok base ∧
      ∀ x ∈ base, ({ comp := x.comp, ext := x.ext ++ [ms] } : Member) ∈ all := members_inherit hp he h

example : Lib.find exLib ["M"] = some exM ∧ (Ty.cls ["Base"], [Mod.mk ["b", "start"] (.num 3)]) ∈ exM.exts ∧
    (membersF 5 exLib ["M"]).toOption.isSome = true := ⟨rfl, by decide, by decide +kernel⟩

/-- Modification expressions are resolved in the scope where they are written: for every entry
    of a leaf's `binds`, the class instantiated at the entry's scope contains the expression as a
    modification (on a component declaration — own or inherited — or in an extends clause), or the
    expression is a literal of a type definition; the flat model renames it with exactly that
    scope as prefix (`flat_attributes`, `rename`). -/
theorem scope_of_expression {fuel : Nat} {lib : Lib} {t : Path} {r : List Var × List IEq}
    (h : instTop fuel lib t = .ok r) {v : Var} (hv : v ∈ r.1) {m : MMod} (hm : m ∈ v.binds) :
    ∃ c q', q' ≠ [] ∧ v.path = m.scope ++ q' ∧ InstAt lib t m.scope c ∧
      (WrittenIn lib c m.value ∨ m.value.isLiteral = true) := by
  have hr : instF fuel lib t [] [] [] = .ok r := by
    unfold instTop at h
    split at h
    · cases h
    · cases h
    · exact h
  rcases inst_binds_origin hr hv hm with ⟨mo, hmo, _⟩ | ⟨q, q', c', hp, hq', hsc, hi, hw⟩
  · cases hmo
  · simp at hsc hp
    subst hsc
    exact ⟨c', q', hq', hp, hi, hw⟩

-- an entry written one level up (`extends Base(b(start = 3))` in `M`, scope `[]`) on the leaf `b`;
-- and the same name renamed in two scopes
example : (∃ r, instTop 6 exLib ["M"] = .ok r ∧ ∃ v ∈ r.1, ∃ m ∈ v.binds, m.value = .num 3 ∧ m.scope = []) ∧
    rename [["p"], ["b", "p"], ["b", "x"]] [] (.ref [("p", [])]) = .fref ["p"] [] ∧
    rename [["p"], ["b", "p"], ["b", "x"]] ["b"] (.ref [("p", [])]) = .fref ["b", "p"] [] := by
  refine ⟨?_, by decide, by decide⟩
  have h : ((instTop 6 exLib ["M"]).toOption.map fun r =>
      r.1.any fun v => v.binds.any fun m => m.value == .num 3 && m.scope == []) = some true := by decide +kernel
  cases hr : instTop 6 exLib ["M"] with
  | error e => rw [hr] at h; simp [Except.toOption] at h
  | ok r =>
    rw [hr] at h
    simp only [Except.toOption, Option.map_some, Option.some.injEq, List.any_eq_true, Bool.and_eq_true,
      beq_iff_eq] at h
    obtain ⟨v, hv, m, hm, h1, h2⟩ := h
    exact ⟨r, rfl, v, hv, m, hm, h1, h2⟩

/-! ## rejections -/

/-- A modification handed to an instance that names no element of the class is rejected
    (at every level of the instance tree: every level is a call of `instF`). -/
theorem unknown_target_rejected {f : Nat} {lib : Lib} {c P : Path} {outer : List MMod} {dims : List Nat}
    {ms : List Member} (hms : membersF f lib c = .ok ms) (hdup : dupName (ms.map (·.comp.name)) = none)
    {m : MMod} (hm : m ∈ outer) (hbad : MMod.headIn (ms.map (·.comp.name)) m = false) :
    ∃ p, instF (f + 1) lib c P outer dims = .error (.unknownTarget p) := by
  obtain ⟨b, hb, _⟩ := firstBad_some (p := fun m => !(MMod.headIn (ms.map (·.comp.name)) m)) hm (by simp [hbad])
  exact ⟨b.path, by simp [instF, hms, hdup, hb]⟩

example : ∃ p, instF 6 exLib ["Leaf"] ["lb"] [⟨["nosuch"], [], .num 1⟩] [] = .error (.unknownTarget p) :=
  ⟨["nosuch"], by decide +kernel⟩

/-- A modification that reaches a leaf but is neither its binding nor one of its attributes is rejected. -/
theorem unknown_attribute_rejected {P : Path} {k : Comp} {b : String} {tms : List (List Mod)} {all tm : List MMod}
    {dims : List Nat} (htm : typeMods P tms = .ok tm) {m : MMod} (hm : m ∈ tm ++ all)
    (hbad : okLeafPath m.path = false) : ∃ p, mkLeaf P k b tms all dims = .error (.badAttr p) := by
  obtain ⟨x, hx, _⟩ := firstBad_some (p := fun m => !(okLeafPath m.path)) hm (by simp [hbad])
  exact ⟨x.path, by simp [mkLeaf, htm, hx]⟩

example : ∃ p, mkLeaf [] (Comp.mk "x" (.builtin "Real") [] [] []) "Real" [] [⟨["foo"], [], .num 1⟩] [] =
    .error (.badAttr p) := ⟨["foo"], by decide⟩

/-- An extends-clause modification that names no element of the base class is rejected. -/
theorem unknown_extends_target_rejected {elem : Ty → Except Err (Option (String × List (List Mod)))}
    {rec : Path → Except Err (List Member)} {b : Path} {mods : List Mod} {base : List Member}
    (he : elem (.cls b) = .ok none) (hb : rec b = .ok base) {m : Mod} (hm : m ∈ mods)
    (hbad : Mod.headIn (base.map (·.comp.name)) m = false) :
    ∃ p, inheritStep elem rec (.cls b, mods) = .error (.unknownTarget p) := by
  obtain ⟨x, hx, _⟩ := firstBad_some (p := fun m => !(Mod.headIn (base.map (·.comp.name)) m)) hm (by simp [hbad])
  exact ⟨x.path, by simp [inheritStep, he, hb, hx]⟩

example : ∃ p, inheritStep (elemOf 5 exLib) (membersF 5 exLib) (.cls ["Base"], [⟨["zz", "start"], .num 1⟩]) =
    .error (.unknownTarget p) := ⟨["zz", "start"], by decide +kernel⟩

end PymocaVerif.Flatten
