import PymocaVerif.Lemmas.SqliteLock
import PymocaVerif.Generated.SqlProgram
import PymocaVerif.Lemmas.ParseCacheConc
/-!
# C02 — concurrent parses sharing a cache folder all succeed

Statements about the lock model `Model/SqliteLock.lean` for **any number of connections** and
**any interleaving** (a schedule is an arbitrary list of connection indices; waiting statements may
be scheduled any number of times), and about the statement tree `Generated/SqlProgram.lean` that
the translator extracts from `parser.parse` / `_check_database_structure` on every run.

Not expressible here (the runtime part of the property, see `no_deadlock`): SQLite's busy timeout
(5 s), scheduler starvation and the OS-level race of `os.remove`; the model lets a waiting
statement wait.  The free-running multi-process stress of `harness/props/c02.py` is the only
witness for that part.  That every call returns the tree of the uncached parse is `same_result_under_interference` below (rely/guarantee
over C01's model at transaction granularity, which `single_writer` justifies) and is checked directly on the
real code by the stress and the scheduled runs.
-/
namespace PymocaVerif.C02
open PymocaVerif.SqliteLock PymocaVerif.Generated.SqlProgram

/-- every connection executes some exception-free path of the program -/
def RunsProg (prog : Prog) (pr : Nat → Path) : Prop := ∀ i, pr i ∈ paths prog

/-- the statements of a `parse` call on a fresh folder (a miss), as they occur in the source -/
def freshPath : Path :=
  [(.read, true),
   (.beginI, false), (.read, false), (.write, false), (.write, false), (.commit, false),
   (.beginI, false), (.read, false), (.write, false), (.write, false), (.commit, false),
   (.beginD, false), (.write, false), (.write, false), (.commit, false),
   (.beginD, false), (.write, false), (.write, false), (.commit, false),
   (.beginD, false), (.read, false), (.commit, false),
   (.work, false), (.work, false),
   (.beginD, false), (.write, false), (.commit, false)]

theorem freshPath_mem : freshPath ∈ paths sqlProgram := by decide +kernel

/-- **No call fails with a database error**: if no path of the program writes inside a transaction that
    has only read so far, then for every number of connections, every assignment of paths and every
    interleaving, no statement of any connection fails. -/
theorem no_failure (prog : Prog) (h : noUpgrade prog = true) (pr : Nat → Path) (hpr : RunsProg prog pr)
    (sched : List Nat) (st : State) (hrun : Run pr init sched st) : ∀ i, (st i).failed = false :=
  fun i => (run_allOk hrun (init_allOk pr fun j => pathOk_of_noUpgrade h (hpr j)) i).1

example : ∃ pr sched st, RunsProg sqlProgram pr ∧ Run pr init sched st ∧ (st 0).lock = .reserved ∧ (st 1).pc = 1 :=
  ⟨fun _ => freshPath, [0, 0, 1, 1, 1], _,
    fun _ => freshPath_mem, runN_Run (n := 2) (init_idle 2) (by decide), by decide, by decide⟩

/-- **No call deletes the database another call is using**: the file is removed only by the handler of
    the integrity-check `try`, which runs only when a statement inside it fails; none does. -/
theorem file_never_removed (prog : Prog) (h : noUpgrade prog = true) (pr : Nat → Path) (hpr : RunsProg prog pr)
    (sched : List Nat) (st : State) (hrun : Run pr init sched st) : ∀ i, ¬ removesFile pr st i :=
  fun i hrem => by
    have := no_failure prog h pr hpr sched st hrun i
    rw [hrem.1] at this; cases this

example : ∃ p ∈ paths sqlProgram, ∃ s r, p = (s, true) :: r := ⟨freshPath, freshPath_mem, _, _, rfl⟩

/-- At most one connection holds RESERVED/PENDING at any time (writers are serialised). -/
theorem single_writer (pr : Nat → Path) (sched : List Nat) (st : State) (hrun : Run pr init sched st) :
    OneWriter st := run_oneWriter hrun init_oneWriter

example : OneWriter (runN 2 (fun _ => freshPath) init [0, 0, 1, 1, 1]) :=
  single_writer _ _ _ (runN_Run (n := 2) (init_idle 2) (by decide))

/-- **No deadlock**: in every reachable state in which some connection has not finished, some connection
    can take a step that changes the state (so with a fair scheduler and lock hold times below the busy
    timeout every call finishes).  The runtime half (timeouts, starvation) is outside the model. -/
theorem no_deadlock_partial (prog : Prog) (h : noUpgrade prog = true) (pr : Nat → Path) (hpr : RunsProg prog pr)
    (sched : List Nat) (st : State) (hrun : Run pr init sched st)
    (hnd : ∃ i s g r, (pr i).drop (st i).pc = (s, g) :: r) :
    ∃ j st', Step pr st j st' ∧ st' ≠ st :=
  progress pr st (run_allOk hrun (init_allOk pr fun j => pathOk_of_noUpgrade h (hpr j))) hnd

example : ∃ i s g r, ((fun _ => freshPath) i : Path).drop
    ((runN 2 (fun _ => freshPath) init [0, 0, 1, 1, 1] i).pc) = (s, g) :: r :=
  ⟨1, .beginI, false, freshPath.drop 2, by decide⟩

/-- **Lock hold times do not depend on the text**: if on every path the text-dependent work (`_parse`, pickling)
    lies outside every transaction, then in every reachable state a connection that is about to do such work is
    outside every transaction and holds no lock — whatever the other connections do.  (This is what makes the
    fairness assumption of `no_deadlock_partial` reasonable: a lock is held for a few SQL statements only.) -/
theorem work_outside_locks (prog : Prog) (h1 : noUpgrade prog = true) (h2 : noWorkInsideTxn prog = true)
    (pr : Nat → Path) (hpr : RunsProg prog pr) (sched : List Nat) (st : State) (hrun : Run pr init sched st)
    (i : Nat) (g : Bool) (r : Path) (hcur : (pr i).drop (st i).pc = (.work, g) :: r) :
    (st i).inTxn = false ∧ (st i).lock = .none :=
  work_holds_nothing (run_allOk hrun (init_allOk pr fun j => pathOk_of_noUpgrade h1 (hpr j)) i)
    (run_allWork hrun (init_allWork pr fun j => pathWorkOk_of_noWork h2 (hpr j)) i) hcur

example : ((fun _ => freshPath) 0 : Path).drop
    ((runN 2 (fun _ => freshPath) init ((List.replicate 26 0) ++ [1, 1]) 0).pc) = (.work, false) :: freshPath.drop 23 := by
  decide +kernel

/-- the hypothesis is needed: a write transaction opened before the parse (`BEGIN IMMEDIATE; _parse; INSERT; COMMIT`) -/
example : pathWorkOk [(.beginI, false), (.work, false), (.write, false), (.commit, false)] = false := by decide

/-! ### Obligations over the program extracted from the current sources -/

/-- The statement tree of `parse` has no read-then-write inside a deferred transaction, no nested
    `BEGIN`, and closes every transaction, on every path. -/
theorem sqlProgram_noUpgrade : noUpgrade sqlProgram = true := by decide +kernel

/-- In the statement tree of `parse` the calls of `_parse`, `pickle.dumps` and `pickle.loads` lie outside every
    transaction on every path: no lock is held while a text is parsed or a tree pickled. -/
theorem sqlProgram_noWorkInsideTxn : noWorkInsideTxn sqlProgram = true := by decide +kernel

/-- Every connection is opened with `isolation_level=None` (the model's statement kinds assume that
    Python's sqlite3 module opens no implicit transactions). -/
theorem sqlProgram_autocommit : isolationLevelNone = true := by decide

/-- `parse` itself: any number of concurrent calls, any interleaving — nobody fails, nobody removes the file. -/
theorem parse_calls_never_fail (pr : Nat → Path) (hpr : RunsProg sqlProgram pr)
    (sched : List Nat) (st : State) (hrun : Run pr init sched st) :
    ∀ i, (st i).failed = false ∧ ¬ removesFile pr st i :=
  fun i => ⟨no_failure _ sqlProgram_noUpgrade pr hpr sched st hrun i,
            file_never_removed _ sqlProgram_noUpgrade pr hpr sched st hrun i⟩

/-! ### The hypothesis is needed: the structure check with a deferred `BEGIN` (the code before the fix) -/

def deferredCheck : Path := [(.beginD, false), (.read, false), (.write, false), (.commit, false)]

/-- Two connections running read-then-write in a deferred transaction: the second one's write fails at once. -/
theorem deferred_upgrade_fails :
    ∃ sched st, Run (fun _ => deferredCheck) init sched st ∧ (st 1).failed = true :=
  ⟨[0, 0, 1, 1, 0, 1], _, runN_Run (n := 2) (init_idle 2) (by decide), by decide⟩

example : pathOk deferredCheck = false := by decide

/-! ### Every call returns the uncached result, whatever the others commit in between -/

section SameResult
open PymocaVerif.ParseCache

variable {pf : Ver → TextId → Option TreeId}

/-- **Each call returns the same tree as an uncached parse**: one `parse` call (model `parseCachedI`, C01's
    state machine with an arbitrary commit of other processes before each of its transactions) returns the
    uncached result — `none` iff syntax error, no exception — provided every such commit satisfies `Rely` (keeps
    the row invariant, does not destroy tables with the expected layout, does not turn the file into garbage),
    the file is not garbage at the start (fresh, existing or wrong layout — all allowed), and a process that had
    initialised the database before still finds its `models` table. -/
theorem same_result_under_interference {cfg : Cfg} (hc : CaughtAll cfg) (s : St) (x : TextId) (days : Int) (upd : Bool)
    (env : Interference) (henv : ∀ g ∈ env, Rely pf g) (h : RowInv pf s) (hng : s.file ≠ .garbage)
    (hinit : s.init = true → ModelsOk s.file) :
    (parseCachedI cfg pf s x days upd env).2 = .value (pf s.ver x) :=
  parseCachedI_spec hc henv h hng hinit

/-- **… and what the calls do to each other is such a commit**: every transaction of `parse` (structure checks,
    metadata defaults, prune, last-hit update, insert of a fresh tree), and every sequence of them, satisfies
    `Rely` — so any number of concurrent calls are an admissible environment for each other. -/
theorem own_transactions_are_admissible {g : DbFile → DbFile} (h : OwnTx pf g) : Rely pf g := ownTx_rely h

/-- a wrong-layout database, another process creating the tables and inserting the same text in the gaps -/
example :
    let pf : Ver → TextId → Option TreeId := fun _ x => some (x + 1)
    let s : St := ⟨.db (some ⟨.alien, []⟩) (some .alien), false, 100, 1, 0, false⟩
    let other : DbFile → DbFile := fun f =>
      match txCheckModels f with | .ok f' => (match txInsert 0 0 1 50 f' with | .ok f'' => f'' | .error _ => f') | .error _ => f
    (parseCachedI { caught := ["Exception"] } pf s 0 30 true [other, other, id, other, id, other, other, other]).2
      = .value (some 1) := by decide +kernel

example : OwnTx (fun _ x => some (x + 1))
    (fun f => (fun f' => match txInsert 0 0 1 50 f' with | .ok f'' => f'' | .error _ => f')
      ((fun f => match txCheckModels f with | .ok f' => f' | .error _ => f) f)) :=
  OwnTx.comp OwnTx.checkModels (OwnTx.insert 0 0 1 50 rfl)

end SameResult

end PymocaVerif.C02
