import Drivers.Proto
import PymocaVerif.Model.Classify
/-! Driver for C10: `classify` (annotation + category split on the serialised flat class) and
    `annotate` (prefix lists after `annotate_states`). -/
open Lean Drivers PymocaVerif.Classify

partial def parseNode (j : Json) : Except String Node := do
  let k ← getStr j "k"
  let n ← getStr j "n"
  let f ← getBool j "f"
  let cs ← getArr j "c"
  let kids ← cs.toList.mapM parseNode
  pure (.mk k n f kids)

def parseSym (j : Json) : Except String Sym := do
  let name ← getStr j "name"
  let pf ← (← getArr j "prefixes").toList.mapM (·.getStr?)
  let ty ← getStr j "type"
  let order ← getInt j "order"
  let dims ← (← getArr j "dims").toList.mapM (·.getInt?)
  pure { name := name, prefixes := pf, type := ty, order := order, dims := dims }

def listsJson (l : Lists) : Json :=
  Json.mkObj [
    ("states", jstrs l.states), ("der_states", jstrs l.derStates), ("alg_states", jstrs l.algStates),
    ("inputs", jstrs l.inputs), ("parameters", jstrs l.parameters), ("constants", jstrs l.constants),
    ("string_parameters", jstrs l.stringParameters), ("string_constants", jstrs l.stringConstants),
    ("outputs", jstrs l.outputs)]

def handleFlat (req : Json) : Except String Json := do
  -- [{"inst": "c.", "derived": bool, "prefixes": [...]}] -> flat prefixes
  let items ← (← getArr req "items").toList.mapM fun (j : Json) => do
    let inst ← getStr j "inst"
    let der ← getBool j "derived"
    let pf ← (← getArr j "prefixes").toList.mapM (·.getStr?)
    pure (jstrs (flatPrefixes inst (if der then .derived else .elementary) pf))
  pure (Json.mkObj [("ok", true), ("prefixes", Json.arr items.toArray)])

def handle (req : Json) : Except String Json := do
  let op ← getStr req "op"
  if op == "flatprefixes" then return (← handleFlat req)
  let syms ← (← getArr req "symbols").toList.mapM parseSym
  let t ← parseNode (← getObj req "tree")
  match op with
  | "classify" =>
    match classify syms t with
    | .assertionError => pure (Json.mkObj [("ok", true), ("raised", "AssertionError")])
    | .attributeError => pure (Json.mkObj [("ok", true), ("raised", "AttributeError")])
    | .ok l => pure (Json.mkObj [("ok", true), ("raised", Json.null), ("lists", listsJson l)])
  | "annotate" =>
    match annotate syms t with
    | none => pure (Json.mkObj [("ok", true), ("raised", "AssertionError")])
    | some ss =>
      pure (Json.mkObj [("ok", true), ("raised", Json.null),
        ("prefixes", Json.mkObj (ss.map fun s => (s.name, jstrs s.prefixes)))])
  | o => throw s!"unknown-op {o}"

def main : IO Unit := serve handle
