/-!
# Model of the decision logic of `tools/compiler.py` `main`

An invocation is abstracted to what `main` looks at:

* the verdict of `argparse` on the argument strings (`Argparse`: accepted, rejected with
  `SystemExit(2)`, or `-h` / `--version` leaving with `SystemExit(0)`),
* the target, whether `-o` names a directory, per `PATH` whether it exists and which `.mo`
  files `list_modelica_files` finds for it (stem, parent directory, outcome of `parse_file`),
* per `-O` string whether the tool accepts it as `NAME=VALUE` (which spellings are accepted is
  implementation-defined — `split`, `partition`, stripping … — and not part of the property; the
  verdict is an input, like the outcome of parsing a file),
* per requested model the outcome of what `main` would call for it: `flatten_class`,
  `translate(…, "sympy", …)`, `casadi_api.transfer_model(dir, …)` per candidate directory.

`main` follows the control flow of the Python function statement by statement; every
`errors += 1` of the source is an increment here.  Two variants:

* `Variant.fixed` — **the code as it is in the repository** (since commit c313463, which is
  `proposed_fixes/C26-1.diff`: failures of `translate` counted, `-t casadi` without a matching
  file counted, undecodable file counted).  This is the variant the driver evaluates and the
  correspondence compares with.
* `Variant.old`  — the code before that commit, kept so that the theorems `old_*` of
  `Props/C26.lean` state exactly what each of the three changes is needed for (findings
  C26-F1 … F4, fixed).

Exceptions that escape `main` are an explicit outcome (`Outcome.raised`), never defaulted.
-/
namespace PymocaVerif.Cli

inductive Target | none | sympy | casadi
  deriving DecidableEq, Repr

inductive Argparse | ok | error | exit0
  deriving DecidableEq, Repr

/-- `parse_file`: a tree / `None` (syntax error, or one of the caught exception classes
    `KeyError, AttributeError, OSError`) / another exception (e.g. `UnicodeDecodeError`). -/
inductive ParseOutcome | ok | error | raise
  deriving DecidableEq, Repr

/-- `translate(…, "sympy", …)`: `True` / `False` (`OSError`, `KeyError` are caught inside and
    turned into `False`) / any other exception, which `translate` lets through. -/
inductive SympyOutcome | ok | retFalse | raise
  deriving DecidableEq, Repr

inductive Variant | old | fixed
  deriving DecidableEq, Repr

structure FileInfo where
  stem  : String
  dir   : Nat
  parse : ParseOutcome
  deriving Repr

structure PathInfo where
  pexists : Bool
  files   : List FileInfo
  deriving Repr

structure ModelReq where
  name      : String
  flattenOk : Bool
  sympy     : SympyOutcome
  /-- outcome of `transfer_model(dir, name, options)` per directory id (`true` = returns) -/
  casadi    : List (Nat × Bool)
  deriving Repr

structure Inv where
  argparse : Argparse
  target   : Target
  outdirOk : Bool
  paths    : List PathInfo
  /-- per `-O` argument: accepted as `NAME=VALUE` (`true`) or counted as a usage error -/
  options  : List Bool
  models   : List ModelReq
  deriving Repr

/-- What the caller of `main` sees. `ret n w`: `main` returned `n`, having written the
    output files of the models `w`; `sysexit n`: argparse left with `SystemExit(n)`;
    `raised`: an exception escaped. -/
inductive Outcome
  | ret (n : Nat) (written : List String)
  | sysexit (n : Nat)
  | raised
  deriving DecidableEq, Repr

/-- The additional argument checks before any file is read (`errors` at `if errors: return`). -/
def usageErrors (inv : Inv) : Nat :=
  (if inv.outdirOk then 0 else 1)
    + (inv.paths.filter (fun p => !p.pexists)).length
    + (inv.options.filter (fun o => !o)).length

/-- `list_modelica_files(args.PATH)`. -/
def allFiles (inv : Inv) : List FileInfo := inv.paths.flatMap (·.files)

/-- The loop of `parse_all`: number of files in `error_files`, or `none` when an exception
    escapes `parse_file` (in the fixed variant it is caught and the file counted). -/
def parseAll (v : Variant) : List FileInfo → Option Nat
  | [] => some 0
  | f :: fs =>
    match f.parse with
    | .ok => parseAll v fs
    | .error => (parseAll v fs).map (· + 1)
    | .raise =>
      match v with
      | .old => none
      | .fixed => (parseAll v fs).map (· + 1)

/-- The flatten-only arm of the model loop (`errors += 1` in the `except`). -/
def flattenLoop : List ModelReq → Nat → Nat
  | [], e => e
  | m :: ms, e => flattenLoop ms (if m.flattenOk then e else e + 1)

/-- The `-t sympy` arm of the model loop.  Before c313463: the value of `translate` is dropped and
    its exceptions are not caught. -/
def sympyLoop (v : Variant) : List ModelReq → Nat → List String → Outcome
  | [], e, w => .ret e w
  | m :: ms, e, w =>
    match m.sympy, v with
    | .ok, _ => sympyLoop v ms e (w ++ [m.name])
    | .retFalse, .old => sympyLoop v ms e w
    | .retFalse, .fixed => sympyLoop v ms (e + 1) w
    | .raise, .old => .raised
    | .raise, .fixed => sympyLoop v ms (e + 1) w

/-- The scan `for path in modelica_files: if path.stem == model: …` of the casadi arm:
    `(model_dir, ambiguous)`. `md` is the loop-carried `model_dir`. -/
def inferDir (name : String) : List FileInfo → Option Nat → Option Nat × Bool
  | [], md => (md, false)
  | f :: fs, md =>
    if f.stem = name then
      match md with
      | some _ => (none, true)          -- "More than one Modelica file found": break
      | none => inferDir name fs (some f.dir)
    else inferDir name fs md

def casadiOk (m : ModelReq) (d : Nat) : Bool := (m.casadi.lookup d).getD false

/-- One iteration of the `-t casadi` model loop after the scan returned `r`. -/
def casadiStep (v : Variant) (m : ModelReq) (r : Option Nat × Bool) (e : Nat) : Nat :=
  match r with
  | (none, amb) =>
    match v with
    | .old => if amb then e + 1 else e     -- no match: logged, not counted
    | .fixed => e + 1
  | (some d, _) => if casadiOk m d then e else e + 1

/-- The `-t casadi` arm of the model loop. -/
def casadiLoop (v : Variant) (files : List FileInfo) : List ModelReq → Nat → Nat
  | [], e => e
  | m :: ms, e => casadiLoop v files ms (casadiStep v m (inferDir m.name files none) e)

/-- `tools.compiler.main`. -/
def main (v : Variant) (inv : Inv) : Outcome :=
  match inv.argparse with
  | .error => .sysexit 2
  | .exit0 => .sysexit 0
  | .ok =>
    -- `argp.error("-t/--target requires -m/--model")`
    if inv.target ≠ .none ∧ inv.models.isEmpty then .sysexit 2 else
    let errors := usageErrors inv
    if errors ≠ 0 then .ret errors [] else
    let files := allFiles inv
    match inv.target with
    | .casadi =>
      if files.isEmpty then .ret 1 [] else .ret (casadiLoop v files inv.models 0) []
    | t =>
      -- `parse_all` returns `([], [])` without parsing when there is no file
      if files.isEmpty then .ret 1 [] else
      match parseAll v files with
      | none => .raised
      | some bad =>
        if bad ≠ 0 then .ret bad [] else
        if t = .sympy then sympyLoop v inv.models 0 [] else .ret (flattenLoop inv.models 0) []

/-! ## The quantities the property names (specification side) -/

/-- `-t casadi`: a model fails unless exactly one listed file has its stem and
    `transfer_model` on that file's directory returns. `l` = the listed files with the stem. -/
def casadiFails (m : ModelReq) : List FileInfo → Bool
  | [f] => !casadiOk m f.dir
  | _ => true

/-- Does the requested model fail to flatten / generate?  Depends on the target, the listed
    files and the model only — not on the other requested models. -/
def modelFails (t : Target) (files : List FileInfo) (m : ModelReq) : Bool :=
  match t with
  | .none => !m.flattenOk
  | .sympy => m.sympy != .ok
  | .casadi => casadiFails m (files.filter (fun f => f.stem = m.name))

def usageCount (inv : Inv) : Nat :=
  usageErrors inv + (if usageErrors inv = 0 ∧ (allFiles inv).isEmpty then 1 else 0)

def parseErrorFiles (inv : Inv) : Nat :=
  if usageCount inv = 0 ∧ inv.target ≠ .casadi then
    ((allFiles inv).filter (fun f => f.parse ≠ .ok)).length
  else 0

def failingModels (inv : Inv) : Nat :=
  if usageCount inv = 0 ∧ parseErrorFiles inv = 0 then
    (inv.models.filter (modelFails inv.target (allFiles inv))).length
  else 0

/-- The status part of an outcome (`none` for an escaping exception). -/
def Outcome.status : Outcome → Option Nat
  | .ret n _ => some n
  | .sysexit n => some n
  | .raised => none

end PymocaVerif.Cli
