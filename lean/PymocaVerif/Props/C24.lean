/-! # C24 — property theorems (stub: not built yet) -/
