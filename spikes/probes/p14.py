import random, itertools, warnings, logging, sys
from fractions import Fraction
import numpy as np, casadi as ca
from pymoca import parser
from pymoca.backends.casadi import generator as gen
logging.getLogger("pymoca").setLevel(logging.ERROR)
OPTS = ["replace_parameter_expressions","replace_constant_expressions","eliminate_constant_assignments","replace_parameter_values","replace_constant_values","detect_aliases","factor_and_simplify_equations","expand_mx","resolve_parameter_values"]
def gen_model(rng):
    n = rng.randint(3, 6)
    names = ["v%d" % i for i in range(n)]
    sol = {}
    decl = ["parameter Real p = 2;", "constant Real c = 3;", "parameter Real q = p + 1;"]
    eqs = []
    env = {"p": 2, "c": 3, "q": 3}
    for i, v in enumerate(names):
        kind = rng.choice(["const", "alias", "negalias", "affine", "paramexpr", "scaled"]) if i > 0 else rng.choice(["const", "paramexpr"])
        if kind == "const":
            k = rng.randint(-5, 5); sol[v] = k
            eqs.append(rng.choice(["%s = %d" % (v, k), "%d = %s" % (k, v), "%s - %d = 0" % (v, k)]))
        elif kind == "alias":
            w = rng.choice(names[:i]); sol[v] = sol[w]
            eqs.append(rng.choice(["%s = %s" % (v, w), "%s = %s" % (w, v), "%s - %s = 0" % (v, w)]))
        elif kind == "negalias":
            w = rng.choice(names[:i]); sol[v] = -sol[w]
            eqs.append(rng.choice(["%s = -%s" % (v, w), "%s + %s = 0" % (v, w), "-%s = %s" % (w, v)]))
        elif kind == "affine":
            w = rng.choice(names[:i]); a = rng.choice([2, 3, -2]); b = rng.randint(-3, 3); sol[v] = a*sol[w] + b
            eqs.append("%s = %d*%s + %d" % (v, a, w, b))
        elif kind == "paramexpr":
            sol[v] = env["q"] * 2 + env["c"]
            eqs.append("%s = 2*q + c" % v)
        elif kind == "scaled":
            w = rng.choice(names[:i]); sol[v] = sol[w] + 1
            eqs.append("%d*(%s - %s - 1) = 0" % (rng.choice([2, -3]), v, w))
        decl.append("Real %s%s;" % (v, rng.choice(["", "(min=-100)", "(max=100, nominal=2)", "(start=1)"])))
    rng.shuffle(eqs)
    txt = "model M\n " + "\n ".join(decl) + "\nequation\n " + ";\n ".join(eqs) + ";\nend M;"
    return txt, sol, env
def check(seed):
    rng = random.Random(seed)
    txt, sol, env = gen_model(rng)
    opts = {o: rng.random() < 0.5 for o in OPTS}
    t = parser.parse(txt, bypass_cache=True)
    try:
        m = gen.generate(t, "M", dict(opts))
        n_unk0 = len(m.states) + len(m.alg_states); n_eq0 = len(m.equations)
        with warnings.catch_warnings():
            warnings.simplefilter("ignore")
            m.simplify(dict(opts))
        f = m.dae_residual_function
    except Exception as e:
        return ("exc", type(e).__name__ + ": " + str(e)[:80], txt, opts)
    full = dict(sol); full.update(env)
    # eliminated variables: constants list carries value; aliases carry sign
    def val(name): return float(full[name])
    args = [0.0, [val(v.symbol.name()) for v in m.states], [0.0]*len(m.der_states), [val(v.symbol.name()) for v in m.alg_states], [val(v.symbol.name()) for v in m.inputs], [val(v.symbol.name()) for v in m.constants], [val(v.symbol.name()) for v in m.parameters]]
    try:
        out = f.call(args)
        r = out[0].full().ravel() if out else np.zeros(0)
    except Exception as e:
        return ("evalexc", str(e)[:100], txt, opts)
    bad = [x for x in r if abs(x) > 1e-9]
    probs = []
    if bad: probs.append("residual nonzero %s" % r.tolist())
    # recorded constants
    for v in m.constants:
        try:
            cv = float(ca.MX(v.value)) if not isinstance(v.value, float) else v.value
            if abs(cv - val(v.symbol.name())) > 1e-9: probs.append("const %s=%s expected %s" % (v.symbol.name(), cv, val(v.symbol.name())))
        except Exception: pass
    for canon, aliases in m.alias_relation:
        for a in aliases:
            sgn = -1 if a[0] == "-" else 1; nm = a.lstrip("-")
            if abs(val(nm) - sgn*val(canon)) > 1e-9: probs.append("alias %s ~ %s wrong" % (canon, a))
    n_unk = len(m.states) + len(m.alg_states); n_eq = sum(e.numel() for e in m.equations)
    if n_unk - n_eq != n_unk0 - n_eq0: probs.append("balance %d-%d vs %d-%d" % (n_unk, n_eq, n_unk0, n_eq0))
    if probs: return ("bad", probs, txt, opts)
    return None
from collections import Counter
cnt = Counter(); shown = 0
for seed in range(int(sys.argv[1])):
    r = check(seed)
    if r is None: cnt["ok"] += 1
    else:
        cnt[r[0] + (":" + r[1].split(":")[0] if r[0] == "exc" else "")] += 1
        if shown < 6 and r[0] != "exc":
            shown += 1; print("=== seed", seed, r[0], r[1]); print(r[2]); print({k: v for k, v in r[3].items() if v})
        elif r[0] == "exc" and cnt[r[0] + ":" + r[1].split(":")[0]] <= 2:
            print("=== seed", seed, r[1]); print(r[2]); print({k: v for k, v in r[3].items() if v})
print(cnt)
