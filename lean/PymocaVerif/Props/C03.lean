import PymocaVerif.Lemmas.ExprGrammar
import PymocaVerif.Lemmas.ExprLiterals
import PymocaVerif.Lemmas.ExprSpec
import PymocaVerif.Lemmas.ExprSpecSound
import PymocaVerif.Generated.ExprTable
/-!
# C03 — parsed expressions follow Modelica precedence and literal values

Theorems about `PymocaVerif.Model.ExprGrammar`: the table-driven model of the generated parser's rule
`expr` (ANTLR's precedence climbing), the listener's tree building, the Modelica-grammar printer; and about
`PymocaVerif.Model.ExprSpec`, the specification's own grammar as a recursive-descent reference reader.
`Generated/ExprTable.lean` is rewritten from `/repo` on every run; `table_ok`/`atn_ok` tie it to the table
the theorems are about.  All statements are for trees of any depth and any redundant parenthesisation.
-/
namespace PymocaVerif.Props.C03
open PymocaVerif.ExprGrammar PymocaVerif.Generated.ExprTable

/-! ## The tie to the generated parser -/

/-- The table extracted from the Python source of `ModelicaParser.expr` (token sets, `precpred` levels, levels of
the recursive calls) is the table of the theorems below. -/
theorem table_ok : exprTable = modelicaData := by decide

example : exprTable.length = 21 := by decide

/-- The table extracted from the deserialised ATN (the precedence predicates and rule-call precedences that
`adaptivePredict` evaluates) is the same table. -/
theorem atn_ok : atnTable = modelicaData := by decide

example : atnTable.length = 21 := by decide

/-- The function form of the extracted table. -/
theorem generated_tbl : Tbl.ofData exprTable = modelicaTbl := by
  rw [table_ok]
  unfold Tbl.ofData modelicaTbl
  congr 1
  · funext o; cases o <;> rfl
  · funext o; cases o <;> rfl
  · funext q; cases q <;> rfl

example : (Tbl.ofData exprTable).lvl .mul = 7 ∧ (Tbl.ofData exprTable).rl .mul = 8 ∧
    (Tbl.ofData exprTable).plvl .not = 4 := by decide

/-- The side conditions of the round trip hold for pymoca's table: every operator is left associative (right
operand one level up), levels are positive, no binary level equals a prefix operand level. -/
theorem table_conditions : TblOK (Tbl.ofData exprTable) := by
  rw [generated_tbl]; exact modelicaTbl_ok

example : TblOK modelicaTbl := modelicaTbl_ok

/-! ## Round trip -/

/-- A result obtained with some fuel is the result with every larger fuel (so the fuel the driver uses can only
agree with the witnesses of the theorems below). -/
theorem parse_fuel_mono (T : Tbl) {f f' : Nat} {ts : List Tok} {e : E}
    (h : parseTop T f ts = some e) (hle : f ≤ f') : parseTop T f' ts = some e :=
  monoTop T h hle

example : parseTop modelicaTbl 6 [Tok.atom (.ref "x"), Tok.op .star, Tok.atom (.num "2")]
    = some (.bin .mul (.atom (.ref "x")) (.atom (.num "2"))) := by rfl

/-- **Round trip for an arbitrary precedence table** satisfying `TblOK`: the minimal-parenthesis printer for the
table (every `paren` node verbatim) is inverted by the table-driven parser, up to the `paren` nodes, for every
tree. -/
theorem parse_print (T : Tbl) (hT : TblOK T) (e : E) :
    ∃ fuel, ∀ f, fuel ≤ f → parseTop T f (pr T 0 e) = some (strip e) := by
  obtain ⟨f0, h⟩ := parse_pr T hT e
  exact ⟨f0, fun f hf => monoTop T h hf⟩

example : parseTop modelicaTbl 12
    (pr modelicaTbl 0 (.bin .sub (.atom (.ref "a")) (.paren (.bin .sub (.atom (.ref "b")) (.atom (.ref "c"))))))
    = some (.bin .sub (.atom (.ref "a")) (.bin .sub (.atom (.ref "b")) (.atom (.ref "c")))) := by rfl

/-- **Round trip for Modelica text with pymoca's table**: whatever tree `e` (any depth, any redundant
parentheses), parsing the text the Modelica grammar prints for it (`mprint`: minimal parentheses by the
specification's grammar, `paren` nodes verbatim) with the extracted table yields `expected e`. -/
theorem parse_mprint (e : E) :
    ∃ fuel, ∀ f, fuel ≤ f → parseTop (Tbl.ofData exprTable) f (mprint e) = some (expected e) := by
  rw [generated_tbl]
  obtain ⟨f0, h⟩ := parse_mprint_lemma e
  exact ⟨f0, fun f hf => monoTop _ h hf⟩

/-- `- a * b ^ 2 < c and not p`, with one redundant pair of parentheses -/
def sample : E :=
  .bin .and
    (.bin .lt (.pre .neg (.bin .mul (.atom (.ref "a")) (.paren (.pow .pow (.atom (.ref "b")) (.atom (.num "2"))))))
      (.atom (.ref "c")))
    (.pre .not (.atom (.ref "p")))

example : parseTop (Tbl.ofData exprTable) 40 (mprint sample) = some (expected sample) := by rfl
example : expected sample =
    .bin .and
      (.bin .lt (.bin .mul (.pre .neg (.atom (.ref "a"))) (.pow .pow (.atom (.ref "b")) (.atom (.num "2"))))
        (.atom (.ref "c")))
      (.pre .not (.atom (.ref "p"))) := by rfl

/-! ## Values -/

/-- `expected e` — the tree pymoca builds — has the value of the source tree in every interpretation in which
a sign moves out of a product or quotient (`(-a)*b = -(a*b)`, `(-a)/b = -(a/b)`; true in every field). -/
theorem eval_expected {V : Type} (I : Interp V) (hI : I.SignLaw) (e : E) :
    eval I (expected e) = eval I e :=
  eval_expected_lemma I hI e

/-- **The property**: for every expression tree, however parenthesised, the tree parsed from its Modelica text
evaluates to the value Modelica's precedence and associativity give that text (the value of the source tree). -/
theorem value_preserved {V : Type} (I : Interp V) (hI : I.SignLaw) (e : E) :
    ∃ fuel, ∀ f, fuel ≤ f → (parseTop (Tbl.ofData exprTable) f (mprint e)).map (eval I) = some (eval I e) := by
  obtain ⟨f0, h⟩ := parse_mprint e
  refine ⟨f0, fun f hf => ?_⟩
  rw [h f hf, Option.map_some, eval_expected I hI]

/-- **The yardstick is the specification's grammar itself**: the recursive-descent reader of B.2.7
(`logical_expression` … `primary`, one case per nonterminal) reads the Modelica print of `e` as `e` (up to `paren`
nodes).  So "the source tree" in the theorems above *is* what Modelica's precedence and associativity make of the
text, not a convention of the printer. -/
theorem spec_reads_source (e : E) : ∃ fuel, ∀ f, fuel ≤ f → specParse f (mprint e) = some (strip e) := by
  obtain ⟨f0, h⟩ := spec_reads_mprint e
  exact ⟨f0, fun f hf => smonoTop h hf⟩

example : specParse 60 (mprint sample) = some (strip sample) := by rfl

/-- **The property, against the specification's reading of the text**: on the Modelica text of any expression
tree, however parenthesised, pymoca's parser (extracted table) and the specification's grammar both succeed and
the two trees have the same value. -/
theorem agrees_with_specification {V : Type} (I : Interp V) (hI : I.SignLaw) (e : E) :
    ∃ fuel, ∀ f, fuel ≤ f →
      ∃ t s, parseTop (Tbl.ofData exprTable) f (mprint e) = some t ∧ specParse f (mprint e) = some s ∧
        eval I t = eval I s := by
  obtain ⟨f1, h1⟩ := parse_mprint e
  obtain ⟨f2, h2⟩ := spec_reads_source e
  refine ⟨max f1 f2, fun f hf => ⟨expected e, strip e, h1 f ?_, h2 f ?_, ?_⟩⟩
  · exact Nat.le_trans (Nat.le_max_left _ _) hf
  · exact Nat.le_trans (Nat.le_max_right _ _) hf
  · rw [eval_expected I hI, eval_strip]

/-- **The property for every text of the specification's expression grammar** (no printer in the statement):
whenever the specification's grammar derives a token string `ts` and reads it as `s`, pymoca's parser (extracted
table) accepts `ts` too and its tree has the value of `s`. -/
theorem every_text {V : Type} (I : Interp V) (hI : I.SignLaw) (ts : List Tok) (f : Nat) (s : E)
    (h : specParse f ts = some s) :
    ∃ fuel, ∀ f', fuel ≤ f' → ∃ t, parseTop (Tbl.ofData exprTable) f' ts = some t ∧ eval I t = eval I s := by
  obtain ⟨c, hc, hts⟩ := spec_text_is_print h
  obtain ⟨f0, h0⟩ := parse_mprint c
  refine ⟨f0, fun f' hf' => ⟨expected c, ?_, ?_⟩⟩
  · rw [← hts]; exact h0 f' hf'
  · rw [eval_expected I hI, ← hc, eval_strip]

/-- `- a / b * c`: the specification reads `-((a / b) * c)` -/
example : specParse 30 [.op .minus, .atom (.ref "a"), .op .slash, .atom (.ref "b"), .op .star, .atom (.ref "c")]
    = some (.pre .neg (.bin .mul (.bin .div (.atom (.ref "a")) (.atom (.ref "b"))) (.atom (.ref "c")))) := by rfl

/-- Parenthesisation is irrelevant: two trees that differ only in redundant parentheses give trees of the same
value. -/
theorem parenthesisation_irrelevant {V : Type} (I : Interp V) (hI : I.SignLaw) (e e' : E)
    (h : strip e = strip e') : eval I (expected e) = eval I (expected e') := by
  rw [eval_expected I hI, eval_expected I hI, ← eval_strip I e, ← eval_strip I e', h]

example : strip sample = strip (.paren (.paren sample)) := by rfl

/-- The tree the listener builds has no `paren` node (a parenthesised single expression is collapsed). -/
theorem expected_paren_free (e : E) : noParen (expected e) = true :=
  noParen_strip _

example : noParen sample = false := by rfl

/-- No two different readings share a text: Modelica texts with the same tokens give the same tree. -/
theorem print_unambiguous (e e' : E) (h : mprint e = mprint e') : expected e = expected e' :=
  mprint_injective e e' h

example : mprint sample = mprint sample := rfl

/-- the rationals with the usual operations (Booleans as 0/1; anything uninterpreted as 0) -/
def ratInterp (ρ : Atom → Rat) : Interp Rat where
  atom := ρ
  bin
    | .mul, a, b | .emul, a, b => a * b
    | .div, a, b | .ediv, a, b => a / b
    | .add, a, b | .eadd, a, b => a + b
    | .sub, a, b | .esub, a, b => a - b
    | .lt, a, b => if a < b then 1 else 0
    | .le, a, b => if a ≤ b then 1 else 0
    | .gt, a, b => if b < a then 1 else 0
    | .ge, a, b => if b ≤ a then 1 else 0
    | .eq, a, b => if a = b then 1 else 0
    | .ne, a, b => if a = b then 0 else 1
    | .and, a, b => a * b
    | .or, a, b => a + b - a * b
  pre
    | .pos, a => a
    | .neg, a => -a
    | .not, a => 1 - a
  pow _ a b := if b = 2 then a * a else 0
  ite c t e := if c = 0 then e else t
  call _ _ := 0

theorem ratInterp_signLaw (ρ : Atom → Rat) : (ratInterp ρ).SignLaw := by
  intro s o a b hs ho
  cases s <;> cases o <;> simp_all [ratInterp, BOp.isMul, Rat.neg_mul, Rat.div_def]

example (ρ : Atom → Rat) : eval (ratInterp ρ) (expected sample) = eval (ratInterp ρ) sample :=
  eval_expected _ (ratInterp_signLaw ρ) sample

/-! ## The clauses of the property, as corollaries on token strings (for arbitrary atoms) -/

section corollaries
variable (a b c : Atom)

/-- `a o b o' c` with two operators of the multiplication level is `(a o b) o' c` -/
theorem mul_left_assoc (o o' : BOp) (ho : o.isMul = true) (ho' : o'.isMul = true) :
    ∃ fuel, parseTop modelicaTbl fuel [.atom a, .op o.sym, .atom b, .op o'.sym, .atom c]
      = some (.bin o' (.bin o (.atom a) (.atom b)) (.atom c)) := by
  have := parse_mprint_lemma (.bin o' (.bin o (.atom a) (.atom b)) (.atom c))
  cases o <;> cases o' <;> simp_all [BOp.isMul, mprint, mpr, expected, conv, strip, BOp.mlv]

example : parseTop modelicaTbl 20 [.atom (.ref "a"), .op .slash, .atom (.ref "b"), .op .star, .atom (.ref "c")]
    = some (.bin .mul (.bin .div (.atom (.ref "a")) (.atom (.ref "b"))) (.atom (.ref "c"))) := by rfl

/-- the addition level (`+ - .+ .-`) is left associative: `a - b + c` is `(a - b) + c` -/
theorem add_left_assoc (o o' : BOp) (ho : o.mlv.1 = 5) (ho' : o'.mlv.1 = 5) :
    ∃ fuel, parseTop modelicaTbl fuel [.atom a, .op o.sym, .atom b, .op o'.sym, .atom c]
      = some (.bin o' (.bin o (.atom a) (.atom b)) (.atom c)) := by
  have := parse_mprint_lemma (.bin o' (.bin o (.atom a) (.atom b)) (.atom c))
  cases o <;> cases o' <;> simp_all [mprint, mpr, expected, conv, strip, BOp.mlv]

example : parseTop modelicaTbl 20 [.atom (.ref "a"), .op .minus, .atom (.ref "b"), .op .minus, .atom (.ref "c")]
    = some (.bin .sub (.bin .sub (.atom (.ref "a")) (.atom (.ref "b"))) (.atom (.ref "c"))) := by rfl

/-- multiplication binds tighter than addition on either side: `a + b * c` is `a + (b * c)` -/
theorem mul_over_add (o o' : BOp) (ho : o.mlv.1 = 5) (ho' : o'.isMul = true) :
    ∃ fuel, parseTop modelicaTbl fuel [.atom a, .op o.sym, .atom b, .op o'.sym, .atom c]
      = some (.bin o (.atom a) (.bin o' (.atom b) (.atom c))) := by
  have := parse_mprint_lemma (.bin o (.atom a) (.bin o' (.atom b) (.atom c)))
  cases o <;> cases o' <;> simp_all [BOp.isMul, mprint, mpr, expected, conv, strip, BOp.mlv]

example : parseTop modelicaTbl 20 [.atom (.ref "a"), .op .plus, .atom (.ref "b"), .op .star, .atom (.ref "c")]
    = some (.bin .add (.atom (.ref "a")) (.bin .mul (.atom (.ref "b")) (.atom (.ref "c")))) := by rfl

/-- `^` binds tighter than unary minus: `- a ^ b` is `-(a ^ b)` -/
theorem pow_over_neg (w : WOp) :
    ∃ fuel, parseTop modelicaTbl fuel [.op .minus, .atom a, .op w.sym, .atom b]
      = some (.pre .neg (.pow w (.atom a) (.atom b))) := by
  have := parse_mprint_lemma (.pre .neg (.pow w (.atom a) (.atom b)))
  simpa [mprint, mpr, expected, conv, strip, POp.mlv, pushSign, POp.sym] using this

example : parseTop modelicaTbl 20 [.op .minus, .atom (.num "2"), .op .caret, .atom (.num "2")]
    = some (.pre .neg (.pow .pow (.atom (.num "2")) (.atom (.num "2")))) := by rfl

/-- `- a * b` is built as `(-a) * b` (Modelica reads `-(a * b)`: same value by `eval_expected`) -/
theorem neg_product (o : BOp) (ho : o.isMul = true) :
    (∃ fuel, parseTop modelicaTbl fuel [.op .minus, .atom a, .op o.sym, .atom b]
      = some (.bin o (.pre .neg (.atom a)) (.atom b))) ∧
    (∀ {V : Type} (I : Interp V), I.SignLaw →
      eval I (.bin o (.pre .neg (.atom a)) (.atom b)) = eval I (.pre .neg (.bin o (.atom a) (.atom b)))) := by
  constructor
  · obtain ⟨f, hf⟩ := parse_mprint_lemma (.pre .neg (.bin o (.atom a) (.atom b)))
    refine ⟨f, ?_⟩
    cases o <;> simp_all [BOp.isMul, mprint, mpr, expected, conv, strip, POp.mlv, BOp.mlv, pushSign, POp.sym]
  · intro V I hI
    simp [eval, hI .neg o _ _ (by simp) ho]

example : parseTop modelicaTbl 20 [.op .minus, .atom (.ref "a"), .op .slash, .atom (.ref "b")]
    = some (.bin .div (.pre .neg (.atom (.ref "a"))) (.atom (.ref "b"))) := by rfl

/-- arithmetic binds tighter than relations, relations tighter than `not`: `not a + b < c` is `not ((a + b) < c)` -/
theorem rel_over_not (o r : BOp) (ho : o.mlv.1 = 5) (hr : r.mlv.1 = 4) :
    ∃ fuel, parseTop modelicaTbl fuel [.op .not, .atom a, .op o.sym, .atom b, .op r.sym, .atom c]
      = some (.pre .not (.bin r (.bin o (.atom a) (.atom b)) (.atom c))) := by
  have := parse_mprint_lemma (.pre .not (.bin r (.bin o (.atom a) (.atom b)) (.atom c)))
  cases o <;> cases r <;> simp_all [mprint, mpr, expected, conv, strip, POp.mlv, BOp.mlv, POp.sym]

example : parseTop modelicaTbl 20 [.op .not, .atom (.ref "a"), .op .lt, .atom (.ref "b")]
    = some (.pre .not (.bin .lt (.atom (.ref "a")) (.atom (.ref "b")))) := by rfl

/-- `not` binds tighter than `and`: `not a and b` is `(not a) and b` -/
theorem not_over_and :
    ∃ fuel, parseTop modelicaTbl fuel [.op .not, .atom a, .op .and, .atom b]
      = some (.bin .and (.pre .not (.atom a)) (.atom b)) := by
  have := parse_mprint_lemma (.bin .and (.pre .not (.atom a)) (.atom b))
  simpa [mprint, mpr, expected, conv, strip, POp.mlv, BOp.mlv, POp.sym, BOp.sym] using this

example : parseTop modelicaTbl 20 [.op .not, .atom (.ref "p"), .op .and, .atom (.ref "q")]
    = some (.bin .and (.pre .not (.atom (.ref "p"))) (.atom (.ref "q"))) := by rfl

/-- `and` binds tighter than `or`, on either side: `a or b and c` is `a or (b and c)`; `a and b or c` is `(a and b) or c` -/
theorem and_over_or :
    (∃ fuel, parseTop modelicaTbl fuel [.atom a, .op .or, .atom b, .op .and, .atom c]
      = some (.bin .or (.atom a) (.bin .and (.atom b) (.atom c)))) ∧
    (∃ fuel, parseTop modelicaTbl fuel [.atom a, .op .and, .atom b, .op .or, .atom c]
      = some (.bin .or (.bin .and (.atom a) (.atom b)) (.atom c))) := by
  constructor
  · have := parse_mprint_lemma (.bin .or (.atom a) (.bin .and (.atom b) (.atom c)))
    simpa [mprint, mpr, expected, conv, strip, BOp.mlv, BOp.sym] using this
  · have := parse_mprint_lemma (.bin .or (.bin .and (.atom a) (.atom b)) (.atom c))
    simpa [mprint, mpr, expected, conv, strip, BOp.mlv, BOp.sym] using this

example : parseTop modelicaTbl 20 [.atom (.ref "a"), .op .or, .atom (.ref "b"), .op .and, .atom (.ref "c")]
    = some (.bin .or (.atom (.ref "a")) (.bin .and (.atom (.ref "b")) (.atom (.ref "c")))) := by rfl

end corollaries

/-! ## Literals -/

/-- An unsigned integer literal (the decimal digits of any natural number) is read as that integer, with
integer type (`int()` accepts it). -/
theorem int_literal_exact (n : Nat) :
    litValue (String.ofList (Nat.toDigits 10 n)) = some { isInt := true, value := (n : Rat) } :=
  litValue_int n

example : litValue (String.ofList (Nat.toDigits 10 2026)) = some { isInt := true, value := 2026 } :=
  int_literal_exact 2026

/-- A real literal `i.d₁…d_k e±x`: digits of `i`, a fraction part of `k` digits with value `fv`
(zero padded), an exponent; read as exactly `(i + fv / 10^k) · 10^x`, with real type. -/
theorem real_literal_exact (i k fv : Nat) (hfv : fv < 10 ^ k) (neg : Bool) (x : Nat) :
    litValue (String.ofList (Nat.toDigits 10 i ++ '.' :: padDigits k fv ++ 'e' :: (if neg then ['-'] else []) ++
        Nat.toDigits 10 x))
      = some { isInt := false,
               value := ((i : Rat) + (fv : Rat) / ((10 ^ k : Nat) : Rat)) * pow10 (if neg then - (x : Int) else x) } :=
  litValue_real i k fv hfv neg x

/-- `12.50e-1` -/
example : litValue (String.ofList (Nat.toDigits 10 12 ++ '.' :: padDigits 2 50 ++ 'e' :: ['-'] ++ Nat.toDigits 10 1))
    = some { isInt := false, value := ((12 : Nat) + (50 : Nat) / ((10 ^ 2 : Nat) : Rat)) * pow10 (-(1 : Nat)) } :=
  real_literal_exact 12 2 50 (by decide) true 1

/-- A string literal is read as exactly the text between its delimiters, whatever that text is — escape
sequences stay verbatim, in particular an escaped quote at the very end (`"say \\"hi\\""`) is kept. -/
theorem string_literal_exact (cs : List Char) :
    strLitValue (String.ofList ('"' :: (cs ++ ['"']))) = some (String.ofList cs) :=
  strLitValue_quoted cs

/-- `"\\""`: the value is the two characters `\\` and `"` -/
example : strLitValue (String.ofList ['"', '\\', '"', '"']) = some (String.ofList ['\\', '"']) :=
  string_literal_exact ['\\', '"']

end PymocaVerif.Props.C03
