/-! # C12 — property theorems (stub: not built yet) -/
