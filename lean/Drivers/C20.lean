import Drivers.Proto
import PymocaVerif.Model.CacheStateJson
/-! Driver for C20: replays a history of edits / version changes / transfers on the
    `CacheState` model and reports the decision of every `transfer_model` call. -/
open Lean Drivers

def handle (req : Json) : Except String Json := do
  match ← getStr req "op" with
  | "cache.run" => PymocaVerif.CacheState.runJson req
  | "cache.convert" => PymocaVerif.CacheState.convertJson req
  | o => throw s!"unknown-op {o}"

def main : IO Unit := serve handle
