import PymocaVerif.Lemmas.GenEq
/-! # C11 — property theorems (in progress) -/
namespace PymocaVerif.Gen
open PymocaVerif.ExprSem
theorem forloop_range (a s b : Int) : arangeCode a s b = modelicaRange a s b := arangeCode_eq a s b
end PymocaVerif.Gen
