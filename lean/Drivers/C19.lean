/-! Driver for C19 (stub: not built yet). -/
def main : IO Unit := pure ()
