import PymocaVerif.Model.ExprSem
/-!
# Lemmas for C11: what the subscripts of the Modelica meaning select (1-based, Modelica ranges,
  column-major matrices)
-/
namespace PymocaVerif.ExprSem

theorem pos_of_value (l s : Int) (k : Nat) (hl : 1 ≤ l) (hs : 0 < s) :
    ((l + (k : Int) * s) - 1).toNat = (l - 1).toNat + k * s.toNat := by
  have h : ((l + (k : Int) * s) - 1) = (((l - 1).toNat + k * s.toNat : Nat) : Int) := by
    push_cast
    rw [Int.toNat_of_nonneg (by omega), Int.toNat_of_nonneg (by omega)]
    omega
  rw [h, Int.toNat_natCast]

/-- A range subscript `lo : s : hi` (ascending, inside the dimension) selects exactly the elements whose
    1-based indices are the values of the Modelica range. -/
theorem subPositions_range (ienv : String → Option Int) (d : Nat) (lo hi : IdxE) (l h s : Int)
    (hlo : lo.eval ienv = some l) (hhi : hi.eval ienv = some h) (hs : 0 < s) (hl : 1 ≤ l) (hlh : l ≤ h)
    (hin : l + ((h - l) / s).toNat * s ≤ d) :
    subPositions ienv d (.range (some lo) (some hi) s) =
      some ((modelicaRange l s h).map fun v => (v - 1).toNat) := by
  simp only [subPositions, hlo, hhi, Option.bind_eq_bind, Option.bind_some]
  have h1 : ¬ s ≤ 0 := by omega
  have h2 : ¬ h < l := by omega
  simp only [h1, h2, if_false, hl, hin, and_self, if_true, modelicaRange, show s > 0 from hs, hlh, steps,
    List.map_map, Option.some.injEq]
  apply List.map_congr_left
  intro k _
  simp only [Function.comp]
  exact (pos_of_value l s k hl hs).symm

/-- An empty range selects nothing, whatever its bounds. -/
theorem subPositions_empty_range (ienv : String → Option Int) (d : Nat) (lo hi : IdxE) (l h s : Int)
    (hlo : lo.eval ienv = some l) (hhi : hi.eval ienv = some h) (hs : 0 < s) (hlh : h < l) :
    subPositions ienv d (.range (some lo) (some hi) s) = some [] := by
  simp only [subPositions, hlo, hhi, Option.bind_eq_bind, Option.bind_some]
  have h1 : ¬ s ≤ 0 := by omega
  simp [h1, hlh]

/-- Element `[i, j]` of an `r × c` matrix is stored at the column-major position `(i-1) + (j-1)·r`. -/
theorem positions_matrix_element (ienv : String → Option Int) (r c : Nat) (ei ej : IdxE) (i j : Int)
    (hi : ei.eval ienv = some i) (hj : ej.eval ienv = some j) (hir : 1 ≤ i ∧ i ≤ r) (hjc : 1 ≤ j ∧ j ≤ c) :
    positions ienv [r, c] [.at ei, .at ej] = some [(i - 1).toNat + (j - 1).toNat * r] := by
  simp [positions, subPositions, hi, hj, hir, hjc]

/-- Subscript `[k]` of a vector selects the `k`-th element (1-based); out of `1..d` it has no meaning. -/
theorem positions_vector_element (ienv : String → Option Int) (d : Nat) (e : IdxE) (k : Int)
    (hk : e.eval ienv = some k) :
    positions ienv [d] [.at e] = if 1 ≤ k ∧ k ≤ d then some [(k - 1).toNat] else none := by
  simp [positions, subPositions, hk]

end PymocaVerif.ExprSem
