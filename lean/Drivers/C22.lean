import Drivers.Proto
import PymocaVerif.Model.Delay
/-! Driver for C22: classification of the symbols (model of C10), delay translation, duration
    check, and exact evaluation of the delay arguments on the serialised flat class. -/
open Lean Drivers PymocaVerif.Classify PymocaVerif.Delay

partial def parseNode (j : Json) : Except String Node := do
  let k ← getStr j "k"
  let n ← getStr j "n"
  let f ← getBool j "f"
  let cs ← getArr j "c"
  let kids ← cs.toList.mapM parseNode
  pure (.mk k n f kids)

def parseSym (j : Json) : Except String (Sym × Bool) := do
  let name ← getStr j "name"
  let pf ← (← getArr j "prefixes").toList.mapM (·.getStr?)
  let ty ← getStr j "type"
  let order ← getInt j "order"
  let dims ← (← getArr j "dims").toList.mapM (·.getInt?)
  let fixed ← getBool j "fixed"
  pure ({ name := name, prefixes := pf, type := ty, order := order, dims := dims }, fixed)

abbrev PM := StateT Nat (Except String)

partial def parseExpr (j : Json) : PM Expr := do
  let t ← (getStr j "t" : Except String String)
  match t with
  | "lit" => do
    let n ← (getInt j "n" : Except String Int)
    let d ← (getNat j "d" : Except String Nat)
    pure (.lit (mkRat n d))
  | "time" => pure .time
  | "ref" => do pure (.ref (← (getStr j "name" : Except String String)))
  | "idx" => do
    let n ← (getStr j "name" : Except String String)
    let i ← parseExpr (← (getObj j "i" : Except String Json))
    pure (.idx n i)
  | "der" => do
    let e ← parseExpr (← (getObj j "e" : Except String Json))
    match e with
    | .ref n => pure (.der n)
    | .idx n i => pure (.derAt n i)
    | _ => throw "der of a non-reference"
  | "neg" => do pure (.un .neg (← parseExpr (← (getObj j "e" : Except String Json))))
  | "un" => do
    let f ← (getStr j "f" : Except String String)
    let op ← match f with
      | "floor" => pure UnOp.floor | "ceil" => pure UnOp.ceil | "sign" => pure UnOp.sign | "abs" => pure UnOp.abs
      | x => throw s!"bad-fn {x}"
    pure (.un op (← parseExpr (← (getObj j "e" : Except String Json))))
  | "ite" => do
    let c ← parseExpr (← (getObj j "c" : Except String Json))
    let a ← parseExpr (← (getObj j "a" : Except String Json))
    let b ← parseExpr (← (getObj j "b" : Except String Json))
    pure (.ite c a b)
  | "bin" => do
    let o ← (getStr j "op" : Except String String)
    let op ← match o with
      | "+" => pure BinOp.add | "-" => pure BinOp.sub | "*" => pure BinOp.mul | "/" => pure BinOp.div
      | ">" => pure BinOp.gt | "<" => pure BinOp.lt | ">=" => pure BinOp.ge | "<=" => pure BinOp.le
      | x => throw s!"bad-op {x}"
    let a ← parseExpr (← (getObj j "a" : Except String Json))
    let b ← parseExpr (← (getObj j "b" : Except String Json))
    pure (.bin op a b)
  | "delay" => do
    let id ← get
    set (id + 1)
    let a ← parseExpr (← (getObj j "a" : Except String Json))
    let d ← parseExpr (← (getObj j "d" : Except String Json))
    pure (.delay id a d)
  | x => throw s!"bad-expr {x}"

partial def parseEq (j : Json) : PM Equation := do
  let t ← (getStr j "t" : Except String String)
  match t with
  | "eq" => do
    let l ← parseExpr (← (getObj j "l" : Except String Json))
    let r ← parseExpr (← (getObj j "r" : Except String Json))
    pure (.eq l r)
  | "for" => do
    let v ← (getStr j "var" : Except String String)
    let lo ← (getInt j "lo" : Except String Int)
    let hi ← (getInt j "hi" : Except String Int)
    if lo != 1 then throw "for-loop must start at 1"
    let body ← (← (getArr j "body" : Except String (Array Json))).toList.mapM fun b => do
      let q ← parseEq b
      match q with
      | .eq l r => pure (l, r)
      | _ => throw "nested for-loop"
    pure (.forEq v hi.toNat body)
  | x => throw s!"bad-eq {x}"

def ratJson : Option Rat → Json
  | none => Json.null
  | some q => Json.arr #[Json.num (q.num : Int), Json.num ((q.den : Nat) : Int)]

def parseEnv (j : Json) : Except String Env := do
  let t ← getArr j "time"
  let tn ← (t[0]?.getD Json.null).getInt?
  let td ← (t[1]?.getD Json.null).getNat?
  let vals ← (← getArr j "vals").toList.mapM fun (v : Json) => do
    let a ← v.getArr?
    let nm ← (a[0]?.getD Json.null).getStr?
    let ix ← (a[1]?.getD Json.null).getNat?
    let n ← (a[2]?.getD Json.null).getInt?
    let d ← (a[3]?.getD Json.null).getNat?
    pure ((nm, ix), mkRat n d)
  pure { time := mkRat tn td,
         val := fun nm ix => (vals.find? (fun p => p.1.1 == nm && p.1.2 == ix)).map (·.2) }

def verdictStr : Verdict → String
  | .assertionError => "assertionError" | .reject => "reject" | .freeSymbol => "freeSymbol" | .accept => "accept"

def handle (req : Json) : Except String Json := do
  let op ← getStr req "op"
  match op with
  | "delay" => do
    let symsF ← (← getArr req "symbols").toList.mapM parseSym
    let t ← parseNode (← getObj req "tree")
    let parsed ← ((do
        let ie ← (← (getArr req "ieqs" : Except String (Array Json))).toList.mapM parseEq
        let e ← (← (getArr req "eqs" : Except String (Array Json))).toList.mapM parseEq
        pure (ie, e)) : PM (List Equation × List Equation)).run' 0
    let envs ← (← getArr req "envs").toList.mapM parseEnv
    -- optional: the substitution a simplification pass performed and the names it removed
    let substJ := ((req.getObjVal? "subst").toOption.bind (·.getArr?.toOption)).getD #[]
    let subst ← (substJ.toList.mapM (fun (j : Json) => do
        let nm ← (getStr j "name" : Except String String)
        let e ← parseExpr (← (getObj j "e" : Except String Json))
        pure (nm, e)) : PM (List (String × Expr))).run' 1000
    let removedJ := ((req.getObjVal? "removed").toOption.bind (·.getArr?.toOption)).getD #[]
    let removed ← removedJ.toList.mapM (·.getStr?)
    let ncalls := ((req.getObjVal? "ncalls").toOption.bind (·.getNat?.toOption)).getD 1
    match annotate (symsF.map (·.1)) t with
    | none => pure (Json.mkObj [("ok", true), ("verdict", "annotate:AssertionError")])
    | some syms' =>
      let cats : Cats := {
        cat := fun n => (syms'.find? (fun s => s.name == n)).map (·.cat)
        fixed := fun n => ((symsF.find? (fun p => p.1.name == n)).map (·.2)).getD false }
      let σ : String → Option Expr := fun n => (subst.find? (fun p => p.1 == n)).map (·.2)
      let gone : String → Bool := fun n => removed.contains n || (σ n).isSome
      let cats := cats.remove gone
      let tl := (translate parsed.1 parsed.2).simplify σ
      let v := verdict cats tl
      let values := envs.map fun ρ =>
        Json.arr ((evalArgs ρ tl.args).flatMap (fun p =>
          [Json.arr (p.1.map ratJson).toArray, Json.arr #[ratJson p.2]])).toArray
      pure (Json.mkObj [("ok", true), ("verdict", verdictStr v),
        ("delay_states", jstrs (tl.args.map (fun a => delayName a.k))),
        ("ids", Json.arr (tl.args.map (fun a => Json.num (a.id : Int))).toArray),
        ("calls", jstrs ((transferCalls (compileResult v) ncalls false).map
            (fun r => match r with | .returned => "returned" | .raised => "raised"))),
        ("values", Json.arr values.toArray)])
  | o => throw s!"unknown-op {o}"

def main : IO Unit := serve handle
