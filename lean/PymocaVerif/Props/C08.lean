import PymocaVerif.Lemmas.FlattenSpell
/-!
# C08 — modifications take effect with Modelica precedence in either spelling
(first part: spelling)
-/
namespace PymocaVerif.Flatten

/-- Desugaring does not see the spelling: the fully nested respelling of a modification list
    (`a.b.c = 1` written `a(b(c = 1))`) desugars to the same `(path, expression)` list … -/
theorem desugar_nested_spelling (pre : Path) (ms : List SMod) :
    desugarList pre (toNestedList ms) = desugarList pre ms := desugarList_toNested pre ms

example : desugarList [] (toNestedList [.mk ["a", "x"] [.mk ["start"] [] (some (.num 1))] (some (.num 2))]) =
    [⟨["a", "x", "start"], .num 1⟩, ⟨["a", "x"], .num 2⟩] := by decide

/-- … and so does the fully dotted one (`a(x(start = 1) = 2)` written `a.x.start = 1, a.x = 2`). -/
theorem desugar_dotted_spelling (pre : Path) (ms : List SMod) :
    desugarList pre (toDottedList [] ms) = desugarList pre ms := respelling_toDotted pre ms

example : desugarList [] (toDottedList [] [.mk ["a"] [.mk ["x"] [.mk ["start"] [] (some (.num 1))] (some (.num 2))] none]) =
    [⟨["a", "x", "start"], .num 1⟩, ⟨["a", "x"], .num 2⟩] := by decide

/-- Equivalent spellings never flatten to different models: respelling every modification list
    of a library (declarations, extends clauses, type definitions) by any function that desugaring
    cannot see — in particular `toNestedList` and `toDottedList []` — leaves the result of
    flattening (flat model or rejection) unchanged, for every library and target. -/
theorem spelling_invariant {f : List SMod → List SMod} (hf : Respelling f) (src : SLib) (target : Path) :
    flattenSrc (respellList f src) target = flattenSrc src target := flattenSrc_respell hf src target

theorem spelling_invariant_nested_dotted (src : SLib) (target : Path) :
    flattenSrc (respellList toNestedList src) target = flattenSrc (respellList (toDottedList []) src) target := by
  rw [spelling_invariant respelling_toNested, spelling_invariant respelling_toDotted]

example : Respelling toNestedList ∧ Respelling (toDottedList []) := ⟨respelling_toNested, respelling_toDotted⟩

end PymocaVerif.Flatten
