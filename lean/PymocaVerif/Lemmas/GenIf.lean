import PymocaVerif.Lemmas.GenFunc
/-!
# Lemmas for C11: if-statements of functions (`exitIfStatement` + `get_function`)

All branches assign the same variables `xs` in the same order (one row of right-hand sides per branch).
The generator merges the rows column by column (`expandBlocks`, `mergeIf`) and applies the merged
assignments one after the other; this equals running the taken branch provided the conditions do not
read a variable assigned before the last one (`xs.dropLast`) — otherwise the real translation is
wrong (known finding C11-F3).
-/
namespace PymocaVerif.Gen
open PymocaVerif.ExprSem

/-! ## `evalM` only looks at the symbols an expression mentions -/

mutual
def mentions (x : String) : MExpr K → Bool
  | .num _ => false
  | .ref n _ => n == x
  | .idx _ => false
  | .un _ a => mentions x a
  | .bin _ a b => mentions x a || mentions x b
  | .ife bs => brMentions x bs
  | .call _ args => msMentions x args
  | .delay k _ _ => delayName k == x
def msMentions (x : String) : MExprs K → Bool
  | .nil => false
  | .cons e es => mentions x e || msMentions x es
def brMentions (x : String) : MBranches K → Bool
  | .last e => mentions x e
  | .cons c e rest => mentions x c || mentions x e || brMentions x rest
end

theorem lookup_congr (ρ1 ρ2 : Env K) (n : String) (subs : List Sub) (hv : ρ1.val n = ρ2.val n)
    (hs : ρ1.shape = ρ2.shape) (hi : ρ1.idx = ρ2.idx) : ρ1.lookup n subs = ρ2.lookup n subs := by
  cases subs with
  | nil => simpa [Env.lookup] using hv
  | cons s ss => simp [Env.lookup, hv, hs, hi]

mutual
theorem evalM_congr (P : Prims K) (F : FSem K) : ∀ (e : MExpr K) (ρ1 ρ2 : Env K),
    (∀ n, mentions n e = true → ρ1.val n = ρ2.val n) → ρ1.shape = ρ2.shape → ρ1.idx = ρ2.idx →
    evalM P F ρ1 e = evalM P F ρ2 e
  | .num _, _, _, _, _, _ => by simp [evalM]
  | .ref n s, ρ1, ρ2, hv, hs, hi => by
    simp only [evalM]
    exact lookup_congr ρ1 ρ2 n s (hv n (by simp [mentions])) hs hi
  | .idx i, ρ1, ρ2, _, _, hi => by simp [evalM, hi]
  | .un op a, ρ1, ρ2, hv, hs, hi => by
    simp [evalM, evalM_congr P F a ρ1 ρ2 (fun n hn => hv n (by simpa [mentions] using hn)) hs hi]
  | .bin op a b, ρ1, ρ2, hv, hs, hi => by
    simp [evalM, evalM_congr P F a ρ1 ρ2 (fun n hn => hv n (by simp [mentions, hn])) hs hi,
      evalM_congr P F b ρ1 ρ2 (fun n hn => hv n (by simp [mentions, hn])) hs hi]
  | .ife bs, ρ1, ρ2, hv, hs, hi => by
    simp [evalM, evalIfe_congr P F bs ρ1 ρ2 (fun n hn => hv n (by simpa [mentions] using hn)) hs hi]
  | .call f args, ρ1, ρ2, hv, hs, hi => by
    simp [evalM, evalMs_congr P F args ρ1 ρ2 (fun n hn => hv n (by simpa [mentions] using hn)) hs hi]
  | .delay k e d, ρ1, ρ2, hv, _, _ => by
    simp only [evalM]
    exact hv (delayName k) (by simp [mentions])
theorem evalMs_congr (P : Prims K) (F : FSem K) : ∀ (es : MExprs K) (ρ1 ρ2 : Env K),
    (∀ n, msMentions n es = true → ρ1.val n = ρ2.val n) → ρ1.shape = ρ2.shape → ρ1.idx = ρ2.idx →
    evalMs P F ρ1 es = evalMs P F ρ2 es
  | .nil, _, _, _, _, _ => by simp [evalMs]
  | .cons e es, ρ1, ρ2, hv, hs, hi => by
    simp [evalMs, evalM_congr P F e ρ1 ρ2 (fun n hn => hv n (by simp [msMentions, hn])) hs hi,
      evalMs_congr P F es ρ1 ρ2 (fun n hn => hv n (by simp [msMentions, hn])) hs hi]
theorem evalIfe_congr (P : Prims K) (F : FSem K) : ∀ (bs : MBranches K) (ρ1 ρ2 : Env K),
    (∀ n, brMentions n bs = true → ρ1.val n = ρ2.val n) → ρ1.shape = ρ2.shape → ρ1.idx = ρ2.idx →
    evalIfe P F ρ1 bs = evalIfe P F ρ2 bs
  | .last e, ρ1, ρ2, hv, hs, hi => by
    simp [evalIfe, evalM_congr P F e ρ1 ρ2 (fun n hn => hv n (by simpa [brMentions] using hn)) hs hi]
  | .cons c e rest, ρ1, ρ2, hv, hs, hi => by
    simp [evalIfe, evalM_congr P F c ρ1 ρ2 (fun n hn => hv n (by simp [brMentions, hn])) hs hi,
      evalM_congr P F e ρ1 ρ2 (fun n hn => hv n (by simp [brMentions, hn])) hs hi,
      evalIfe_congr P F rest ρ1 ρ2 (fun n hn => hv n (by simp [brMentions, hn])) hs hi]
end

/-- Two stores agree on every variable outside `D`. -/
def AgreeOff (D : List String) (σ σ' : Store K) : Prop := ∀ y, y ∉ D → Store.get σ y = Store.get σ' y

theorem evalM_agreeOff (P : Prims K) (F : FSem K) (D : List String) (c : MExpr K)
    (hc : ∀ y ∈ D, mentions y c = false) (σ σ' : Store K) (h : AgreeOff D σ σ') :
    evalM P F (storeEnv σ' (fun _ => none)) c = evalM P F (storeEnv σ (fun _ => none)) c := by
  refine evalM_congr P F c (storeEnv σ' fun _ => none) (storeEnv σ fun _ => none) ?_ rfl rfl
  intro n hn
  simp only [storeEnv]
  refine (h n (fun hD => ?_)).symm
  rw [hc n hD] at hn
  cases hn

/-! ## Column-wise merging of aligned branches -/

/-- The `n` columns of a list of rows. -/
def colsOf : Nat → List (List α) → List (List α)
  | 0, _ => []
  | n + 1, rows => rows.filterMap List.head? :: colsOf n (rows.map List.tail)

theorem colsOf_length : ∀ (n : Nat) (rows : List (List α)), (colsOf n rows).length = n
  | 0, _ => rfl
  | n + 1, rows => by simp [colsOf, colsOf_length n]

/-- The first row in front of every column. -/
theorem colsOf_cons : ∀ (n : Nat) (r : List α) (rows : List (List α)), r.length = n →
    colsOf n (r :: rows) = List.zipWith (fun a c => a :: c) r (colsOf n rows)
  | 0, r, rows, h => by
    have : r = [] := List.eq_nil_of_length_eq_zero h
    subst this; rfl
  | n + 1, [], rows, h => by simp at h
  | n + 1, a :: r, rows, h => by
    simp only [List.length_cons, Nat.add_right_cancel_iff] at h
    simp [colsOf, colsOf_cons n r (rows.map List.tail) h]

theorem colsOf_single : ∀ (n : Nat) (r : List α), r.length = n → colsOf n [r] = r.map (fun a => [a])
  | 0, r, h => by
    have : r = [] := List.eq_nil_of_length_eq_zero h
    subst this; rfl
  | n + 1, [], h => by simp at h
  | n + 1, a :: r, h => by
    simp only [List.length_cons, Nat.add_right_cancel_iff] at h
    simp [colsOf, colsOf_single n r h]

/-- The last row at the end of every column. -/
theorem colsOf_snoc : ∀ (n : Nat) (rows : List (List α)) (r : List α), r.length = n →
    colsOf n (rows ++ [r]) = List.zipWith (fun c a => c ++ [a]) (colsOf n rows) r
  | 0, rows, r, h => by
    have : r = [] := List.eq_nil_of_length_eq_zero h
    subst this; rfl
  | n + 1, rows, [], h => by simp at h
  | n + 1, rows, a :: r, h => by
    simp only [List.length_cons, Nat.add_right_cancel_iff] at h
    simp [colsOf, List.filterMap_append, colsOf_snoc n (rows.map List.tail) r h]

theorem expandInto_ne (y x : String) (c : List (CTerm K)) (rest : List (String × List (CTerm K))) (t : CTerm K)
    (h : y ≠ x) : expandInto ((y, c) :: rest) x t = (y, c) :: expandInto rest x t := by
  simp [expandInto, h]

theorem foldl_expand_skip (y : String) (c : List (CTerm K)) : ∀ (ps : List (String × CTerm K))
    (rest : List (String × List (CTerm K))), (∀ p ∈ ps, p.1 ≠ y) →
    ps.foldl (fun a p => expandInto a p.1 p.2) ((y, c) :: rest) =
      (y, c) :: ps.foldl (fun a p => expandInto a p.1 p.2) rest
  | [], rest, _ => rfl
  | p :: ps, rest, h => by
    simp only [List.foldl_cons]
    rw [expandInto_ne y p.1 c rest p.2 (fun e => h p (by simp) e.symm)]
    exact foldl_expand_skip y c ps _ (fun q hq => h q (by simp [hq]))

theorem mem_zip_fst {xs : List String} {ts : List (CTerm K)} {p : String × CTerm K} (h : p ∈ xs.zip ts) :
    p.1 ∈ xs := (List.of_mem_zip h).1

/-- The first row creates the columns. -/
theorem foldl_expand_first : ∀ (xs : List String) (ts : List (CTerm K)), xs.Nodup → ts.length = xs.length →
    (xs.zip ts).foldl (fun a p => expandInto a p.1 p.2) [] = xs.zip (ts.map fun t => [t])
  | [], _, _, _ => by simp
  | x :: xs, [], _, h => by simp at h
  | x :: xs, t :: ts, hn, h => by
    simp only [List.length_cons, Nat.add_right_cancel_iff] at h
    have hx : x ∉ xs := (List.nodup_cons.mp hn).1
    simp only [List.zip_cons_cons, List.foldl_cons, expandInto, List.map_cons]
    rw [foldl_expand_skip x [t] (xs.zip ts) [] (fun p hp e => hx (e ▸ mem_zip_fst hp)),
      foldl_expand_first xs ts (List.nodup_cons.mp hn).2 h]

/-- Every further row appends one entry to every column. -/
theorem foldl_expand_row : ∀ (xs : List String) (cols : List (List (CTerm K))) (ts : List (CTerm K)),
    xs.Nodup → ts.length = xs.length → cols.length = xs.length →
    (xs.zip ts).foldl (fun a p => expandInto a p.1 p.2) (xs.zip cols) =
      xs.zip (List.zipWith (fun c t => c ++ [t]) cols ts)
  | [], _, _, _, _, _ => by simp
  | x :: xs, [], _, _, _, h => by simp at h
  | x :: xs, _ :: _, [], _, h, _ => by simp at h
  | x :: xs, c :: cols, t :: ts, hn, h, hc => by
    simp only [List.length_cons, Nat.add_right_cancel_iff] at h hc
    have hx : x ∉ xs := (List.nodup_cons.mp hn).1
    simp only [List.zip_cons_cons, List.foldl_cons, expandInto, if_true, List.zipWith_cons_cons]
    rw [foldl_expand_skip x (c ++ [t]) (xs.zip ts) _ (fun p hp e => hx (e ▸ mem_zip_fst hp)),
      foldl_expand_row xs cols ts (List.nodup_cons.mp hn).2 h hc]

theorem foldl_expand_rows (xs : List String) (hn : xs.Nodup) : ∀ (rest done : List (List (CTerm K))),
    (∀ r ∈ rest, r.length = xs.length) →
    (rest.map (fun r => xs.zip r)).flatten.foldl (fun a p => expandInto a p.1 p.2) (xs.zip (colsOf xs.length done)) =
      xs.zip (colsOf xs.length (done ++ rest))
  | [], done, _ => by simp
  | r :: rest, done, h => by
    simp only [List.map_cons, List.flatten_cons, List.foldl_append]
    rw [foldl_expand_row xs _ r hn (h r (by simp)) (colsOf_length _ _),
      ← colsOf_snoc xs.length done r (h r (by simp)),
      foldl_expand_rows xs hn rest (done ++ [r]) (fun q hq => h q (by simp [hq]))]
    simp

/-- `expanded_blocks` of aligned branches: one column per assigned variable. -/
theorem expandBlocks_aligned (xs : List String) (hn : xs.Nodup) (r : List (CTerm K)) (rest : List (List (CTerm K)))
    (h : ∀ q ∈ r :: rest, q.length = xs.length) :
    expandBlocks ((r :: rest).map (fun q => xs.zip q)).flatten = xs.zip (colsOf xs.length (r :: rest)) := by
  simp only [expandBlocks, List.map_cons, List.flatten_cons, List.foldl_append]
  rw [foldl_expand_first xs r hn (h r (by simp)), ← colsOf_single xs.length r (h r (by simp)),
    foldl_expand_rows xs hn rest [r] (fun q hq => h q (by simp [hq]))]
  simp

end PymocaVerif.Gen

namespace PymocaVerif.Gen
open PymocaVerif.ExprSem

theorem genL_length (P : Prims K) (o : Opts) (T : FTab K) : ∀ (es : List (MExpr K)) (ts : List (CTerm K)),
    genL P o T es = .ok ts → ts.length = es.length
  | [], ts, h => by simp [genL] at h; subst h; rfl
  | e :: es, ts, h => by
    simp only [genL] at h
    obtain ⟨t, _, h2⟩ := bind_ok.mp h
    obtain ⟨ts', hts, hc⟩ := bind_ok.mp h2
    cases hc
    simp [genL_length P o T es ts' hts]

theorem filterMap_head_length : ∀ (rows : List (List α)) (n : Nat), (∀ r ∈ rows, r.length = n + 1) →
    (rows.filterMap List.head?).length = rows.length
  | [], _, _ => rfl
  | [] :: _, n, h => by have := h [] (by simp); simp at this
  | (a :: r) :: rows, n, h => by
    simp [filterMap_head_length rows n (fun q hq => h q (by simp [hq]))]

theorem colsOf_col_length : ∀ (n : Nat) (rows : List (List α)), (∀ r ∈ rows, r.length = n) →
    ∀ c ∈ colsOf n rows, c.length = rows.length
  | 0, _, _, c, hc => by simp [colsOf] at hc
  | n + 1, rows, h, c, hc => by
    simp only [colsOf, List.mem_cons] at hc
    cases hc with
    | inl h1 => subst h1; exact filterMap_head_length rows n h
    | inr h1 =>
      have := colsOf_col_length n (rows.map List.tail) (fun r hr => by
        simp only [List.mem_map] at hr
        obtain ⟨q, hq, rfl⟩ := hr
        simp [h q hq]) c h1
      simpa using this

theorem colsOf_mem : ∀ (n : Nat) (rows : List (List α)) (c : List α), c ∈ colsOf n rows →
    ∀ t ∈ c, ∃ r ∈ rows, t ∈ r
  | 0, _, c, hc, _, _ => by simp [colsOf] at hc
  | n + 1, rows, c, hc, t, ht => by
    simp only [colsOf, List.mem_cons] at hc
    cases hc with
    | inl h1 =>
      subst h1
      simp only [List.mem_filterMap] at ht
      obtain ⟨r, hr, hh⟩ := ht
      exact ⟨r, hr, List.mem_of_mem_head? hh⟩
    | inr h1 =>
      obtain ⟨r, hr, htr⟩ := colsOf_mem n (rows.map List.tail) c h1 t ht
      simp only [List.mem_map] at hr
      obtain ⟨q, hq, rfl⟩ := hr
      exact ⟨q, hq, List.mem_of_mem_tail htr⟩

/-- Row-wise translation of the right-hand sides of all branches. -/
def genRows (P : Prims K) (o : Opts) (T : FTab K) : List (List (MExpr K)) → G (List (List (CTerm K)))
  | [] => .ok []
  | r :: rs => do let t ← genL P o T r; let ts ← genRows P o T rs; .ok (t :: ts)

theorem genRhs_zip (P : Prims K) (o : Opts) (T : FTab K) : ∀ (xs : List String) (row : List (MExpr K))
    (rhs : List (String × CTerm K)), row.length = xs.length → genRhs P o T (xs.zip row) = .ok rhs →
    ∃ rT, genL P o T row = .ok rT ∧ rhs = xs.zip rT
  | [], row, rhs, h, hg => by
    have : row = [] := List.eq_nil_of_length_eq_zero h
    subst this
    simp [genRhs] at hg; subst hg
    exact ⟨[], by simp [genL], rfl⟩
  | x :: xs, [], rhs, h, _ => by simp at h
  | x :: xs, e :: row, rhs, h, hg => by
    simp only [List.length_cons, Nat.add_right_cancel_iff] at h
    simp only [List.zip_cons_cons, genRhs] at hg
    obtain ⟨t, ht, h2⟩ := bind_ok.mp hg
    obtain ⟨ts, hts, hc⟩ := bind_ok.mp h2
    cases hc
    obtain ⟨rT, hrT, rfl⟩ := genRhs_zip P o T xs row ts h hts
    exact ⟨t :: rT, by simp [genL, ht, hrT, bind, Except.bind], rfl⟩

theorem genRhsBlocks_aligned (P : Prims K) (o : Opts) (T : FTab K) (xs : List String) :
    ∀ (rows : List (List (MExpr K))) (tbs : List (List (String × CTerm K))),
    (∀ r ∈ rows, r.length = xs.length) → genRhsBlocks P o T (rows.map fun r => xs.zip r) = .ok tbs →
    ∃ rowsT, genRows P o T rows = .ok rowsT ∧ tbs = rowsT.map (fun r => xs.zip r)
  | [], tbs, _, hg => by
    simp [genRhsBlocks] at hg; subst hg
    exact ⟨[], rfl, rfl⟩
  | r :: rows, tbs, h, hg => by
    simp only [List.map_cons, genRhsBlocks] at hg
    obtain ⟨b, hb, h2⟩ := bind_ok.mp hg
    obtain ⟨rest, hrest, hc⟩ := bind_ok.mp h2
    cases hc
    obtain ⟨rT, hrT, rfl⟩ := genRhs_zip P o T xs r b (h r (by simp)) hb
    obtain ⟨rowsT, hrowsT, rfl⟩ := genRhsBlocks_aligned P o T xs rows rest (fun q hq => h q (by simp [hq])) hrest
    exact ⟨rT :: rowsT, by simp [genRows, hrT, hrowsT, bind, Except.bind], rfl⟩

theorem genRows_spec (P : Prims K) (o : Opts) (T : FTab K) (n : Nat) : ∀ (rows : List (List (MExpr K)))
    (rowsT : List (List (CTerm K))), (∀ r ∈ rows, r.length = n) → genRows P o T rows = .ok rowsT →
    rowsT.length = rows.length ∧ ∀ rT ∈ rowsT, rT.length = n
  | [], rowsT, _, hg => by simp [genRows] at hg; subst hg; simp
  | r :: rows, rowsT, h, hg => by
    simp only [genRows] at hg
    obtain ⟨t, ht, h2⟩ := bind_ok.mp hg
    obtain ⟨ts, hts, hc⟩ := bind_ok.mp h2
    cases hc
    have ih := genRows_spec P o T n rows ts (fun q hq => h q (by simp [hq])) hts
    refine ⟨by simp [ih.1], fun rT hrT => ?_⟩
    simp only [List.mem_cons] at hrT
    cases hrT with
    | inl h1 => subst h1; rw [genL_length P o T r rT ht]; exact h r (by simp)
    | inr h1 => exact ih.2 rT h1

theorem genRows_closed (P : Prims K) (o : Opts) (T : FTab K) : ∀ (rows : List (List (MExpr K)))
    (rowsT : List (List (CTerm K))), (∀ r ∈ rows, r.all (mClosed []) = true) → genRows P o T rows = .ok rowsT →
    ∀ rT ∈ rowsT, rT.all (idxClosed []) = true
  | [], rowsT, _, hg => by simp [genRows] at hg; subst hg; simp
  | r :: rows, rowsT, h, hg => by
    simp only [genRows] at hg
    obtain ⟨t, ht, h2⟩ := bind_ok.mp hg
    obtain ⟨ts, hts, hc⟩ := bind_ok.mp h2
    cases hc
    intro rT hrT
    simp only [List.mem_cons] at hrT
    cases hrT with
    | inl h1 => subst h1; exact genL_closed P o T [] r rT (h r (by simp)) ht
    | inr h1 => exact genRows_closed P o T rows ts (fun q hq => h q (by simp [hq])) hts rT h1

/-- The merged assignments of an if-statement: per variable, the `if_else` chain over its column. -/
def ifAssigns (tcs : List (CTerm K)) (xs : List String) (rowsT : List (List (CTerm K))) : List (String × CTerm K) :=
  (xs.zip (colsOf xs.length rowsT)).map fun p => (p.1, nestAll tcs p.2)

def combine (tc : CTerm K) (B A : List (String × CTerm K)) : List (String × CTerm K) :=
  List.zipWith (fun b a => (b.1, CTerm.ifElse tc b.2 a.2)) B A

theorem zip_cons_cols (tc : CTerm K) (tcs : List (CTerm K)) : ∀ (xs : List String) (r : List (CTerm K))
    (C : List (List (CTerm K))), r.length = xs.length → C.length = xs.length →
    (xs.zip (List.zipWith (fun a c => a :: c) r C)).map (fun p => (p.1, nestAll (tc :: tcs) p.2)) =
      combine tc (xs.zip r) ((xs.zip C).map fun p => (p.1, nestAll tcs p.2))
  | [], _, _, _, _ => by simp [combine]
  | x :: xs, [], _, h, _ => by simp at h
  | x :: xs, _ :: _, [], _, h => by simp at h
  | x :: xs, a :: r, c :: C, h1, h2 => by
    simp only [List.length_cons, Nat.add_right_cancel_iff] at h1 h2
    have ih := zip_cons_cols tc tcs xs r C h1 h2
    simp only [combine] at ih ⊢
    simp [nestAll, ih]

theorem ifAssigns_cons (tc : CTerm K) (tcs : List (CTerm K)) (xs : List String) (r : List (CTerm K))
    (rest : List (List (CTerm K))) (h : r.length = xs.length) :
    ifAssigns (tc :: tcs) xs (r :: rest) = combine tc (xs.zip r) (ifAssigns tcs xs rest) := by
  simp only [ifAssigns]
  rw [colsOf_cons xs.length r rest h]
  exact zip_cons_cols tc tcs xs r _ h (colsOf_length _ _)

theorem ifAssigns_single : ∀ (xs : List String) (r : List (CTerm K)), r.length = xs.length →
    (xs.zip (r.map fun a => [a])).map (fun p => (p.1, nestAll ([] : List (CTerm K)) p.2)) = xs.zip r
  | [], _, _ => by simp
  | x :: xs, [], h => by simp at h
  | x :: xs, a :: r, h => by
    simp only [List.length_cons, Nat.add_right_cancel_iff] at h
    simp [nestAll, ifAssigns_single xs r h]

theorem ifAssigns_nil (xs : List String) (r : List (CTerm K)) (h : r.length = xs.length) :
    ifAssigns [] xs [r] = xs.zip r := by
  simp only [ifAssigns]
  rw [colsOf_single xs.length r h]
  exact ifAssigns_single xs r h

/-- The taken branch: its translated assignments evaluate like the branch. -/
theorem assigns_refines (P : Prims K) (o : Opts) (T : FTab K) (F : FSem K) (hT : TabOK P T F)
    (hS : NoShadow T) : ∀ (xs : List String) (row : List (MExpr K)) (rT : List (CTerm K)),
    genL P o T row = .ok rT → ∀ σ : Store K,
    Refines (runRaw P (xs.zip rT) σ) (execAssigns P F (fun _ => none) (xs.zip row) σ)
  | [], _, _, _, σ => by simp [runRaw, execAssigns]; exact Refines.refl
  | x :: xs, [], rT, h, σ => by
    simp [genL] at h; subst h
    simp [runRaw, execAssigns]; exact Refines.refl
  | x :: xs, e :: row, rT, h, σ => by
    simp only [genL] at h
    obtain ⟨t, ht, h2⟩ := bind_ok.mp h
    obtain ⟨ts, hts, hc⟩ := bind_ok.mp h2
    cases hc
    simp only [List.zip_cons_cons, runRaw, execAssigns]
    exact Refines.bind (gen_refines P o T F hT hS e t ht _)
      (fun w => assigns_refines P o T F hT hS xs row ts hts ((x, w) :: σ))

/-- With a condition whose value does not change while the merged assignments run, the `if_else`
    entries reduce to the entries of the chosen side. -/
theorem combine_runRaw (P : Prims K) (D : List String) (σ : Store K) (tc : CTerm K) (b : Bool)
    (hstab : ∀ σ' : Store K, AgreeOff D σ σ' →
      ∃ vc, evalC P (storeEnv σ' fun _ => none) tc = some vc ∧ condOf P vc = some b) :
    ∀ (B A : List (String × CTerm K)) (σ' : Store K), B.map (·.1) = A.map (·.1) →
    (∀ x ∈ (B.map (·.1)).dropLast, x ∈ D) → AgreeOff D σ σ' →
    runRaw P (combine tc B A) σ' = runRaw P (if b then B else A) σ'
  | [], [], σ', _, _, _ => by cases b <;> simp [combine, runRaw]
  | [], _ :: _, _, h, _, _ => by simp at h
  | _ :: _, [], _, h, _, _ => by simp at h
  | (x, tb) :: B, (y, ta) :: A, σ', h, hD, hag => by
    simp only [List.map_cons, List.cons.injEq] at h
    obtain ⟨hxy, hrest⟩ := h
    subst hxy
    obtain ⟨vc, hvc, hcond⟩ := hstab σ' hag
    simp only [combine, List.zipWith_cons_cons, runRaw, evalC, hvc, hcond, Option.bind_eq_bind, Option.bind_some]
    have key : ∀ (w : List K), runRaw P (combine tc B A) ((x, w) :: σ') =
        runRaw P (if b then B else A) ((x, w) :: σ') := by
      intro w
      cases hB : B with
      | nil =>
        have : A = [] := by
          cases A with
          | nil => rfl
          | cons a A' => simp [hB] at hrest
        subst this
        cases b <;> simp [combine, runRaw]
      | cons q B' =>
        rw [← hB]
        have hxD : x ∈ D := hD x (by simp [hB])
        refine combine_runRaw P D σ tc b hstab B A ((x, w) :: σ') hrest (fun z hz => hD z ?_) ?_
        · simp only [List.map_cons]
          rw [List.dropLast_cons_of_ne_nil (by simp [hB])]
          simp [hz]
        · intro z hz
          rw [store_get_cons]
          have : x ≠ z := fun e => hz (e ▸ hxD)
          simp [this, hag z hz]
    cases b
    · simp only [Bool.false_eq_true, if_false, runRaw]
      cases evalC P (storeEnv σ' fun _ => none) ta with
      | none => simp
      | some w => simpa [combine] using key w
    · simp only [if_true, runRaw]
      cases evalC P (storeEnv σ' fun _ => none) tb with
      | none => simp
      | some w => simpa [combine] using key w

theorem agreeOff_refl (D : List String) (σ : Store K) : AgreeOff D σ σ := fun _ _ => rfl

theorem ifAssigns_fst (tcs : List (CTerm K)) (xs : List String) (rowsT : List (List (CTerm K))) :
    (ifAssigns tcs xs rowsT).map (·.1) = xs := by
  simp only [ifAssigns, List.map_map]
  have : ((fun p : String × CTerm K => p.1) ∘ fun p : String × List (CTerm K) => (p.1, nestAll tcs p.2)) =
      fun p => p.1 := rfl
  rw [this]
  exact List.map_fst_zip (by simp [colsOf_length])

/-- The merged, sequentially applied assignments of an aligned if-statement run the taken branch. -/
theorem ifs_refines (P : Prims K) (o : Opts) (T : FTab K) (F : FSem K) (hT : TabOK P T F)
    (hS : NoShadow T) (xs : List String) : ∀ (cs : List (MExpr K)) (rows : List (List (MExpr K)))
    (tcs : List (CTerm K)) (rowsT : List (List (CTerm K))),
    genL P o T cs = .ok tcs → genRows P o T rows = .ok rowsT → (∀ r ∈ rows, r.length = xs.length) →
    (∀ c ∈ cs, ∀ y ∈ xs.dropLast, mentions y c = false) → ∀ σ : Store K,
    Refines (runRaw P (ifAssigns tcs xs rowsT) σ) (execIf P F cs (rows.map fun r => xs.zip r) σ)
  | [], [], _, _, _, _, _, _, σ => by intro v hv; simp [execIf] at hv
  | [], [r], tcs, rowsT, hc, hr, hl, _, σ => by
    simp [genL] at hc; subst hc
    simp only [genRows] at hr
    obtain ⟨rT, hrT, h2⟩ := bind_ok.mp hr
    obtain ⟨r0, hr0, hc'⟩ := bind_ok.mp h2
    simp at hr0; subst hr0; cases hc'
    have hlen : rT.length = xs.length := by rw [genL_length P o T r rT hrT]; exact hl r (by simp)
    rw [ifAssigns_nil xs rT hlen]
    simpa [execIf] using assigns_refines P o T F hT hS xs r rT hrT σ
  | [], _ :: _ :: _, _, _, _, _, _, _, σ => by intro v hv; simp [execIf] at hv
  | _ :: _, [], _, _, _, _, _, _, σ => by intro v hv; simp [execIf] at hv
  | c :: cs, r :: rows, tcs, rowsT, hc, hr, hl, hm, σ => by
    simp only [genL] at hc
    obtain ⟨tc, htc, h2⟩ := bind_ok.mp hc
    obtain ⟨tcs', htcs', hc'⟩ := bind_ok.mp h2
    cases hc'
    simp only [genRows] at hr
    obtain ⟨rT, hrT, h3⟩ := bind_ok.mp hr
    obtain ⟨rowsT', hrowsT', hr'⟩ := bind_ok.mp h3
    cases hr'
    have hlen : rT.length = xs.length := by rw [genL_length P o T r rT hrT]; exact hl r (by simp)
    rw [ifAssigns_cons tc tcs' xs rT rowsT' hlen]
    intro v hv
    simp only [List.map_cons, execIf] at hv
    cases hvc : evalM P F (storeEnv σ fun _ => none) c with
    | none => simp [hvc] at hv
    | some vc =>
      cases hb : condOf P vc with
      | none => simp [hvc, hb] at hv
      | some b =>
        simp only [hvc, hb, Option.bind_eq_bind, Option.bind_some] at hv
        have hstab : ∀ σ' : Store K, AgreeOff xs.dropLast σ σ' →
            ∃ vc', evalC P (storeEnv σ' fun _ => none) tc = some vc' ∧ condOf P vc' = some b := by
          intro σ' hag
          refine ⟨vc, ?_, hb⟩
          apply gen_refines P o T F hT hS c tc htc (storeEnv σ' fun _ => none) vc
          rw [evalM_agreeOff P F xs.dropLast c (hm c (by simp)) σ σ' hag]
          exact hvc
        have hfst : (xs.zip rT).map (·.1) = (ifAssigns tcs' xs rowsT').map (·.1) := by
          rw [ifAssigns_fst, List.map_fst_zip (by omega)]
        have hD : ∀ x ∈ ((xs.zip rT).map (·.1)).dropLast, x ∈ xs.dropLast := by
          rw [List.map_fst_zip (by omega)]; exact fun x hx => hx
        rw [combine_runRaw P xs.dropLast σ tc b hstab (xs.zip rT) (ifAssigns tcs' xs rowsT') σ hfst hD
          (agreeOff_refl _ σ)]
        cases b
        · simp only [Bool.false_eq_true, if_false] at hv ⊢
          exact ifs_refines P o T F hT hS xs cs rows tcs' rowsT' htcs' hrowsT'
            (fun q hq => hl q (by simp [hq])) (fun c' hc' => hm c' (by simp [hc'])) σ v hv
        · simp only [if_true] at hv ⊢
          exact assigns_refines P o T F hT hS xs r rT hrT σ v hv

end PymocaVerif.Gen
