import PymocaVerif.Lemmas.CacheMeta
/-!
# C19 — cached and code-generated models equal fresh compiles

Theorems over `Model/CacheMeta.lean` (`save_model` → pickle → `load_model`), for every list
of variables of any shapes, every attribute being a plain Python value, an `MX` depending on
the parameters, or an `MX` that does not.  What is trusted and only exercised by the per-run
correspondence: pickle, CasADi function serialisation, `ca.external` on the compiled shared
libraries, and CasADi's dependency test (`AttrWF`: an attribute classified
`MX_INDEPENDENT` has the same value at every parameter vector, also at NaN).
-/
namespace PymocaVerif.CacheMeta

variable {P E V : Type} [Inhabited V]

/-- Round trip of one category: the loaded variables are the saved ones — same number, same
    order, same names, shapes, Python types and aliases — and every attribute is the
    original Python value, or an `MX` whose element values at every parameter vector are the
    original's (a scalar `MX` attribute of an array variable comes back repeated per element). -/
theorem roundtrip (nA : Nat) (embed : P → List V) (nanEnv : E) (vars : List (Var P E V)) :
    All2 (Matches nA nanEnv) vars (loadCat nanEnv (saveCat nA embed vars)) :=
  loadVars_matches nA embed nanEnv _ vars 0 (fun _ => []) (fun _ => rfl) (fun _ => rfl)

/-- Attribute values: variable `i`, attribute `j`, any parameter vector `e` (needs the row
    bookkeeping `loadVars_matches`: earlier array variables shift the rows). -/
theorem attr_roundtrip (nA : Nat) (embed : P → List V) (nanEnv : E) (vars : List (Var P E V))
    (i : Nat) (hi : i < vars.length) (j : Nat) (hj : j < nA) (dep : Bool) (f : E → List V)
    (hattr : vars[i].attrs j = .mx dep f) (hwf : AttrWF nanEnv (vars[i].attrs j)) :
    ∃ (h : i < (loadCat nanEnv (saveCat nA embed vars)).length) (g : E → List V),
      ((loadCat nanEnv (saveCat nA embed vars))[i]).attrs j = .mx g ∧
      ∀ e, g e = broadcast vars[i].numel (f e) := by
  have hall := roundtrip nA embed nanEnv vars
  have hlen := hall.length_eq
  have hm := (hall.get i hi (hlen ▸ hi)).attrs j hj
  rw [hattr] at hm hwf
  obtain ⟨g, hg, hval⟩ := hm
  refine ⟨hlen ▸ hi, g, hg, fun e => hval e ?_⟩
  intro hd
  subst hd
  exact hwf e

/-- Plain Python attribute values come back unchanged. -/
theorem py_attr_roundtrip (nA : Nat) (embed : P → List V) (nanEnv : E) (vars : List (Var P E V))
    (i : Nat) (hi : i < vars.length) (j : Nat) (hj : j < nA) (p : P)
    (hattr : vars[i].attrs j = .py p) :
    ∃ (h : i < (loadCat nanEnv (saveCat nA embed vars)).length),
      ((loadCat nanEnv (saveCat nA embed vars))[i]).attrs j = .py (some p) := by
  have hall := roundtrip nA embed nanEnv vars
  have hlen := hall.length_eq
  have hm := (hall.get i hi (hlen ▸ hi)).attrs j hj
  rw [hattr] at hm
  exact ⟨hlen ▸ hi, hm⟩

/-- Row bookkeeping made explicit: the rows read for variable `i` start at the sum of the
    element counts of the variables before it (not at `i`). -/
theorem row_offset_is_prefix_sum (nA : Nat) (embed : P → List V) (nanEnv : E) (vars : List (Var P E V)) :
    (loadCat nanEnv (saveCat nA embed vars)).map (·.row0)
      = (List.range vars.length).map (fun i => ((vars.take i).map Var.numel).sum) := by
  have h := loadVars_row0 nanEnv (metaOf nA embed vars) (vars.map toDict)
    (vars.map (fun v j => classify (v.attrs j))) 0 (by simp)
  simp only [loadCat, saveCat]
  rw [h]
  simp only [List.length_map, Nat.zero_add]
  apply List.map_congr_left
  intro i _
  rw [← List.map_take, List.map_map]
  rfl

/-- Whole model: every category round-trips, and everything else (`der_states`, `outputs`,
    `delay_states`, `alias_relation`, string variables, the four functions) is returned as
    stored. -/
theorem model_roundtrip {X : Type} (nA : Nat) (embed : P → List V) (nanEnv : E) (m : Fresh P E V X) :
    (load nanEnv (save nA embed m)).payload = m.payload ∧
    All2 (fun vars lvars => All2 (Matches nA nanEnv) vars lvars) m.cats
      (load nanEnv (save nA embed m)).cats := by
  refine ⟨rfl, ?_⟩
  simp only [load, save, List.map_map]
  induction m.cats with
  | nil => exact All2.nil
  | cons c rest ih => exact All2.cons (roundtrip nA embed nanEnv c) ih

omit [Inhabited V] in
/-- Delay durations: whatever subset of symbols the loader's loop keeps symbolic (it reuses
    `actual_deps`, so later durations can keep more than they need), every loaded duration
    has the value of the stored one at every point, provided the stored dependency lists are
    right (`DependsOnly`, CasADi's `depends_on`). -/
theorem duration_roundtrip (nan : V) (raw : List ((Nat → V) → V)) (dds : List (List Nat))
    (hdep : All2 DependsOnly raw dds) :
    All2 (fun f g => ∀ env, g env = f env) raw (loadDurations nan raw dds) := by
  rw [loadDurations_eq]
  exact zipMask_ok nan raw dds _ hdep (maskSets_sound (unionOf dds) dds _ (mem_unionOf dds))

section examples
/-- `Real v[2](each min = p); Real y(min = q, max = 2*q); Real z(max = p + q)` — the shape of
    DESIGN §6 row 17: an array variable in front of scalars with parameter-dependent bounds.
    Environments are `(p, q)`; attribute 1 = min, 2 = max. -/
def exVars : List (Var Int (Int × Int) Int) :=
  [ { name := "v", rows := 2, cols := 1, pyType := "float", aliases := [],
      attrs := fun j => if j = 1 then .mx true (fun e => [e.1]) else .py 0 },
    { name := "y", rows := 1, cols := 1, pyType := "float", aliases := ["w"],
      attrs := fun j => if j = 1 then .mx true (fun e => [e.2]) else if j = 2 then .mx true (fun e => [2 * e.2]) else .py 0 },
    { name := "z", rows := 1, cols := 1, pyType := "float", aliases := [],
      attrs := fun j => if j = 2 then .mx true (fun e => [e.1 + e.2]) else if j = 3 then .mx false (fun _ => [7]) else .py 0 } ]

def showAttr (e : Int × Int) : LAttr Int (Int × Int) Int → List Int
  | .py _ => [] | .mx g => g e

-- the hypotheses are satisfiable and the statement is not vacuous: at (p, q) = (10, 100)
example : (loadCat (0, 0) (saveCat 6 (fun p => [p]) exVars)).map (fun lv => (lv.name, lv.row0, showAttr (10, 100) (lv.attrs 1), showAttr (10, 100) (lv.attrs 2)))
    = [("v", 0, [10, 10], []), ("y", 2, [100], [200]), ("z", 3, [], [110])] := by decide
example : AttrWF ((0, 0) : Int × Int) (exVars[2].attrs 3) := by intro e; rfl
-- durations: three delays depending on {5}, {6}, {5, 6}: the second keeps a false dependency
example : maskSets (unionOf [[5], [6], [5, 6]]) (unionOf [[5], [6], [5, 6]]).length [[5], [6], [5, 6]]
    = [some [5], some [5, 6], some [5, 6]] := by decide
example : All2 (DependsOnly (V := Int)) [fun env => env 5, fun env => env 6 + 1] [[5], [6]] :=
  All2.cons (fun _ _ h => h 5 (by simp)) (All2.cons (fun _ _ h => by simp [h 6 (by simp)]) All2.nil)
end examples

end PymocaVerif.CacheMeta
