import PymocaVerif.Model.Flatten
/-!
# Source libraries: nested class definitions, names as written, modifications as spelled

Stage 1 of the reference semantics: `elab` resolves every type name by Modelica's lookup (first
identifier among the classes visible in the class itself — its own local classes, then the
inherited ones — then likewise in the enclosing classes; the rest among the classes visible in the
class found; the base class name of an extends clause is not searched among the classes its own
class inherits) and desugars
spelled modifications — `a.b(c = 1, d(e = 2)) = 3` — to `(path, expression)` pairs, so that the
dotted spelling `a.x.start = 1` and the nested spelling `a(x(start = 1))` become the same thing.
`render` prints the library as Modelica text (what the real parser is fed).
-/
namespace PymocaVerif.Flatten

/-- a modification as spelled: dotted name, sub-modifications, optional `= value` -/
inductive SMod where
  | mk (name : List Name) (subs : List SMod) (value : Option Expr)
  deriving Repr, Inhabited

structure SComp where
  name : Name
  type : List Name
  prefixes : List String
  dims : List Nat
  mods : List SMod
  value : Option Expr
  deriving Repr, Inhabited

structure SExt where
  ref : List Name
  mods : List SMod
  deriving Repr, Inhabited

inductive SClass where
  | mk (name : Name) (kind : String) (alias : Option (List Name × List SMod)) (exts : List SExt)
      (classes : List SClass) (comps : List SComp) (eqs : List Eqn) (ieqs : List Eqn)
  deriving Repr, Inhabited

abbrev SLib := List SClass

/-! ## desugaring -/

def optMod (p : Path) : Option Expr → List Mod
  | none => []
  | some v => [{ path := p, value := v }]

mutual
  /-- text order: sub-modifications first, then the value -/
  def SMod.desugar (pre : Path) : SMod → List Mod
    | .mk name subs value => desugarList (pre ++ name) subs ++ optMod (pre ++ name) value
  def desugarList (pre : Path) : List SMod → List Mod
    | [] => []
    | m :: ms => m.desugar pre ++ desugarList pre ms
end

/-- one spelled modification per identifier: `a.b.c(subs) = v` becomes `a(b(c(subs) = v))` -/
def nestName : List Name → List SMod → Option Expr → SMod
  | [], subs, v => .mk [] subs v
  | [n], subs, v => .mk [n] subs v
  | n :: n' :: ns, subs, v => .mk [n] [nestName (n' :: ns) subs v] none

mutual
  def SMod.toNested : SMod → SMod
    | .mk name subs value => nestName name (toNestedList subs) value
  def toNestedList : List SMod → List SMod
    | [] => []
    | m :: ms => m.toNested :: toNestedList ms
end

mutual
  /-- every value under its full dotted name, no parentheses: `a.b.c.start = 1, a.b.c = 2` -/
  def SMod.toDotted (pre : List Name) : SMod → List SMod
    | .mk name subs value =>
      toDottedList (pre ++ name) subs ++
        (match value with | none => [] | some v => [.mk (pre ++ name) [] (some v)])
  def toDottedList (pre : List Name) : List SMod → List SMod
    | [] => []
    | m :: ms => m.toDotted pre ++ toDottedList pre ms
end

/-! ## class paths and lookup -/

def SClass.name : SClass → Name
  | .mk name _ _ _ _ _ _ _ => name

mutual
  def SClass.paths (pre : Path) : SClass → List Path
    | .mk name _ _ _ classes _ _ _ => (pre ++ [name]) :: pathsList (pre ++ [name]) classes
  def pathsList (pre : Path) : List SClass → List Path
    | [] => []
    | c :: cs => c.paths pre ++ pathsList pre cs
end

def builtinNames : List String := ["Real", "Integer", "Boolean", "String"]

/-- What lookup needs to know of a class: its own local classes, and its base-class names, each
    with the scope it is looked up from and whether the innermost level is restricted to the
    class's own local classes (extends clauses: yes; the base of a short definition is looked up
    from the enclosing class). -/
structure ClassInfo where
  own : List (Name × Path)
  bases : List (Path × List Name × Bool)
  deriving Repr, Inhabited

abbrev Index := List (Path × ClassInfo)

def ownOf (pre : Path) (classes : List SClass) : List (Name × Path) :=
  classes.map fun c => (c.name, pre ++ [c.name])

mutual
  def SClass.index (pre : Path) : SClass → Index
    | .mk name _ alias exts classes _ _ _ =>
      (pre ++ [name],
        { own := ownOf (pre ++ [name]) classes,
          bases := match alias with
            | some (base, _) => [(pre, base, false)]
            | none => exts.map fun e => (pre ++ [name], e.ref, true) }) :: indexList (pre ++ [name]) classes
  def indexList (pre : Path) : List SClass → Index
    | [] => []
    | c :: cs => c.index pre ++ indexList pre cs
end

/-- the root (path `[]`) "declares" the top-level classes -/
def indexOf (src : List SClass) : Index := ([], { own := ownOf [] src, bases := [] }) :: indexList [] src

def Index.own (ix : Index) (p : Path) : List (Name × Path) :=
  match List.lookup p ix with
  | none => []
  | some i => i.own

/-- the candidates at level `j` of `scope` (the class `scope.take j`) -/
def levelCands (vis : Path → Except Err (List (Name × Path))) (own : Path → List (Name × Path))
    (scope : Path) (ownOnlyInner : Bool) (j : Nat) : Except Err (List (Name × Path)) :=
  if ownOnlyInner && j == scope.length then .ok (own (scope.take j)) else vis (scope.take j)

/-- the innermost level `j ≤ i` whose candidates contain `h` -/
def findLevel (vis : Path → Except Err (List (Name × Path))) (own : Path → List (Name × Path))
    (scope : Path) (ownOnlyInner : Bool) (h : Name) : Nat → Except Err (Option Path)
  | 0 =>
    match levelCands vis own scope ownOnlyInner 0 with
    | .error e => .error e
    | .ok cs => .ok (cs.lookup h)
  | i + 1 =>
    match levelCands vis own scope ownOnlyInner (i + 1) with
    | .error e => .error e
    | .ok cs =>
      match cs.lookup h with
      | some b => .ok (some b)
      | none => findLevel vis own scope ownOnlyInner h i

/-- the remaining identifiers, each among the classes visible in the class found so far -/
def descend (vis : Path → Except Err (List (Name × Path))) (base : Path) : List Name → Except Err (Option Path)
  | [] => .ok (some base)
  | n :: t =>
    match vis base with
    | .error e => .error e
    | .ok cs =>
      match cs.lookup n with
      | none => .ok none
      | some b => descend vis b t

def resolveWith (vis : Path → Except Err (List (Name × Path))) (own : Path → List (Name × Path))
    (scope : Path) (ref : List Name) (ownOnlyInner : Bool) : Except Err Ty :=
  match ref with
  | [] => .error (.resolve "empty name")
  | h :: t =>
    if builtinNames.contains h then
      if t.isEmpty then .ok (.builtin h) else .error (.resolve ("lookup inside builtin " ++ h))
    else
      match findLevel vis own scope ownOnlyInner h scope.length with
      | .error e => .error e
      | .ok none => .error (.resolve ("class not found: " ++ ".".intercalate ref))
      | .ok (some b) =>
        match descend vis b t with
        | .error e => .error e
        | .ok none => .error (.resolve ("class not found: " ++ ".".intercalate ref))
        | .ok (some p) => .ok (.cls p)

/-- the classes inherited through one base-class name, given how to resolve it and the visible
    classes of a class -/
def baseStep (res : Path → List Name → Bool → Except Err Ty) (vis : Path → Except Err (List (Name × Path)))
    (b : Path × List Name × Bool) : Except Err (List (Name × Path)) :=
  match res b.1 b.2.1 b.2.2 with
  | .error e => .error e
  | .ok (.builtin _) => .ok []
  | .ok (.cls q) => vis q

mutual
  /-- classes visible in class `p`: its own local classes first, then those of its base classes -/
  def visF : Nat → Index → Path → Except Err (List (Name × Path))
    | 0, _, _ => .error .fuel
    | f + 1, ix, p =>
      match List.lookup p ix with
      | none => .error (.noClass p)
      | some info =>
        match mapE (baseStep (resolveF f ix) (visF f ix)) info.bases with
        | .error e => .error e
        | .ok inh => .ok (info.own ++ inh.flatten)
  def resolveF : Nat → Index → Path → List Name → Bool → Except Err Ty
    | 0, _, _, _, _ => .error .fuel
    | f + 1, ix, scope, ref, ownOnlyInner => resolveWith (visF f ix) ix.own scope ref ownOnlyInner
end

/-! ## elaboration -/

def elabComp (res : Path → List Name → Bool → Except Err Ty) (scope : Path) (k : SComp) : Except Err Comp :=
  match res scope k.type false with
  | .error e => .error e
  | .ok t => .ok { name := k.name, ty := t, prefixes := k.prefixes, dims := k.dims,
                   mods := desugarList [] k.mods ++ optMod [] k.value }

def elabExt (res : Path → List Name → Bool → Except Err Ty) (scope : Path) (e : SExt) : Except Err (Ty × List Mod) :=
  match res scope e.ref true with
  | .error e => .error e
  | .ok t => .ok (t, desugarList [] e.mods)

mutual
  def SClass.elab (res : Path → List Name → Bool → Except Err Ty) (pre : Path) : SClass → Except Err Lib
    | .mk name _ alias exts classes comps eqs ieqs =>
      match elabList res (pre ++ [name]) classes with
      | .error e => .error e
      | .ok sub =>
        match alias with
        | some (base, mods) =>
          -- the base of a short definition is looked up from the enclosing class
          match res pre base false with
          | .error e => .error e
          | .ok t => .ok ((pre ++ [name], { isShort := true, exts := [(t, desugarList [] mods)],
                                            comps := [], eqs := [], ieqs := [] }) :: sub)
        | none =>
          match mapE (elabExt res (pre ++ [name])) exts with
          | .error e => .error e
          | .ok es =>
            match mapE (elabComp res (pre ++ [name])) comps with
            | .error e => .error e
            | .ok ks => .ok ((pre ++ [name], { isShort := false, exts := es, comps := ks, eqs := eqs,
                                               ieqs := ieqs }) :: sub)
  def elabList (res : Path → List Name → Bool → Except Err Ty) (pre : Path) : List SClass → Except Err Lib
    | [] => .ok []
    | c :: cs =>
      match c.elab res pre with
      | .error e => .error e
      | .ok l =>
        match elabList res pre cs with
        | .error e => .error e
        | .ok ls => .ok (l ++ ls)
end

/-- enough for any acyclic library: every recursive call moves to another class or consumes a
    short definition; the class count bounds the depth, plus slack for the call structure -/
def defaultFuel (src : SLib) : Nat := 2 * (pathsList [] src).length + 8

def elabLib (src : SLib) : Except Err Lib :=
  let paths := pathsList [] src
  match dupName (paths.map fun p => ".".intercalate p) with
  | some n => .error (.resolve ("duplicate class " ++ n))
  | none => elabList (resolveF (2 * defaultFuel src) (indexOf src)) [] src

def flattenSrc (src : SLib) (target : Path) : Except Err FlatModel :=
  match elabLib src with
  | .error e => .error e
  | .ok lib => flattenF (defaultFuel src) lib target

/-! ## respelling a whole library (for the spelling-invariance theorems) -/

def SComp.respell (f : List SMod → List SMod) (k : SComp) : SComp := { k with mods := f k.mods }
def SExt.respell (f : List SMod → List SMod) (e : SExt) : SExt := { e with mods := f e.mods }

mutual
  def SClass.respell (f : List SMod → List SMod) : SClass → SClass
    | .mk name kind alias exts classes comps eqs ieqs =>
      .mk name kind (alias.map fun a => (a.1, f a.2)) (exts.map (SExt.respell f))
        (respellList f classes) (comps.map (SComp.respell f)) eqs ieqs
  def respellList (f : List SMod → List SMod) : List SClass → List SClass
    | [] => []
    | c :: cs => c.respell f :: respellList f cs
end

/-! ## Modelica text -/

def Sub0.show : Sub0 → String
  | .lit n => toString n
  | .name x => x
  | .add a b => "(" ++ a.show ++ " + " ++ b.show ++ ")"

def showParts0 (parts : List (Name × List Sub0)) : String :=
  ".".intercalate (parts.map fun p =>
    if p.2.isEmpty then p.1 else p.1 ++ "[" ++ ",".intercalate (p.2.map Sub0.show) ++ "]")

def Sub1.show : Sub1 → String
  | .lit n => toString n
  | .name x => x
  | .ref parts => showParts0 parts
  | .add a b => "(" ++ a.show ++ " + " ++ b.show ++ ")"

def showParts (parts : List (Name × List Sub1)) : String :=
  ".".intercalate (parts.map fun p =>
    if p.2.isEmpty then p.1 else p.1 ++ "[" ++ ",".intercalate (p.2.map Sub1.show) ++ "]")

def Expr.show : Expr → String
  | .num n => toString n
  | .real s => s
  | .bool b => if b then "true" else "false"
  | .str s => "\"" ++ s ++ "\""
  | .ref parts => showParts parts
  | .un op a => if op == "-" then "(-" ++ a.show ++ ")" else op ++ "(" ++ a.show ++ ")"
  | .bin op a b => "(" ++ a.show ++ " " ++ op ++ " " ++ b.show ++ ")"

def Eqn.show (ind : String) : Eqn → String
  | .eq l r => ind ++ "  " ++ l.show ++ " = " ++ r.show ++ ";\n"
  | .forEq i lo hi body =>
    ind ++ "  for " ++ i ++ " in " ++ toString lo ++ ":" ++ toString hi ++ " loop\n" ++
      String.join (body.map fun e => ind ++ "    " ++ e.1.show ++ " = " ++ e.2.show ++ ";\n") ++
      ind ++ "  end for;\n"

def showValue : Option Expr → String
  | none => ""
  | some v => " = " ++ v.show

mutual
  def SMod.show : SMod → String
    | .mk name subs value =>
      ".".intercalate name ++ (if subs.isEmpty then "" else "(" ++ showModList subs ++ ")") ++ showValue value
  def showModList : List SMod → String
    | [] => ""
    | [m] => m.show
    | m :: m' :: ms => m.show ++ ", " ++ showModList (m' :: ms)
end

def showMods (ms : List SMod) : String := if ms.isEmpty then "" else "(" ++ showModList ms ++ ")"

def SComp.show (ind : String) (k : SComp) : String :=
  ind ++ "  " ++ String.join (k.prefixes.map (· ++ " ")) ++ ".".intercalate k.type ++ " " ++ k.name ++
    (if k.dims.isEmpty then "" else "[" ++ ",".intercalate (k.dims.map toString) ++ "]") ++
    showMods k.mods ++ showValue k.value ++ ";\n"

mutual
  def SClass.show (ind : String) : SClass → String
    | .mk name kind alias exts classes comps eqs ieqs =>
      match alias with
      | some (base, mods) => ind ++ kind ++ " " ++ name ++ " = " ++ ".".intercalate base ++ showMods mods ++ ";\n"
      | none =>
        ind ++ kind ++ " " ++ name ++ "\n" ++ showClassList (ind ++ "  ") classes ++
          String.join (exts.map fun e => ind ++ "  extends " ++ ".".intercalate e.ref ++ showMods e.mods ++ ";\n") ++
          String.join (comps.map (SComp.show ind)) ++
          (if ieqs.isEmpty then "" else ind ++ "initial equation\n" ++ String.join (ieqs.map (Eqn.show ind))) ++
          (if eqs.isEmpty then "" else ind ++ "equation\n" ++ String.join (eqs.map (Eqn.show ind))) ++
          ind ++ "end " ++ name ++ ";\n"
  def showClassList (ind : String) : List SClass → String
    | [] => ""
    | c :: cs => c.show ind ++ showClassList ind cs
end

def render (src : SLib) : String := showClassList "" src

end PymocaVerif.Flatten
