"""Shared helpers of C05 / C06 (agent A04): Modelica library generator over a pure description,
rendering, edits mirrored on the description, canonical forms of flatten / backend results,
export of the real AST object graph for the Lean `ObjGraph` model, shapes of copies, the
behavioural extraction of the copy flags, and the translator writing Generated/CopyFlags.lean.

Nothing here imports pymoca at module import time (check.py decides which copy is imported)."""
import copy
import json
import os

# ------------------------------------------------------------------------------------------
# library description
#   cls  = {"name", "kind", "short": None | "Real(min = 1)" (short class definition  `kind name = short;`),
#           "prefix": "" | "replaceable " | "partial ", "imports": [line], "extends": [line],
#           "classes": [cls], "comps": [{"name", "text"}], "eqs": [line], "algo": [line]}
#   lib  = {"classes": [cls]}
# Lines are complete Modelica clauses ("extends A(x = 1);", "parameter Real p = 3;", "x = y + 1;").
# ------------------------------------------------------------------------------------------
ATTRS = ["start", "min", "max", "nominal"]


def new_cls(name, kind="model", **kw):
    c = dict(name=name, kind=kind, short=None, prefix="", imports=[], extends=[], classes=[], comps=[], eqs=[],
             algo=[])
    c.update(kw)
    return c


def render_cls(c, ind=""):
    if c["short"] is not None:
        return "%s%s%s %s = %s;\n" % (ind, c["prefix"], c["kind"], c["name"], c["short"])
    s = "%s%s%s %s\n" % (ind, c["prefix"], c["kind"], c["name"])
    for l in c["imports"]:
        s += ind + "  " + l + "\n"
    for sub in c["classes"]:
        s += render_cls(sub, ind + "  ")
    for l in c["extends"]:
        s += ind + "  " + l + "\n"
    for k in c["comps"]:
        s += ind + "  " + k["text"] + "\n"
    if c["eqs"]:
        s += ind + "equation\n"
        for l in c["eqs"]:
            s += ind + "  " + l + "\n"
    if c["algo"]:
        s += ind + "algorithm\n"
        for l in c["algo"]:
            s += ind + "  " + l + "\n"
    s += "%send %s;\n" % (ind, c["name"])
    return s


def render(lib):
    return "".join(render_cls(c) for c in lib["classes"])


def class_paths(lib):
    out = []

    def rec(cs, pre):
        for c in cs:
            out.append(pre + (c["name"],))
            rec(c["classes"], pre + (c["name"],))
    rec(lib["classes"], ())
    return out


def find_desc(lib, path):
    cs = lib["classes"]
    c = None
    for n in path:
        c = next((x for x in cs if x["name"] == n), None)
        if c is None:
            return None
        cs = c["classes"]
    return c


# ------------------------------------------------------------------------------------------
# generator
# ------------------------------------------------------------------------------------------
class Gen:
    """Generates a mostly valid library.  `info[full]` keeps what later choices need:
    leaves = [(path tuple, elementary type, variability, is_array)], pins = [component names of
    connector type], kind."""

    def __init__(self, rng, xref_io=False):
        self.rng = rng
        self.info = {}
        self.n = 0
        self.xref_io = xref_io   # class-path references to input/output symbols (C05-F1)
        self.clashes = []        # (model, name of an earlier model that one of its variables has)
        self.broken = []         # classes that fail to flatten
        self.p_broken = 0.4

    def fresh(self, p):
        self.n += 1
        return "%s%d" % (p, self.n)

    def num(self, lo=1, hi=9):
        return str(self.rng.randint(lo, hi))

    def expr(self, refs, depth=0):
        r = self.rng
        if depth > 1 or r.random() < 0.4 or not refs:
            if refs and r.random() < 0.65:
                return r.choice(refs)
            return self.num()
        return "(%s %s %s)" % (self.expr(refs, depth + 1), r.choice(["+", "-", "*"]), self.expr(refs, depth + 1))

    # ---- leaves of a class (by full name, resolved by the generator itself) ----
    def leaves(self, full):
        return self.info[full]["leaves"]

    def scalar_real(self, full, var_ok=("", "parameter", "constant", "input", "output")):
        return [".".join(p) for (p, t, v, a) in self.leaves(full) if t == "Real" and not a and v in var_ok]

    def mods_for(self, target_full, own_params, maxn=2, prefix=()):
        """Modification list text for a component / extends of class `target_full`."""
        r = self.rng
        lp = [l for l in self.leaves(target_full) if l[1] in ("Real", "Integer") and not l[3]]
        out, used, heads, nested_heads = [], set(), set(), set()
        for _ in range(r.randint(0, maxn)):
            if not lp:
                break
            p, t, v, a = r.choice(lp)
            if p in used or p[0] in nested_heads:
                continue
            used.add(p)
            val = r.choice(own_params) if own_params and r.random() < 0.35 else self.num(10, 99)
            dotted = ".".join(prefix + p)
            if v in ("parameter", "constant") and r.random() < 0.6:
                out.append("%s = %s" % (dotted, val))
            else:
                attr = r.choice(ATTRS)
                if len(p) > 1 and p[0] not in heads and r.random() < 0.08:
                    # nested spelling a(x(start = 1)); one clause per head name
                    nested_heads.add(p[0])
                    s = "%s(%s = %s)" % (p[-1], attr, val)
                    for q in reversed(prefix + p[:-1]):
                        s = "%s(%s)" % (q, s)
                    out.append(s)
                else:
                    out.append("%s(%s = %s)" % (dotted, attr, val))
            heads.add(p[0])
        return out

    def elementary_comp(self, c, full, taken, types):
        r = self.rng
        name = self.fresh(r.choice("abxyzuvw"))
        ty = r.choice(["Real", "Real", "Real", "Real", "Integer", "Boolean"] + types)
        pre = r.choice(["", "", "", "parameter", "parameter", "constant", "input", "output", "discrete"])
        if ty not in ("Real", "Integer", "Boolean"):
            pre = r.choice(["", "", "input", "output"])
        dim = r.choice([None, None, None, None, 2, 3]) if ty == "Real" and pre in ("", "parameter") else None
        mods = []
        val = None
        if ty != "Boolean" and not dim:
            if pre in ("parameter", "constant"):
                val = self.num()
            if r.random() < 0.45:
                for a in r.sample(ATTRS, r.randint(1, 2)):
                    mods.append("%s = %s" % (a, self.num()))
        text = "%s%s %s%s%s%s;" % (pre + " " if pre else "", ty, name, "[%d]" % dim if dim else "",
                                   "(" + ", ".join(mods) + ")" if mods else "", " = " + val if val else "")
        c["comps"].append(dict(name=name, text=text))
        et = ty if ty in ("Real", "Integer", "Boolean") else "Real"
        self.info[full]["leaves"].append(((name,), et, pre if pre != "discrete" else "", bool(dim)))
        return name

    def class_comp(self, c, full, ty_ref, ty_full, own_params):
        name = self.fresh(self.rng.choice("cdmnpq"))
        mods = self.mods_for(ty_full, own_params)
        text = "%s %s%s;" % (ty_ref, name, "(" + ", ".join(mods) + ")" if mods else "")
        c["comps"].append(dict(name=name, text=text))
        for (p, t, v, a) in self.leaves(ty_full):
            self.info[full]["leaves"].append(((name,) + p, t, v if v in ("parameter", "constant") else "", a))
        if self.info[ty_full]["kind"] == "connector":
            self.info[full]["pins"].append((name, ty_full))
        for (pn, pt) in self.info[ty_full]["pins"]:
            self.info[full]["pins"].append((name + "." + pn, pt))
        return name

    def register(self, full, kind):
        self.info[full] = dict(leaves=[], pins=[], kind=kind)

    def package(self, name, earlier_models=()):
        r = self.rng
        p = new_cls(name, "package")
        self.register(name, "package")
        consts, types, conns, funcs, models = [], [], [], [], []
        imported = []
        if earlier_models and r.random() < 0.7:
            # a qualified import of the package, used by its models under the short name
            m0 = r.choice(list(earlier_models))
            p["imports"].append("import %s;" % m0)
            imported.append(m0)
        for _ in range(r.randint(1, 2)):
            k = self.fresh("k")
            mods = "(%s = %s)" % (r.choice(ATTRS), self.num()) if r.random() < 0.4 else ""
            p["comps"].append(dict(name=k, text="constant Real %s%s = %s;" % (k, mods, self.num())))
            consts.append(name + "." + k)
        if r.random() < 0.7:
            t = new_cls(self.fresh("T"), "type", short="Real(%s = %s)" % (r.choice(ATTRS), self.num()))
            p["classes"].append(t)
            self.register(name + "." + t["name"], "type")
            self.info[name + "." + t["name"]]["leaves"] = [((), "Real", "", False)]
            types.append(name + "." + t["name"])
        if r.random() < 0.6:
            cn = self.fresh("Pin")
            cc = new_cls(cn, "connector")
            cc["comps"] = [dict(name="v", text="Real v;"), dict(name="i", text="flow Real i;")]
            p["classes"].append(cc)
            self.register(name + "." + cn, "connector")
            self.info[name + "." + cn]["leaves"] = [(("v",), "Real", "", False), (("i",), "Real", "", False)]
            conns.append(name + "." + cn)
        if r.random() < 0.6:
            fn = self.fresh("f")
            f = new_cls(fn, "function")
            f["comps"] = [dict(name="u", text="input Real u;"), dict(name="y", text="output Real y;")]
            body = "u * %s" % self.num()
            if consts and r.random() < 0.5:
                body += " + " + r.choice(consts).split(".")[-1]
            f["algo"] = ["y := %s;" % body]
            p["classes"].append(f)
            self.register(name + "." + fn, "function")
            funcs.append(name + "." + fn)
            if r.random() < 0.6:
                # a function that calls the other function (both must come along in every flat model)
                gn = self.fresh("g")
                gf = new_cls(gn, "function")
                gf["comps"] = [dict(name="u", text="input Real u;"), dict(name="y", text="output Real y;")]
                gf["algo"] = ["y := %s.%s(u) + %s;" % (name, fn, self.num())]
                p["classes"].append(gf)
                self.register(name + "." + gn, "function")
                funcs.append(name + "." + gn)
                funcs.append(name + "." + gn)
        for _ in range(r.randint(1, 2)):
            mn = self.fresh("Leaf")
            full = name + "." + mn
            m = new_cls(mn, "model")
            self.register(full, "model")
            for _ in range(r.randint(1, 3)):
                self.elementary_comp(m, full, set(), list(types))
            sc = self.scalar_real(full, ("", "output"))
            allr = self.scalar_real(full) + [c.split(".")[-1] for c in consts]
            if sc and r.random() < 0.7:
                m["eqs"].append("%s = %s;" % (r.choice(sc), self.expr(allr)))
            for m0 in imported:
                if r.random() < 0.7:
                    self.class_comp(m, full, m0.split(".")[-1], m0, [])
            p["classes"].append(m)
            models.append(full)
        if r.random() < 0.5:
            # a record, a function with an argument of that record type, and a model calling it
            rn, fr, mr = self.fresh("Rec"), self.fresh("fr"), self.fresh("LeafR")
            rec = new_cls(rn, "record")
            rec["comps"] = [dict(name="x", text="Real x;"), dict(name="v", text="Real v = 0;")]
            p["classes"].append(rec)
            self.register(name + "." + rn, "record")
            self.info[name + "." + rn]["leaves"] = [(("x",), "Real", "", False), (("v",), "Real", "", False)]
            f = new_cls(fr, "function")
            f["comps"] = [dict(name="s", text="input %s.%s s;" % (name, rn)), dict(name="m", text="input Real m = 1;"),
                          dict(name="e", text="output Real e;")]
            f["algo"] = ["e := 0.5 * m * s.v * s.v;"]
            p["classes"].append(f)
            self.register(name + "." + fr, "function")
            m = new_cls(mr, "model")
            self.register(name + "." + mr, "model")
            m["comps"] = [dict(name="s", text="%s.%s s;" % (name, rn)), dict(name="e", text="Real e;")]
            m["eqs"] = ["der(s.x) = s.v;", "der(s.v) = -s.x;", "e = %s.%s(s, %s);" % (name, fr, self.num())]
            self.info[name + "." + mr]["leaves"] = [(("s", "x"), "Real", "", False), (("s", "v"), "Real", "", False),
                                                   (("e",), "Real", "", False)]
            p["classes"].append(m)
            models.append(name + "." + mr)
        return p, dict(consts=consts, types=types, conns=conns, funcs=funcs, models=models)

    def library(self, nmodels):
        r = self.rng
        lib = dict(classes=[])
        pk = dict(consts=[], types=[], conns=[], funcs=[], models=[])
        for j in range(r.choice([0, 1, 1, 2])):
            p, d = self.package("Lib%d" % j, pk["models"])
            lib["classes"].append(p)
            for k in pk:
                pk[k] += d[k]
        tops = []          # full names of earlier top-level models
        for i in range(nmodels):
            name = "M%d" % i
            c = new_cls(name, "model")
            self.register(name, "model")
            avail = list(tops) + pk["models"]
            # local nested classes
            local = {}
            if r.random() < 0.35:
                ln = self.fresh("Loc")
                lc = new_cls(ln, "model")
                self.register(name + "." + ln, "model")
                for _ in range(r.randint(1, 2)):
                    self.elementary_comp(lc, name + "." + ln, set(), [])
                sc = self.scalar_real(name + "." + ln, ("",))
                if sc:
                    lc["eqs"].append("%s = %s;" % (r.choice(sc), self.expr(self.scalar_real(name + "." + ln))))
                c["classes"].append(lc)
                local[ln] = name + "." + ln
            if r.random() < 0.2:
                tn = self.fresh("LT")
                c["classes"].append(new_cls(tn, "type", short="Real(%s = %s)" % (r.choice(ATTRS), self.num())))
                self.register(name + "." + tn, "type")
                self.info[name + "." + tn]["leaves"] = [((), "Real", "", False)]
                local[tn] = name + "." + tn
            # imports
            short = {}
            if pk["models"] and r.random() < 0.3:
                m = r.choice(pk["models"])
                if r.random() < 0.5:
                    c["imports"].append("import %s;" % m)
                else:
                    c["imports"].append("import %s.*;" % m.rsplit(".", 1)[0])
                short[m] = m.split(".")[-1]
            # extends
            used = set()
            inherited = set()
            for _ in range(r.choice([0, 0, 1, 1, 2])):
                if not avail:
                    break
                b = r.choice(avail)
                names = set(p[0] for (p, _, _, _) in self.leaves(b))
                if b in used or names & inherited:
                    continue
                used.add(b)
                inherited |= names
                mods = self.mods_for(b, [])
                c["extends"].append("extends %s%s;" % (short.get(b, b), "(" + ", ".join(mods) + ")" if mods else ""))
                self.info[name]["leaves"] += list(self.leaves(b))
                self.info[name]["pins"] += list(self.info[b]["pins"])
            # components
            ltypes = [t for t in pk["types"]] + [k for k, v in local.items() if self.info[v]["kind"] == "type"]
            for _ in range(r.randint(1, 4)):
                own_params = [".".join(p) for (p, t, v, a) in self.leaves(name)
                              if v == "parameter" and t == "Real" and not a and len(p) == 1]
                q = r.random()
                lm = [(k, v) for k, v in local.items() if self.info[v]["kind"] == "model"]
                if q < 0.3 and (avail or lm):
                    if lm and (not avail or r.random() < 0.5):
                        ref, full = r.choice(lm)
                    else:
                        full = r.choice([a for a in avail if a not in used] or avail)
                        ref = short.get(full, full) if r.random() < 0.15 else full
                    self.class_comp(c, name, ref, full, own_params)
                elif q < 0.4 and pk["conns"]:
                    full = r.choice(pk["conns"])
                    self.class_comp(c, name, full, full, [])
                else:
                    self.elementary_comp(c, name, set(), ltypes)
            # equations
            lhs = self.scalar_real(name, ("", "output"))
            allr = self.scalar_real(name) + pk["consts"]
            for _ in range(r.randint(0, 3)):
                if not lhs:
                    break
                l = r.choice(lhs)
                q = r.random()
                if q < 0.2:
                    c["eqs"].append("der(%s) = %s;" % (l, self.expr(allr)))
                elif q < 0.45 and pk["funcs"]:
                    c["eqs"].append("%s = %s(%s);" % (l, r.choice(pk["funcs"]), self.expr(allr)))
                else:
                    c["eqs"].append("%s = %s;" % (l, self.expr(allr)))
            pins = self.info[name]["pins"]
            if len(pins) >= 2 and r.random() < 0.8:
                a, b = r.sample(pins, 2)
                if a[1] == b[1]:
                    c["eqs"].append("connect(%s, %s);" % (a[0], b[0]))
            if self.xref_io and tops and r.random() < 0.8:
                # class-path reference to an input/output symbol of another top-level model
                cand = [(t, ".".join(p)) for t in tops for (p, ty, v, a) in self.leaves(t)
                        if ty == "Real" and not a and v in ("input", "output") and len(p) == 1]
                if cand and lhs:
                    t, p = r.choice(cand)
                    c["eqs"].append("%s = %s.%s;" % (r.choice(lhs), t, p))
            if tops and r.random() < 0.3:
                # a variable that has the name of an earlier model
                vn = r.choice(tops)
                if not any(k["name"] == vn for k in c["comps"]) and vn not in [p_[0] for (p_, _, _, _) in self.leaves(name)]:
                    c["comps"].append(dict(name=vn, text="Real %s(start = %s);" % (vn, self.num())))
                    self.info[name]["leaves"].append(((vn,), "Real", "", False))
                    self.clashes.append((name, vn))
            lib["classes"].append(c)
            tops.append(name)
        if tops and r.random() < self.p_broken:
            # classes that do not flatten, each for another reason and at another depth
            menu = ["attr", "miss", "self", "typo", "typo", "conn", "sub"]
            for kind in r.sample(menu, r.randint(1, 3)):
                bn = self.fresh("Bk")
                b = new_cls(bn, "model")
                holders = [t for t in tops if any(len(p_) >= 2 for (p_, _, _, _) in self.leaves(t))] or tops
                t = r.choice(holders)
                deep = [p_ for (p_, _, _, _) in self.leaves(t) if len(p_) >= 2]
                if kind == "attr":
                    b["comps"].append(dict(name="x", text="Real x(nosuch = 1);"))
                elif kind == "miss":
                    b["comps"].append(dict(name="n", text="Nowhere%d n;" % self.n))
                elif kind == "self":
                    b["extends"].append("extends %s;" % bn)
                    b["comps"].append(dict(name="x", text="Real x;"))
                elif kind == "typo":
                    pth = r.choice(deep)[:-1] if deep else ()
                    b["comps"].append(dict(name="c", text="%s c(%s = 2);" % (t, ".".join(pth + ("opennig",)))))
                elif kind == "conn":
                    b["comps"] += [dict(name="a", text="Real a;"), dict(name="c", text="%s c;" % t)]
                    b["eqs"].append("connect(a, c.nopin);")
                else:
                    pth = r.choice(deep)[:-1] if deep else ("w",)
                    b["comps"].append(dict(name="c", text="%s c(%s[1].q = 2);" % (t, ".".join(pth))))
                self.register(bn, "model")
                lib["classes"].append(b)
                self.broken.append(bn)
        if r.random() < 0.35 and pk["models"]:
            # redeclaration pattern: replaceable local model used by a component, redeclared in an extends
            base = new_cls(self.fresh("RB"), "model")
            full = base["name"]
            self.register(full, "model")
            m0 = r.choice(pk["models"])
            m1 = r.choice(pk["models"])
            base["classes"].append(new_cls("R", "model", short=m0, prefix="replaceable "))
            base["comps"].append(dict(name="r", text="R r;"))
            der = new_cls(self.fresh("RD"), "model")
            der["extends"].append("extends %s(redeclare model R = %s);" % (full, m1))
            self.register(der["name"], "model")
            lib["classes"] += [base, der]
        return lib


def gen_library(rng, nmodels=None, xref_io=False, p_broken=0.4):
    g = Gen(rng, xref_io=xref_io)
    g.p_broken = p_broken
    lib = g.library(nmodels if nmodels is not None else rng.randint(2, 6))
    return lib, g


# ------------------------------------------------------------------------------------------
# canonical forms
# ------------------------------------------------------------------------------------------
def _strip(j):
    """Drop the parser's running counters (they differ between separate parses of the same text
    fragment and carry no meaning for the flat model)."""
    if isinstance(j, dict):
        return {k: _strip(v) for k, v in j.items() if k not in ("id", "order")}
    if isinstance(j, list):
        return [_strip(x) for x in j]
    return j


def flat_canon(flat_tree, strip_ids=False):
    from pymoca import ast
    j = ast.Node.to_json(flat_tree)
    if strip_ids:
        j = _strip(j)
    return json.dumps(j, sort_keys=True, default=str)


def outcome(fn):
    """Runs real code; returns ("ok", canonical) or ("exc", exception class name)."""
    try:
        return ("ok", fn())
    except BaseException as e:  # noqa: B902 — assertion errors and recursion errors are outcomes too
        if isinstance(e, (KeyboardInterrupt, SystemExit, MemoryError)):
            raise
        return ("exc", type(e).__name__)


def casadi_canon(model):
    """Canonical text of a CasADi model: variable lists with attributes (exact reprs) + residuals."""
    out = {}
    for lst in ("states", "der_states", "alg_states", "inputs", "outputs", "constants", "parameters"):
        rows = []
        for v in getattr(model, lst):
            rows.append([str(v.symbol), str(v.value), str(v.start), str(v.min), str(v.max), str(v.nominal),
                         str(v.fixed), str(getattr(v, "python_type", None))])
        out[lst] = rows
    out["equations"] = [str(e) for e in model.equations]
    out["initial_equations"] = [str(e) for e in model.initial_equations]
    return json.dumps(out, sort_keys=True)


# ------------------------------------------------------------------------------------------
# object graph of real AST objects  <->  Lean ObjGraph
# ------------------------------------------------------------------------------------------
def _children(o):
    """(fields, label) of one Node: fields in __dict__ order, containers flattened in order."""
    from pymoca import ast
    fields = []
    lab = [type(o).__name__]
    is_cls = isinstance(o, ast.Class)
    is_arg = isinstance(o, ast.ClassModificationArgument)

    def walk(v, key):
        if isinstance(v, ast.Node):
            fields.append(("own", v))
            lab.append("#")
        elif isinstance(v, dict):
            lab.append("{")
            for k in v:
                if key == "imports" and isinstance(v[k], ast.ComponentRef):
                    continue   # lookup cache of unqualified imports: not part of the observed state
                lab.append(str(k))
                walk(v[k], None)
            lab.append("}")
        elif isinstance(v, (list, tuple)):
            lab.append("[")
            for x in v:
                walk(x, None)
            lab.append("]")
        else:
            lab.append(repr(v) if not isinstance(v, float) else v.hex())

    hook = None
    for k, v in o.__dict__.items():
        if k == "__deepcopy__":
            hook = v
            continue
        if is_cls and k == "parent":
            if v is not None:
                fields.append(("par", v))
            lab.append("parent")
            continue
        if is_arg and k == "scope":
            if v is not None:
                fields.append(("scp", v))
            lab.append("scope")
            continue
        lab.append(k + "=")
        walk(v, k)
    return fields, "\x1f".join(lab), hook


def kind_of(o):
    from pymoca import ast
    if isinstance(o, ast.Class):
        return "cls"
    if isinstance(o, ast.ClassModificationArgument):
        return "arg"
    if isinstance(o, ast.Symbol):
        return "sym"
    return "other"


def name_of(o):
    n = o.__dict__.get("name")
    return n if isinstance(n, str) else ""


class Graph:
    """Snapshot of every Node reachable from the given roots (own, parent and scope edges)."""

    def __init__(self, roots):
        self.objs = []          # real objects by id
        self.ids = {}           # id(obj) -> index
        self.rows = []          # [kind, label, fields [[tag, id]], hook]
        todo = list(roots)
        raw = []
        while todo:
            o = todo.pop()
            if id(o) in self.ids:
                continue
            self.ids[id(o)] = len(self.objs)
            self.objs.append(o)
            fields, label, hook = _children(o)
            raw.append((o, fields, label, hook))
            for _, v in reversed(fields):
                todo.append(v)
            if hook is not None and getattr(hook, "__self__", None) is not None:
                todo.append(hook.__self__)
        for (o, fields, label, hook) in raw:
            h = None
            if hook is not None:
                h = self.ids[id(hook.__self__)]
            self.rows.append([kind_of(o), label, [[t, self.ids[id(v)]] for t, v in fields], h, name_of(o)])

    def idx(self, o):
        return self.ids.get(id(o))

    def to_json(self):
        return [{"k": r[0], "n": r[4], "l": r[1], "f": r[2], "h": r[3]} for r in self.rows]

    def signature(self, i):
        """Current state of object i (for write-set detection)."""
        fields, label, hook = _children(self.objs[i])
        return (label, tuple((t, id(v)) for t, v in fields), None if hook is None else id(getattr(hook, "__self__", hook)))

    def signatures(self):
        return [self.signature(i) for i in range(len(self.objs))]


def depths(g, roots):
    """depth of every snapshot object below the roots along own references (the rank function the
    theorems' hypothesis `rankCheck` is evaluated with)"""
    d = [0] * len(g.rows)
    seen = set()
    todo = [(g.idx(r), 0) for r in roots]
    while todo:
        i, k = todo.pop()
        if i in seen:
            continue
        seen.add(i)
        d[i] = k
        for tag, j in g.rows[i][2]:
            if tag == "own":
                todo.append((j, k + 1))
    return d


def shape(result, graph):
    """Canonical shape of an object produced by a copy: discovery numbering of the objects that
    are not in `graph` (depth first, fields in order), references to snapshot objects by index."""
    new_ids = {}
    order = []
    stack = [result]
    if graph.idx(result) is not None:
        return {"root": ["o", graph.idx(result)], "objs": []}
    while stack:
        o = stack.pop()
        if id(o) in new_ids or graph.idx(o) is not None:
            continue
        new_ids[id(o)] = len(order)
        order.append(o)
        fields, _, hook = _children(o)
        for _, v in reversed(fields):
            stack.append(v)
    rows = []

    def ref(v):
        g = graph.idx(v)
        return ["o", g] if g is not None else ["n", new_ids[id(v)]]
    for o in order:
        fields, label, hook = _children(o)
        h = None
        if hook is not None:
            hs = getattr(hook, "__self__", None)
            h = ref(hs) if hs is not None and (graph.idx(hs) is not None or id(hs) in new_ids) else ["?", 0]
        rows.append({"k": kind_of(o), "n": name_of(o), "l": label, "f": [[t] + ref(v) for t, v in fields], "h": h})
    return {"root": ["n", 0], "objs": rows}


# ------------------------------------------------------------------------------------------
# copy flags: behavioural extraction (robust against refactoring of the sources)
# ------------------------------------------------------------------------------------------
PROBE_TEXT = """
package PP constant Real k(min = 1) = 3; function f input Real u; output Real y; algorithm y := u * 2; end f;
  record S Real x; Real v = 0; end S; function fs input PP.S s; output Real e; algorithm e := s.v * s.v; end fs; end PP;
model PB Real b(start = 1); end PB;
model PS parameter Real p = 1; Real s; equation s = p; end PS;
model PR replaceable model R = PS; R r; end PR;
model PM extends PB; PS c(p = 5); Real x; PP.S st; equation x = PP.k + PP.f(b) + c.s + PP.fs(st); end PM;
model PD extends PR(redeclare model R = PB); end PD;
"""


def probe_flags():
    """Observes on one small library: does tree.flatten write to the class it looked up / to the
    classes looked up on the way (extends, component type, redeclaration, function) / to a symbol
    reached by a class-path reference; how Class.__deepcopy__ treats the memo; what instance
    attribute the hooks leave behind."""
    from pymoca import ast, parser, tree
    flags = {}
    t = parser.parse(PROBE_TEXT, bypass_cache=True)
    if t is None:
        return None
    g = Graph([t])
    before = g.signatures()

    def reach(o):
        seen, todo = set(), [o]
        while todo:
            x = todo.pop()
            i = g.idx(x)
            if i is None or i in seen:
                continue
            seen.add(i)
            for tag, v in _children(x)[0]:
                if tag == "own":
                    todo.append(v)
        return seen
    root_fp = reach(t.classes["PM"]) | reach(t.classes["PD"])
    inner_fp = reach(t.classes["PB"]) | reach(t.classes["PS"]) | reach(t.classes["PR"]) | reach(t.classes["PP"].classes["f"]) \
        | reach(t.classes["PP"].classes["fs"]) | reach(t.classes["PP"].classes["S"])
    const_fp = reach(t.classes["PP"].symbols["k"])
    for name in ("PM", "PD"):
        try:
            tree.flatten(t, ast.ComponentRef(name=name))
        except Exception:
            pass
    after = g.signatures()
    written = set(i for i in range(len(before)) if before[i] != after[i])
    flags["rootCopy"] = not (written & root_fp)
    flags["innerCopy"] = not (written & inner_fp)
    flags["constCopy"] = not (written & const_fp)
    flags["otherWrites"] = sorted(written - root_fp - inner_fp - const_fp)
    # deepcopy hooks
    t2 = parser.parse("package A model B Real x; model C Real y; end C; end B; end A;", bypass_cache=True)
    c2 = copy.deepcopy(t2)
    a, b = c2.classes["A"], c2.classes["A"].classes["B"]
    cc = b.classes["C"]
    flags["memoById"] = (a.parent is c2) and (b.parent is a) and (cc.parent is b)
    hk = cc.__dict__.get("__deepcopy__", "absent")
    if hk == "absent":
        flags["hookRebind"] = "removed"
    elif getattr(hk, "__self__", None) is cc:
        flags["hookRebind"] = "toSelf"
    elif getattr(hk, "__self__", None) is t2.classes["A"].classes["B"].classes["C"]:
        flags["hookRebind"] = "toOriginal"
    else:
        flags["hookRebind"] = "other"
    hk0 = t2.classes["A"].classes["B"].__dict__.get("__deepcopy__", "absent")
    flags["originalKeepsHook"] = hk0 != "absent"
    # arguments of modifications: scope shared, hook
    t3 = parser.parse("model S Real z; end S; model Q S s(z(start = 1)); end Q;", bypass_cache=True)
    q = t3.classes["Q"].find_class(ast.ComponentRef(name="Q"), copy=True)
    arg = q.symbols["s"].class_modification.arguments[0]
    flags["argHook"] = "removed" if "__deepcopy__" not in arg.__dict__ else (
        "toOriginal" if getattr(arg.__dict__["__deepcopy__"], "__self__", None) is
        t3.classes["Q"].symbols["s"].class_modification.arguments[0] else "other")
    flags["findClassDefaultCopy"] = t3.find_class(ast.ComponentRef(name="S")) is not t3.classes["S"]
    # backends that promise to work on a private deep copy
    return flags


LEAN_FLAGS = os.path.join(os.path.dirname(os.path.dirname(os.path.dirname(os.path.abspath(__file__)))),
                          "lean", "PymocaVerif", "Generated", "CopyFlags.lean")


def flags_lean(flags):
    def b(x):
        return "true" if x else "false"
    rebind = {"removed": ".removed", "toOriginal": ".toOriginal"}.get(flags["hookRebind"])
    arg = {"removed": ".removed", "toOriginal": ".toOriginal"}.get(flags["argHook"])
    if rebind is None or arg is None:
        return None
    return (
        "import PymocaVerif.Model.ObjGraph\n"
        "/-! GENERATED by harness/gen/a04.py (`translate_flags`) from the behaviour of the pymoca sources under test on a\n"
        "    fixed probe library; do not edit.  Regenerated (only when different) at the start of every C05/C06 run. -/\n"
        "namespace PymocaVerif.Generated.CopyFlags\nopen PymocaVerif.ObjGraph\n\n"
        "/-- the copy discipline the code under test shows -/\n"
        "def current : Cfg :=\n"
        "  { memoTest := %s\n    hookRebind := %s\n    argRebind := %s\n    rootCopy := %s\n    innerCopy := %s\n    constCopy := %s }\n\n"
        "end PymocaVerif.Generated.CopyFlags\n"
        % (".byId" if flags["memoById"] else ".byObject", rebind, arg, b(flags["rootCopy"]), b(flags["innerCopy"]),
           b(flags["constCopy"])))


def translate_flags(ctx):
    flags = outcome(probe_flags)
    if flags[0] != "ok" or flags[1] is None:
        ctx.tie_broken("translator:copy-flags", "probe failed: %r" % (flags,))
        return None
    flags = flags[1]
    ctx.extra["copy_flags"] = flags
    src = flags_lean(flags)
    if src is None:
        ctx.tie_broken("translator:copy-flags", "unrecognised hook behaviour: %r" % flags)
        return flags
    old = open(LEAN_FLAGS).read() if os.path.exists(LEAN_FLAGS) else None
    if old != src:
        os.makedirs(os.path.dirname(LEAN_FLAGS), exist_ok=True)
        with open(LEAN_FLAGS, "w") as f:
            f.write(src)
    return flags
