import itertools, json
from pymoca import parser, tree, ast
def flat_json(t, name):
    try:
        f = tree.flatten(t, ast.ComponentRef.from_string(name))
        c = f.classes[name]
        return json.dumps({"syms": {k: [str(v.type), v.prefixes, ast.Node.to_json(v.value)] for k,v in c.symbols.items()}, "eqs": [str(ast.Node.to_json(e))[:200] for e in c.equations]}, sort_keys=True, default=str)
    except Exception as e:
        return "EXC %s: %s" % (type(e).__name__, str(e)[:100])
files = {
 "pkg": "package P constant Real k = 2; model Base Real b; equation b = P.k; end Base; end P;",
 "m1": "within P; model M1 extends Base; Real x; equation x = P.k*b; end M1;",
}
for model in ["P.M1", "P.Base"]:
    for perm in itertools.permutations(files):
        t = None
        for f in perm:
            ft = parser.parse(files[f], bypass_cache=True)
            if t is None: t = ft
            else: t.extend(ft)
        print(model, perm, flat_json(t, model)[:300])
