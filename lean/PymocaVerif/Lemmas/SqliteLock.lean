import PymocaVerif.Model.SqliteLock
/-! Lemmas for C02: the per-connection invariant, safety for any number of connections and any
    interleaving, single writer, progress, and the link between the executable `stepN` and `Step`. -/
namespace PymocaVerif.SqliteLock

def absL : Lock → Lock
  | .pending => .reserved
  | l => l

/-- per-connection invariant: not failed, and the rest of its path is fine from where it stands;
    a held lock implies an open transaction; a PENDING holder is at its COMMIT. -/
def ConnOk (p : Path) (c : Conn) : Prop :=
  c.failed = false ∧ okFrom (absL c.lock) c.inTxn ((p.drop c.pc).map (·.1)) = true ∧
  (c.lock ≠ .none → c.inTxn = true) ∧
  (c.lock = .pending → ∃ g r, p.drop c.pc = (.commit, g) :: r)

theorem drop_cons {α} {l : List α} {n : Nat} {a : α} {r : List α} (h : l.drop n = a :: r) :
    l.drop (n + 1) = r := by
  have : l.drop (n + 1) = (l.drop n).drop 1 := by simp [List.drop_drop]
  rw [this, h]; rfl

/-- SAFETY (one step, any facts about the others): the invariant is preserved; in particular the
    connection never fails. -/
theorem next_ok (p : Path) (c : Conn) (s : Stmt) (g : Bool) (r : Path) (rp pd sh : Bool)
    (hcur : p.drop c.pc = (s, g) :: r) (h : ConnOk p c) : ConnOk p (next c s rp pd sh) := by
  obtain ⟨hf, hok, htx, hpend⟩ := h
  have hr := drop_cons hcur
  rw [hcur] at hok
  cases s <;> cases hl : c.lock <;> cases ht : c.inTxn <;>
    simp [hl, ht, okFrom, absL] at hok htx hpend <;>
    (try (cases rp)) <;> (try (cases pd)) <;> (try (cases sh)) <;>
    simp_all [next, ConnOk, okFrom, absL]

def AllOk (pr : Nat → Path) (st : State) : Prop := ∀ i, ConnOk (pr i) (st i)

theorem step_allOk {pr st i st'} (h : AllOk pr st) (hs : Step pr st i st') : AllOk pr st' := by
  obtain ⟨s, g, r, rp, pd, sh, hcur, _, _, _, rfl⟩ := hs
  intro j
  unfold upd
  split
  · next hj => subst hj; exact next_ok _ _ _ _ _ _ _ _ hcur (h j)
  · exact h j

theorem run_allOk {pr st0 sched st} (h : Run pr st0 sched st) : AllOk pr st0 → AllOk pr st := by
  induction h with
  | nil => exact id
  | cons hs _ ih => exact fun h0 => ih (step_allOk h0 hs)
  | skip _ ih => exact ih

theorem init_allOk (pr : Nat → Path) (hpr : ∀ i, pathOk (pr i) = true) : AllOk pr init := by
  intro i; refine ⟨rfl, ?_, ?_, ?_⟩
  · simpa [init, absL, pathOk] using hpr i
  · intro h; simp [init] at h
  · intro h; simp [init] at h

/-- at most one writer -/
def OneWriter (st : State) : Prop := ∀ i j, i ≠ j → isW (st i).lock → ¬ isW (st j).lock

theorem next_lock_isW {c s rp pd sh} (hw : isW (next c s rp pd sh).lock) : isW c.lock ∨ rp = false := by
  cases s <;> cases hl : c.lock <;> cases rp <;> cases pd <;> cases sh <;> cases ht : c.inTxn <;>
    simp_all [next, isW]

theorem step_oneWriter {pr st i st'} (h : OneWriter st) (hs : Step pr st i st') : OneWriter st' := by
  obtain ⟨s, g, r, rp, pd, sh, _, hrp, _, _, rfl⟩ := hs
  intro a b hab ha hb
  unfold upd at ha hb
  by_cases hai : a = i
  · subst hai
    have hbi : ¬ b = a := fun e => hab e.symm
    simp only [if_true, hbi, if_false] at ha hb
    rcases next_lock_isW ha with hw | hrpf
    · exact h a b hab hw hb
    · have : ¬ rpF st a := fun hh => by rw [hrp.2 hh] at hrpf; cases hrpf
      exact this ⟨b, hbi, hb⟩
  · by_cases hbi : b = i
    · subst hbi
      simp only [if_true, hai, if_false] at ha hb
      rcases next_lock_isW hb with hw | hrpf
      · exact h a b hab ha hw
      · have : ¬ rpF st b := fun hh => by rw [hrp.2 hh] at hrpf; cases hrpf
        exact this ⟨a, hai, ha⟩
    · simp only [hai, hbi, if_false] at ha hb
      exact h a b hab ha hb

theorem run_oneWriter {pr st0 sched st} (h : Run pr st0 sched st) : OneWriter st0 → OneWriter st := by
  induction h with
  | nil => exact id
  | cons hs _ ih => exact fun h0 => ih (step_oneWriter h0 hs)
  | skip _ ih => exact ih

theorem init_oneWriter : OneWriter init := by
  intro i j _ hi; simp [init, isW] at hi

/-- a connection that holds a lock has not finished its path -/
theorem not_done_of_lock {p c} (h : ConnOk p c) (hl : c.lock ≠ .none) : ∃ s g r, p.drop c.pc = (s, g) :: r := by
  obtain ⟨_, hok, htx, _⟩ := h
  cases hd : p.drop c.pc with
  | nil =>
    rw [hd] at hok
    cases hl' : c.lock <;> simp_all [okFrom, absL]
  | cons sg r => exact ⟨sg.1, sg.2, r, rfl⟩

/-- holders of SHARED are always able to move -/
theorem shared_enabled {p c} (h : ConnOk p c) (hl : c.lock = .shared) :
    ∃ s g r, p.drop c.pc = (s, g) :: r ∧ ∀ rp pd sh, next c s rp pd sh ≠ c := by
  obtain ⟨s, g, r, hcur⟩ := not_done_of_lock h (by rw [hl]; simp)
  refine ⟨s, g, r, hcur, ?_⟩
  obtain ⟨hf, hok, htx, _⟩ := h
  rw [hcur] at hok
  intro rp pd sh
  cases s <;> cases ht : c.inTxn <;> simp_all [okFrom, absL, next] <;>
    (intro hc; exact absurd (congrArg Conn.pc hc) (by simp))

/-- a RESERVED holder is always able to move -/
theorem reserved_enabled {p c} (h : ConnOk p c) (hl : c.lock = .reserved) :
    ∃ s g r, p.drop c.pc = (s, g) :: r ∧ ∀ rp pd sh, next c s rp pd sh ≠ c := by
  obtain ⟨s, g, r, hcur⟩ := not_done_of_lock h (by rw [hl]; simp)
  refine ⟨s, g, r, hcur, ?_⟩
  obtain ⟨hf, hok, htx, _⟩ := h
  rw [hcur] at hok
  intro rp pd sh
  cases s <;> cases ht : c.inTxn <;> simp_all [okFrom, absL, next] <;>
    (intro hc; first
      | (have hh := congrArg Conn.pc hc; simp at hh; done)
      | (have hh := congrArg Conn.lock hc; rw [hl] at hh; cases hh))

theorem upd_ne {st : State} {i : Nat} {c : Conn} (h : c ≠ st i) : upd st i c ≠ st := by
  intro e
  have := congrFun e i
  simp [upd] at this
  exact h this

open Classical in
/-- a connection whose `next` differs from its state for the true facts can take a real step -/
theorem can_step (pr : Nat → Path) (st : State) (i : Nat) (s : Stmt) (g : Bool) (r : Path)
    (hcur : (pr i).drop (st i).pc = (s, g) :: r)
    (hmove : next (st i) s (decide (rpF st i)) (decide (pdF st i)) (decide (shF st i)) ≠ st i) :
    ∃ j st', Step pr st j st' ∧ st' ≠ st :=
  ⟨i, _, ⟨s, g, r, _, _, _, hcur, by simp, by simp, by simp, rfl⟩, upd_ne hmove⟩

/-- why a statement can be waiting -/
theorem blocked_why {p c s g r rp pd sh} (h : ConnOk p c) (hcur : p.drop c.pc = (s, g) :: r)
    (hb : next c s rp pd sh = c) : rp = true ∨ pd = true ∨ sh = true := by
  obtain ⟨hf, hok, htx, hpend⟩ := h
  rw [hcur] at hok
  cases rp <;> cases pd <;> cases sh <;> simp
  cases s <;> cases hl : c.lock <;> cases ht : c.inTxn <;> simp_all [next, okFrom, absL] <;>
    first
      | (have hh := congrArg Conn.pc hb; simp at hh; done)
      | (have hh := congrArg Conn.lock hb; simp [hl] at hh; done)
      | (have hh := congrArg Conn.failed hb; simp [hf] at hh; done)

open Classical in
/-- progress: in every state satisfying the invariant with unfinished work some connection can move. -/
theorem progress (pr : Nat → Path) (st : State) (hok : AllOk pr st)
    (hnd : ∃ i s g r, (pr i).drop (st i).pc = (s, g) :: r) :
    ∃ j st', Step pr st j st' ∧ st' ≠ st := by
  obtain ⟨i, s, g, r, hcur⟩ := hnd
  have sharedMoves : ∀ k, (st k).lock = .shared → ∃ j st', Step pr st j st' ∧ st' ≠ st := by
    intro k hk
    obtain ⟨s', g', r', hc', hmv⟩ := shared_enabled (hok k) hk
    exact can_step pr st k s' g' r' hc' (hmv _ _ _)
  have writerMoves : ∀ j, isW (st j).lock → ∃ j' st', Step pr st j' st' ∧ st' ≠ st := by
    intro j hj
    rcases hj with hres | hpen
    · obtain ⟨s', g', r', hc', hmv⟩ := reserved_enabled (hok j) hres
      exact can_step pr st j s' g' r' hc' (hmv _ _ _)
    · obtain ⟨g', r', hc'⟩ := (hok j).2.2.2 hpen
      by_cases hsh : shF st j
      · obtain ⟨k, _, hk⟩ := hsh
        exact sharedMoves k hk
      · apply can_step pr st j .commit g' r' hc'
        simp [next, hpen, hsh]
        intro hc
        have hh := congrArg Conn.lock hc
        simp [hpen] at hh
  by_cases hmove : next (st i) s (decide (rpF st i)) (decide (pdF st i)) (decide (shF st i)) = st i
  · rcases blocked_why (hok i) hcur hmove with h1 | h1 | h1
    · obtain ⟨j, _, hj⟩ := of_decide_eq_true h1
      exact writerMoves j hj
    · obtain ⟨j, _, hj⟩ := of_decide_eq_true h1
      exact writerMoves j (Or.inr hj)
    · obtain ⟨k, _, hk⟩ := of_decide_eq_true h1
      exact sharedMoves k hk
  · exact can_step pr st i s g r hcur hmove

/-! ### text-dependent work happens outside transactions -/

def ConnWork (p : Path) (c : Conn) : Prop := workFrom c.inTxn ((p.drop c.pc).map (·.1)) = true

theorem next_work (p : Path) (c : Conn) (s : Stmt) (g : Bool) (r : Path) (rp pd sh : Bool)
    (hcur : p.drop c.pc = (s, g) :: r) (h : ConnWork p c) : ConnWork p (next c s rp pd sh) := by
  unfold ConnWork at h ⊢
  have hr := drop_cons hcur
  rw [hcur] at h
  cases s <;> cases hl : c.lock <;> cases ht : c.inTxn <;>
    simp [ht, workFrom] at h <;>
    (try (cases rp)) <;> (try (cases pd)) <;> (try (cases sh)) <;>
    simp_all [next, workFrom]

def AllWork (pr : Nat → Path) (st : State) : Prop := ∀ i, ConnWork (pr i) (st i)

theorem step_allWork {pr st i st'} (h : AllWork pr st) (hs : Step pr st i st') : AllWork pr st' := by
  obtain ⟨s, g, r, rp, pd, sh, hcur, _, _, _, rfl⟩ := hs
  intro j
  unfold upd
  split
  · next hj => subst hj; exact next_work _ _ _ _ _ _ _ _ hcur (h j)
  · exact h j

theorem run_allWork {pr st0 sched st} (h : Run pr st0 sched st) : AllWork pr st0 → AllWork pr st := by
  induction h with
  | nil => exact id
  | cons hs _ ih => exact fun h0 => ih (step_allWork h0 hs)
  | skip _ ih => exact ih

theorem init_allWork (pr : Nat → Path) (hpr : ∀ i, pathWorkOk (pr i) = true) : AllWork pr init := by
  intro i
  simpa [ConnWork, init, pathWorkOk] using hpr i

/-- a connection about to do text-dependent work is outside every transaction and holds no lock -/
theorem work_holds_nothing {p : Path} {c : Conn} {g : Bool} {r : Path} (hok : ConnOk p c) (hw : ConnWork p c)
    (hcur : p.drop c.pc = (.work, g) :: r) : c.inTxn = false ∧ c.lock = .none := by
  unfold ConnWork at hw
  rw [hcur] at hw
  have ht : c.inTxn = false := by
    cases hti : c.inTxn with
    | false => rfl
    | true => simp [hti, workFrom] at hw
  refine ⟨ht, ?_⟩
  cases hl : c.lock with
  | none => rfl
  | shared => have := hok.2.2.1 (by rw [hl]; simp); rw [ht] at this; cases this
  | reserved => have := hok.2.2.1 (by rw [hl]; simp); rw [ht] at this; cases this
  | pending => have := hok.2.2.1 (by rw [hl]; simp); rw [ht] at this; cases this

theorem pathWorkOk_of_noWork {p : Prog} (h : noWorkInsideTxn p = true) {q : Path} (hq : q ∈ paths p) :
    pathWorkOk q = true := by
  unfold noWorkInsideTxn at h
  exact List.all_eq_true.mp h q hq

/-! ### membership of program paths -/

theorem pathOk_of_noUpgrade {p : Prog} (h : noUpgrade p = true) {q : Path} (hq : q ∈ paths p) :
    pathOk q = true := by
  unfold noUpgrade at h
  exact List.all_eq_true.mp h q hq

/-! ### the executable step is a `Step` -/

/-- all connections with index `≥ n` are idle -/
def IdleFrom (n : Nat) (st : State) : Prop := ∀ j, n ≤ j → (st j).lock = .none

theorem rpB_iff {st : State} {n i : Nat} (hid : IdleFrom n st) : rpB st n i = true ↔ rpF st i := by
  unfold rpB rpF
  simp only [List.any_eq_true, List.mem_range, Bool.and_eq_true, bne_iff_ne, ne_eq]
  constructor
  · rintro ⟨j, _, hj, hw⟩
    refine ⟨j, hj, ?_⟩
    simpa [isWb, isW] using hw
  · rintro ⟨j, hj, hw⟩
    have hlt : j < n := by
      apply Nat.lt_of_not_le
      intro hge
      have := hid j hge
      rcases hw with h | h <;> simp [this] at h
    exact ⟨j, hlt, hj, by simpa [isWb, isW] using hw⟩

theorem pdB_iff {st : State} {n i : Nat} (hid : IdleFrom n st) : pdB st n i = true ↔ pdF st i := by
  unfold pdB pdF
  simp only [List.any_eq_true, List.mem_range, Bool.and_eq_true, bne_iff_ne, ne_eq, beq_iff_eq]
  constructor
  · rintro ⟨j, _, hj, hw⟩; exact ⟨j, hj, hw⟩
  · rintro ⟨j, hj, hw⟩
    have hlt : j < n := by
      apply Nat.lt_of_not_le
      intro hge
      have := hid j hge
      simp [this] at hw
    exact ⟨j, hlt, hj, hw⟩

theorem shB_iff {st : State} {n i : Nat} (hid : IdleFrom n st) : shB st n i = true ↔ shF st i := by
  unfold shB shF
  simp only [List.any_eq_true, List.mem_range, Bool.and_eq_true, bne_iff_ne, ne_eq, beq_iff_eq]
  constructor
  · rintro ⟨j, _, hj, hw⟩; exact ⟨j, hj, hw⟩
  · rintro ⟨j, hj, hw⟩
    have hlt : j < n := by
      apply Nat.lt_of_not_le
      intro hge
      have := hid j hge
      simp [this] at hw
    exact ⟨j, hlt, hj, hw⟩

/-- the executable step of connection `i` is a `Step` of the relational semantics -/
theorem stepN_is_Step {n : Nat} {pr : Nat → Path} {st : State} {i : Nat} (hid : IdleFrom n st)
    {s : Stmt} {g : Bool} {r : Path} (hcur : (pr i).drop (st i).pc = (s, g) :: r) :
    Step pr st i (stepN n pr st i) := by
  refine ⟨s, g, r, rpB st n i, pdB st n i, shB st n i, hcur, rpB_iff hid, pdB_iff hid, shB_iff hid, ?_⟩
  simp [stepN, hcur]

theorem stepN_idle {n : Nat} {pr : Nat → Path} {st : State} {i : Nat} (hi : i < n) (hid : IdleFrom n st) :
    IdleFrom n (stepN n pr st i) := by
  intro j hj
  have hne : j ≠ i := by omega
  cases hcur : (pr i).drop (st i).pc with
  | nil => simp [stepN, hcur, hid j hj]
  | cons sg r => simp [stepN, hcur, upd, hne, hid j hj]

/-- the executable run is a `Run` -/
theorem runN_Run {n : Nat} {pr : Nat → Path} : ∀ {st : State} {sched : List Nat}, IdleFrom n st →
    (∀ i ∈ sched, i < n) → Run pr st sched (runN n pr st sched)
  | st, [], _, _ => Run.nil st
  | st, i :: sched, hid, hs => by
    have hi : i < n := hs i (List.mem_cons_self ..)
    have hrest : Run pr (stepN n pr st i) sched (runN n pr (stepN n pr st i) sched) :=
      runN_Run (stepN_idle hi hid) (fun k hk => hs k (List.mem_cons_of_mem _ hk))
    show Run pr st (i :: sched) (runN n pr (stepN n pr st i) sched)
    cases hcur : (pr i).drop (st i).pc with
    | nil =>
      have : stepN n pr st i = st := by simp [stepN, hcur]
      rw [this] at hrest ⊢
      exact Run.skip hrest
    | cons sg r =>
      exact Run.cons (stepN_is_Step hid (s := sg.1) (g := sg.2) (r := r) hcur) hrest

theorem init_idle (n : Nat) : IdleFrom n init := fun _ _ => rfl

end PymocaVerif.SqliteLock
