import Drivers.Proto
import PymocaVerif.Model.XmlTree
/-! Driver for C25: `xml.encode` runs the `XmlTree` model on the abstraction of a flat AST and returns the
    element tree (or `raised`), plus whether `decode` reads the flat model back from it. -/
open Lean Drivers PymocaVerif.XmlTree

partial def parseExpr (j : Json) : Except String Expr := do
  let a ← j.getArr?
  let kind ← (a[0]?.getD Json.null).getStr?
  match kind with
  | "lit" => pure (.lit (← (a[1]?.getD Json.null).getStr?))
  | "ref" => pure (.ref (← (a[1]?.getD Json.null).getStr?))
  | "op" => do
    let n ← (a[1]?.getD Json.null).getStr?
    let args ← (← (a[2]?.getD Json.null).getArr?).toList.mapM parseExpr
    pure (.op n args)
  | "other" => pure (.other (← (a[1]?.getD Json.null).getStr?))
  | k => throw s!"bad-expr {k}"

partial def parseEqn (j : Json) : Except String Eqn := do
  let a ← j.getArr?
  let kind ← (a[0]?.getD Json.null).getStr?
  match kind with
  | "equal" => pure (.equal (← parseExpr (a[1]?.getD Json.null)) (← parseExpr (a[2]?.getD Json.null)))
  | "call" => do
    let n ← (a[1]?.getD Json.null).getStr?
    let args ← (← (a[2]?.getD Json.null).getArr?).toList.mapM parseExpr
    pure (.call n args)
  | "when" => do
    -- ["when", cond, [body…], [elseCond…], [elseBody…]]
    let c ← parseExpr (a[1]?.getD Json.null)
    let b ← (← (a[2]?.getD Json.null).getArr?).toList.mapM parseEqn
    let ec ← (← (a[3]?.getD Json.null).getArr?).toList.mapM parseExpr
    let eb ← (← (a[4]?.getD Json.null).getArr?).toList.mapM parseEqn
    pure (.when c b ec eb)
  | "other" => pure (.other (← (a[1]?.getD Json.null).getStr?))
  | k => throw s!"bad-eqn {k}"

def parseOptExpr (j : Json) : Except String (Option Expr) :=
  if j.isNull then pure none else do pure (some (← parseExpr j))

def parseVar (j : Json) : Except String Var := do
  let name ← getStr j "name"
  let type ← getStr j "type"
  let prefixes ← (← getArr j "prefixes").toList.mapM (·.getStr?)
  let start ← parseOptExpr ((j.getObjVal? "start").toOption.getD Json.null)
  let value ← parseOptExpr ((j.getObjVal? "value").toOption.getD Json.null)
  let fixed ← getBool j "fixed"
  pure ⟨name, type, prefixes, start, value, fixed⟩

def parseCls (j : Json) : Except String Cls := do
  let name ← getStr j "name"
  let vars ← (← getArr j "vars").toList.mapM parseVar
  let eqs ← (← getArr j "eqs").toList.mapM parseEqn
  pure ⟨name, vars, eqs⟩

partial def xmlJson : Xml → Json
  | .node tag attrs kids =>
    Json.arr #[Json.str tag,
      Json.arr (attrs.map (fun (k, v) => Json.arr #[Json.str k, Json.str v])).toArray,
      Json.arr (kids.map xmlJson).toArray]

def handle (req : Json) : Except String Json := do
  let op ← getStr req "op"
  match op with
  | "xml.encode" => do
    let cfg : Cfg := ⟨← getBool req "exprAttrs", ← getBool req "rejectElse"⟩
    let classes ← (← getArr req "classes").toList.mapM parseCls
    let m : Flat := ⟨classes⟩
    match encode cfg m with
    | none => pure (Json.mkObj [("ok", true), ("raised", true)])
    | some x =>
      let back := match decode x with
        | some m' => m' == kept m
        | none => false
      pure (Json.mkObj [("ok", true), ("raised", false), ("xml", xmlJson x), ("decodes_to_kept", back),
        ("no_else", noElse m)])
  | o => throw s!"unknown-op {o}"

def main : IO Unit := serve handle
