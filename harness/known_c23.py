"""Predicates of the open C23 findings (subscripts the casadi backend reinterprets instead of rejecting).

Each predicate recognises one input class *and* the kind of oracle message that class produces; a
correspondence disagreement (`what` starting with "disagreement:") is never a known finding here — the
Lean model follows the code as it is, findings included."""
from harness.common import known_predicate


def _ival(s):
    return -s[1] if s[0] == "neg" else s[1]


def _evaluable(s):
    return s[0] != "neg"


def _loop_values(case):
    loop = case.get("loop")
    if not loop or len(loop) != 2:
        return []
    return list(range(_ival(loop[0]), _ival(loop[1]) + 1))


def has_three_part(case):
    return any(s[0] == "range3" for s in case.get("subs", [])) or bool(case.get("loop") and len(case["loop"]) == 3)


def fewer_subscripts(case):
    return 0 < len(case.get("subs", [])) < len(case.get("dims", []))


def slice_lower_bound_below_one(case):
    """A two-part slice `lo:hi` with evaluable bounds that reaches below 1 (lo <= 0, non-empty range), or whose
    empty range has a negative upper bound: CasADi counts such bounds from the end of the array."""
    for s in case.get("subs", []):
        if s[0] == "range" and _evaluable(s[1]) and _evaluable(s[2]):
            lo, hi = _ival(s[1]), _ival(s[2])
            if (lo <= 0 and lo <= hi) or (hi < 0 and hi < lo):
                return True
    return False


def loop_index_below_one(case):
    """A subscript `mul*i+off` that takes a value <= 0 for some value of the loop index."""
    vals = _loop_values(case)
    for s in case.get("subs", []):
        if s[0] == "loop" and s[1] != 0 and any(s[1] * v + s[2] <= 0 for v in vals):
            return True
    return False


ACCEPTED = "out-of-range subscript accepted"
DIFFERENT = "valid subscript selected"
REJECTED = "valid subscript rejected"
EMPTY = "empty selection produced elements"


@known_predicate
def c23_slice_bound_counted_from_end(case, what):
    return slice_lower_bound_below_one(case) and not has_three_part(case) and not fewer_subscripts(case) \
        and (what.startswith(ACCEPTED) or what.startswith(EMPTY))


@known_predicate
def c23_loop_index_wraps(case, what):
    return loop_index_below_one(case) and not has_three_part(case) and not fewer_subscripts(case) \
        and what.startswith(ACCEPTED)


@known_predicate
def c23_three_part_range_order(case, what):
    return has_three_part(case) and (what.startswith(ACCEPTED) or what.startswith(DIFFERENT)
                                     or what.startswith(REJECTED) or what.startswith(EMPTY))


@known_predicate
def c23_fewer_subscripts_linear_index(case, what):
    # since b779a95 the single subscript is range-checked against the first dimension, so the finding only shows
    # as a wrong selection, never as an accepted out-of-range subscript
    return fewer_subscripts(case) and not has_three_part(case) and what.startswith(DIFFERENT)


def _levels(case):
    return case["levels"] if case.get("levels") else [{"dims": case.get("dims", []), "subs": case.get("subs", [])}]


def loop_index_on_scalar_part(case):
    """The bare loop variable (mul = 1, off = 0) written as the only subscript on a part of the name that has no dimension."""
    return any(not l["dims"] and len(l["subs"]) == 1 and l["subs"][0] == ["loop", 1, 0] for l in _levels(case))


@known_predicate
def c23_loop_index_on_scalar_part(case, what):
    # fixed by 5a52c09 (the entry in known/C23.json is "fixed", so this predicate suppresses nothing any more)
    return loop_index_on_scalar_part(case) and (what.startswith(ACCEPTED) or what == "disagreement:index.outcome")
