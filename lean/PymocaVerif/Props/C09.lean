import PymocaVerif.Lemmas.Connect
import Mathlib.Algebra.Field.Defs
/-!
# C09 — connections produce exactly the connection-set equations

Property theorems only (definitions and helper lemmas live in `Model/Connect.lean` and
`Lemmas/Connect.lean`).  `Conn es` is the equivalence closure of an edge list, `Touched es k`
says `k` is an end of an edge, `IsComponent es S` says the duplicate-free list `S` is exactly
the connected component of a touched key.  All statements hold for every edge list, in every
order, of every length.
-/
namespace PymocaVerif.Connect

/-! ## Graph part (any key type) -/

/-- After processing *any* edge list, the distinct values of the association list are exactly the
    connected components of the edge graph on the touched keys: every value is a duplicate-free
    component, every touched key lies in one of them, and no two of them share a key (so each
    component occurs exactly once and gets exactly one flow-sum equation).  Chains, stars, cycles,
    duplicate edges, self edges and merges of two previously separate sets are all covered. -/
theorem sets_are_components {κ : Type} [DecidableEq κ] (es : List (κ × κ)) :
    (∀ S ∈ distinctSets (connectAll [] es), IsComponent es S) ∧
    (∀ k, Touched es k → ∃ S ∈ distinctSets (connectAll [] es), k ∈ S) ∧
    (distinctSets (connectAll [] es)).Pairwise (fun S T => ∀ k, k ∈ S → k ∉ T) := by
  have inv := (MapInv.empty (κ := κ)).connectAll es
  simp only [List.nil_append] at inv
  exact inv.sets

-- non-vacuity: two pairs built separately and merged by a third edge between non-first members
example : distinctSets (connectAll ([] : FlowMap Nat) [(1, 2), (3, 4), (4, 2), (5, 5)])
    = [[3, 4, 1, 2], [5]] := by decide

/-- All members of a connection set hold the same list *object* (value): looking a member up
    gives the list it is a member of.  This is what makes the re-pointing loop of the code
    necessary and sufficient. -/
theorem members_share_their_set {κ : Type} [DecidableEq κ] (es : List (κ × κ)) (k k' : κ)
    (S : List κ) (h : get? (connectAll [] es) k = some S) (hk' : k' ∈ S) :
    get? (connectAll [] es) k' = some S := by
  have inv := (MapInv.empty (κ := κ)).connectAll es
  simp only [List.nil_append] at inv
  exact inv.shared k S k' h hk'

example : get? (connectAll ([] : FlowMap Nat) [(1, 2), (3, 4), (4, 2)]) 1 = some [3, 4, 1, 2] ∧
    (2 : Nat) ∈ [3, 4, 1, 2] := by decide

/-! ## Python's shared set objects -/

/-- Reading `flow_connections` with object identities — the left `OrderedDict` is updated in place
    (which every key holding a reference to it sees at once), a fresh empty one is allocated for an
    unknown key, members are re-pointed at the left object, the final loop de-duplicates by
    identity — cannot be told apart from reading it with set values: after any edge list the
    dereferenced association list is the value-level one, entry for entry, and the sets emitted
    are the same lists in the same order. -/
theorem heap_refines_value {κ : Type} [DecidableEq κ] (es : List (κ × κ)) :
    ((Heap.empty : Heap κ).run es).view = connectAll [] es ∧
    ((Heap.empty : Heap κ).run es).sets = distinctSets (connectAll [] es) := by
  have h := (HeapInv.empty (κ := κ)).run es
  simp only [List.nil_append] at h
  have hv : (Heap.empty : Heap κ).view = [] := rfl
  rw [hv] at h
  refine ⟨h.2, ?_⟩
  rw [← h.2]
  exact h.1.sets_eq

-- non-vacuity: object 2 (the set of 3, 4) absorbs object 0 (the set of 1, 2); object 0 is garbage
example : ((Heap.empty : Heap Nat).run [(1, 2), (3, 4), (4, 2)]).fc = [(1, 2), (2, 2), (3, 2), (4, 2)] ∧
    ((Heap.empty : Heap Nat).run [(1, 2), (3, 4), (4, 2)]).objs = [[1, 2], [], [3, 4, 1, 2], []] := by
  decide

/-- The whole pass gives the same result (equations or exception) under both readings; the
    driver runs the heap reading, the theorems above are about the value reading. -/
theorem heap_pass_eq_value_pass (inp : Input) :
    expandHeap inp = expand inp ∧ finalSetsHeap inp = finalSets inp := by
  unfold expandHeap expand finalSetsHeap finalSets expandWith finalSetsWith
  rcases stepEdges_sim heapStore valueStore HeapRel HeapRel.step inp.policy inp.edges
      (St.init heapStore inp) (St.init valueStore inp) rfl rfl HeapRel.init with
    ⟨x, h1, h2⟩ | ⟨t1, t2, h1, h2, he, hd, hr⟩
  · rw [h1, h2]
    exact ⟨rfl, rfl⟩
  · rw [h1, h2]
    have hs := HeapRel.sets _ _ hr
    simp [finish, he, hd, hs]

example : expandHeap exInput = .ok [.pot "c1.a.v" "c2.a.v", .pot "o.v" "c1.a.v",
    .sum [("c1.a.i", false), ("c2.a.i", false), ("o.i", true)], .zero "c1.b.i"] := by decide

/-! ## The pass over a flat class -/

/-- The connection sets the pass ends with are exactly the connected components of the
    flow-level edge graph (keys = flat flow variable with its inside/outside face). -/
theorem final_sets_are_components (inp : Input) (sets : List (List Key))
    (h : finalSets inp = .ok sets) :
    (∀ S ∈ sets, IsComponent (flowEdges inp.edges) S) ∧
    (∀ k, Touched (flowEdges inp.edges) k → ∃ S ∈ sets, k ∈ S) ∧
    sets.Pairwise (fun S T => ∀ k, k ∈ S → k ∉ T) := by
  cases hx : expand inp with
  | error x =>
    simp only [expand, expandWith] at hx
    simp only [finalSets, finalSetsWith] at h
    split at hx
    · cases hx
    · rename_i x' hx'
      rw [hx'] at h
      cases h
  | ok eqs =>
    obtain ⟨_, st, hst, _, _, inv⟩ := expand_ok inp eqs hx
    simp only [finalSets, finalSetsWith, hst] at h
    cases h
    exact inv.sets

example : finalSets exInput = .ok [[("c1.a.i", true), ("c2.a.i", true), ("o.i", false)]] := by decide

/-- The pass raises (the code's `Exception("Unsupported connector variable prefixes")`) exactly
    when some connector variable of some connect clause has a prefix list outside the four
    recognised shapes; otherwise it returns equations. -/
theorem expand_raises_iff (inp : Input) :
    (∃ x, expand inp = .error x) ↔ ¬ Supported inp.edges := by
  constructor
  · rintro ⟨x, hx⟩ hs
    obtain ⟨st, h1, _⟩ := stepEdges_ok valueStore inp.policy inp.edges (St.init valueStore inp) hs
    simp [expand, expandWith, h1] at hx
  · intro hs
    obtain ⟨x, hx⟩ := stepEdges_bad valueStore inp.policy inp.edges (St.init valueStore inp) hs
    exact ⟨x, by simp [expand, expandWith, hx]⟩

example : ¬ Supported [⟨"", ["a"], ["b"], [⟨"d", ["discrete"]⟩]⟩] := by
  intro h
  exact h ⟨"", ["a"], ["b"], [⟨"d", ["discrete"]⟩]⟩ (List.mem_singleton.2 rfl) ⟨"d", ["discrete"]⟩
    (List.mem_singleton.2 rfl) (by decide)

/-! ## Potentials (values of any type) -/

/-- One equality per edge is as strong as equality throughout every connected component. -/
theorem potential_equiv {α β : Type} (es : List (α × α)) (σ : α → β) :
    (∀ p ∈ es, σ p.1 = σ p.2) ↔ (∀ a b, Conn es a b → σ a = σ b) := by
  constructor
  · intro h a b c
    exact conn_eq_of_edges es σ h c
  · intro h p hp
    exact h p.1 p.2 (.edge hp)

example : Conn [((1 : Nat), 2), (3, 2)] 1 3 :=
  (Conn.edge (a := 1) (b := 2) (by simp)).trans (Conn.edge (a := 3) (b := 2) (by simp)).symm

/-! ## Algebra part (values in any additive commutative group, e.g. any field) -/

section Algebra
variable {K : Type} [AddCommGroup K]

/-- The equation emitted for a connection set states: (sum over inside members) − (sum over
    outside members) = 0; this includes the all-outside form, which is written without minus
    signs and is the same equation multiplied by −1. -/
theorem flow_sum_sign (S : List Key) (σ : String → K) :
    (sumEqn S).holds σ ↔
      ((S.filter fun k => k.2).map fun k => σ k.1).sum -
      ((S.filter fun k => !k.2).map fun k => σ k.1).sum = 0 := by
  rw [sumEqn_holds, signed_sum_split]

example : sumEqn [("o1.i", false), ("o2.i", false)] = .sum [("o1.i", false), ("o2.i", false)] ∧
    sumEqn [("o.i", false), ("c.a.i", true)] = .sum [("o.i", true), ("c.a.i", false)] := by decide

/-- The pop-by-name rule (`byName`, the code before the fix of C09-F1; on single-level models the
    same as the current rule) emits `f = 0` exactly for the flow symbols no end of a connect clause
    refers to, under either face. -/
theorem unconnected_zero (inp : Input) (eqs : List Eqn) (h : expand inp = .ok eqs)
    (hp : inp.policy = .byName) (f : String) :
    Eqn.zero f ∈ eqs ↔ f ∈ inp.flowSyms ∧ ∀ b, ¬ Touched (flowEdges inp.edges) (f, b) := by
  rw [zero_mem_core inp eqs h, hp, mem_popped_byName]
  simp

example : ∃ eqs, expand exInput = .ok eqs ∧ Eqn.zero "c1.b.i" ∈ eqs ∧ Eqn.zero "c1.a.i" ∉ eqs := by
  refine ⟨_, rfl, ?_, ?_⟩ <;> decide

/-- The equations derived by the pass have exactly the solutions of the reference connection
    semantics of the property text — for every flat class the pass accepts, whatever the number,
    order and shape of its connect clauses. -/
theorem solutions_equal (inp : Input) (eqs : List Eqn) (h : expand inp = .ok eqs)
    (hp : inp.policy = .byName) (σ : String → K) : Sol eqs σ ↔ RefSol inp σ := by
  rw [sol_core inp eqs h σ, hp]
  constructor
  · rintro ⟨a, b, c⟩
    refine ⟨a, b, ?_⟩
    intro f hf ht
    apply c f hf
    rw [mem_popped_byName]
    rintro ⟨b', hb'⟩
    exact ht b' hb'
  · intro r
    refine ⟨r.potential, r.flow, ?_⟩
    intro f hf hn
    apply r.unconnected f hf
    intro b hb
    exact hn ((mem_popped_byName _ f).2 ⟨b, hb⟩)

-- non-vacuity: the small circuit is accepted and yields two potential equations, one mixed
-- inside/outside flow sum and one zero
example : expand exInput = .ok [.pot "c1.a.v" "c2.a.v", .pot "o.v" "c1.a.v",
    .sum [("c1.a.i", false), ("c2.a.i", false), ("o.i", true)], .zero "c1.b.i"] := by decide

end Algebra

/-! ## Hierarchical models: the face-wise rule of the Modelica specification -/

section Face
variable {K : Type} [AddCommGroup K]

/-- The code as it stands (`byFace`, fix `2598ca8`): the derived equations have exactly the
    solutions of the face-wise reference semantics, for every hierarchical flat class. -/
theorem solutions_equal_face (inp : Input) (eqs : List Eqn) (h : expand inp = .ok eqs)
    (hp : inp.policy = .byFace) (σ : String → K) : Sol eqs σ ↔ RefSolFace inp σ := by
  rw [sol_core inp eqs h σ, hp]
  constructor
  · rintro ⟨a, b, c⟩
    refine ⟨a, b, ?_⟩
    intro f hf h1 h2
    apply c f hf
    rw [mem_popped_byFace]
    rintro (q | q)
    · exact h1 q
    · exact h2 q
  · intro r
    refine ⟨r.potential, r.flow, ?_⟩
    intro f hf hn
    apply r.unconnected f hf
    · exact fun q => hn ((mem_popped_byFace _ f).2 (Or.inl q))
    · exact fun q => hn ((mem_popped_byFace _ f).2 (Or.inr q))

example : expand (exNested .byFace) = .ok [.pot "c.p.v" "c.r.a.v",
    .sum [("c.p.i", true), ("c.r.a.i", false)], .zero "c.p.i"] := by decide

/-- The property text ("every flow variable that appears in no connection is zero") and the
    face-wise rule of the specification describe the same solutions whenever no flow of a nested
    connector is connected only through its outside face — in particular on every single-level
    model. -/
theorem text_and_face_semantics_agree (inp : Input)
    (closed : ∀ f ∈ inp.flowSyms, Touched (flowEdges inp.edges) (f, false) →
      Touched (flowEdges inp.edges) (f, true) ∨ TouchedTop inp.edges f)
    (σ : String → K) : RefSol inp σ ↔ RefSolFace inp σ := by
  constructor
  · intro r
    refine ⟨r.potential, r.flow, ?_⟩
    intro f hf h1 h2
    apply r.unconnected f hf
    intro b hb
    cases b with
    | true => exact h1 hb
    | false =>
      rcases closed f hf hb with q | q
      · exact h1 q
      · exact h2 q
  · intro r
    refine ⟨r.potential, r.flow, ?_⟩
    intro f hf hn
    apply r.unconnected f hf
    · exact hn true
    · rintro ⟨e, he, v, hv, hc, q⟩
      rcases q with ⟨_, q2⟩ | ⟨_, q2⟩
      · exact hn e.linner ((touched_flowEdges _ f _).2 ⟨e, he, v, hv, hc, Or.inl ⟨q2, rfl⟩⟩)
      · exact hn e.rinner ((touched_flowEdges _ f _).2 ⟨e, he, v, hv, hc, Or.inr ⟨q2, rfl⟩⟩)

/-- Hence the code as it stands produces exactly the connection semantics of the property text on
    every flat class without open nested connectors (every single-level model). -/
theorem solutions_equal_current_code (inp : Input) (eqs : List Eqn) (h : expand inp = .ok eqs)
    (hp : inp.policy = .byFace)
    (closed : ∀ f ∈ inp.flowSyms, Touched (flowEdges inp.edges) (f, false) →
      Touched (flowEdges inp.edges) (f, true) ∨ TouchedTop inp.edges f)
    (σ : String → K) : Sol eqs σ ↔ RefSol inp σ := by
  rw [text_and_face_semantics_agree inp closed σ]
  exact solutions_equal_face inp eqs h hp σ

example : expand exInputFace = .ok [.pot "c1.a.v" "c2.a.v", .pot "o.v" "c1.a.v",
    .sum [("c1.a.i", false), ("c2.a.i", false), ("o.i", true)], .zero "c1.b.i"] ∧
    exInputFace.policy = .byFace := by decide

/-- The code before the fix (`byName`) agrees with the face-wise semantics exactly under the
    hypothesis the proof cannot do without: no flow of a nested connector is connected only through
    its outside face (finding C09-F1 was the failure of this hypothesis).  In particular it
    holds for every single-level model — component connectors and top-level connectors — which is
    the graph domain the property names. -/
theorem solutions_equal_face_of_closed (inp : Input) (eqs : List Eqn) (h : expand inp = .ok eqs)
    (hp : inp.policy = .byName)
    (closed : ∀ f ∈ inp.flowSyms, Touched (flowEdges inp.edges) (f, false) →
      Touched (flowEdges inp.edges) (f, true) ∨ TouchedTop inp.edges f)
    (σ : String → K) : Sol eqs σ ↔ RefSolFace inp σ := by
  rw [sol_core inp eqs h σ, hp]
  constructor
  · rintro ⟨a, b, c⟩
    refine ⟨a, b, ?_⟩
    intro f hf h1 h2
    apply c f hf
    rw [mem_popped_byName]
    rintro ⟨b', hb'⟩
    cases b' with
    | true => exact h1 hb'
    | false =>
      rcases closed f hf hb' with q | q
      · exact h1 q
      · exact h2 q
  · intro r
    refine ⟨r.potential, r.flow, ?_⟩
    intro f hf hn
    apply r.unconnected f hf
    · exact fun q => hn ((mem_popped_byName _ f).2 ⟨true, q⟩)
    · rintro ⟨e, he, v, hv, hc, q⟩
      apply hn
      rw [mem_popped_byName]
      rcases q with ⟨_, q2⟩ | ⟨_, q2⟩
      · exact ⟨e.linner, (touched_flowEdges _ f _).2 ⟨e, he, v, hv, hc, Or.inl ⟨q2, rfl⟩⟩⟩
      · exact ⟨e.rinner, (touched_flowEdges _ f _).2 ⟨e, he, v, hv, hc, Or.inr ⟨q2, rfl⟩⟩⟩

-- the hypothesis holds for the single-level circuit …
example : ∀ f ∈ exInput.flowSyms, Touched (flowEdges exInput.edges) (f, false) →
    Touched (flowEdges exInput.edges) (f, true) ∨ TouchedTop exInput.edges f := by
  intro f hf ht
  right
  obtain ⟨e, he, v, hv, hc, q⟩ := (touched_flowEdges _ f false).1 ht
  simp only [exInput, exInputWith, List.mem_cons, List.not_mem_nil, or_false] at he
  rcases he with rfl | rfl
  · rcases q with ⟨_, q⟩ | ⟨_, q⟩ <;> simp [Edge.linner, Edge.rinner] at q
  · refine ⟨_, by simp [exInput, exInputWith], v, hv, hc, ?_⟩
    rcases q with ⟨q1, _⟩ | ⟨_, q⟩
    · exact Or.inl ⟨by decide, q1⟩
    · simp [Edge.rinner] at q
-- … and fails for the nested one, where the code before the fix emitted no `c.p.i = 0`
example : expand (exNested .byName) = .ok [.pot "c.p.v" "c.r.a.v",
    .sum [("c.p.i", true), ("c.r.a.i", false)]] := by decide

end Face

/-- `solutions_equal` for the case the property names: values in a field. -/
theorem solutions_equal_field {F : Type} [Field F] (inp : Input) (eqs : List Eqn)
    (h : expand inp = .ok eqs) (hp : inp.policy = .byName) (σ : String → F) :
    Sol eqs σ ↔ RefSol inp σ :=
  solutions_equal inp eqs h hp σ

example : ∃ eqs, expand exInput = .ok eqs ∧ exInput.policy = .byName := ⟨_, rfl, rfl⟩

end PymocaVerif.Connect
