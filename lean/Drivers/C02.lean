import Drivers.Proto
import PymocaVerif.Model.SqliteLock
/-! Driver for C02.
    `lock.call`  — one statement call of connection `i` given the lock state of all connections:
                   outcome (`ok` / `waits` / `fails`) and the caller's new lock state.
    `prog.check` — for a statement tree (as extracted from the source): `noUpgrade`, number of paths,
                   and for each given trace (list of statement kinds) whether it is a path of the tree. -/
open Lean Drivers PymocaVerif.SqliteLock

def stmtOf : String → Except String Stmt
  | "beginD" => pure .beginD | "beginI" => pure .beginI | "read" => pure .read
  | "write" => pure .write | "commit" => pure .commit | "work" => pure .work
  | s => throw s!"bad-stmt {s}"

def lockOf : String → Except String Lock
  | "none" => pure .none | "shared" => pure .shared | "reserved" => pure .reserved | "pending" => pure .pending
  | s => throw s!"bad-lock {s}"

def lockName : Lock → String
  | .none => "none" | .shared => "shared" | .reserved => "reserved" | .pending => "pending"

def connOf (j : Json) : Except String Conn := do
  pure ⟨0, ← lockOf (← getStr j "lock"), ← getBool j "inTxn", false⟩

def progOf : Nat → Json → Except String Prog
  | 0, _ => throw "prog-too-deep"
  | fuel + 1, j => do
    let a ← j.getArr?
    let k ← (a[0]?.getD Json.null).getStr?
    match k with
    | "skip" => pure .skip
    | "stmt" => pure (.stmt (← stmtOf (← (a[1]?.getD Json.null).getStr?)) (← (a[2]?.getD Json.null).getBool?))
    | "seq" => pure (.seq (← progOf fuel (a[1]?.getD Json.null)) (← progOf fuel (a[2]?.getD Json.null)))
    | "choice" => pure (.choice (← progOf fuel (a[1]?.getD Json.null)) (← progOf fuel (a[2]?.getD Json.null)))
    | "try" => pure (.try_ (← progOf fuel (a[1]?.getD Json.null)))
    | k => throw s!"bad-node {k}"

def handle (req : Json) : Except String Json := do
  let op ← getStr req "op"
  match op with
  | "lock.call" => do
    let conns ← (← getArr req "conns").toList.mapM connOf
    let i ← getNat req "i"
    let s ← stmtOf (← getStr req "stmt")
    let n := conns.length
    let st : State := fun j => (conns[j]?).getD ⟨0, .none, false, false⟩
    let pr : Nat → Path := fun j => if j == i then [(s, false)] else []
    let (st', out) := callN n pr st i
    let o := match out with | .ok => "ok" | .waits => "waits" | .fails => "fails"
    pure (Json.mkObj [("ok", true), ("outcome", o), ("lock", lockName (st' i).lock), ("inTxn", (st' i).inTxn)])
  | "prog.check" => do
    let prog ← progOf 200 (← getObj req "prog")
    let traces ← (← getArr req "traces").toList.mapM fun t => do
      (← t.getArr?).toList.mapM fun k => do stmtOf (← k.getStr?)
    -- recorded traces contain SQL statements only: compare with the paths minus their `work` marks
    let ps := (paths prog).map fun p => (p.map (·.1)).filter (· != .work)
    pure (Json.mkObj [("ok", true), ("noUpgrade", noUpgrade prog), ("noWorkInsideTxn", noWorkInsideTxn prog), ("npaths", ps.length),
      ("member", Json.arr (traces.map fun t => Json.bool (ps.contains t)).toArray)])
  | o => throw s!"unknown-op {o}"

def main : IO Unit := serve handle
