"""C14 — simplification preserves the DAE's solutions.

Real code: `pymoca.backends.casadi.model.Model.simplify` on generated Modelica models (parsed and
generated in-process) that have a constructed unique solution: triangular systems with invertible
diagonal (constant assignments in five spellings, positive/negative aliases in several spellings,
alias chains, aliases to parameters/inputs/derivatives, affine definitions with parameter
coefficients, scaled and negated equations, parameter-scaled alias equations, eliminable
variables, bijective non-linear definitions), integer blocks with non-zero determinant, states with
differential and initial equations — under sampled subsets of all simplification options
(harness/gen/a10_simplify.py).

Direct oracle (independent of the Lean model): the constructed solution zeroes the simplified dae
and initial residual functions (exact: dyadic points); every recorded constant value and every
recorded alias with its sign holds in the constructed solution; for affine models the Jacobian of
the simplified residual in the remaining unknowns (exact, by evaluation differences) has full
column rank over the rationals, i.e. the simplified system has no other solution.  An exception or
an iteration-limit warning counts as "reports failure".

Correspondence: pass by pass.  For every enabled pass of `_simplify_once` (and every iteration of
the loop of `simplify`) the real model *before* the pass (obtained by running the real code with
the later passes switched off) is serialised — every equation as its real MX tree (op/dep/name) —
and given to the Lean model's function for that pass (driver `drv_c14`); the outcome is compared
with the real model *after* the pass: variable lists (compared as sets: no property fixes their order), `aliases` flags, the alias
relation (canonical variables, classes, signs), number of kept equations, values of parameters and
constants, and the values of the equations and initial equations (as multisets) and of the delay arguments at exact random
points (evaluated by the Lean `Ex.eval`).  The passes that are CasADi's own work (vector expansion
of scalar models, the SX round trip) are checked to be value preserving; `substitute(...).is_zero()`
answers used by the alias detection are observed on the real MX and handed to the model.
"""
from harness import corpus
from harness.gen import a10_simplify as S

PROP = "C14"
DRIVERS = ["drv_c14"]
RULE = ("one case = one generated model (3-8 algebraic unknowns, 0-2 states, 1-5 parameters incl. parameter expressions, "
        "1-2 constants, 0-2 inputs; equation and declaration order shuffled) with one sampled option set over the 14 "
        "simplification options; streams: main (affine), nonlinear (bijective non-linear definitions, if-equations), contradiction "
        "(x = y with x = -y), iter (aliases that appear in the second iteration), delay (delayed expression over eliminated "
        "variables), aliaschain (trees of 3-6 alias equations mixing alg-alg links with links to a protected variable, planted orders); non-trivial = the real simplify changed a "
        "variable list or the number of equations; distinct = distinct (model text, option set)")
TRUSTED = ["CasADi: `ca.substitute`, `Function.expand`, evaluation of MX functions at exactly representable points; its "
           "on-the-fly rewriting and `is_zero` are observed on every run, not modelled (the Lean theorems quantify over every "
           "value-preserving engine)",
           "the option-prefix method: `_simplify_once` with the later options switched off stops exactly before the pass under test",
           "Python's `re` for `eliminable_variable_expression` (the model receives the list of matching names)"]
ASSUMPTIONS = ["scalar models (vector expansion is property C18); non-finite constants do not occur in equations",
               "elimination of a differentiated state through eliminable_variable_expression is outside the model (generator: algebraic variables only)",
               "reduce_affine_expression is modelled row by row (`reduceAffine`, Jacobian = symbolic derivative); the model's rows are "
               "compared with the real collapsed residual functions at exact points",
               "the generic alias test is sound only for equations that determine the tested symbol (affine with non-zero coefficient / bijective): "
               "the property's own precondition, hypothesis `GzOk`/`InjIn` of the theorems"]


def run(ctx):
    drv = ctx.driver(DRIVERS[0])
    for c in corpus.load(PROP):
        ctx.count("corpus")
        S.check_case(ctx, PROP, c["case"] if "case" in c else c, drv, S.tie_case)
    for case in S.gen_cases(ctx, PROP):
        if ctx.time_left() < 0:
            ctx.notes.append("stopped by the time budget after %d cases" % ctx.evaluations)
            break
        S.check_case(ctx, PROP, case, drv, S.tie_case)
    ctx.extra["exhaustive"] = False


def replay(ctx, payload):
    S.check_case(ctx, PROP, payload["case"], ctx.driver(DRIVERS[0]), S.tie_case)


MANIFEST = dict(
    level_text="Lean 4 theorems about an executable model of every pass of Model._simplify_once and of the loop of simplify "
               "(expression trees over an arbitrary field): substitution lemma; soundness of every pass and of the whole pipeline for "
               "all option sets and iteration counts (every original solution solves the simplified model; recorded constants and "
               "alias signs hold); completeness of every pass (a solution of the result extends to a solution of the input that "
               "differs only on the removed names) including the substitution fixpoints (every round commutes with the original "
               "bindings) and the alias detection (from the invariant of AliasRelation that `_make_alias` preserves), composed over "
               "the pass list; under the preconditions the property names (non-zero constant factors, equations that determine the "
               "aliased symbol). Tied to the real code on every run by a pass-by-pass differential correspondence on the serialised "
               "real MX and by a direct solution/rank oracle on generated models with a constructed unique solution.",
    level_note="Trusted: Lean kernel + standard axioms; the harness; CasADi's rewriting and is_zero are observed, not modelled "
               "(theorems hold for every value-preserving engine). Completeness of a later alias pass under iterative_simplification "
               "(non-empty alias relation), vector expansion and the SX round trip are covered by the correspondence / direct oracle "
               "only; the affine collapse is modelled row by row (symbolic derivative for CasADi's Jacobian) and proved exact on the "
               "affine fragment.",
    technique="Lean 4 proof (induction over passes/iterations, substitution refinement, union-find invariant) + pass-by-pass "
              "model/implementation correspondence + direct solution oracle",
)
READY = True
