"""Reference results from a clean process (agent A04, used by C05 and C06).

"The same request on a fresh parse" must not see anything earlier requests left behind — neither
in the tree nor anywhere else in the process (module-level lists, counters, caches).  The
reference side of every comparison is therefore computed in a separate interpreter
(`python -m harness.gen.a04_worker`) that never sees the requests of the process under test, and
that puts its own pymoca modules back into the state they had right after import before every
single reference computation: module-level and class-level ints/strings/lists/dicts/sets are
restored from a snapshot taken after import, weak dictionaries are emptied, every
`functools` cache found on module-level functions and on methods is cleared.  (One forked child per
reference would be cleaner still; a fork costs 0.3-1.3 s in this sandbox.)

Protocol: length-prefixed pickles on the worker's stdin/stdout (the worker's own stdout/stderr go
to /dev/null).
"""
import json
import os
import pickle
import struct
import subprocess
import sys

VERIF = os.path.dirname(os.path.dirname(os.path.dirname(os.path.abspath(__file__))))


def _read(f):
    h = f.read(4)
    if len(h) < 4:
        return None
    n = struct.unpack("<I", h)[0]
    data = b""
    while len(data) < n:
        chunk = f.read(n - len(data))
        if not chunk:
            return None
        data += chunk
    return data


def _write(f, data):
    f.write(struct.pack("<I", len(data)) + data)
    f.flush()


class Fresh:
    """Parent side."""

    def __init__(self):
        env = dict(os.environ, A04_SYSPATH=json.dumps(sys.path))
        self.p = subprocess.Popen([sys.executable, "-m", "harness.gen.a04_worker"], cwd=VERIF, env=env,
                                  stdin=subprocess.PIPE, stdout=subprocess.PIPE)
        self.n = 0

    def ask(self, req):
        from harness.common import HarnessError
        self.n += 1
        try:
            _write(self.p.stdin, pickle.dumps(req))
            data = _read(self.p.stdout)
        except (BrokenPipeError, OSError):
            data = None
        if data is None:
            raise HarnessError("reference worker died on %r" % (str(req)[:300],))
        r = pickle.loads(data)
        if isinstance(r, dict) and r.get("__worker_error__"):
            raise HarnessError("reference worker: " + r["__worker_error__"])
        return r

    def close(self):
        try:
            self.p.stdin.close()
            self.p.wait(timeout=5)
        except Exception:
            self.p.kill()


_fresh = None


def fresh():
    global _fresh
    if _fresh is None or _fresh.p.poll() is not None:
        _fresh = Fresh()
    return _fresh


# ---- worker side ----------------------------------------------------------------------------------
class _Ctx:
    def __init__(self, scratch):
        self.scratch = scratch


_SNAP = []      # (namespace dict-like owner, name, kind, saved value)
_SIMPLE = (int, float, str, bool, type(None), tuple, frozenset)


def _owners():
    import types
    mods = [m for n, m in sorted(sys.modules.items())
            if m is not None and (n == "pymoca" or n.startswith("pymoca.") or n == "tools.compiler")
            and "generated" not in n]
    for m in mods:
        yield m
        for v in list(vars(m).values()):
            if isinstance(v, type) and getattr(v, "__module__", None) == m.__name__:
                yield v
    del types


def _snapshot():
    import collections
    import copy
    for o in _owners():
        for name, v in list(vars(o).items()):
            if name.startswith("__") and name.endswith("__"):
                continue
            if isinstance(v, _SIMPLE):
                _SNAP.append((o, name, "simple", v))
            elif isinstance(v, (list, dict, set, collections.deque)):
                try:
                    _SNAP.append((o, name, "container", copy.deepcopy(v)))
                except Exception:
                    pass


def _reset():
    """back to the state right after import"""
    import copy
    import weakref
    for (o, name, kind, saved) in _SNAP:
        if kind == "simple":
            try:
                if vars(o).get(name, None) is not saved and vars(o).get(name) != saved or name not in vars(o):
                    setattr(o, name, saved)
            except Exception:
                pass
        else:
            cur = vars(o).get(name)
            try:
                if type(cur) is type(saved):
                    if cur != saved:
                        cur.clear()
                        if isinstance(cur, list):
                            cur.extend(copy.deepcopy(saved))
                        else:
                            cur.update(copy.deepcopy(saved))
                else:
                    setattr(o, name, copy.deepcopy(saved))
            except Exception:
                pass
    known = set((id(o), name) for (o, name, _, _) in _SNAP)
    for o in _owners():
        for name, v in list(vars(o).items()):
            if name.startswith("__") and name.endswith("__"):
                continue
            f = v.__func__ if isinstance(v, (staticmethod, classmethod)) else v
            if hasattr(f, "cache_clear"):
                try:
                    f.cache_clear()
                except Exception:
                    pass
            elif isinstance(v, (weakref.WeakKeyDictionary, weakref.WeakValueDictionary, weakref.WeakSet)):
                v.clear()
            elif (id(o), name) not in known and isinstance(v, (int, float, list, dict, set)) and not isinstance(v, bool) \
                    and not isinstance(o, type):
                # module-level state that did not exist after import (created lazily by a request)
                try:
                    delattr(o, name)
                except Exception:
                    pass


def _handle(req, blobs):
    from harness.gen import a04
    from harness.props import c05, c06
    c05.quiet_logs()
    k = req["k"]
    if k == "parse":
        t = a04.outcome(lambda: c05.parse(req["text"]))
        if t[0] != "ok" or t[1] is None:
            return None
        return pickle.dumps(t[1], protocol=pickle.HIGHEST_PROTOCOL)
    if k == "c05":
        return c05.do_request(pickle.loads(blobs[req["text"]]), req["op"], req["path"])
    if k == "c06":
        return c06.flatten_outcome(pickle.loads(blobs[req["text"]]), req["path"], req["via"])
    if k == "transfer":
        return c05.api_run(req["scratch"], req["files"], req["calls"], req["tag"])
    if k == "cli":
        return c05.cli_run(_Ctx(req["scratch"]), req["text"], req["models"], req["target"], req["tag"], req.get("files"))
    raise ValueError("bad request " + str(k))


def _clean(fn):
    _reset()
    try:
        return fn()
    except BaseException as e:  # noqa: B902
        return {"__worker_error__": "%s: %s" % (type(e).__name__, str(e)[:500])}


def main():
    sys.path[:] = json.loads(os.environ["A04_SYSPATH"])
    out = os.fdopen(os.dup(1), "wb")
    inp = os.fdopen(os.dup(0), "rb")
    devnull = os.open(os.devnull, os.O_RDWR)
    os.dup2(devnull, 1)
    os.dup2(devnull, 2)
    os.dup2(devnull, 0)
    import pymoca.ast  # noqa: F401
    import pymoca.parser  # noqa: F401
    import pymoca.tree  # noqa: F401
    import pymoca.backends.casadi.generator  # noqa: F401
    import pymoca.backends.casadi.api  # noqa: F401
    import pymoca.backends.sympy.generator  # noqa: F401
    import pymoca.backends.xml.generator  # noqa: F401
    import tools.compiler  # noqa: F401
    from harness.gen import a04  # noqa: F401
    from harness.props import c05, c06  # noqa: F401
    _snapshot()
    blobs = {}
    while True:
        data = _read(inp)
        if data is None:
            break
        req = pickle.loads(data)
        if req.get("k") in ("c05", "c06") and req["text"] not in blobs:
            blobs[req["text"]] = _clean(lambda: _handle({"k": "parse", "text": req["text"]}, blobs))
            if len(blobs) > 40:
                blobs.pop(next(iter(blobs)))
        if req.get("k") in ("c05", "c06") and (blobs.get(req["text"]) is None or isinstance(blobs.get(req["text"]), dict)):
            res = ("exc", "does-not-parse")
        else:
            res = _clean(lambda: _handle(req, blobs))
        _write(out, pickle.dumps(res))


if __name__ == "__main__":
    main()
