import PymocaVerif.Lemmas.SimplifyBase
/-!
# Simplify: the class structure of the alias relation (invariant of `AliasRelation.add`, counting)
Helper lemmas for C14/C15.  Self-contained (does not use `Lemmas/AliasRel.lean` of C17): the
invariant here is list-level (members of a class share *the same* list; the class of `-x` is the
image of the class of `x`), which is what the model computes and what the counting needs.
-/
set_option linter.unusedSectionVars false
set_option linter.unusedSimpArgs false
namespace PymocaVerif.Simplify
open PymocaVerif.AliasRel

/-! ## the class structure of the alias relation -/

@[simp] theorem tog_tog' (v : SName) : tog (tog v) = v := by
  obtain ⟨s, n⟩ := v; cases s <;> rfl

theorem tog_ne' (v : SName) : tog v ≠ v := by
  obtain ⟨s, n⟩ := v; cases s <;> simp [tog]

theorem tog_inj' {u v : SName} (h : tog u = tog v) : u = v := by
  have := congrArg tog h; simpa using this

theorem mem_map_tog {A : List SName} {x : SName} : x ∈ A.map tog ↔ tog x ∈ A := by
  constructor
  · intro h
    obtain ⟨y, hy, rfl⟩ := List.mem_map.1 h
    simpa using hy
  · intro h
    exact List.mem_map.2 ⟨tog x, h, by simp⟩

/-- the invariant of `AliasRelation`: classes are shared lists closed under negation, every class
    of more than one name has one canonical member recorded for all its members, and
    `canonical_variables` lists exactly the canonical names -/
structure WF (s : AR) : Prop where
  self : ∀ x A, s.al x = some A → x ∈ A
  shared : ∀ x A y, s.al x = some A → y ∈ A → s.al y = some A
  neg : ∀ x A, s.al x = some A → s.al (tog x) = some (A.map tog)
  nodup : ∀ x A, s.al x = some A → A.Nodup
  noself : ∀ x A, s.al x = some A → tog x ∉ A
  cm_some : ∀ x A, s.al x = some A → ∃ c, s.cmap x = some c ∧ (c.2, c.1) ∈ A
  cm_none : ∀ x, s.al x = none → s.cmap x = none
  cm_class : ∀ x A y, s.al x = some A → y ∈ A → s.cmap y = s.cmap x
  cm_neg : ∀ x c, s.cmap x = some c → s.cmap (tog x) = some (c.1, !c.2)
  cv_nodup : s.cv.Nodup
  cv_iff : ∀ c, c ∈ s.cv ↔ s.cmap (false, c) = some (c, false)

theorem wf_empty : WF AR.empty := by
  constructor <;> simp [AR.empty]

namespace WF
variable {s : AR} (h : WF s)
include h

theorem aliases_self (x : SName) : x ∈ s.aliases x := by
  unfold AR.aliases
  cases hx : s.al x with
  | none => simp
  | some A => simpa using h.self x A hx

theorem aliases_tog (x : SName) : s.aliases (tog x) = (s.aliases x).map tog := by
  unfold AR.aliases
  cases hx : s.al x with
  | none =>
    cases hnx : s.al (tog x) with
    | none => simp
    | some B =>
      have := h.neg (tog x) B hnx
      simp [hx] at this
  | some A => simp [h.neg x A hx]

theorem aliases_shared {x y : SName} (hy : y ∈ s.aliases x) : s.aliases y = s.aliases x := by
  unfold AR.aliases at hy ⊢
  cases hx : s.al x with
  | none =>
    simp [hx] at hy; subst hy; simp [hx]
  | some A =>
    simp [hx] at hy
    simp [h.shared x A y hx hy]

theorem aliases_nodup (x : SName) : (s.aliases x).Nodup := by
  unfold AR.aliases
  cases hx : s.al x with
  | none => simp
  | some A => simpa using h.nodup x A hx

theorem aliases_noself (x : SName) : tog x ∉ s.aliases x := by
  unfold AR.aliases
  cases hx : s.al x with
  | none => simp; exact tog_ne' x
  | some A => simpa using h.noself x A hx

/-- no class contains a name together with its negation -/
theorem no_both {x y : SName} (hy : y ∈ s.aliases x) : tog y ∉ s.aliases x := by
  intro ht
  have e1 := h.aliases_shared hy
  rw [← e1] at ht
  exact h.aliases_noself y ht

theorem aliases_symm {x y : SName} (hy : y ∈ s.aliases x) : x ∈ s.aliases y := by
  rw [h.aliases_shared hy]; exact h.aliases_self x

/-- the canonical member (with its sign) of the class of `x` -/
theorem canon_mem (x : SName) : ((s.canonicalSigned x).2, (s.canonicalSigned x).1) ∈ s.aliases x := by
  unfold AR.canonicalSigned AR.aliases
  cases hx : s.al x with
  | none => simp [h.cm_none x hx]
  | some A =>
    obtain ⟨c, hc, hm⟩ := h.cm_some x A hx
    simpa [hc] using hm

theorem canon_class {x y : SName} (hy : y ∈ s.aliases x) : s.canonicalSigned y = s.canonicalSigned x := by
  unfold AR.aliases at hy
  unfold AR.canonicalSigned
  cases hx : s.al x with
  | none => simp [hx] at hy; subst hy; rfl
  | some A =>
    simp [hx] at hy
    rw [h.cm_class x A y hx hy]
    obtain ⟨c, hc, _⟩ := h.cm_some x A hx
    simp [hc]

theorem canon_tog (x : SName) : s.canonicalSigned (tog x) = ((s.canonicalSigned x).1, !(s.canonicalSigned x).2) := by
  unfold AR.canonicalSigned
  cases hx : s.cmap x with
  | none =>
    cases hnx : s.cmap (tog x) with
    | none => simp [tog]
    | some c =>
      have := h.cm_neg (tog x) c hnx
      simp [hx] at this
  | some c => simp [h.cm_neg x c hx]

end WF

/-- the result of an `add` that does not return early -/
theorem add_eq {s s' : AR} {a b : SName} (hb : b ∉ s.aliases a) (hs : s.add a b = some s') :
    s' = { al := fun k => if k ∈ s.aliases a ++ s.aliases b then some (s.aliases a ++ s.aliases b)
                          else if tog k ∈ s.aliases a ++ s.aliases b then some (s.aliases (tog a) ++ s.aliases (tog b))
                          else s.al k,
           cmap := fun k => if tog k ∈ s.aliases a ++ s.aliases b then some (flipIf true (s.canonicalSigned a))
                            else if k ∈ s.aliases a ++ s.aliases b then some (s.canonicalSigned a) else s.cmap k,
           cv := (if (s.canonicalSigned a).1 ∈ s.cv then s.cv else s.cv ++ [(s.canonicalSigned a).1]).filter
                   (· != (s.canonicalSigned b).1) } := by
  unfold AR.add at hs
  simp only [hb, if_false, Option.some.injEq] at hs
  exact hs.symm

section add
variable {s : AR} (h : WF s) {a b : SName} (hb : b ∉ s.aliases a) (hadm : b ∉ s.aliases (tog a))
include h hb hadm

theorem add_disjoint {y : SName} (h1 : y ∈ s.aliases a) (h2 : y ∈ s.aliases b) : False := by
  have e1 := h.aliases_shared h1
  have e2 := h.aliases_shared h2
  apply hb
  rw [← e1, e2]; exact h.aliases_self b

theorem add_P2 {k : SName} (hk : k ∈ s.aliases a ++ s.aliases b) : tog k ∉ s.aliases a ++ s.aliases b := by
  intro ht
  rcases List.mem_append.1 hk with hk | hk <;> rcases List.mem_append.1 ht with ht | ht
  · exact h.no_both hk ht
  · -- k ~ a, -k ~ b
    have e1 : s.aliases (tog k) = s.aliases b := h.aliases_shared ht
    have : tog k ∈ s.aliases (tog a) := by rw [h.aliases_tog a]; exact List.mem_map_of_mem hk
    have e2 : s.aliases (tog k) = s.aliases (tog a) := h.aliases_shared this
    apply hadm; rw [← e2, e1]; exact h.aliases_self b
  · -- k ~ b, -k ~ a
    have e1 : s.aliases k = s.aliases b := h.aliases_shared hk
    have : k ∈ s.aliases (tog a) := by
      rw [h.aliases_tog a]; exact mem_map_tog.2 ht
    have e2 : s.aliases k = s.aliases (tog a) := h.aliases_shared this
    apply hadm; rw [← e2, e1]; exact h.aliases_self b
  · exact h.no_both hk ht

theorem add_I_eq : s.aliases (tog a) ++ s.aliases (tog b) = (s.aliases a ++ s.aliases b).map tog := by
  rw [h.aliases_tog a, h.aliases_tog b, List.map_append]

/-- a class that does not meet the joined classes is not touched -/
theorem add_P5 {k : SName} {A : List SName} (hk : k ∉ s.aliases a ++ s.aliases b) (hk' : tog k ∉ s.aliases a ++ s.aliases b)
    (hA : s.al k = some A) {y : SName} (hy : y ∈ A) :
    y ∉ s.aliases a ++ s.aliases b ∧ tog y ∉ s.aliases a ++ s.aliases b := by
  have hyk : y ∈ s.aliases k := by simp [AR.aliases, hA, hy]
  have e1 : s.aliases y = s.aliases k := h.aliases_shared hyk
  constructor
  · intro hin
    apply hk
    rcases List.mem_append.1 hin with hin | hin
    · have e2 := h.aliases_shared hin
      exact List.mem_append_left _ (by rw [← e2, e1]; exact h.aliases_self k)
    · have e2 := h.aliases_shared hin
      exact List.mem_append_right _ (by rw [← e2, e1]; exact h.aliases_self k)
  · intro hin
    apply hk'
    have hty : tog y ∈ s.aliases (tog k) := by rw [h.aliases_tog k]; exact List.mem_map_of_mem hyk
    have e3 : s.aliases (tog y) = s.aliases (tog k) := h.aliases_shared hty
    rcases List.mem_append.1 hin with hin | hin
    · have e2 := h.aliases_shared hin
      exact List.mem_append_left _ (by rw [← e2, e3]; exact h.aliases_self (tog k))
    · have e2 := h.aliases_shared hin
      exact List.mem_append_right _ (by rw [← e2, e3]; exact h.aliases_self (tog k))

theorem add_nodup : (s.aliases a ++ s.aliases b).Nodup := by
  rw [List.nodup_append]
  refine ⟨h.aliases_nodup a, h.aliases_nodup b, ?_⟩
  intro x hx y hy hxy
  subst hxy
  exact add_disjoint h hb hadm hx hy

theorem add_canon_ne : (s.canonicalSigned a).1 ≠ (s.canonicalSigned b).1 := by
  intro he
  have ha := h.canon_mem a
  have hb' := h.canon_mem b
  by_cases hs : (s.canonicalSigned a).2 = (s.canonicalSigned b).2
  · rw [he, hs] at ha
    exact add_disjoint h hb hadm ha hb'
  · have : ((s.canonicalSigned b).2, (s.canonicalSigned b).1) = tog ((s.canonicalSigned a).2, (s.canonicalSigned a).1) := by
      rw [← he]
      cases h1 : (s.canonicalSigned a).2 <;> cases h2 : (s.canonicalSigned b).2 <;> simp_all [tog]
    rw [this] at hb'
    exact add_P2 h hb hadm (List.mem_append_left _ ha) (List.mem_append_right _ hb')

end add

theorem nodup_map_tog : ∀ (l : List SName), l.Nodup → (l.map tog).Nodup
  | [], _ => by simp
  | x :: xs, h => by
    simp only [List.nodup_cons, List.map_cons] at h ⊢
    refine ⟨?_, nodup_map_tog xs h.2⟩
    intro hin
    exact h.1 (by simpa using mem_map_tog.1 hin)

theorem flipIf_true (p : String × Bool) : flipIf true p = (p.1, !p.2) := by
  simp [flipIf]

/-- an `add` that joins two unrelated classes keeps the invariant -/
theorem WF.add_wf {s s' : AR} (h : WF s) {a b : SName} (hb : b ∉ s.aliases a) (hadm : b ∉ s.aliases (tog a))
    (hs : s.add a b = some s') : WF s' := by
  have hP2 := @add_P2 s h a b hb hadm
  have hI := add_I_eq h hb hadm
  have hP5 := @add_P5 s h a b hb hadm
  have hnd := add_nodup h hb hadm
  have hne := add_canon_ne h hb hadm
  have hca : ((s.canonicalSigned a).2, (s.canonicalSigned a).1) ∈ s.aliases a ++ s.aliases b :=
    List.mem_append_left _ (h.canon_mem a)
  have hcb : ((s.canonicalSigned b).2, (s.canonicalSigned b).1) ∈ s.aliases a ++ s.aliases b :=
    List.mem_append_right _ (h.canon_mem b)
  rw [add_eq hb hs]
  generalize hA' : s.aliases a ++ s.aliases b = A' at *
  rw [hI]
  refine ⟨?_, ?_, ?_, ?_, ?_, ?_, ?_, ?_, ?_, ?_, ?_⟩
  · -- self
    intro x B hx
    simp only at hx
    split at hx
    · simp at hx; subst hx; assumption
    · split at hx
      · simp at hx; subst hx; exact mem_map_tog.2 (by assumption)
      · exact h.self x B hx
  · -- shared
    intro x B y hx hy
    simp only at hx ⊢
    split at hx
    · simp at hx; subst hx; simp [hy]
    · split at hx
      · rename_i hx1 hx2
        simp at hx; subst hx
        have hty : tog y ∈ A' := mem_map_tog.1 hy
        have hny : y ∉ A' := fun hin => hP2 hin hty
        simp [hny, hty]
      · rename_i hx1 hx2
        have := hP5 hx1 hx2 hx hy
        simp [this.1, this.2]
        exact h.shared x B y hx hy
  · -- neg
    intro x B hx
    simp only at hx ⊢
    split at hx
    · rename_i hx1
      simp at hx; subst hx
      have := hP2 hx1
      simp [this, hx1]
    · split at hx
      · rename_i hx1 hx2
        simp at hx; subst hx
        simp [hx2, List.map_map, Function.comp_def]
      · rename_i hx1 hx2
        simp [hx2, hx1]
        exact h.neg x B hx
  · -- nodup
    intro x B hx
    simp only at hx
    split at hx
    · simp at hx; subst hx; exact hnd
    · split at hx
      · simp at hx; subst hx
        exact nodup_map_tog _ hnd
      · exact h.nodup x B hx
  · -- noself
    intro x B hx
    simp only at hx
    split at hx
    · rename_i hx1
      simp at hx; subst hx; exact hP2 hx1
    · split at hx
      · rename_i hx1 hx2
        simp at hx; subst hx
        intro hin
        exact hx1 (by simpa using mem_map_tog.1 hin)
      · exact h.noself x B hx
  · -- cm_some
    intro x B hx
    simp only at hx ⊢
    split at hx
    · rename_i hx1
      simp at hx; subst hx
      have := hP2 hx1
      simp [this, hx1]
      exact hca
    · split at hx
      · rename_i hx1 hx2
        simp at hx; subst hx
        simp only [hx2, if_true, flipIf_true]
        refine ⟨_, rfl, ?_⟩
        apply mem_map_tog.2
        have : tog (!(s.canonicalSigned a).2, (s.canonicalSigned a).1) = ((s.canonicalSigned a).2, (s.canonicalSigned a).1) := by
          simp [tog]
        rw [this]; exact hca
      · rename_i hx1 hx2
        simp only [hx2, hx1, if_false]
        exact h.cm_some x B hx
  · -- cm_none
    intro x hx
    simp only at hx ⊢
    split at hx
    · simp at hx
    · split at hx
      · simp at hx
      · rename_i hx1 hx2
        simp only [hx2, hx1, if_false]
        exact h.cm_none x hx
  · -- cm_class
    intro x B y hx hy
    simp only at hx ⊢
    split at hx
    · rename_i hx1
      simp at hx; subst hx
      simp [hP2 hx1, hP2 hy, hx1, hy]
    · split at hx
      · rename_i hx1 hx2
        simp at hx; subst hx
        have hty : tog y ∈ A' := mem_map_tog.1 hy
        simp [hty, hx2]
      · rename_i hx1 hx2
        have := hP5 hx1 hx2 hx hy
        simp only [this.1, this.2, hx1, hx2, if_false]
        exact h.cm_class x B y hx hy
  · -- cm_neg
    intro x c hx
    simp only at hx ⊢
    split at hx
    · rename_i hx2
      simp at hx; subst hx
      have hnx : x ∉ A' := fun hin => hP2 hin hx2
      simp [hnx, hx2, flipIf_true]
    · split at hx
      · rename_i hx2 hx1
        simp at hx; subst hx
        simp [hx1, flipIf_true]
      · rename_i hx2 hx1
        simp only [tog_tog', hx1, hx2, if_false]
        exact h.cm_neg x c hx
  · -- cv_nodup
    apply List.Nodup.sublist List.filter_sublist
    split
    · exact h.cv_nodup
    · rename_i hnin
      rw [List.nodup_append]
      refine ⟨h.cv_nodup, by simp, ?_⟩
      intro x hx y hy hxy
      simp at hy; subst hy; subst hxy
      exact hnin hx
  · -- cv_iff
    intro c
    have hlist : ∀ n, n ∈ (if (s.canonicalSigned a).1 ∈ s.cv then s.cv else s.cv ++ [(s.canonicalSigned a).1]) ↔
        (n ∈ s.cv ∨ n = (s.canonicalSigned a).1) := by
      intro n
      split
      · rename_i hin
        constructor
        · exact Or.inl
        · rintro (h1 | rfl); exact h1; exact hin
      · simp
    simp only [List.mem_filter, hlist, bne_iff_ne, ne_eq]
    -- classification of (false, c) with respect to the joined class
    have F1 : c ∈ s.cv → c ≠ (s.canonicalSigned a).1 → c ≠ (s.canonicalSigned b).1 →
        (false, c) ∉ A' ∧ tog (false, c) ∉ A' := by
      intro hc hna hnb
      have hcm := (h.cv_iff c).1 hc
      have hcs : s.canonicalSigned (false, c) = (c, false) := by simp [AR.canonicalSigned, hcm]
      have hcs' : s.canonicalSigned (tog (false, c)) = (c, true) := by rw [h.canon_tog, hcs]; rfl
      subst hA'
      constructor
      · intro hin
        rcases List.mem_append.1 hin with hin | hin
        · have := h.canon_class hin; rw [hcs] at this; exact hna (by rw [← this])
        · have := h.canon_class hin; rw [hcs] at this; exact hnb (by rw [← this])
      · intro hin
        rcases List.mem_append.1 hin with hin | hin
        · have := h.canon_class hin; rw [hcs'] at this; exact hna (by rw [← this])
        · have := h.canon_class hin; rw [hcs'] at this; exact hnb (by rw [← this])
    constructor
    · rintro ⟨hc, hncb⟩
      by_cases hca1 : c = (s.canonicalSigned a).1
      · subst hca1
        cases hsg : (s.canonicalSigned a).2 with
        | false =>
          rw [hsg] at hca
          have hnt : tog (false, (s.canonicalSigned a).1) ∉ A' := hP2 hca
          simp only [hnt, hca, if_true, if_false]
          congr 1
          exact Prod.ext rfl hsg
        | true =>
          rw [hsg] at hca
          have ht : tog (false, (s.canonicalSigned a).1) ∈ A' := by simpa [tog] using hca
          simp only [ht, if_true, flipIf_true, hsg]
          rfl
      · have hcv : c ∈ s.cv := by
          rcases hc with h1 | h1
          · exact h1
          · exact absurd h1 hca1
        have := F1 hcv hca1 hncb
        simp only [this.1, this.2, if_false]
        exact (h.cv_iff c).1 hcv
    · intro hcm
      split at hcm
      · simp only [flipIf_true, Option.some.injEq, Prod.mk.injEq] at hcm
        exact ⟨Or.inr hcm.1.symm, by rw [← hcm.1]; exact hne⟩
      · split at hcm
        · simp only [Option.some.injEq] at hcm
          have : (s.canonicalSigned a).1 = c := by rw [hcm]
          exact ⟨Or.inr this.symm, by rw [← this]; exact hne⟩
        · rename_i hk2 hk1
          have hcv := (h.cv_iff c).2 hcm
          refine ⟨Or.inl hcv, ?_⟩
          intro hcb1
          subst hcb1
          cases hsg : (s.canonicalSigned b).2 with
          | false => rw [hsg] at hcb; exact hk1 hcb
          | true => rw [hsg] at hcb; exact hk2 (by simpa [tog] using hcb)

/-! ## counting: one more eliminated name per effective `add` -/

/-- the number of names `for canonical, aliases in alias_relation` walks over -/
def elimCount (s : AR) : Nat := (s.cv.map fun c => (s.aliases (false, c)).length - 1).sum

theorem sum_filter_ne (f : String → Nat) : ∀ (L : List String) (x : String), L.Nodup →
    (L.map f).sum = (if x ∈ L then f x else 0) + ((L.filter (· != x)).map f).sum
  | [], x, _ => by simp
  | y :: ys, x, hnd => by
    simp only [List.nodup_cons] at hnd
    have ih := sum_filter_ne f ys x hnd.2
    by_cases hyx : y = x
    · subst hyx
      have hnot : y ∉ ys := hnd.1
      have : ys.filter (· != y) = ys := by
        rw [List.filter_eq_self]; intro z hz
        have : z ≠ y := fun e => hnot (e ▸ hz)
        simpa using this
      simp [List.filter_cons, this]
    · have h1 : (y != x) = true := by simpa using hyx
      have h2 : (x ∈ y :: ys) ↔ x ∈ ys := by
        simp only [List.mem_cons]
        constructor
        · rintro (e | e); exact absurd e.symm hyx; exact e
        · exact Or.inr
      simp only [List.map_cons, List.sum_cons, List.filter_cons, h1, if_true, h2]
      rw [ih]; omega

/-- the class of the canonical name has the size of the class, and a class whose canonical name is
    not listed is a singleton -/
theorem WF.len_canon {s : AR} (h : WF s) (a : SName) :
    ((s.canonicalSigned a).1 ∈ s.cv → (s.aliases (false, (s.canonicalSigned a).1)).length = (s.aliases a).length) ∧
    ((s.canonicalSigned a).1 ∉ s.cv → (s.aliases a).length = 1) := by
  have hm := h.canon_mem a
  constructor
  · intro _
    cases hsg : (s.canonicalSigned a).2 with
    | false =>
      rw [hsg] at hm
      rw [h.aliases_shared hm]
    | true =>
      rw [hsg] at hm
      have e1 := h.aliases_shared hm
      have e2 := h.aliases_tog (true, (s.canonicalSigned a).1)
      have : tog (true, (s.canonicalSigned a).1) = (false, (s.canonicalSigned a).1) := rfl
      rw [this] at e2
      rw [e2, e1, List.length_map]
  · intro hnot
    cases hal : s.al a with
    | none => simp [AR.aliases, hal]
    | some A =>
      exfalso
      apply hnot
      rw [h.cv_iff]
      have hcl := h.canon_class hm
      obtain ⟨c, hc, _⟩ := h.cm_some a A hal
      have hcs : s.canonicalSigned a = c := by simp [AR.canonicalSigned, hc]
      cases hsg : (s.canonicalSigned a).2 with
      | false =>
        rw [hsg] at hcl hm
        -- cmap (false, c.1) = cmap a
        have hmA : (false, (s.canonicalSigned a).1) ∈ A := by simpa [AR.aliases, hal] using hm
        rw [h.cm_class a A _ hal hmA, hc, ← hcs]
        exact congrArg some (Prod.ext rfl hsg)
      | true =>
        rw [hsg] at hm
        have hmA : (true, (s.canonicalSigned a).1) ∈ A := by simpa [AR.aliases, hal] using hm
        have e1 : s.cmap (true, (s.canonicalSigned a).1) = some c := by rw [h.cm_class a A _ hal hmA, hc]
        have e2 := h.cm_neg _ _ e1
        have : tog (true, (s.canonicalSigned a).1) = (false, (s.canonicalSigned a).1) := rfl
        rw [this] at e2
        rw [e2, ← hcs, hsg]; rfl

theorem aliases_mk (al : SName → Option (List SName)) (cm : SName → Option (String × Bool)) (cv : List String) (x : SName) :
    AR.aliases ⟨al, cm, cv⟩ x = (al x).getD [x] := rfl

theorem canonicalSigned_mk (al : SName → Option (List SName)) (cm : SName → Option (String × Bool)) (cv : List String) (x : SName) :
    AR.canonicalSigned ⟨al, cm, cv⟩ x = (cm x).getD (x.2, x.1) := rfl

section addfacts
variable {s s' : AR} (h : WF s) {a b : SName} (hb : b ∉ s.aliases a) (hadm : b ∉ s.aliases (tog a))
  (hs : s.add a b = some s')
include h hb hadm hs

theorem add_aliases_in {x : SName} (hx : x ∈ s.aliases a ++ s.aliases b) :
    s'.aliases x = s.aliases a ++ s.aliases b := by
  rw [add_eq hb hs, aliases_mk]; simp only [hx, if_true, Option.getD_some]

theorem add_aliases_out {x : SName} (hx : x ∉ s.aliases a ++ s.aliases b) (hx' : tog x ∉ s.aliases a ++ s.aliases b) :
    s'.aliases x = s.aliases x := by
  rw [add_eq hb hs, aliases_mk]; simp only [hx, hx', if_false]; rfl

theorem add_canon_in {x : SName} (hx : x ∈ s.aliases a ++ s.aliases b) :
    s'.canonicalSigned x = s.canonicalSigned a := by
  have := add_P2 h hb hadm hx
  rw [add_eq hb hs, canonicalSigned_mk]; simp only [hx, this, if_true, if_false, Option.getD_some]

theorem add_cv_mem (n : String) : n ∈ s'.cv ↔ (n ∈ s.cv ∨ n = (s.canonicalSigned a).1) ∧ n ≠ (s.canonicalSigned b).1 := by
  rw [add_eq hb hs]
  simp only [List.mem_filter, bne_iff_ne, ne_eq]
  constructor
  · rintro ⟨h1, h2⟩
    refine ⟨?_, h2⟩
    split at h1
    · exact Or.inl h1
    · simpa using h1
  · rintro ⟨h1, h2⟩
    refine ⟨?_, h2⟩
    split
    · rename_i hin
      rcases h1 with h1 | rfl
      · exact h1
      · exact hin
    · simpa using h1

theorem add_F1 {c : String} (hc : c ∈ s.cv) (hna : c ≠ (s.canonicalSigned a).1) (hnb : c ≠ (s.canonicalSigned b).1) :
    (false, c) ∉ s.aliases a ++ s.aliases b ∧ tog (false, c) ∉ s.aliases a ++ s.aliases b := by
  have hcm := (h.cv_iff c).1 hc
  have hcs : s.canonicalSigned (false, c) = (c, false) := by simp [AR.canonicalSigned, hcm]
  have hcs' : s.canonicalSigned (tog (false, c)) = (c, true) := by rw [h.canon_tog, hcs]; rfl
  constructor
  · intro hin
    rcases List.mem_append.1 hin with hin | hin
    · have := h.canon_class hin; rw [hcs] at this; exact hna (by rw [← this])
    · have := h.canon_class hin; rw [hcs] at this; exact hnb (by rw [← this])
  · intro hin
    rcases List.mem_append.1 hin with hin | hin
    · have := h.canon_class hin; rw [hcs'] at this; exact hna (by rw [← this])
    · have := h.canon_class hin; rw [hcs'] at this; exact hnb (by rw [← this])

/-- classes only grow -/
theorem add_mono {x y : SName} (hy : y ∈ s.aliases x) : y ∈ s'.aliases x := by
  by_cases hx : x ∈ s.aliases a ++ s.aliases b
  · rw [add_aliases_in h hb hadm hs hx]
    rcases List.mem_append.1 hx with hx | hx
    · exact List.mem_append_left _ (by rw [← h.aliases_shared hx]; exact hy)
    · exact List.mem_append_right _ (by rw [← h.aliases_shared hx]; exact hy)
  · by_cases hx' : tog x ∈ s.aliases a ++ s.aliases b
    · have hI := add_I_eq h hb hadm
      have : s'.aliases x = (s.aliases a ++ s.aliases b).map tog := by
        rw [add_eq hb hs, aliases_mk]; simp only [hx, hx', if_true, if_false, Option.getD_some, hI]
      rw [this]
      apply mem_map_tog.2
      have hty : tog y ∈ s.aliases (tog x) := by rw [h.aliases_tog x]; exact List.mem_map_of_mem hy
      rcases List.mem_append.1 hx' with hx' | hx'
      · exact List.mem_append_left _ (by rw [← h.aliases_shared hx']; exact hty)
      · exact List.mem_append_right _ (by rw [← h.aliases_shared hx']; exact hty)
    · rw [add_aliases_out h hb hadm hs hx hx']; exact hy

theorem add_joined : b ∈ s'.aliases a := by
  rw [add_aliases_in h hb hadm hs (List.mem_append_left _ (h.aliases_self a))]
  exact List.mem_append_right _ (h.aliases_self b)

theorem elimCount_add : elimCount s' = elimCount s + 1 := by
  have h' : WF s' := h.add_wf hb hadm hs
  have hne := add_canon_ne h hb hadm
  have hla : 1 ≤ (s.aliases a).length := List.length_pos_of_mem (h.aliases_self a)
  have hlb : 1 ≤ (s.aliases b).length := List.length_pos_of_mem (h.aliases_self b)
  have hain : a ∈ s.aliases a ++ s.aliases b := List.mem_append_left _ (h.aliases_self a)
  have hca' : s'.canonicalSigned a = s.canonicalSigned a := add_canon_in h hb hadm hs hain
  have hcv_ca : (s.canonicalSigned a).1 ∈ s'.cv := (add_cv_mem h hb hadm hs _).2 ⟨Or.inr rfl, hne⟩
  -- value at the new canonical name
  have hnew : (s'.aliases (false, (s.canonicalSigned a).1)).length = (s.aliases a).length + (s.aliases b).length := by
    have := (h'.len_canon a).1 (by rw [hca']; exact hcv_ca)
    rw [hca'] at this
    rw [this, add_aliases_in h hb hadm hs hain, List.length_append]
  -- unchanged classes
  have hsame : ∀ c ∈ (s.cv.filter (· != (s.canonicalSigned b).1)).filter (· != (s.canonicalSigned a).1),
      (s'.aliases (false, c)).length - 1 = (s.aliases (false, c)).length - 1 := by
    intro c hc
    have h1 := List.mem_filter.1 hc
    have h2 := List.mem_filter.1 h1.1
    have := add_F1 h hb hadm hs h2.1 (by simpa using h1.2) (by simpa using h2.2)
    rw [add_aliases_out h hb hadm hs this.1 this.2]
  -- the list of the other canonical names
  have hrest : s'.cv.filter (· != (s.canonicalSigned a).1) =
      (s.cv.filter (· != (s.canonicalSigned b).1)).filter (· != (s.canonicalSigned a).1) := by
    rw [add_eq hb hs]
    simp only
    split
    · rfl
    · rw [List.filter_append, List.filter_append]
      have hcb : ((s.canonicalSigned a).1 != (s.canonicalSigned b).1) = true := by simpa using hne
      simp [List.filter_cons, hcb]
  unfold elimCount
  rw [sum_filter_ne _ s'.cv (s.canonicalSigned a).1 h'.cv_nodup, if_pos hcv_ca, hrest, List.map_congr_left hsame,
    sum_filter_ne (fun c => (s.aliases (false, c)).length - 1) s.cv (s.canonicalSigned b).1 h.cv_nodup,
    sum_filter_ne (fun c => (s.aliases (false, c)).length - 1) (s.cv.filter (· != (s.canonicalSigned b).1))
      (s.canonicalSigned a).1 (h.cv_nodup.sublist List.filter_sublist)]
  have hmem : (s.canonicalSigned a).1 ∈ s.cv.filter (· != (s.canonicalSigned b).1) ↔ (s.canonicalSigned a).1 ∈ s.cv := by
    simp [List.mem_filter, hne]
  have ha1 := h.len_canon a
  have hb1 := h.len_canon b
  by_cases hca : (s.canonicalSigned a).1 ∈ s.cv <;> by_cases hcb : (s.canonicalSigned b).1 ∈ s.cv
  · have e1 := ha1.1 hca; have e2 := hb1.1 hcb
    simp only [hmem, hca, hcb, if_true, hnew, e1, e2]; omega
  · have e1 := ha1.1 hca; have e2 := hb1.2 hcb
    simp only [hmem, hca, hcb, if_true, if_false, hnew, e1]; omega
  · have e1 := ha1.2 hca; have e2 := hb1.1 hcb
    simp only [hmem, hca, hcb, if_true, if_false, hnew, e2]; omega
  · have e1 := ha1.2 hca; have e2 := hb1.2 hcb
    simp only [hmem, hca, hcb, if_false, hnew]; omega

end addfacts

end PymocaVerif.Simplify
