"""Structured generator + renderer of Modelica class texts for C04 (owner: A03).

A case is a *source description* (plain JSON) of a stored definition:

  file   = {"classes": [{"final": bool, "cls": Class}]}
  Class  = {"kind", "partial", "encapsulated", "name", "comment", "first": [Elem], "sections": [Section],
            "annotation": None | [Arg]}
  Elem   = {"t": "comp", "flags": [...decoration...], "prefixes": [...], "type": [...], "cdims": None | [expr],
            "decls": [Decl]}
         | {"t": "ext", "path": [...], "args": None | [Arg], "ann": None | [Arg]}
         | {"t": "imp", "form": "qual" | "short" | "star" | "list", "path": [...], "short": str, "names": [...]}
         | {"t": "cls", "flags": [...], "cls": Class}
         | {"t": "short", "kind", "name", "base_prefix": [...], "path": [...], "args": None | [Arg], "comment"}
  Decl   = {"name", "dims": None | [expr], "sub": None | [Arg], "val": None | expr, "assign": "=" | ":=",
            "cond": None | expr, "comment": str, "ann": None | [Arg]}
  Arg    = {"path": [...], "sub": None | [Arg], "val": None | expr, "each": bool, "final": bool}
         | {"redeclare": {"prefixes", "type", "name", "each", "final"}}      (only inside extends, stream "redecl")
  Section= {"t": "elems", "vis": "public" | "protected", "elems": [Elem]}
         | {"t": "eqs", "initial": bool, "eqs": [str]} | {"t": "algs", "initial": bool, "stmts": [str]}

Expressions, equations and statements are *canonical texts* (fully parenthesised, single spaces) so that an
independent printer of pymoca's AST nodes (harness/props/c04.py) must give the same text back.
"""

KEYWORDS = set("""algorithm and annotation block break class connect connector constant constrainedby der discrete
each else elseif elsewhen encapsulated end enumeration equation expandable extends external false final flow for
function if import impure in initial inner input loop model not operator or outer output package parameter partial
protected public pure record redeclare replaceable return stream then true type when while within""".split())

COMP_NAMES = ["a", "b", "c", "x", "y", "z", "p", "q", "u", "v", "w", "k1", "k2", "T0", "h_in", "m_flow",
              # identifiers that contain keywords: nothing may be decided by searching the text of a subtree
              "initial_level", "h_initial", "initialized", "x_public", "public_key", "protected_v", "equation1",
              "algorithm_a", "end_time", "der_x", "within_r", "annotation_a", "extends_b", "model_m", "import_x",
              "final_v", "each1", "input_u", "output_y", "flow_rate", "parameter_p", "constant_c", "if_cond",
              "loop_i", "connect_c", "when_w", "redeclare_r", "partial_p"]
CLASS_NAMES = ["A", "B", "C", "M", "N", "Sub", "Inner", "Pkg", "Part", "Base", "Rec", "Conn", "Initial", "Public1",
               "EndPoint", "Equations", "ModelX", "Protected_"]
TYPE_PATHS = [["Real"], ["Integer"], ["Boolean"], ["String"], ["Real"], ["Real"], ["M"], ["Pkg", "T"],
              ["Modelica", "SIunits", "Length"], ["Base"], ["A", "B", "C"], ["Initializer"], ["Pkg", "initial_t"]]
KINDS = ["model", "model", "model", "class", "block", "record", "connector", "package", "type", "function"]
FLOW = [[], ["flow"], ["stream"]]
VARIAB = [[], ["discrete"], ["parameter"], ["constant"]]
CAUS = [[], ["input"], ["output"]]
ALL_PREFIXES = [f + v + c for f in FLOW for v in VARIAB for c in CAUS]      # the 36 lists the grammar allows
ATTRS = ["start", "min", "max", "nominal", "fixed", "unit", "each_k", "x", "y", "sub", "initial_value", "final_x",
         "redeclared", "public_", "equation_k"]
COMMENT_TEXTS = ["", "", "", "a comment", "the level, in m", "x; y = 3", "end A;", "public", "Real q", "1+2", "{}()",
                 "initial guess", "protected", "initial equation x = 1;", "algorithm", "extends Base"]


# ---- expressions (canonical text) -------------------------------------------------------
def gen_ref(rng, depth=0):
    n = rng.choice(COMP_NAMES)
    r = n
    if rng.random() < 0.2:
        r += "[%s]" % ", ".join(gen_expr(rng, 2) if rng.random() < 0.8 else ":" for _ in range(rng.randint(1, 2)))
    if rng.random() < 0.25:
        r += "." + rng.choice(COMP_NAMES)
    return r


def gen_expr(rng, depth=0):
    # expression structure is C03's business: keep them small (parsing them dominates the run time)
    depth += 1
    r = rng.random()
    if depth >= 3 or r < 0.5:
        k = rng.random()
        if k < 0.45:
            return str(rng.randint(0, 12))
        if k < 0.85:
            return gen_ref(rng, depth)
        if k < 0.93:
            return rng.choice(["true", "false"])
        return '"%s"' % rng.choice(["s", "m/s", "a b", "initial", "end A;", "public", "equation", "algorithm x := 1;"])
    if r < 0.65:
        op = rng.choice(["+", "-", "*", "/", "^", "<", ">=", "==", "and", "or", ".*"])
        if op == "^":       # `primary ^ primary`: operands must be primaries; parenthesised ones are
            return "(%s ^ %s)" % (gen_prim(rng, depth + 1), gen_prim(rng, depth + 1))
        return "(%s %s %s)" % (gen_expr(rng, depth + 1), op, gen_expr(rng, depth + 1))
    if r < 0.75:
        return "(%s%s)" % (rng.choice(["-", "+", "not "]), gen_expr(rng, depth + 1))
    if r < 0.88:
        f = rng.choice(["sin", "f", "Pkg.g", "der", "max", "initial", "initialize", "Pkg.initial_f", "der_fn", "end_of"])
        n = 0 if f == "initial" else 1 if f in ("sin", "der") else rng.randint(1, 3)
        return "%s(%s)" % (f, ", ".join(gen_expr(rng, depth + 1) for _ in range(n)))
    if r < 0.94:
        return "{%s}" % ", ".join(gen_expr(rng, depth + 1) for _ in range(rng.randint(1, 3)))
    return "(if %s then %s else %s)" % (gen_expr(rng, depth + 1), gen_expr(rng, depth + 1), gen_expr(rng, depth + 1))


def gen_prim(rng, depth):
    e = gen_expr(rng, depth)
    return e


def gen_dims(rng):
    return [rng.choice([str(rng.randint(1, 4)), "n", ":", "(n + 1)", "2"]) for _ in range(rng.choice([1, 1, 1, 2, 3]))]


def gen_comment(rng):
    return rng.choice(COMMENT_TEXTS)


# ---- equations / statements (canonical text) ---------------------------------------------
def cmt(rng):
    c = gen_comment(rng) if rng.random() < 0.2 else ""
    return ' "%s"' % c if c else ""


def gen_eq(rng, depth=0):
    r = rng.random()
    if depth >= 1 or r < 0.7:
        return "%s = %s%s" % (gen_expr(rng, 1), gen_expr(rng, 0), cmt(rng))
    if r < 0.8:
        return "connect(%s, %s)%s" % (gen_ref(rng), gen_ref(rng), cmt(rng))
    if r < 0.9:
        s = "if %s then %s" % (gen_expr(rng, 1), gen_block(rng, gen_eq, depth + 1))
        for _ in range(rng.choice([0, 0, 1])):
            s += "elseif %s then %s" % (gen_expr(rng, 1), gen_block(rng, gen_eq, depth + 1))
        if rng.random() < 0.6:
            s += "else %s" % gen_block(rng, gen_eq, depth + 1)
        return s + "end if"
    return "for %s in %s:%s loop %send for" % (rng.choice(["i", "j"]), rng.randint(1, 2), rng.choice(["3", "n"]),
                                                gen_block(rng, gen_eq, depth + 1))


def gen_stmt(rng, depth=0):
    r = rng.random()
    if depth >= 1 or r < 0.7:
        return "%s := %s%s" % (gen_ref(rng), gen_expr(rng, 0), cmt(rng))
    if r < 0.8:
        return "(%s) := %s(%s)" % (", ".join(gen_ref(rng) for _ in range(rng.randint(2, 3))), rng.choice(["f", "Pkg.g"]),
                                   ", ".join(gen_expr(rng, 1) for _ in range(rng.randint(1, 2))))
    if r < 0.9:
        s = "if %s then %s" % (gen_expr(rng, 1), gen_block(rng, gen_stmt, depth + 1))
        if rng.random() < 0.5:
            s += "else %s" % gen_block(rng, gen_stmt, depth + 1)
        return s + "end if"
    return "for %s in %s:%s loop %send for" % (rng.choice(["i", "j"]), rng.randint(1, 2), rng.choice(["3", "n"]),
                                                gen_block(rng, gen_stmt, depth + 1))


def gen_block(rng, g, depth):
    return "".join(g(rng, depth) + "; " for _ in range(rng.choice([0, 1, 1, 2])))


# ---- modifications ------------------------------------------------------------------------
def gen_arg(rng, depth=0):
    path = [rng.choice(ATTRS)]
    if rng.random() < 0.15:
        path.append(rng.choice(ATTRS))
    sub = None
    if depth < 2 and rng.random() < 0.3:
        sub = [gen_arg(rng, depth + 1) for _ in range(rng.randint(0, 2))]
    val = gen_expr(rng, 1) if (sub is None and rng.random() < 0.92) or rng.random() < 0.3 else None
    return {"path": path, "sub": sub, "val": val, "each": rng.random() < 0.1, "final": rng.random() < 0.1}


def gen_args(rng, lo=1, hi=3):
    return [gen_arg(rng) for _ in range(rng.randint(lo, hi))]


def arg_canon(a):
    """Canonical text of one modification argument (what the parser keeps: no each/final)."""
    if "redeclare" in a:
        r = a["redeclare"]
        return "redeclare %s%s %s" % ("".join(p + " " for p in r["prefixes"]), ".".join(r["type"]), r["name"])
    s = ".".join(a["path"])
    if a["sub"] is not None:
        s += "(%s)" % ", ".join(arg_canon(x) for x in a["sub"])
    if a["val"] is not None:
        s += "=" + a["val"]
    return s


def arg_events(a):
    """The listener events inside one argument, in source order: 'm' = enterElement_modification,
    'd' = a redeclared component (enterComponent_clause1 .. exitComponent_clause1)."""
    if "redeclare" in a:
        return ["d"]
    out = ["m"]
    for x in a["sub"] or []:
        out += arg_events(x)
    return out


def args_events(args):
    out = []
    for a in args or []:
        out += arg_events(a)
    return out


def arg_text(a):
    if "redeclare" in a:
        r = a["redeclare"]
        return "redeclare %s%s%s%s %s" % ("each " if r["each"] else "", "final " if r["final"] else "",
                                          "".join(p + " " for p in r["prefixes"]), ".".join(r["type"]), r["name"])
    s = ("each " if a["each"] else "") + ("final " if a["final"] else "") + ".".join(a["path"])
    if a["sub"] is not None:
        s += "(%s)" % ", ".join(arg_text(x) for x in a["sub"])
    if a["val"] is not None:
        s += " = " + a["val"]
    return s


# ---- classes --------------------------------------------------------------------------------
class Gen:
    """One generator instance per case.  `stream` selects the input class:
    main    : any number / order of public, protected, equation and algorithm sections; declarators with own
              and/or clause-level dimensions, import lists of 1-4 names (the inputs of the former findings
              C04-F2 / C04-F3 / C04-F4 included)
    dup     : one class declares a component twice
    redecl  : extends clauses redeclare components (component_clause1 inside an extends modification)
    quirk   : duplicate nested class names / clashing imports (only model vs code, no direct expectation)
    """

    def __init__(self, rng, stream="main", size=1.0):
        self.rng, self.stream, self.size = rng, stream, size
        self.top_names = []

    def pick_names(self, pool, n, avoid=()):
        cand = [x for x in pool if x not in avoid]
        self.rng.shuffle(cand)
        return cand[:n]

    def gen_decl(self, name, allow_dims=True):
        rng = self.rng
        d = {"name": name, "dims": None, "sub": None, "val": None, "assign": "=", "cond": None, "comment": "", "ann": None}
        if allow_dims and rng.random() < 0.3:
            d["dims"] = gen_dims(rng)
        r = rng.random()
        if r < 0.2:
            d["sub"] = gen_args(rng, 0, 3)
            if rng.random() < 0.4:
                d["val"] = gen_expr(rng, 1)
        elif r < 0.45:
            d["val"] = gen_expr(rng, 0)
            if rng.random() < 0.1:
                d["assign"] = ":="
        if rng.random() < 0.08:
            d["cond"] = gen_expr(rng, 1)
        if rng.random() < 0.3:
            d["comment"] = gen_comment(rng)
        if rng.random() < 0.08:
            d["ann"] = gen_args(rng, 1, 2)
        return d

    def gen_comp(self, names):
        rng = self.rng
        e = {"t": "comp", "flags": [], "prefixes": list(rng.choice(ALL_PREFIXES)) if rng.random() < 0.6 else [],
             "type": list(rng.choice(TYPE_PATHS)), "cdims": None, "decls": []}
        for f in ("redeclare", "final", "inner", "outer", "replaceable"):
            if rng.random() < 0.04:
                e["flags"].append(f)
        if rng.random() < 0.25:
            e["cdims"] = gen_dims(rng)
        for n in names:
            e["decls"].append(self.gen_decl(n, allow_dims=e["cdims"] is None or rng.random() < 0.4))
        return e

    def gen_ext(self, vis_ok=True):
        rng = self.rng
        e = {"t": "ext", "path": list(rng.choice([["Base"], ["Pkg", "Part"], ["B"], ["Modelica", "Icons", "Package"]])),
             "args": None, "ann": None}
        if rng.random() < 0.5:
            e["args"] = gen_args(rng, 0, 3)
            if self.stream == "redecl" and (rng.random() < 0.7):
                k = rng.randint(0, len(e["args"]))
                e["args"].insert(k, {"redeclare": {"prefixes": list(rng.choice(ALL_PREFIXES)) if rng.random() < 0.3 else [],
                                                   "type": list(rng.choice(TYPE_PATHS)), "name": rng.choice(COMP_NAMES),
                                                   "each": rng.random() < 0.1, "final": rng.random() < 0.1}})
        if rng.random() < 0.1:
            e["ann"] = gen_args(rng, 1, 2)
        return e

    def gen_imp(self, taken):
        rng = self.rng
        form = rng.choice(["qual", "qual", "short", "star", "list"])
        path = list(rng.choice([["P"], ["P", "Q"], ["Modelica", "Math"], ["Lib", "Sub", "Deep"]]))
        pool = [n for n in ["R", "S", "sin", "cosh", "Const", "U", "V", "W"] if n not in taken]
        if self.stream == "quirk" and taken and rng.random() < 0.5:
            pool = list(taken) + pool
        if form == "qual":
            if not pool:
                return None
            n = pool[0] if self.stream == "quirk" else rng.choice(pool)
            taken.append(n)
            return {"t": "imp", "form": "qual", "path": path + [n], "short": "", "names": []}
        if form == "short":
            n = rng.choice(["SI", "Mth", "R"])          # short names overwrite silently (dict assignment)
            return {"t": "imp", "form": "short", "path": path, "short": n, "names": []}
        if form == "star":
            return {"t": "imp", "form": "star", "path": path, "short": "", "names": []}
        k = rng.choice([1, 2, 2, 3, 4])                  # 3+ names: the nested import_list levels (former finding C04-F4)
        if len(pool) < k:
            return None
        ns = pool[:k] if self.stream == "quirk" else rng.sample(pool, k)
        taken.extend(ns)
        return {"t": "imp", "form": "list", "path": path, "short": "", "names": ns}

    def gen_short(self, name):
        rng = self.rng
        return {"t": "short", "kind": rng.choice(["type", "type", "connector", "model", "record"]), "name": name,
                "base_prefix": list(rng.choice(ALL_PREFIXES)) if rng.random() < 0.15 else [],
                "path": list(rng.choice(TYPE_PATHS)), "args": gen_args(rng, 0, 2) if rng.random() < 0.6 else None,
                "comment": gen_comment(rng) if rng.random() < 0.3 else ""}

    def gen_elems(self, st, depth, n, plain_only=False):
        """`st` = per-class generation state: names still free, import keys taken, class names taken."""
        rng = self.rng
        out = []
        for _ in range(n):
            r = rng.random()
            if plain_only:
                r = 0.62 + r * 0.38          # only imports and nested classes
            if r < 0.5:
                k = min(rng.choice([1, 1, 2, 2, 3, 4]), len(st["free"]))
                if k == 0:
                    continue
                names = [st["free"].pop() for _ in range(k)]
                st["declared"] += names
                out.append(self.gen_comp(names))
            elif r < 0.62:
                out.append(self.gen_ext())
            elif r < 0.74:
                e = self.gen_imp(st["imports"])
                if e:
                    out.append(e)
            elif r < 0.9:
                if depth >= 3:
                    continue
                if self.stream == "quirk" and st["classes"] and rng.random() < 0.4:
                    name = rng.choice(st["classes"])
                else:
                    free = [c for c in CLASS_NAMES if c not in st["classes"]]
                    if not free:
                        continue
                    name = rng.choice(free)
                st["classes"].append(name)
                flags = [f for f in ("final", "inner", "replaceable") if rng.random() < 0.03]
                out.append({"t": "cls", "flags": flags, "cls": self.gen_class(name, depth + 1)})
            else:
                free = [c for c in ["T1", "T2", "Len", "Port"] if c not in st["classes"]]
                if not free:
                    continue
                name = rng.choice(free)
                st["classes"].append(name)
                out.append(self.gen_short(name))
        return out

    def gen_class(self, name, depth=0):
        rng = self.rng
        free = list(COMP_NAMES)
        rng.shuffle(free)
        st = {"free": free, "declared": [], "imports": [], "classes": []}
        c = {"kind": rng.choice(KINDS), "partial": rng.random() < 0.1, "encapsulated": rng.random() < 0.1, "name": name,
             "comment": gen_comment(rng) if rng.random() < 0.3 else "", "first": [], "sections": [], "annotation": None}
        scale = self.size * (1.0 if depth == 0 else 0.6)
        c["first"] = self.gen_elems(st, depth, int(rng.randint(0, 4) * scale + 0.5))
        nsec = rng.choice([0, 1, 2, 3, 4, 6]) if depth == 0 else rng.choice([0, 1, 2, 3])
        kinds = []
        for _ in range(nsec):
            r = rng.random()
            kinds.append("elems" if r < 0.5 else "eqs" if r < 0.8 else "algs")
        viss = [rng.choice(["public", "protected"]) for k in kinds]
        for i, k in enumerate(kinds):
            if k == "elems":
                c["sections"].append({"t": "elems", "vis": viss[i],
                                      "elems": self.gen_elems(st, depth, int(rng.randint(0, 3) * scale + 0.5))})
            elif k == "eqs":
                c["sections"].append({"t": "eqs", "initial": rng.random() < 0.35,
                                      "eqs": [gen_eq(rng) for _ in range(rng.choice([0, 1, 1, 2, 3]))]})
            else:
                c["sections"].append({"t": "algs", "initial": rng.random() < 0.35,
                                      "stmts": [gen_stmt(rng) for _ in range(rng.choice([0, 1, 1, 2, 3]))]})
        if rng.random() < 0.12:
            c["annotation"] = gen_args(rng, 1, 2)
        return c

    def gen_file(self):
        rng = self.rng
        names = self.pick_names(CLASS_NAMES, rng.choice([1, 1, 1, 2, 3]))
        f = {"classes": [{"final": rng.random() < 0.15, "cls": self.gen_class(n)} for n in names]}
        if self.stream == "dup":
            make_duplicate(rng, f)
        return f


def all_classes(f):
    out = []

    def walk(c):
        out.append(c)
        for lst in [c["first"]] + [s["elems"] for s in c["sections"] if s["t"] == "elems"]:
            for e in lst:
                if e["t"] == "cls":
                    walk(e["cls"])
    for t in f["classes"]:
        walk(t["cls"])
    return out


def elem_lists(c):
    return [(None, c["first"])] + [(s["vis"], s["elems"]) for s in c["sections"] if s["t"] == "elems"]


def own_decls(c):
    """(visibility label, clause, decl) of the class's own declarators, in source order."""
    out = []
    for vis, lst in elem_lists(c):
        for e in lst:
            if e["t"] == "comp":
                for d in e["decls"]:
                    out.append((vis, e, d))
    return out


def make_duplicate(rng, f):
    """Rename one declarator of some class to an earlier name of the same class (in place)."""
    cands = [c for c in all_classes(f) if len(own_decls(c)) >= 2]
    if not cands:
        c = rng.choice(all_classes(f))
        g = Gen(rng)
        c["first"].insert(0, g.gen_comp(["dupA", "dupB"]))
    else:
        c = rng.choice(cands)
    ds = own_decls(c)
    j = rng.randrange(1, len(ds))
    i = rng.randrange(0, j)
    ds[j][2]["name"] = ds[i][2]["name"]


def has_multisec_defect(f):
    """Does some non-last public (protected) element section hold a component or an extends clause?"""
    for c in all_classes(f):
        last = {}
        secs = [s for s in c["sections"] if s["t"] == "elems"]
        for i, s in enumerate(secs):
            last[s["vis"]] = i
        for i, s in enumerate(secs):
            if last[s["vis"]] != i and any(e["t"] in ("comp", "ext") for e in s["elems"]):
                return True
    return False


def has_bothdims(f):
    return any(e["cdims"] is not None and d["dims"] is not None for c in all_classes(f) for _, e, d in own_decls(c))


def first_duplicate(f):
    """(class name, component name) of the first re-declaration in source order, or None.
    Source order = order of the parse-tree walk (a nested class is walked where it stands)."""
    res = []

    def walk(c):
        seen = set()
        for _, lst in elem_lists(c):
            for e in lst:
                if e["t"] == "comp":
                    for d in e["decls"]:
                        if d["name"] in seen:
                            res.append((c["name"], d["name"]))
                            return True
                        seen.add(d["name"])
                elif e["t"] == "cls":
                    if walk(e["cls"]):
                        return True
        return False
    for t in f["classes"]:
        if walk(t["cls"]):
            break
    return res[0] if res else None


# ---- renderer -----------------------------------------------------------------------------------
def render(f, rng=None):
    """Modelica text of a file description.  With `rng`, layout noise (line breaks, comments) is added."""
    out = []

    def sep():
        if rng is None:
            return " "
        r = rng.random()
        return (" " if r < 0.6 else "\n  " if r < 0.85 else " // note: Real q;\n " if r < 0.90 else " /* public */ "
                if r < 0.94 else " // initial equation\n " if r < 0.97 else " /* protected end A; */ ")

    def q(s):
        return '"%s"' % s

    def args_text(args):
        return "(%s)" % ", ".join(arg_text(a) for a in args)

    def ann_text(args):
        return " annotation%s" % args_text(args) if args is not None else ""

    def decl_text(d):
        s = d["name"]
        if d["dims"] is not None:
            s += "[%s]" % ", ".join(d["dims"])
        if d["sub"] is not None:
            s += args_text(d["sub"])
        if d["val"] is not None:
            s += " %s %s" % (d["assign"], d["val"])
        if d["cond"] is not None:
            s += " if " + d["cond"]
        if d["comment"]:
            s += " " + q(d["comment"])
        s += ann_text(d["ann"])
        return s

    def elem_text(e):
        if e["t"] == "comp":
            fl = "".join(x + " " for x in ("redeclare", "final", "inner", "outer", "replaceable") if x in e["flags"])
            s = fl + "".join(p + " " for p in e["prefixes"]) + ".".join(e["type"])
            if e["cdims"] is not None:
                s += "[%s]" % ", ".join(e["cdims"])
            return s + " " + ("," + sep()).join(decl_text(d) for d in e["decls"])
        if e["t"] == "ext":
            return "extends " + ".".join(e["path"]) + (args_text(e["args"]) if e["args"] is not None else "") + ann_text(e["ann"])
        if e["t"] == "imp":
            p = ".".join(e["path"])
            if e["form"] == "qual":
                return "import " + p
            if e["form"] == "short":
                return "import %s = %s" % (e["short"], p)
            if e["form"] == "star":
                return "import %s.*" % p
            return "import %s.{%s}" % (p, ", ".join(e["names"]))
        if e["t"] == "cls":
            fl = "".join(x + " " for x in ("final", "inner", "replaceable") if x in e["flags"])
            return fl + class_text(e["cls"])
        if e["t"] == "short":
            return "%s %s = %s%s%s%s" % (e["kind"], e["name"], "".join(p + " " for p in e["base_prefix"]), ".".join(e["path"]),
                                         args_text(e["args"]) if e["args"] is not None else "",
                                         " " + q(e["comment"]) if e["comment"] else "")
        raise ValueError(e["t"])

    def class_text(c):
        s = ("encapsulated " if c["encapsulated"] else "") + ("partial " if c["partial"] else "") + c["kind"] + " " + c["name"]
        if c["comment"]:
            s += " " + q(c["comment"])
        s += sep()
        for e in c["first"]:
            s += elem_text(e) + ";" + sep()
        for sec in c["sections"]:
            if sec["t"] == "elems":
                s += sec["vis"] + sep()
                for e in sec["elems"]:
                    s += elem_text(e) + ";" + sep()
            elif sec["t"] == "eqs":
                s += ("initial " if sec["initial"] else "") + "equation" + sep()
                for e in sec["eqs"]:
                    s += e + ";" + sep()
            else:
                s += ("initial " if sec["initial"] else "") + "algorithm" + sep()
                for e in sec["stmts"]:
                    s += e + ";" + sep()
        if c["annotation"] is not None:
            s += "annotation" + args_text(c["annotation"]) + ";" + sep()
        return s + "end " + c["name"]

    for t in f["classes"]:
        out.append(("final " if t["final"] else "") + class_text(t["cls"]) + ";")
    return "\n".join(out) + "\n"
