import PymocaVerif.Lemmas.ExprSpec
/-!
# Every text of the specification's expression grammar is a Modelica print (C03)

`spec_sound` (induction on the fuel of the reference reader): whatever a nonterminal reads, the text it consumed
is `mpr` of a tree that differs from the result only by `paren` nodes.  Hence `spec_text_is_print`.  Core Lean only.
-/
namespace PymocaVerif.ExprGrammar

theorem bin_sym {s : Sym} {o : BOp} (h : s.bin? = some o) : s = o.sym := by
  cases s <;> simp [Sym.bin?] at h <;> subst h <;> rfl
theorem pow_sym {s : Sym} {w : WOp} (h : s.pow? = some w) : s = w.sym := by
  cases s <;> simp [Sym.pow?] at h <;> subst h <;> rfl

theorem primary_mlevel {c : E} (h : c.isPrimary = true) : c.mlevel = 8 := by
  cases c <;> simp_all [E.isPrimary, E.mlevel]

theorem loop_op_levels {o : BOp} {m : Nat} (hl : LoopLvl m) (h : o.mlv.1 = m) :
    o.mlv.2.1 = m ∧ o.mlv.2.2 = m + 1 := by
  rcases hl with h' | h' | h' | h' <;> subst h' <;> cases o <;> simp_all [BOp.mlv]

theorem rel_op_levels {o : BOp} (h : o.mlv.1 = 4) : o.mlv.2.1 = 5 ∧ o.mlv.2.2 = 5 := by
  cases o <;> simp_all [BOp.mlv]

/-- what a successful reading means: the text consumed is the Modelica print of a tree that differs from the
result only by `paren` nodes -/
def SP (s : E) (r ts : List Tok) : Prop := ∃ c, strip c = s ∧ c.isPrimary = true ∧ mpr 8 c ++ r = ts
def SV (m : Nat) (s : E) (r ts : List Tok) : Prop := ∃ c, strip c = s ∧ m ≤ c.mlevel ∧ mpr m c ++ r = ts
def SX (s : E) (r ts : List Tok) : Prop := ∃ c, strip c = s ∧ mpr 0 c ++ r = ts

theorem sv_of_sv {m : Nat} {s r ts} (h : SV (m+1) s r ts) : SV m s r ts := by
  obtain ⟨c, h1, h2, h3⟩ := h
  exact ⟨c, h1, by omega, by rw [mpr_body c m (by omega), ← mpr_body c (m+1) h2]; exact h3⟩

theorem spec_sound : ∀ f,
    (∀ ts s r, sPrimary f ts = some (s, r) → SP s r ts) ∧
    (∀ m ts s r, 1 ≤ m → m ≤ 7 → sLevel f m ts = some (s, r) → SV m s r ts) ∧
    (∀ m l ts s r, LoopLvl m → m ≤ l.mlevel → sLoop f m (strip l) ts = some (s, r) →
      ∃ c, strip c = s ∧ m ≤ c.mlevel ∧ mpr m c ++ r = mpr m l ++ ts) ∧
    (∀ ts s r, sExpr f ts = some (s, r) → SX s r ts) ∧
    (∀ ts s r, sEls f ts = some (s, r) → ∃ c, stripEls c = s ∧ mprEls c ++ r = ts) ∧
    (∀ ts s r, sArgs f ts = some (s, r) → ∃ c, stripArgs c = s ∧ c ≠ Args.nil ∧ mprArgs c ++ r = ts) := by
  intro f
  induction f with
  | zero =>
    refine ⟨?_, ?_, ?_, ?_, ?_, ?_⟩ <;> intros <;> simp_all [sPrimary, sLevel, sLoop, sExpr, sEls, sArgs]
  | succ f ih =>
    obtain ⟨ihP, ihV, ihL, ihX, ihS, ihA⟩ := ih
    refine ⟨?_, ?_, ?_, ?_, ?_, ?_⟩
    · -- primary
      intro ts s r h
      rw [sPrimary_succ] at h
      split at h
      · next a r0 =>
        split at h
        · next n r' =>
          simp only [Option.some.injEq, Prod.mk.injEq] at h
          obtain ⟨h1, h2⟩ := h
          subst h1 h2
          exact ⟨.call n .nil, by simp [strip, stripArgs], rfl, by simp [mpr, mprArgs]⟩
        · next n r' _ =>
          split at h
          · next as r'' heq =>
            simp only [Option.some.injEq, Prod.mk.injEq] at h
            obtain ⟨h1, h2⟩ := h
            subst h1 h2
            obtain ⟨cas, hc1, hc2, hc3⟩ := ihA _ _ _ heq
            exact ⟨.call n cas, by simp [strip, hc1], rfl, by simp [mpr, ← hc3]⟩
          · simp at h
        · simp only [Option.some.injEq, Prod.mk.injEq] at h
          obtain ⟨h1, h2⟩ := h
          subst h1 h2
          exact ⟨.atom a, by simp [strip], rfl, by simp [mpr]⟩
      · next r0 =>
        split at h
        · next e r' heq =>
          simp only [Option.some.injEq, Prod.mk.injEq] at h
          obtain ⟨h1, h2⟩ := h
          subst h1 h2
          obtain ⟨c', hc1, hc2⟩ := ihX _ _ _ heq
          exact ⟨.paren c', by simp [strip, hc1], rfl, by simp [mpr, ← hc2]⟩
        · simp at h
      · simp at h
    · -- levels
      intro m ts s r hm1 hm7 h
      have plain : ∀ (k : Nat), LoopLvl k → 1 ≤ k → k ≤ 6 →
          (match sLevel f (k+1) ts with
            | some (l, r) => sLoop f k l r
            | none => none) = some (s, r) → SV k s r ts := by
        intro k hk hk1 hk6 h
        split at h
        · next l r1 heq =>
          obtain ⟨cl, hl1, hl2, hl3⟩ := ihV _ _ _ _ (by omega) (by omega) heq
          subst hl1
          obtain ⟨c, hc1, hc2, hc3⟩ := ihL k cl r1 s r hk (by omega) h
          refine ⟨c, hc1, hc2, ?_⟩
          rw [hc3, mpr_body cl k (by omega), ← mpr_body cl (k+1) hl2]
          exact hl3
        · simp at h
      match m, hm1, hm7 with
      | 1, _, _ => rw [sLevel_1] at h; exact plain 1 (Or.inl rfl) (by omega) (by omega) h
      | 2, _, _ => rw [sLevel_2] at h; exact plain 2 (Or.inr (Or.inl rfl)) (by omega) (by omega) h
      | 6, _, _ => rw [sLevel_6] at h; exact plain 6 (Or.inr (Or.inr (Or.inr rfl))) (by omega) (by omega) h
      | 3, _, _ =>
        rw [sLevel_3] at h
        split at h
        · next r0 =>
          split at h
          · next e r' heq =>
            simp only [Option.some.injEq, Prod.mk.injEq] at h
            obtain ⟨h1, h2⟩ := h
            subst h1 h2
            obtain ⟨ce, he1, he2, he3⟩ := ihV _ _ _ _ (by omega) (by omega) heq
            exact ⟨.pre .not ce, by simp [strip, he1], by simp [E.mlevel, POp.mlv],
              by simp [mpr, POp.mlv, POp.sym, ← he3]⟩
          · simp at h
        · exact sv_of_sv (ihV _ _ _ _ (by omega) (by omega) h)
      | 4, _, _ =>
        rw [sLevel_4] at h
        split at h
        · next a s' r0 heq =>
          have ha := ihV _ _ _ _ (by omega) (by omega) heq
          split at h
          · next o ho =>
            split at h
            · next ho4 =>
              split at h
              · next b r' heqb =>
                simp only [Option.some.injEq, Prod.mk.injEq] at h
                obtain ⟨h1, h2⟩ := h
                subst h1 h2
                obtain ⟨ca, ha1, ha2, ha3⟩ := ha
                obtain ⟨cb, hb1, hb2, hb3⟩ := ihV _ _ _ _ (by omega) (by omega) heqb
                obtain ⟨hl, hr⟩ := rel_op_levels ho4
                refine ⟨.bin o ca cb, by simp [strip, ha1, hb1], by simp [E.mlevel, ho4], ?_⟩
                simp [mpr, ho4, hl, hr, ← ha3, ← hb3, bin_sym ho]
              · simp at h
            · simp only [Option.some.injEq, Prod.mk.injEq] at h
              obtain ⟨h1, h2⟩ := h
              subst h1 h2
              exact sv_of_sv ha
          · simp only [Option.some.injEq, Prod.mk.injEq] at h
            obtain ⟨h1, h2⟩ := h
            subst h1 h2
            exact sv_of_sv ha
        · next a r0 _ heq =>
          simp only [Option.some.injEq, Prod.mk.injEq] at h
          obtain ⟨h1, h2⟩ := h
          subst h1 h2
          exact sv_of_sv (ihV _ _ _ _ (by omega) (by omega) heq)
        · simp at h
      | 5, _, _ =>
        rw [sLevel_5] at h
        have signed : ∀ (q : POp) (r0 : List Tok), q ≠ POp.not → ts = Tok.op q.sym :: r0 →
            (match sLevel f 6 r0 with
              | some (t, r') => sLoop f 5 (E.pre q t) r'
              | none => none) = some (s, r) → SV 5 s r ts := by
          intro q r0 hq hts h
          split at h
          · next t r' heq =>
            obtain ⟨ct, ht1, ht2, ht3⟩ := ihV _ _ _ _ (by omega) (by omega) heq
            subst ht1
            have hq5 : q.mlv = (5, 6) := by cases q <;> simp_all [POp.mlv]
            obtain ⟨c, hc1, hc2, hc3⟩ := ihL 5 (.pre q ct) r' s r (Or.inr (Or.inr (Or.inl rfl)))
              (by simp [E.mlevel, hq5]) (by simpa [strip] using h)
            refine ⟨c, hc1, hc2, ?_⟩
            rw [hc3, hts]
            simp [mpr, hq5, ← ht3]
          · simp at h
        split at h
        · next r0 => exact signed .pos r0 (by simp) rfl h
        · next r0 => exact signed .neg r0 (by simp) rfl h
        · exact plain 5 (Or.inr (Or.inr (Or.inl rfl))) (by omega) (by omega) h
      | 7, _, _ =>
        rw [sLevel_7] at h
        split at h
        · next a s' r0 heq =>
          obtain ⟨ca, ha1, ha2, ha3⟩ := ihP _ _ _ heq
          split at h
          · next w hw =>
            split at h
            · next b r' heqb =>
              simp only [Option.some.injEq, Prod.mk.injEq] at h
              obtain ⟨h1, h2⟩ := h
              subst h1 h2
              obtain ⟨cb, hb1, hb2, hb3⟩ := ihP _ _ _ heqb
              refine ⟨.pow w ca cb, by simp [strip, ha1, hb1], by simp [E.mlevel], ?_⟩
              simp [mpr, ← ha3, ← hb3, pow_sym hw]
            · simp at h
          · simp only [Option.some.injEq, Prod.mk.injEq] at h
            obtain ⟨h1, h2⟩ := h
            subst h1 h2
            exact ⟨ca, ha1, by rw [primary_mlevel ha2]; omega,
              by rw [mpr_body ca 7 (by rw [primary_mlevel ha2]; omega), primary_mlevel ha2]; exact ha3⟩
        · next a r0 _ heq =>
          simp only [Option.some.injEq, Prod.mk.injEq] at h
          obtain ⟨h1, h2⟩ := h
          subst h1 h2
          obtain ⟨ca, ha1, ha2, ha3⟩ := ihP _ _ _ heq
          exact ⟨ca, ha1, by rw [primary_mlevel ha2]; omega,
            by rw [mpr_body ca 7 (by rw [primary_mlevel ha2]; omega), primary_mlevel ha2]; exact ha3⟩
        · simp at h
    · -- loops
      intro m l ts s r hl hml h
      rw [sLoop_succ] at h
      have stop : some (strip l, ts) = some (s, r) →
          ∃ c, strip c = s ∧ m ≤ c.mlevel ∧ mpr m c ++ r = mpr m l ++ ts := by
        intro h
        simp only [Option.some.injEq, Prod.mk.injEq] at h
        obtain ⟨h1, h2⟩ := h
        subst h1 h2
        exact ⟨l, rfl, hml, rfl⟩
      split at h
      · next s' r0 =>
        split at h
        · next o ho =>
          split at h
          · next hom =>
            split at h
            · next b r' heqb =>
              have hm7 : m + 1 ≤ 7 := by rcases hl with h | h | h | h <;> omega
              obtain ⟨cb, hb1, hb2, hb3⟩ := ihV _ _ _ _ (by omega) hm7 heqb
              subst hb1
              obtain ⟨hl1, hl2⟩ := loop_op_levels hl hom
              obtain ⟨c, hc1, hc2, hc3⟩ := ihL m (.bin o l cb) r' s r hl (by simp [E.mlevel, hom])
                (by simpa [strip] using h)
              refine ⟨c, hc1, hc2, ?_⟩
              rw [hc3]
              simp [mpr, hom, hl1, hl2, ← hb3, bin_sym ho]
            · simp at h
          · exact stop h
        · exact stop h
      · exact stop h
    · -- expression
      intro ts s r h
      rw [sExpr_succ] at h
      split at h
      · next r0 =>
        split at h
        · next c0 r1 heq1 =>
          split at h
          · next t r2 heq2 =>
            split at h
            · next el r3 heq3 =>
              simp only [Option.some.injEq, Prod.mk.injEq] at h
              obtain ⟨h1, h2⟩ := h
              subst h1 h2
              obtain ⟨cc, hc1, hc2⟩ := ihX _ _ _ heq1
              obtain ⟨ct, ht1, ht2⟩ := ihX _ _ _ heq2
              obtain ⟨ce, he1, he2⟩ := ihS _ _ _ heq3
              refine ⟨.ite cc ct ce, by simp [strip, hc1, ht1, he1], ?_⟩
              simp [mpr, ← hc2, ← ht2, ← he2]
            · simp at h
          · simp at h
        · simp at h
      · obtain ⟨c, h1, h2, h3⟩ := ihV _ _ _ _ (by omega) (by omega) h
        exact ⟨c, h1, by rw [mpr_body c 0 (by omega), ← mpr_body c 1 h2]; exact h3⟩
    · -- else part
      intro ts s r h
      rw [sEls_succ] at h
      split at h
      · next r0 =>
        split at h
        · next e r' heq =>
          simp only [Option.some.injEq, Prod.mk.injEq] at h
          obtain ⟨h1, h2⟩ := h
          subst h1 h2
          obtain ⟨ce, he1, he2⟩ := ihX _ _ _ heq
          exact ⟨.els ce, by simp [stripEls, he1], by simp [mprEls, ← he2]⟩
        · simp at h
      · next r0 =>
        split at h
        · next c0 r1 heq1 =>
          split at h
          · next t r2 heq2 =>
            split at h
            · next el r3 heq3 =>
              simp only [Option.some.injEq, Prod.mk.injEq] at h
              obtain ⟨h1, h2⟩ := h
              subst h1 h2
              obtain ⟨cc, hc1, hc2⟩ := ihX _ _ _ heq1
              obtain ⟨ct, ht1, ht2⟩ := ihX _ _ _ heq2
              obtain ⟨ce, he1, he2⟩ := ihS _ _ _ heq3
              refine ⟨.elif cc ct ce, by simp [stripEls, hc1, ht1, he1], ?_⟩
              simp [mprEls, ← hc2, ← ht2, ← he2]
            · simp at h
          · simp at h
        · simp at h
      · simp at h
    · -- arguments
      intro ts s r h
      rw [sArgs_succ] at h
      split at h
      · next e r0 heq =>
        split at h
        · next as r' heqa =>
          simp only [Option.some.injEq, Prod.mk.injEq] at h
          obtain ⟨h1, h2⟩ := h
          subst h1 h2
          obtain ⟨ce, he1, he2⟩ := ihX _ _ _ heq
          obtain ⟨cas, ha1, ha2, ha3⟩ := ihA _ _ _ heqa
          refine ⟨.cons ce cas, by simp [stripArgs, he1, ha1], by simp, ?_⟩
          match cas, ha2 with
          | .cons e' rest', _ => simp [mprArgs, ← he2, ← ha3]
        · simp at h
      · next e r0 heq =>
        simp only [Option.some.injEq, Prod.mk.injEq] at h
        obtain ⟨h1, h2⟩ := h
        subst h1 h2
        obtain ⟨ce, he1, he2⟩ := ihX _ _ _ heq
        exact ⟨.cons ce .nil, by simp [stripArgs, he1], by simp, by simp [mprArgs, ← he2]⟩
      · simp at h

/-- **Every text the specification's expression grammar derives is the Modelica print of a tree** whose
reading it is (up to `paren` nodes). -/
theorem spec_text_is_print {f ts s} (h : specParse f ts = some s) : ∃ c, strip c = s ∧ mprint c = ts := by
  unfold specParse at h
  split at h
  · next e heq =>
    simp only [Option.some.injEq] at h
    subst h
    obtain ⟨c, h1, h2⟩ := (spec_sound f).2.2.2.1 _ _ _ heq
    exact ⟨c, h1, by simpa [mprint] using h2⟩
  · simp at h

end PymocaVerif.ExprGrammar
