/-! Driver for C24 (stub: not built yet). -/
def main : IO Unit := pure ()
