"""C23 — out-of-range array subscripts are rejected, never reinterpreted.

Real code: `Generator.get_indexed_symbol` and `ForLoop.register_indexed_symbol` (and the loop's value list
built in `ForLoop.__init__`) of `pymoca.backends.casadi.generator`, reached through the whole pipeline
parse -> flatten -> generate on a one-equation model `x[<subscripts>] = 0` (also `y = 2*x[..]`,
`y = sum(x[..])`, `y = x[..] + 100*x[..]` with two references, and the same inside `for i in a:b loop ... end for`;
references through components `c0[..].c1[..].v[..]`).

Observation: generation raises, or the single residual is evaluated at a point where every element of `x`
has its own value (16^k, exact in binary floating point), so the residual's entries *are* the selected
elements, in the residual's arrangement (rows x columns; one row per loop iteration).

Direct oracle (`spec`): Modelica's meaning of the subscripts, computed in this file from the case alone:
any denoted index outside 1..n, any subscript on a scalar, more subscripts than dimensions -> generation must
raise; otherwise the residual must consist of exactly the denoted elements, arranged as denoted.

Tie: the Lean model `PymocaVerif.Model.Index` (driver `drv_c23`) computes the same canonical outcome from the
code's own rules (1-based conversion, range checks that exist, CasADi's slice / index-list semantics).
The model has three switches for checks (`Cfg`): slice-bound check, loop-index check, start:step:stop reading
of three-part ranges.  The tree contains all three since commits 4aad8e2 and b779a95 (`Cfg.checked`), and the
model is asked for that variant; `Cfg.asIs` is the tree before them, in which findings C23-F1..F3 were recorded.
"""
import itertools
import json

DRIVERS = ["drv_c23"]
RULE = ("one case = one model text with one subscripted reference (1-D sizes 1..4 and 2-D sizes up to 3x3 / 4x4, "
        "integer subscripts and slice bounds in -2..n+2 spelled as literals and through Integer parameters / constant "
        "expressions, in an equation or in a for-loop with ranges inside 0..n+1 and index offsets -2..2); 1-D windows "
        "are enumerated exhaustively, 2-D ones sampled in the quick tier; non-trivial = a case whose subscripts denote "
        "at least one index (in or out of range), i.e. not an empty range / empty loop; distinct = distinct case")
TRUSTED = ["CasADi's MX indexing (Slice::all, index lists with wrap-around, submatrix access): modelled in "
           "Model/Index.lean as `casadiSlice` / `casadiPick`, exercised by every case of the window",
           "numeric evaluation of the residual with casadi.Function at a point of powers of 16 (exact)"]
ASSUMPTIONS = ["at most one subscript of a reference depends on the loop index; loop bodies hold one equation; one loop level",
               "slice steps and loop steps given through parameters are non-negative (negative steps reach CasADi's "
               "reversed-slice rules, which are not modelled)",
               "a loop range whose start or step is not an integer literal, and a subscript holding a literal with a "
               "unary minus, are spellings the backend cannot evaluate (AttributeError / RuntimeError); rejecting them "
               "when they denote valid elements is tolerated by the oracle (the property is about out-of-range subscripts)",
               "dimension sizes are at least 1",
               "an exception of any class raised by generate() counts as 'generation fails with an error'",
               "rejecting a subscript that denotes nothing (empty range, loop without iterations) is tolerated"]

# ------------------------------------------------------------------------------------------------
# case language
#   ints : ["lit",k] | ["neg",k] (written -k) | ["par",v] (Integer parameter) | ["expr",v] (written a-b)
#   sub  : ["idx",ints] | ["range",ints,ints] | ["range3",ints,ints,ints] | ["all"] | ["loop",mul,off]
#   case : {"dims":[..], "subs":[sub..], "loop":null|[ints,ints]|[ints,ints,ints], "ctx":"eq"|"rhs"|"sum"}
# ------------------------------------------------------------------------------------------------


def ival(s):
    return -s[1] if s[0] == "neg" else s[1]


def evaluable(s):
    return s[0] != "neg"


class Render:
    def __init__(self):
        self.decls = []

    def ints(self, s):
        k, v = s[0], s[1]
        if k == "lit":
            return str(v)
        if k == "neg":
            return "-%d" % v
        if k == "par":
            name = "p%d" % len(self.decls)
            self.decls.append("parameter Integer %s = %s;" % (name, str(v) if v >= 0 else "0-%d" % -v))
            return name
        if k == "expr":
            a = max(v, 0) + 3
            return "(%d-%d)" % (a, a - v)
        raise ValueError(s)

    def sub(self, s):
        k = s[0]
        if k == "idx":
            return self.ints(s[1])
        if k == "range":
            return "%s:%s" % (self.ints(s[1]), self.ints(s[2]))
        if k == "range3":
            return "%s:%s:%s" % (self.ints(s[1]), self.ints(s[2]), self.ints(s[3]))
        if k == "all":
            return ":"
        if k == "loop":
            mul, off = s[1], s[2]
            if mul == 1:
                t = "i"
            elif mul == -1:
                return "%d-i" % off if off >= 0 else "0-%d-i" % -off
            elif mul >= 0:
                t = "%d*i" % mul
            else:
                return "%d-%d*i" % (off, -mul) if off >= 0 else "0-%d-%d*i" % (-off, -mul)
            if off > 0:
                t += "+%d" % off
            elif off < 0:
                t += "-%d" % -off
            return t
        raise ValueError(s)


def levels_of(case):
    """The reference level by level (one level per part of the name): [{"dims":[..], "subs":[..]}, ..]."""
    if case.get("levels"):
        return case["levels"]
    return [{"dims": case["dims"], "subs": case["subs"]}]


def all_subs(case):
    return [s for l in levels_of(case) for s in l["subs"]]


def eff_dims(case):
    return [d for l in levels_of(case) for d in l["dims"]]


def symbol_name(case):
    k = len(levels_of(case))
    return "x" if k == 1 else ".".join(["c%d" % i for i in range(k - 1)] + ["v"])


def render(case):
    r = Render()
    levels = levels_of(case)

    def subtxt(l):
        return "[%s]" % ",".join(r.sub(s) for s in l["subs"]) if l["subs"] else ""

    def dimtxt(l):
        return "[%s]" % ",".join(map(str, l["dims"])) if l["dims"] else ""
    if len(levels) == 1:
        ref = "x" + subtxt(levels[0])
        classes = ""
        decl = "Real x%s;" % dimtxt(levels[0])
    else:
        k = len(levels)
        ref = ".".join(["c%d%s" % (i, subtxt(levels[i])) for i in range(k - 1)] + ["v" + subtxt(levels[-1])])
        # innermost class first: K<k-1> holds the variable, K<i> holds component c<i> of class K<i+1>
        classes = "model K%d Real v%s; Real w; end K%d; " % (k - 1, dimtxt(levels[-1]), k - 1)
        for i in range(k - 2, 0, -1):
            classes += "model K%d K%d c%d%s; Real w; end K%d; " % (i, i + 1, i, dimtxt(levels[i]), i)
        decl = "K1 c0%s;" % dimtxt(levels[0])
    ctx = case.get("ctx", "eq")
    if ctx == "eq":
        eq = "%s = 0;" % ref
    elif ctx == "rhs":
        eq = "y = 2*%s;" % ref
    elif ctx == "sum":
        eq = "y = sum(%s);" % ref
    elif ctx == "pair":
        # two references to the same array in one equation (a stencil); single level only
        ref2 = "x[%s]" % ",".join(r.sub(s) for s in case["subs2"])
        eq = "y = %s + 100*%s;" % (ref, ref2)
    else:
        raise ValueError(ctx)
    if case.get("loop"):
        eq = "for i in %s loop %s end for;" % (":".join(r.ints(s) for s in case["loop"]), eq)
    return "%smodel M %s %s Real y; equation %s end M;" % (classes, " ".join(r.decls), decl, eq)


# ------------------------------------------------------------------------------------------------
# the real code
# ------------------------------------------------------------------------------------------------
def run_real(case):
    """-> {"o":"error","exc":cls} | {"o":"sel","rows":[[[r,c],..],..]} | {"o":"other","detail":..}"""
    import casadi as ca
    import numpy as np
    from pymoca import parser
    from pymoca.backends.casadi import generator as gen
    txt = render(case)
    try:
        tree = parser.parse(txt, bypass_cache=True)
    except Exception as e:  # the parser is not under test here; a text it cannot read is a harness bug
        from harness.common import HarnessError
        raise HarnessError("case text does not parse: %s (%s)" % (txt, e))
    if tree is None or "M" not in tree.classes:
        from harness.common import HarnessError
        raise HarnessError("case text does not parse: " + txt)
    try:
        m = gen.generate(tree, "M")
    except Exception as e:
        return {"o": "error", "exc": type(e).__name__}
    dims = eff_dims(case)
    xname = symbol_name(case)
    n1 = dims[0] if dims else 1
    n2 = dims[1] if len(dims) > 1 else 1
    try:
        syms, args = [], []
        for v in m.states + m.alg_states + m.parameters + m.constants + m.inputs:
            s = v.symbol
            syms.append(s)
            if s.name() == xname:
                if tuple(s.shape) != (n1, n2):
                    return {"o": "other", "detail": "symbol %s has shape %s" % (xname, s.shape)}
                if case.get("ctx") == "pair":   # small values: the residual holds v1 + 100*v2
                    args.append(ca.DM(np.array([[float(1 + r + n1 * c) for c in range(n2)] for r in range(n1)])))
                else:
                    args.append(ca.DM(np.array([[float(16 ** (r + n1 * c)) for c in range(n2)] for r in range(n1)])))
            else:
                args.append(ca.DM.zeros(*s.shape))
        if len(m.equations) == 0:
            return {"o": "sel", "rows": []}
        if len(m.equations) != 1:
            return {"o": "other", "detail": "%d equations" % len(m.equations)}
        f = ca.Function("f", syms, [m.equations[0]])
        res = np.array(f(*args))
    except Exception as e:
        return {"o": "other", "detail": "residual not evaluable: %s %s" % (type(e).__name__, str(e)[-160:])}
    ctx = case.get("ctx", "eq")
    lookup = {float(16 ** (r + n1 * c)): [r, c] for r in range(n1) for c in range(n2)}
    rows = []
    for row in res.reshape(res.shape[0], -1).tolist():
        out = []
        for v in row:
            if ctx == "pair":
                v = -v
                if v != int(v) or not (1 <= int(v) % 100 <= n1 * n2) or not (1 <= int(v) // 100 <= n1 * n2):
                    return {"o": "other", "detail": "pair residual %r is not v1 + 100*v2 of two elements" % v}
                for k in (int(v) % 100 - 1, int(v) // 100 - 1):
                    out.append([k % n1, k // n1])
                continue
            if ctx == "rhs":
                v = -v / 2
            elif ctx == "sum":
                v = -v
                if v < 0 or v != int(v):
                    return {"o": "other", "detail": "sum residual %r" % v}
                k, iv = 0, int(v)
                while iv:
                    d = iv % 16
                    if k >= n1 * n2:
                        return {"o": "other", "detail": "sum residual %r" % v}
                    out.extend([[k % n1, k // n1]] * d)
                    iv //= 16
                    k += 1
                continue
            if v not in lookup:
                return {"o": "other", "detail": "residual entry %r is not one element of x" % v}
            out.append(lookup[v])
        rows.append(out)
    if ctx == "sum":
        # the sum keeps no order: one row holding the multiset, sorted
        rows = [sorted(e for r in rows for e in r)] if any(rows) else []
    if not any(rows):
        rows = []
    return {"o": "sel", "rows": rows}


# ------------------------------------------------------------------------------------------------
# direct oracle: Modelica's meaning of the case
# ------------------------------------------------------------------------------------------------
def m_range(a, st, b):
    if st == 0:
        return None
    out, v = [], a
    while (v <= b) if st > 0 else (v >= b):
        out.append(v)
        v += st
        if len(out) > 64:
            break
    return out


def denoted(sub, n, v):
    k = sub[0]
    if k == "idx":
        return [ival(sub[1])]
    if k == "range":
        return m_range(ival(sub[1]), 1, ival(sub[2]))
    if k == "range3":  # Modelica: start : step : stop
        return m_range(ival(sub[1]), ival(sub[2]), ival(sub[3]))
    if k == "all":
        return list(range(1, n + 1))
    if k == "loop":
        return [sub[1] * v + sub[2]]
    raise ValueError(sub)


def spec(case):
    """-> ("error", why) | ("rows", rows) | ("free", why)   (free: nothing denoted; error or nothing selected)"""
    if case.get("ctx") == "pair":
        # each reference has its own meaning; the residual row holds the first one's element, then the second's
        k1, w1 = spec(dict(case, ctx="eq"))
        k2, w2 = spec(dict(case, ctx="eq", subs=case["subs2"]))
        if k1 == "error" or k2 == "error":
            return ("error", "%s / %s" % (w1 if k1 == "error" else "first reference valid", w2 if k2 == "error" else "second reference valid"))
        if k1 == "free" or k2 == "free":
            return ("free", "nothing denoted")
        return ("rows", [a + b for a, b in zip(w1, w2)])
    levels, loop = levels_of(case), case.get("loop")
    subs = all_subs(case)
    ctx = case.get("ctx", "eq")
    if loop:
        vals = m_range(ival(loop[0]), 1, ival(loop[1])) if len(loop) == 2 else \
            m_range(ival(loop[0]), ival(loop[1]), ival(loop[2]))
        if vals is None:
            return ("error", "loop range with step 0")
    else:
        vals = [None]
        if any(s[0] == "loop" for s in subs):
            return ("error", "loop index outside a loop")
    # every subscript is written on one part of the name and checked against that part's own dimensions
    full, dims = [], []
    for k, l in enumerate(levels):
        if l["subs"] and not l["dims"]:
            return ("error", "subscript on a scalar" + (" (part %d of the name)" % (k + 1) if len(levels) > 1 else ""))
        if len(l["subs"]) > len(l["dims"]):
            return ("error", "more subscripts than dimensions" + (" (part %d of the name)" % (k + 1) if len(levels) > 1 else ""))
        full += list(l["subs"]) + [["all"]] * (len(l["dims"]) - len(l["subs"]))
        dims += list(l["dims"])
    if not vals:
        return ("free", "loop without iterations")
    rows = []
    for v in vals:
        per_dim = []
        ds = [denoted(s, n, v) for s, n in zip(full, dims)]
        if any(d is None for d in ds):
            return ("error", "range with step 0")
        if any(d == [] for d in ds):
            # an empty range in one dimension: the reference denotes no element at all
            return ("free", "empty selection denoted")
        for d, n in zip(ds, dims):
            bad = [i for i in d if i < 1 or i > n]
            if bad:
                return ("error", "index %d outside 1..%d%s" % (bad[0], n, "" if v is None else " at i=%d" % v))
            per_dim.append([i - 1 for i in d])
        if len(dims) == 1:
            mat = [[[p, 0]] for p in per_dim[0]]
        elif len(dims) == 2:
            mat = [[[r, c] for c in per_dim[1]] for r in per_dim[0]]
        else:
            mat = [[[0, 0]]]
        if loop:
            # one row per iteration: the selection, column by column
            ncol = len(mat[0]) if mat else 0
            rows.append([mat[r][c] for c in range(ncol) for r in range(len(mat))])
        else:
            rows = mat
    if not any(rows):
        return ("free", "empty selection denoted")
    if ctx == "sum":
        rows = [sorted(e for r in rows for e in r)]
    return ("rows", rows)


def tolerated_spelling(case):
    """Spellings the backend cannot evaluate, whatever the subscripts denote (ASSUMPTIONS): a literal with a unary
    minus inside a subscript (get_integer raises on it; in this window it only matters for descending three-part
    ranges), and loop ranges whose start / step are not integer literals (ForLoop.__init__ reads `.value`)."""
    for s in all_subs(case):
        if s[0] in ("idx", "range", "range3") and any(x[0] == "neg" for x in s[1:]):
            return True
    loop = case.get("loop")
    if not loop:
        return False
    if loop[0][0] != "lit":
        return True
    if len(loop) == 3 and (loop[1][0] != "lit" or loop[2][0] != "lit"):
        return True
    return False


# ------------------------------------------------------------------------------------------------
# model side
# ------------------------------------------------------------------------------------------------
def to_model(case, cfg):
    def mi(s):
        return ["par", s[1]] if s[0] == "expr" else list(s)

    def ms(s):
        if s[0] == "idx":
            return ["idx", mi(s[1])]
        if s[0] == "range":
            return ["range", mi(s[1]), mi(s[2])]
        if s[0] == "range3":
            return ["range3", mi(s[1]), mi(s[2]), mi(s[3])]
        return list(s)
    if case.get("levels"):
        return {"op": "index.outcome", "cfg": cfg,
                "levels": [{"dims": l["dims"], "subs": [ms(s) for s in l["subs"]]} for l in case["levels"]],
                "loop": [mi(s) for s in case["loop"]] if case.get("loop") else None,
                "inloop": bool(case.get("loop")), "sum": case.get("ctx") == "sum"}
    if case.get("ctx") == "pair":
        return {"op": "index.outcome", "cfg": cfg, "dims": case["dims"], "subs": [ms(s) for s in case["subs"]],
                "subs2": [ms(s) for s in case["subs2"]],
                "loop": [mi(s) for s in case["loop"]] if case.get("loop") else None, "inloop": bool(case.get("loop")), "sum": False}
    return {"op": "index.outcome", "cfg": cfg, "dims": case["dims"], "subs": [ms(s) for s in case["subs"]],
            "loop": [mi(s) for s in case["loop"]] if case.get("loop") else None,
            "inloop": bool(case.get("loop")), "sum": case.get("ctx") == "sum"}


PROBES = {
    "sliceCheck": {"dims": [3], "subs": [["range", ["lit", 0], ["lit", 2]]], "loop": None, "ctx": "eq"},
    "loopCheck": {"dims": [3], "subs": [["loop", 1, -1]], "loop": [["lit", 1], ["lit", 3]], "ctx": "eq"},
    "stepOrder": {"dims": [4], "subs": [["range3", ["lit", 1], ["lit", 2], ["lit", 3]]], "loop": None, "ctx": "eq"},
    "padMissing": {"dims": [2, 3], "subs": [["idx", ["lit", 2]]], "loop": None, "ctx": "eq"},
}


# The tree as it is now (commits 4aad8e2, b779a95, 8f5c8e6): all three checks are present and missing trailing
# subscripts are padded with `:`.  The model is always asked
# for this variant; the probes only document in the evidence file what the three canonical inputs do.
CURRENT_CFG = {"sliceCheck": True, "loopCheck": True, "stepOrder": True, "padMissing": True}


def probe_cfg(ctx):
    """Reads the three checks off three probe inputs (evidence only) and returns the variant the model is
    asked for: the current tree's."""
    cfg = {}
    r = run_real(PROBES["sliceCheck"])
    cfg["sliceCheck"] = r["o"] == "error"
    r = run_real(PROBES["loopCheck"])
    cfg["loopCheck"] = r["o"] == "error"
    r = run_real(PROBES["stepOrder"])
    cfg["stepOrder"] = r == {"o": "sel", "rows": [[[0, 0]], [[2, 0]]]}
    # fix C23-3 (finding C23-F4, commit 8f5c8e6): required
    r = run_real(PROBES["padMissing"])
    cfg["padMissing"] = r == {"o": "sel", "rows": [[[1, 0], [1, 1], [1, 2]]]}
    used = dict(CURRENT_CFG)
    ctx.extra["model_cfg_probed"] = cfg
    ctx.extra["model_cfg_used"] = used
    if cfg != used:
        ctx.notes.append("probe inputs behave like variant %s, the model is asked for %s" % (cfg, used))
    return used


def nontrivial(case):
    k, _ = spec(case)
    return k != "free"


def check_case(ctx, case, cfg, drv, stream="main"):
    ctx.case(case, nontrivial=nontrivial(case))
    real = run_real(case)
    kind, want = spec(case)
    ctx.count("stream:" + stream)
    ctx.count("references:%d" % (2 if case.get("ctx") == "pair" else 1))
    ctx.count("dims:%d" % len(eff_dims(case)))
    ctx.count("name-parts:%d" % len(levels_of(case)))
    ctx.count("ctx:" + case.get("ctx", "eq") + ("+loop" if case.get("loop") else ""))
    ctx.count("spec:" + kind)
    ctx.count("real:" + (real["o"] if real["o"] != "error" else "error:" + real["exc"]))
    txt = render(case)
    rep = dict(case, text=txt)
    if real["o"] == "other":
        ctx.violation("generation succeeded with a residual that is not a selection of elements of x", rep,
                      expected=want, observed=real)
    elif kind == "error" and real["o"] != "error":
        ctx.violation("out-of-range subscript accepted: " + ("nothing selected (equation dropped or empty sum)"
                                                             if not real["rows"] else "reinterpreted as other elements"),
                      rep, expected="generation raises (%s)" % want, observed=real)
    elif kind == "rows" and real["o"] == "sel" and real["rows"] != want:
        ctx.violation("valid subscript selected " + ("nothing" if not real["rows"] else "different elements"),
                      rep, expected=want, observed=real)
    elif kind == "rows" and real["o"] == "error" and not tolerated_spelling(case):
        ctx.violation("valid subscript rejected", rep, expected=want, observed=real)
    elif kind == "free" and real["o"] == "sel" and real["rows"]:
        ctx.violation("empty selection produced elements", rep, expected=[], observed=real)
    if drv is not None:
        ans = drv.ask(to_model(case, cfg))
        if not ans.get("ok"):
            from harness.common import HarnessError
            raise HarnessError("model driver rejected %s: %s" % (case, ans))
        mo = {"o": "error"} if ans["outcome"] == "error" else {"o": "sel", "rows": ans["rows"]}
        ro = {"o": "error"} if real["o"] == "error" else real
        if mo != ro:
            ctx.disagreement("index.outcome", rep, mo, real)
    return real


# ------------------------------------------------------------------------------------------------
# generators
# ------------------------------------------------------------------------------------------------
def spellings(v, which):
    out = []
    if "lit" in which:
        out.append(["lit", v] if v >= 0 else ["neg", -v])
    if "par" in which:
        out.append(["par", v])
    if "expr" in which:
        out.append(["expr", v])
    return out


def window(n):
    return list(range(-2, n + 3))


def gen_1d_equation(sizes, ctxs):
    """Every integer subscript and every two-part slice with bounds in -2..n+2, both spellings."""
    for n in sizes:
        for cx in ctxs:
            for v in window(n):
                for s in spellings(v, ("lit", "par", "expr")):
                    yield {"dims": [n], "subs": [["idx", s]], "loop": None, "ctx": cx}
            yield {"dims": [n], "subs": [["all"]], "loop": None, "ctx": cx}
            for lo in window(n):
                for hi in window(n):
                    for sp in (("lit", "lit"), ("par", "par"), ("lit", "expr"), ("par", "lit")):
                        yield {"dims": [n], "subs": [["range", spellings(lo, (sp[0],))[0], spellings(hi, (sp[1],))[0]]],
                               "loop": None, "ctx": cx}


def loop_offsets(n, mul, offs):
    """Offsets `off` such that the subscript mul*i + off takes the value 1 + o (ascending, mul > 0) or n + o
    (descending, mul < 0) at i = 1, for o in `offs`: the subscript's run straddles both ends of 1..n."""
    if mul > 0:
        return [1 + o - mul for o in offs]
    return [n + o - mul for o in offs]


def gen_1d_loop(sizes, ctxs, offs=(-2, -1, 0, 1, 2), muls=(1,)):
    """Every loop range a:b inside 0..n+1 with a subscript mul*i+off; descending subscripts (mul < 0) included."""
    for n in sizes:
        for cx in ctxs:
            for a in range(0, n + 2):
                for b in range(0, n + 2):
                    for mul in muls:
                        for off in loop_offsets(n, mul, offs):
                            yield {"dims": [n], "subs": [["loop", mul, off]], "loop": [["lit", a], ["lit", b]], "ctx": cx}


def gen_scalar_and_arity():
    for s in (["idx", ["lit", 1]], ["idx", ["lit", 0]], ["all"], ["range", ["lit", 1], ["lit", 1]], ["idx", ["par", 1]]):
        yield {"dims": [], "subs": [s], "loop": None, "ctx": "eq"}
        yield {"dims": [], "subs": [s, s], "loop": None, "ctx": "eq"}
        for n in (1, 2, 3):
            yield {"dims": [n], "subs": [s, ["idx", ["lit", 1]]], "loop": None, "ctx": "eq"}
            yield {"dims": [n], "subs": [["idx", ["lit", 1]], s], "loop": None, "ctx": "eq"}
            yield {"dims": [n, 2], "subs": [["idx", ["lit", 1]], s, ["idx", ["lit", 1]]], "loop": None, "ctx": "eq"}
    yield {"dims": [], "subs": [["loop", 1, 0]], "loop": [["lit", 1], ["lit", 2]], "ctx": "eq"}
    yield {"dims": [], "subs": [["loop", 1, 0]], "loop": [["lit", 1], ["lit", 1]], "ctx": "eq"}
    yield {"dims": [], "subs": [["loop", 1, 1]], "loop": [["lit", 0], ["lit", 0]], "ctx": "eq"}
    yield {"dims": [2], "subs": [["loop", 1, 0]], "loop": None, "ctx": "eq"}
    yield {"dims": [2], "subs": [["loop", 1, 0], ["idx", ["lit", 1]]], "loop": [["lit", 1], ["lit", 2]], "ctx": "eq"}


def fixed_subs(n, rich=True):
    """All fixed subscripts of the window for one dimension (literal spelling, plus parameters for bounds < 0)."""
    out = [["all"]]
    for v in window(n):
        out.append(["idx", spellings(v, ("lit",))[0]])
        if v < 0 and rich:
            out.append(["idx", ["par", v]])
    for lo in window(n):
        for hi in window(n):
            out.append(["range", spellings(lo, ("lit",))[0], spellings(hi, ("lit",))[0]])
            if (lo < 0 or hi < 0) and rich:
                out.append(["range", ["par", lo], ["par", hi]])
    return out


def gen_2d_equation(shapes):
    for (n, m) in shapes:
        for a in fixed_subs(n):
            for b in fixed_subs(m):
                yield {"dims": [n, m], "subs": [a, b], "loop": None, "ctx": "eq"}


def gen_2d_loop(shapes):
    for (n, m) in shapes:
        for a in range(0, max(n, m) + 2):
            for b in range(max(a - 1, 0), max(n, m) + 2):
                for mul in (1, -1):
                    for o in (-1, 0, 1):
                        for f in fixed_subs(m, rich=False):
                            yield {"dims": [n, m], "subs": [["loop", mul, loop_offsets(n, mul, [o])[0]], f],
                                   "loop": [["lit", a], ["lit", b]], "ctx": "eq"}
                        for f in fixed_subs(n, rich=False):
                            yield {"dims": [n, m], "subs": [f, ["loop", mul, loop_offsets(m, mul, [o])[0]]],
                                   "loop": [["lit", a], ["lit", b]], "ctx": "eq"}


def gen_fixed_in_loop(sizes):
    """A subscript that does not depend on the loop index, inside a loop body."""
    for n in sizes:
        for a, b in ((1, 2), (1, 0), (2, 2)):
            for f in fixed_subs(n):
                yield {"dims": [n], "subs": [f], "loop": [["lit", a], ["lit", b]], "ctx": "eq"}


def gen_three_part(sizes):
    """Three-part ranges a:b:c in subscripts and in loop ranges (separate stream: §6 row 8)."""
    for n in sizes:
        vals = list(range(0, n + 3))
        for a in vals:
            for b in vals:
                for c in vals:
                    yield {"dims": [n], "subs": [["range3", ["lit", a], ["lit", b], ["lit", c]]], "loop": None, "ctx": "eq"}
                    yield {"dims": [n], "subs": [["loop", 1, 0]], "loop": [["lit", a], ["lit", b], ["lit", c]], "ctx": "eq"}
        for a, b, c in itertools.product((0, 1, 2), repeat=3):
            yield {"dims": [n], "subs": [["range3", ["par", a - 1], ["par", b], ["par", c]]], "loop": None, "ctx": "eq"}
            yield {"dims": [n], "subs": [["range3", ["lit", a], ["neg", b], ["lit", c]]], "loop": None, "ctx": "eq"}
            yield {"dims": [n], "subs": [["range3", ["lit", a], ["lit", c], ["neg", b]]], "loop": None, "ctx": "eq"}
            yield {"dims": [n], "subs": [["loop", 1, 0]], "loop": [["lit", a], ["par", b], ["lit", c]], "ctx": "eq"}
            yield {"dims": [n], "subs": [["loop", 1, 0]], "loop": [["lit", a], ["lit", b], ["par", c]], "ctx": "eq"}


def gen_fewer_subscripts(shapes):
    """One subscript on a 2-D array (separate stream)."""
    for (n, m) in shapes:
        for v in range(-1, n * m + 2):
            yield {"dims": [n, m], "subs": [["idx", ["lit", v] if v >= 0 else ["neg", -v]]], "loop": None, "ctx": "eq"}
        yield {"dims": [n, m], "subs": [["all"]], "loop": None, "ctx": "eq"}
        for lo in range(0, n + 2):
            for hi in range(0, n * m + 2):
                yield {"dims": [n, m], "subs": [["range", ["lit", lo], ["lit", hi]]], "loop": None, "ctx": "eq"}
        for a in range(0, n + 2):
            for b in range(a, n + 2):
                for off in (-1, 0, 1):
                    yield {"dims": [n, m], "subs": [["loop", 1, off]], "loop": [["lit", a], ["lit", b]], "ctx": "eq"}


def gen_stencils(sizes, shapes2d=()):
    """Two references to the same array in one loop body, each with its own subscript expression (stencils
    x[i+o1] .. x[i+o2]): every ordered pair of offsets, every loop range inside 0..n+1; in 2-D with the same or a
    different constant row / column."""
    for n in sizes:
        for a in range(0, n + 2):
            for b in range(a, n + 2):
                for o1 in (-2, -1, 0, 1, 2):
                    for o2 in (-2, -1, 0, 1, 2):
                        yield {"dims": [n], "subs": [["loop", 1, o1]], "subs2": [["loop", 1, o2]],
                               "loop": [["lit", a], ["lit", b]], "ctx": "pair"}
                for o1, o2, m2 in ((0, 0, -1), (1, 0, -1), (0, 1, -1), (-1, 1, 2), (1, -1, 2)):
                    yield {"dims": [n], "subs": [["loop", 1, o1]], "subs2": [["loop", m2, loop_offsets(n, m2, [o2])[0]]],
                           "loop": [["lit", a], ["lit", b]], "ctx": "pair"}
        for k1 in range(0, n + 2):
            for k2 in range(0, n + 2):
                yield {"dims": [n], "subs": [["idx", ["lit", k1]]], "subs2": [["idx", ["lit", k2]]], "loop": None, "ctx": "pair"}
                yield {"dims": [n], "subs": [["idx", ["lit", k1]]], "subs2": [["loop", 1, k2 - 1]],
                       "loop": [["lit", 1], ["lit", 2]], "ctx": "pair"}
    for (n, m) in shapes2d:
        for a in range(0, m + 1):
            for b in range(a, m + 2):
                for o1 in (-1, 0, 1):
                    for o2 in (-1, 0, 1):
                        for r1 in range(1, n + 1):
                            for r2 in range(1, n + 2):
                                yield {"dims": [n, m], "subs": [["idx", ["lit", r1]], ["loop", 1, o1]],
                                       "subs2": [["idx", ["lit", r2]], ["loop", 1, o2]],
                                       "loop": [["lit", a], ["lit", b]], "ctx": "pair"}
                                yield {"dims": [m, n], "subs": [["loop", 1, o1], ["idx", ["lit", r1]]],
                                       "subs2": [["loop", 1, o2], ["idx", ["lit", r2]]],
                                       "loop": [["lit", a], ["lit", b]], "ctx": "pair"}


def sub_vocabulary(n):
    """A small vocabulary of subscripts for one dimension of size n (valid, both ends out of range, slices)."""
    out = [["all"], ["idx", ["lit", 0]], ["idx", ["lit", 1]], ["idx", ["lit", n]], ["idx", ["lit", n + 1]],
           ["range", ["lit", 1], ["lit", n]], ["range", ["lit", 0], ["lit", 1]], ["range", ["lit", 2], ["lit", n + 1]]]
    if n > 1:
        out.append(["idx", ["lit", 2]])
    return out


NESTED_SHAPES = [
    [[], [3]], [[], [2, 2]], [[2], [3]], [[2], []], [[3], [2]], [[], [], [3]], [[], [2], [3]], [[2], [], [2]], [[], [2, 3]],
    [[2, 2], []], [[1], [1]], [[], []], [[], [], []],
]


def gen_scalar_part_subscripts():
    """A subscript (constant, slice, `:`, loop index, computed loop subscript) on a part of the name that has no
    dimension — first, middle or last part of a two- or three-part name — with valid subscripts on the other parts."""
    bad_subs = [["idx", ["lit", 1]], ["idx", ["lit", 2]], ["idx", ["lit", 0]], ["all"], ["range", ["lit", 1], ["lit", 1]],
                ["idx", ["par", 1]], ["loop", 1, 0], ["loop", 1, 1]]
    shapes = [[[], [3]], [[2], []], [[], []], [[], [], [3]], [[2], [], [2]], [[], [2], []], [[2], [], []], [[], [], []],
              [[], [], [2, 2]], [[], [2], [3]]]
    for shape in shapes:
        for k, dims in enumerate(shape):
            if dims:
                continue
            for b in bad_subs:
                for valid in (True, False):
                    levels = []
                    for j, d in enumerate(shape):
                        if j == k:
                            subs = [b]
                        elif valid:
                            subs = [["idx", ["lit", 1]] for _ in d]
                        else:
                            subs = []
                        levels.append({"dims": list(d), "subs": subs})
                    if len([x for l in levels for x in l["dims"]]) > 2:
                        continue
                    loop = [["lit", 1], ["lit", 1]] if b[0] == "loop" else None
                    yield {"levels": levels, "loop": loop, "ctx": "eq"}


def random_nested(rng):
    """A reference through components (d.v[..], c[..].v[..], g.f[..].v[..]): at every part of the name between no
    subscript and one more than the part has dimensions (at most one part with too many), optionally one
    loop-dependent subscript."""
    shape = rng.choice(NESTED_SHAPES)
    over = rng.randrange(len(shape)) if rng.random() < 0.45 else None
    levels = []
    for k, dims in enumerate(shape):
        if k == over:
            nsub = len(dims) + rng.choice([1, 1, 2])
        else:
            nsub = rng.choice([len(dims)] * 3 + list(range(len(dims) + 1)))
        subs = []
        for j in range(nsub):
            n = dims[j] if j < len(dims) else rng.choice([1, 2, 3])
            subs.append(rng.choice(sub_vocabulary(n)) if rng.random() < 0.85 else ["idx", ["par", rng.randint(-1, n + 1)]])
        levels.append({"dims": list(dims), "subs": subs})
    case = {"levels": levels, "loop": None, "ctx": "eq"}
    slots = [(k, j) for k, l in enumerate(levels) for j in range(len(l["subs"]))]
    if slots and rng.random() < 0.3:
        k, j = rng.choice(slots)
        dims = levels[k]["dims"]
        n = dims[j] if j < len(dims) else 2
        mul = rng.choice([1, 1, -1])
        levels[k]["subs"][j] = ["loop", mul, loop_offsets(n, mul, [rng.choice([-1, 0, 0, 1])])[0]]
        a = rng.randint(0, 2)
        case["loop"] = [["lit", a], ["lit", rng.randint(a, n + 1)]]
    return case


def gen_loop_spellings(sizes):
    for n in sizes:
        for a, b in ((1, n), (0, n), (1, n + 1), (2, 1)):
            for sa in spellings(a, ("lit", "par", "expr")):
                for sb in spellings(b, ("lit", "par", "expr")):
                    for off in (0, -1, 1):
                        yield {"dims": [n], "subs": [["loop", 1, off]], "loop": [sa, sb], "ctx": "eq"}
        for mul, off in ((2, 0), (2, -1), (-1, n + 1), (-1, n), (-2, 2 * n + 1), (0, 1), (0, 0), (3, -2)):
            for a, b in ((1, n), (1, (n + 1) // 2), (0, 1), (1, 0)):
                yield {"dims": [n], "subs": [["loop", mul, off]], "loop": [["lit", a], ["lit", b]], "ctx": "eq"}


def finding_class(case):
    """Input class of a case, for the distribution in the evidence file: the classes of the findings C23-F1..F3
    (fixed by 4aad8e2 / b779a95, kept in the window) and of the open finding C23-F4; "main" otherwise."""
    from harness import known_c23 as K
    for name, fn in (("three-part-range", K.has_three_part), ("fewer-subscripts", K.fewer_subscripts),
                     ("slice-bound-below-1", K.slice_lower_bound_below_one), ("loop-index-below-1", K.loop_index_below_one)):
        if fn(case):
            return name
    return "main"


def run(ctx):
    from harness import corpus
    drv = ctx.driver("drv_c23")
    cfg = probe_cfg(ctx)
    quick = ctx.tier == "quick"
    for c in corpus.load("C23"):
        ctx.count("corpus")
        check_case(ctx, c["case"] if "case" in c else c, cfg, drv, "corpus")
    rng = ctx.rng
    plan = []
    # exhaustive 1-D windows
    plan.append(("1d-eq", list(gen_1d_equation((1, 2, 3, 4), ("eq",))), None))
    plan.append(("1d-loop", list(gen_1d_loop((1, 2, 3, 4), ("eq",))), None))
    plan.append(("1d-loop-descending", list(gen_1d_loop((1, 2, 3, 4), ("eq",), muls=(-1,))), None))
    plan.append(("1d-loop-steps", list(gen_1d_loop((1, 2, 3, 4), ("eq", "rhs"), muls=(2, -2))), 150 if quick else None))
    nested = [random_nested(rng) for _ in range(400 if quick else 12000)]
    nested = [c for c in nested if len(eff_dims(c)) <= 2]
    plan.append(("nested", nested, None))
    plan.append(("nested-scalar-parts", list(gen_scalar_part_subscripts()), None))
    plan.append(("stencils", list(gen_stencils((2, 3, 4) if quick else (1, 2, 3, 4, 5), [(2, 3)] if quick else [(2, 3), (3, 3), (2, 4)])),
                 450 if quick else None))
    plan.append(("1d-eq-rhs-sum", list(gen_1d_equation((1, 2, 3) if quick else (1, 2, 3, 4), ("rhs", "sum"))), 250 if quick else None))
    plan.append(("1d-loop-rhs", list(gen_1d_loop((1, 2, 3), ("rhs",))), 150 if quick else None))
    plan.append(("scalar+arity", list(gen_scalar_and_arity()), None))
    plan.append(("fixed-in-loop", list(gen_fixed_in_loop((1, 2, 3))), 150 if quick else None))
    plan.append(("loop-spellings", list(gen_loop_spellings((1, 2, 3, 4))), 150 if quick else None))
    plan.append(("three-part", list(gen_three_part((1, 2, 3) if quick else (1, 2, 3, 4))), 200 if quick else None))
    plan.append(("fewer-subscripts", list(gen_fewer_subscripts(((2, 2), (2, 3), (3, 2)))), 100 if quick else None))
    shapes = [(1, 1), (1, 2), (2, 1), (2, 2), (2, 3), (3, 2), (3, 3)]
    plan.append(("2d-eq", list(gen_2d_equation(shapes if quick else shapes + [(1, 4), (4, 2), (4, 4)])), 450 if quick else 60000))
    plan.append(("2d-loop", list(gen_2d_loop(shapes if quick else shapes + [(4, 2), (2, 4)])), 350 if quick else 40000))
    ctx.extra["exhaustive"] = {}
    for name, cases, cap in plan:
        full = cap is None or len(cases) <= cap
        if not full:
            cases = rng.sample(cases, cap)
        done = 0
        for case in cases:
            if ctx.time_left() < 0:
                ctx.notes.append("stream %s stopped by the time budget after %d of %d cases" % (name, done, len(cases)))
                full = False
                break
            check_case(ctx, case, cfg, drv, "nested" if case.get("levels") else finding_class(case))
            done += 1
        ctx.count("plan:" + name, done)
        ctx.extra["exhaustive"][name] = bool(full)


def replay(ctx, payload):
    case = payload["case"]
    case = {k: case[k] for k in ("dims", "subs", "loop", "ctx") if k in case}
    check_case(ctx, case, probe_cfg(ctx), ctx.driver("drv_c23"), "replay")


def search(ctx):
    """A broken tie without an oracle violation: sweep the complete thorough window with the direct oracle only."""
    cfg = probe_cfg(ctx)
    gens = [gen_1d_equation((1, 2, 3, 4), ("eq", "rhs", "sum")), gen_1d_loop((1, 2, 3, 4), ("eq", "rhs"), muls=(1, 2, -1)),
            gen_fixed_in_loop((1, 2, 3, 4)), gen_2d_equation([(2, 2), (2, 3), (3, 3)]), gen_2d_loop([(2, 2), (2, 3), (3, 2)])]
    for g in gens:
        for case in g:
            if ctx.time_left() < 0 or ctx.violations:
                return
            check_case(ctx, case, cfg, None, "search")


MANIFEST = dict(
    level_text="Lean 4 theorems about an executable model of pymoca's subscript handling (get_indexed_symbol, "
               "ForLoop.register_indexed_symbol, the loop's value list, CasADi's slice and index-list rules): for every "
               "dimension size, subscript and loop value list, an accepted subscript selects exactly the denoted elements "
               "and an out-of-range one raises — unconditionally for integer subscripts and upper slice bounds, and for "
               "lower slice bounds / loop indices exactly when the corresponding range check is present (the tree's "
               "current lack of those checks is proved to reinterpret subscripts: listed findings). Tied to the real "
               "code on every run by an exhaustive window (1-D sizes 1..4, bounds -2..n+2, equations and for-loops; 2-D "
               "sampled/full) comparing the real residual's selected elements with the model, plus a direct "
               "Modelica-semantics oracle on the real code.",
    level_note="Trusted: Lean kernel + standard axioms; the harness; CasADi's indexing rules enter the model as "
               "definitions (casadiSlice, casadiPick) sampled by every case. The model, not the Python, is what the "
               "theorems are about.",
    technique="Lean 4 proof (case analysis + list induction over arbitrary sizes) + exhaustive-window "
              "model/implementation correspondence + direct oracle",
)
READY = True
