import PymocaVerif.Lemmas.Index
/-!
# C23 — out-of-range array subscripts are rejected, never reinterpreted

Property theorems only (helper lemmas: `Lemmas/Index.lean`; model and the specification-side definitions
`FSub.denote`, `InRange`, `pos`, `Safe`, `LoopSafe`: `Model/Index.lean`).

Every statement is for all dimension sizes `n`, all written integers and all loop value lists.
`Safe cfg s` / `LoopSafe cfg …` name the subscripts on which the checks present in the tree (`cfg`) suffice.
On the tree as it is now (`Cfg.checked`, commits 4aad8e2 and b779a95) they hold for every subscript
(`checked_is_safe`, `checked_is_loop_safe`), so the three main theorems hold there without hypothesis
(`checked_*`).  On the tree before those commits (`Cfg.asIs`) they exclude exactly the classes recorded as
findings C23-F1..F3, and `asIs_reinterprets` shows that they could not be dropped there.
-/
namespace PymocaVerif.Index

/-- An accepted subscript selects exactly the elements it denotes, all of them inside `1..n`. -/
theorem in_range_or_error (cfg : Cfg) (n : Nat) (s : FSub) (ps : List Nat) (hsafe : Safe cfg s)
    (h : fixedSel cfg n n s = some ps) :
    ∃ d, s.denote n = some d ∧ InRange n d ∧ ps = pos d :=
  fixedSel_sound cfg n s ps hsafe h

example : Safe Cfg.asIs (.range (.lit 2) (.lit 3)) ∧ fixedSel Cfg.asIs 4 4 (.range (.lit 2) (.lit 3)) = some [1, 2] := by
  refine ⟨Or.inr (by decide), by decide⟩

/-- A subscript that denotes an index outside `1..n` (or is ill-formed: step 0) makes generation raise. -/
theorem out_of_range_error (cfg : Cfg) (n : Nat) (s : FSub) (hsafe : Safe cfg s)
    (h : s.denote n = none ∨ ∃ d, s.denote n = some d ∧ ∃ i ∈ d, i < 1 ∨ (n : Int) < i) :
    fixedSel cfg n n s = none :=
  fixedSel_oob cfg n s hsafe h

example : ∃ d, (FSub.range (.lit 2) (.lit 5)).denote 4 = some d ∧ ∃ i ∈ d, i < 1 ∨ ((4 : Nat) : Int) < i :=
  ⟨[2, 3, 4, 5], by decide, 5, by decide, by decide⟩

/-- An accepted subscript selects nothing only if it denotes nothing. -/
theorem never_empty_silently (cfg : Cfg) (n : Nat) (s : FSub) (hsafe : Safe cfg s)
    (h : fixedSel cfg n n s = some []) : s.denote n = some [] := by
  obtain ⟨d, hd, _, hp⟩ := fixedSel_sound cfg n s [] hsafe h
  rw [hd, pos_eq_nil d hp.symm]

example : fixedSel Cfg.asIs 3 3 (.range (.lit 3) (.lit 2)) = some [] ∧ Safe Cfg.asIs (.range (.lit 3) (.lit 2)) :=
  ⟨by decide, Or.inr (by decide)⟩

/-- Integer subscripts are checked on every variant of the tree: outside `1..n` is an error. -/
theorem integer_subscript_error (cfg : Cfg) (n : Nat) (k : IntS) (h : k.val < 1 ∨ (n : Int) < k.val) :
    fixedSel cfg n n (.idx k) = none :=
  fixedSel_oob cfg n (.idx k) trivial (Or.inr ⟨[k.val], rfl, k.val, by simp, h⟩)

example : (IntS.lit 0).val < 1 ∨ ((3 : Nat) : Int) < (IntS.lit 0).val := Or.inl (by decide)

/-- A non-empty slice whose upper bound exceeds the dimension is an error on every variant of the tree. -/
theorem slice_upper_bound_error (cfg : Cfg) (n : Nat) (lo hi : IntS) (hne : lo.val ≤ hi.val)
    (h : (n : Int) < hi.val) : fixedSel cfg n n (.range lo hi) = none := by
  cases hlo : lo.eval with
  | none => simp only [fixedSel, hlo]
  | some a =>
    cases hhi : hi.eval with
    | none => simp only [fixedSel, hlo, hhi]
    | some b =>
      have ha := IntS.eval_val lo a hlo
      have hb := IntS.eval_val hi b hhi
      simp only [fixedSel, hlo, hhi, sliceSel]
      by_cases hc : cfg.sliceCheck = true ∧ 0 < 1
      · have hab : a ≤ b := by omega
        have hbad : a < 1 ∨ a + (b - a) / ((1 : Nat) : Int) * ((1 : Nat) : Int) > (n : Int) := by
          right; simp; omega
        rw [if_pos hc, if_pos hab, if_pos hbad]
      · rw [if_neg hc]
        exact slice_stop_beyond n _ b 1 (by omega)

example : (IntS.lit 1).val ≤ (IntS.lit 4).val ∧ ((3 : Nat) : Int) < (IntS.lit 4).val := by decide

/-- On the current tree every subscript is `Safe`: the three theorems above hold without hypothesis. -/
theorem checked_is_safe (s : FSub) : Safe Cfg.checked s := checked_safe s

/-- Current tree, full strength: an accepted subscript selects exactly what it denotes, inside `1..n`. -/
theorem checked_in_range_or_error (n : Nat) (s : FSub) (ps : List Nat)
    (h : fixedSel Cfg.checked n n s = some ps) : ∃ d, s.denote n = some d ∧ InRange n d ∧ ps = pos d :=
  fixedSel_sound Cfg.checked n s ps (checked_is_safe s) h

example : fixedSel Cfg.checked 4 4 (.range3 (.lit 1) (.lit 2) (.lit 4)) = some [0, 2] := by decide

/-- Current tree, full strength: every subscript that denotes an index outside `1..n`, or has step 0, raises. -/
theorem checked_out_of_range_error (n : Nat) (s : FSub)
    (h : s.denote n = none ∨ ∃ d, s.denote n = some d ∧ ∃ i ∈ d, i < 1 ∨ (n : Int) < i) :
    fixedSel Cfg.checked n n s = none :=
  fixedSel_oob Cfg.checked n s (checked_is_safe s) h

example : (FSub.range (.par (-1)) (.lit 2)).denote 3 = some [-1, 0, 1, 2] := by decide

/-- Current tree, full strength: nothing is selected only when nothing is denoted. -/
theorem checked_never_empty_silently (n : Nat) (s : FSub) (h : fixedSel Cfg.checked n n s = some []) :
    s.denote n = some [] :=
  never_empty_silently Cfg.checked n s (checked_is_safe s) h

example : fixedSel Cfg.checked 3 3 (.range (.lit 5) (.lit 4)) = some [] := by decide

/-- A loop-dependent subscript `mul*i + off` that is accepted reads, at every loop value, the element it
    denotes, and every such element exists. -/
theorem loop_in_range_or_error (cfg : Cfg) (n : Nat) (vals : List Int) (mul off : Int) (ps : List Nat)
    (hsafe : LoopSafe cfg vals mul off) (h : loopIdxSel cfg n n vals mul off = some ps) :
    InRange n (vals.map (fun v => mul * v + off)) ∧ ps = pos (vals.map (fun v => mul * v + off)) :=
  loopIdxSel_sound cfg n vals mul off ps hsafe h

example : LoopSafe Cfg.asIs [1, 2] 1 1 ∧ loopIdxSel Cfg.asIs 3 3 [1, 2] 1 1 = some [1, 2] :=
  ⟨Or.inr (by decide), by decide⟩

/-- A loop-dependent subscript that leaves `1..n` at some loop value makes generation raise. -/
theorem loop_out_of_range_error (cfg : Cfg) (n : Nat) (vals : List Int) (mul off : Int)
    (hsafe : LoopSafe cfg vals mul off)
    (h : ∃ v ∈ vals, mul * v + off < 1 ∨ (n : Int) < mul * v + off) :
    loopIdxSel cfg n n vals mul off = none :=
  loopIdxSel_oob cfg n vals mul off hsafe h

example : LoopSafe Cfg.asIs [1, 2, 3] 1 1 ∧ ∃ v ∈ [1, 2, 3], (1 : Int) * v + 1 < 1 ∨ ((3 : Nat) : Int) < 1 * v + 1 :=
  ⟨Or.inr (by decide), 3, by decide, by decide⟩

theorem checked_is_loop_safe (vals : List Int) (mul off : Int) : LoopSafe Cfg.checked vals mul off :=
  Or.inl rfl

/-- End to end, current tree, `x[s]` on `Real x[n]` in an equation: if generation succeeds the residual holds
    exactly the denoted elements, in order (an empty selection discards the equation: `norm`). -/
theorem eq_1d_sound (n : Nat) (s : FSub) (rows : List (List Pos))
    (h : outcome Cfg.checked ⟨.d1 n, .f1 s, none⟩ = some rows) :
    ∃ d, s.denote n = some d ∧ InRange n d ∧ rows = norm ((pos d).map (fun p => [(p, 0)])) := by
  simp only [outcome, outcomeEq] at h
  cases hs : fixedSel Cfg.checked n n s with
  | none => simp [hs] at h
  | some ps =>
    obtain ⟨d, hd, hr, hp⟩ := fixedSel_sound Cfg.checked n s ps (checked_safe s) hs
    simp only [hs, Option.map_some, Option.some.injEq] at h
    exact ⟨d, hd, hr, by rw [← h, hp]⟩

/-- End to end: a subscript that must be rejected makes generation of the model raise. -/
theorem eq_1d_error (n : Nat) (s : FSub) (h : Bad n s) : outcome Cfg.checked ⟨.d1 n, .f1 s, none⟩ = none := by
  simp [outcome, outcomeEq, fixedSel_oob Cfg.checked n s (checked_safe s) h]

/-- End to end, `x[a, b]` on `Real x[n, m]`: the residual is the sub-matrix of the denoted rows and columns. -/
theorem eq_2d_sound (n m : Nat) (a b : FSub) (rows : List (List Pos))
    (h : outcome Cfg.checked ⟨.d2 n m, .ff a b, none⟩ = some rows) :
    ∃ da db, a.denote n = some da ∧ b.denote m = some db ∧ InRange n da ∧ InRange m db ∧
      rows = norm (mat2 (pos da) (pos db)) := by
  simp only [outcome, outcomeEq] at h
  cases ha : fixedSel Cfg.checked n n a with
  | none => simp [ha] at h
  | some rs =>
    cases hb : fixedSel Cfg.checked m m b with
    | none => simp [ha, hb] at h
    | some cs =>
      obtain ⟨da, hda, hra, hpa⟩ := fixedSel_sound Cfg.checked n a rs (checked_safe a) ha
      obtain ⟨db, hdb, hrb, hpb⟩ := fixedSel_sound Cfg.checked m b cs (checked_safe b) hb
      simp only [ha, hb, Option.some.injEq] at h
      exact ⟨da, db, hda, hdb, hra, hrb, by rw [← h, hpa, hpb]⟩

/-- End to end: a bad subscript in either dimension makes generation raise. -/
theorem eq_2d_error (n m : Nat) (a b : FSub) (h : Bad n a ∨ Bad m b) :
    outcome Cfg.checked ⟨.d2 n m, .ff a b, none⟩ = none := by
  simp only [outcome, outcomeEq]
  rcases h with h | h
  · rw [fixedSel_oob Cfg.checked n a (checked_safe a) h]
  · rw [fixedSel_oob Cfg.checked m b (checked_safe b) h]
    cases fixedSel Cfg.checked n n a <;> rfl

/-- End to end, `for i in r loop x[mul*i+off] = … end for`: the loop runs over Modelica's values of the range
    and the residual's rows are the elements denoted at each value, all of them existing. -/
theorem loop_1d_sound (n : Nat) (r : LoopRange) (mul off : Int) (hm : mul ≠ 0) (rows : List (List Pos))
    (h : outcome Cfg.checked ⟨.d1 n, .l1 mul off, some r⟩ = some rows) :
    ∃ vals, r.denote = some vals ∧ InRange n (vals.map (fun v => mul * v + off)) ∧
      rows = norm ((pos (vals.map (fun v => mul * v + off))).map (fun p => [(p, 0)])) := by
  simp only [outcome] at h
  cases hv : loopValues Cfg.checked r with
  | none => simp [hv] at h
  | some vals =>
    simp only [hv, outcomeLoop, hm, if_false] at h
    cases hs : loopIdxSel Cfg.checked n n vals mul off with
    | none => simp [hs] at h
    | some ps =>
      obtain ⟨hr, hp⟩ := loopIdxSel_sound Cfg.checked n vals mul off ps (Or.inl rfl) hs
      simp only [hs, Option.map_some, Option.some.injEq] at h
      exact ⟨vals, loopValues_checked r vals hv, hr, by rw [← h, hp]⟩

/-- End to end: a loop-dependent subscript leaving `1..n` at some value of the range makes generation raise. -/
theorem loop_1d_error (n : Nat) (r : LoopRange) (mul off : Int) (hm : mul ≠ 0) (vals : List Int)
    (hd : r.denote = some vals) (h : ∃ v ∈ vals, mul * v + off < 1 ∨ (n : Int) < mul * v + off) :
    outcome Cfg.checked ⟨.d1 n, .l1 mul off, some r⟩ = none := by
  simp only [outcome]
  cases hv : loopValues Cfg.checked r with
  | none => rfl
  | some vals' =>
    have := loopValues_checked r vals' hv
    rw [hd] at this
    have := Option.some.inj this
    subst this
    simp only [outcomeLoop, hm, if_false]
    rw [loopIdxSel_oob Cfg.checked n vals mul off (Or.inl rfl) h]
    rfl

/-- End to end, `x[mul*i+off, b]` in a loop over `r`: each iteration's row holds the denoted row index with the
    denoted columns (nothing at all when `b` denotes nothing). -/
theorem loop_2d_row_sound (n m : Nat) (r : LoopRange) (mul off : Int) (hm : mul ≠ 0) (b : FSub)
    (rows : List (List Pos)) (h : outcome Cfg.checked ⟨.d2 n m, .lf mul off b, some r⟩ = some rows) :
    ∃ vals db, r.denote = some vals ∧ b.denote m = some db ∧ InRange m db ∧
      ((db = [] ∧ rows = []) ∨
       (InRange n (vals.map (fun v => mul * v + off)) ∧
        rows = norm ((pos (vals.map (fun v => mul * v + off))).map (fun r => (pos db).map (fun c => (r, c)))))) := by
  simp only [outcome] at h
  cases hv : loopValues Cfg.checked r with
  | none => simp [hv] at h
  | some vals =>
    have hvd := loopValues_checked r vals hv
    simp only [hv, outcomeLoop, hm, if_false] at h
    cases hb : fixedSel Cfg.checked m m b with
    | none => simp [hb] at h
    | some cs =>
      obtain ⟨db, hdb, hrb, hpb⟩ := fixedSel_sound Cfg.checked m b cs (checked_safe b) hb
      cases cs with
      | nil =>
        simp only [hb, Option.some.injEq] at h
        exact ⟨vals, db, hvd, hdb, hrb, Or.inl ⟨pos_eq_nil db hpb.symm, h.symm⟩⟩
      | cons c cs =>
        simp only [hb] at h
        cases hs : loopIdxSel Cfg.checked n n vals mul off with
        | none => simp [hs] at h
        | some ps =>
          obtain ⟨hr, hp⟩ := loopIdxSel_sound Cfg.checked n vals mul off ps (Or.inl rfl) hs
          simp only [hs, Option.map_some, Option.some.injEq] at h
          exact ⟨vals, db, hvd, hdb, hrb, Or.inr ⟨hr, by rw [← h, hp, hpb]⟩⟩

/-- End to end, `x[a, mul*i+off]` in a loop over `r`. -/
theorem loop_2d_col_sound (n m : Nat) (r : LoopRange) (a : FSub) (mul off : Int) (hm : mul ≠ 0)
    (rows : List (List Pos)) (h : outcome Cfg.checked ⟨.d2 n m, .fl a mul off, some r⟩ = some rows) :
    ∃ vals da, r.denote = some vals ∧ a.denote n = some da ∧ InRange n da ∧
      ((da = [] ∧ rows = []) ∨
       (InRange m (vals.map (fun v => mul * v + off)) ∧
        rows = norm ((pos (vals.map (fun v => mul * v + off))).map (fun c => (pos da).map (fun r => (r, c)))))) := by
  simp only [outcome] at h
  cases hv : loopValues Cfg.checked r with
  | none => simp [hv] at h
  | some vals =>
    have hvd := loopValues_checked r vals hv
    simp only [hv, outcomeLoop, hm, if_false] at h
    cases ha : fixedSel Cfg.checked n n a with
    | none => simp [ha] at h
    | some rs =>
      obtain ⟨da, hda, hra, hpa⟩ := fixedSel_sound Cfg.checked n a rs (checked_safe a) ha
      cases rs with
      | nil =>
        simp only [ha, Option.some.injEq] at h
        exact ⟨vals, da, hvd, hda, hra, Or.inl ⟨pos_eq_nil da hpa.symm, h.symm⟩⟩
      | cons c cs =>
        simp only [ha] at h
        cases hs : loopIdxSel Cfg.checked m m vals mul off with
        | none => simp [hs] at h
        | some ps =>
          obtain ⟨hr, hp⟩ := loopIdxSel_sound Cfg.checked m vals mul off ps (Or.inl rfl) hs
          simp only [hs, Option.map_some, Option.some.injEq] at h
          exact ⟨vals, da, hvd, hda, hra, Or.inr ⟨hr, by rw [← h, hp, hpa]⟩⟩


example : outcome Cfg.checked ⟨.d1 3, .f1 (.range (.lit 2) (.lit 3)), none⟩ = some [[(1, 0)], [(2, 0)]] := by decide
example : Bad 3 (.range (.lit 0) (.lit 2)) := Or.inr ⟨[0, 1, 2], by decide, 0, by decide, by decide⟩
example : outcome Cfg.checked ⟨.d2 2 3, .ff (.idx (.lit 2)) (.range (.lit 2) (.lit 3)), none⟩
    = some [[(1, 1), (1, 2)]] := by decide
example : outcome Cfg.checked ⟨.d1 3, .l1 1 (-1), some (.two (.lit 2) (.lit 3))⟩ = some [[(0, 0)], [(1, 0)]] := by
  decide
example : outcome Cfg.checked ⟨.d1 3, .l1 1 (-1), some (.two (.lit 1) (.lit 3))⟩ = none := by decide
example : outcome Cfg.checked ⟨.d2 2 3, .lf 1 0 (.range (.lit 1) (.lit 2)), some (.two (.lit 1) (.lit 2))⟩
    = some [[(0, 0), (0, 1)], [(1, 0), (1, 1)]] := by decide
example : outcome Cfg.checked ⟨.d2 2 3, .fl .all 1 1, some (.two (.lit 1) (.lit 2))⟩
    = some [[(0, 1), (1, 1)], [(0, 2), (1, 2)]] := by decide

/-- Finding C23-F4 (fixed by 8f5c8e6): without padding a single subscript on a 2-D array indexes the storage linearly —
    `x[2]` on `Real x[2,3]` is the element `x[2,1]`, and `x[1:2]` two elements of the first column. -/
theorem single_subscript_is_linear :
    outcome Cfg.checked ⟨.d2 2 3, .f1 (.idx (.lit 2)), none⟩ = some [[(1, 0)]] ∧
    outcome Cfg.checked ⟨.d2 2 3, .f1 (.range (.lit 1) (.lit 2)), none⟩ = some [[(0, 0)], [(1, 0)]] := by
  decide

/-- With the padding of missing subscripts (C23-3, the current tree) a single subscript on `Real x[n, m]` selects whole rows: exactly the
    denoted rows, all of them existing, each with all `m` columns. -/
theorem padded_single_subscript_selects_rows (n m : Nat) (a : FSub) (rows : List (List Pos))
    (h : outcomePadded Cfg.checked ⟨.d2 n m, .f1 a, none⟩ = some rows) :
    ∃ da, a.denote n = some da ∧ InRange n da ∧ rows = norm (mat2 (pos da) (pos (upRange 1 1 m))) := by
  obtain ⟨da, db, hda, hdb, hra, _, hrows⟩ := eq_2d_sound n m a .all rows h
  simp only [FSub.denote, Option.some.injEq] at hdb
  subst hdb
  exact ⟨da, hda, hra, hrows⟩

example : outcomePadded Cfg.checked ⟨.d2 2 3, .f1 (.idx (.lit 2)), none⟩ = some [[(1, 0), (1, 1), (1, 2)]] := by decide

/-- …and a bad single subscript is rejected. -/
theorem padded_single_subscript_error (n m : Nat) (a : FSub) (h : Bad n a) :
    outcomePadded Cfg.checked ⟨.d2 n m, .f1 a, none⟩ = none :=
  eq_2d_error n m a .all (Or.inl h)

example : Bad 2 (.idx (.lit 3)) := Or.inr ⟨[3], rfl, 3, by simp, by decide⟩

/-- References through components (`d.v[…]`, `c[…].v[…]`, any depth): more subscripts on one part of the name
    than that part has dimensions — in particular any subscript on a scalar part — makes generation raise,
    whatever the other parts hold and whatever the values of the subscripts are. -/
theorem too_many_subscripts_at_a_level_error (cfg : Cfg) (pre post : List Level) (l : Level)
    (h : l.dims.length < l.subs.length) (loop : Option LoopRange) :
    outcomeNested cfg (pre ++ l :: post) loop = none := by
  have hl : padLevel l = none := by simp [padLevel, h]
  have : padLevels (pre ++ l :: post) = none := by
    induction pre with
    | nil => simp [padLevels, hl]
    | cons p ps ih =>
      simp only [List.cons_append, padLevels, ih]
      cases padLevel p <;> rfl
  simp [outcomeNested, this]

example : (⟨[3], [.fixed (.idx (.lit 2)), .fixed (.idx (.lit 5))]⟩ : Level).dims.length
    < (⟨[3], [.fixed (.idx (.lit 2)), .fixed (.idx (.lit 5))]⟩ : Level).subs.length := by decide

/-- A reference `c[a].v[b]` (one dimension on each of two parts) is the 2-D reference `x[a, b]` on the
    flattened symbol, so `eq_2d_sound` / `eq_2d_error` apply to it. -/
theorem nested_two_parts_is_2d (cfg : Cfg) (n m : Nat) (a b : FSub) (loop : Option LoopRange) :
    outcomeNested cfg [⟨[n], [.fixed a]⟩, ⟨[m], [.fixed b]⟩] loop = outcome cfg ⟨.d2 n m, .ff a b, loop⟩ := by
  simp [outcomeNested, padLevels, padLevel, pairsToCase]

/-- …and `d.v[b]` on a scalar component is the 1-D reference `x[b]`. -/
theorem nested_scalar_component_is_1d (cfg : Cfg) (m : Nat) (b : FSub) (loop : Option LoopRange) :
    outcomeNested cfg [⟨[], []⟩, ⟨[m], [.fixed b]⟩] loop = outcome cfg ⟨.d1 m, .f1 b, loop⟩ := by
  simp [outcomeNested, padLevels, padLevel, pairsToCase]

example : outcomeNested Cfg.checked [⟨[2], [.fixed (.idx (.lit 1))]⟩, ⟨[3], [.fixed (.idx (.lit 2))]⟩] none
    = some [[(0, 1)]] := by decide
example : outcomeNested Cfg.checked [⟨[], []⟩, ⟨[3], [.fixed (.idx (.lit 2)), .fixed (.idx (.lit 5))]⟩] none = none := by
  decide

/-- Several references in one equation (stencils such as `x[i+1] - x[i-1]`): generation raises exactly when
    one of the references, taken on its own, raises — no reference is covered by another one's check. -/
theorem each_reference_is_checked (cfg : Cfg) (c₁ c₂ : Case) :
    outcomePair cfg c₁ c₂ = none ↔ outcomePadded cfg c₁ = none ∨ outcomePadded cfg c₂ = none := by
  unfold outcomePair
  cases outcomePadded cfg c₁ <;> cases outcomePadded cfg c₂ <;> simp

/-- …and when it succeeds each reference contributes exactly the elements it selects on its own. -/
theorem each_reference_selects_its_own (cfg : Cfg) (c₁ c₂ : Case) (rows : List (List Pos))
    (h : outcomePair cfg c₁ c₂ = some rows) :
    ∃ r₁ r₂, outcomePadded cfg c₁ = some r₁ ∧ outcomePadded cfg c₂ = some r₂ ∧ rows = joinRows r₁ r₂ := by
  unfold outcomePair at h
  cases h₁ : outcomePadded cfg c₁ with
  | none => simp [h₁] at h
  | some r₁ =>
    cases h₂ : outcomePadded cfg c₂ with
    | none => simp [h₁, h₂] at h
    | some r₂ =>
      simp only [h₁, h₂, Option.some.injEq] at h
      exact ⟨r₁, r₂, rfl, rfl, h.symm⟩

example : outcomePair Cfg.checked ⟨.d1 5, .l1 1 1, some (.two (.lit 2) (.lit 4))⟩ ⟨.d1 5, .l1 1 (-1), some (.two (.lit 2) (.lit 4))⟩
    = some [[(2, 0), (0, 0)], [(3, 0), (1, 0)], [(4, 0), (2, 0)]] := by decide
example : outcomePair Cfg.checked ⟨.d1 5, .l1 1 1, some (.two (.lit 1) (.lit 4))⟩ ⟨.d1 5, .l1 1 (-1), some (.two (.lit 1) (.lit 4))⟩
    = none := by decide

/-- A subscript on a scalar always makes generation raise. -/
theorem scalar_subscript_error (cfg : Cfg) (s : Subs) (l : Option LoopRange) :
    outcome cfg ⟨.scalar, s, l⟩ = none := by
  cases l with
  | none => simp [outcome, outcomeEq]
  | some r =>
    simp only [outcome]
    cases loopValues cfg r <;> simp [outcomeLoop]

/-- More subscripts than dimensions always make generation raise. -/
theorem too_many_subscripts_error (cfg : Cfg) (n m : Nat) (a b : FSub) (mul off : Int) (l : Option LoopRange) :
    outcome cfg ⟨.d1 n, .ff a b, l⟩ = none ∧ outcome cfg ⟨.d1 n, .lf mul off b, l⟩ = none ∧
    outcome cfg ⟨.d1 n, .fl a mul off, l⟩ = none ∧ outcome cfg ⟨.d1 n, .more, l⟩ = none ∧
    outcome cfg ⟨.d2 n m, .more, l⟩ = none := by
  cases l with
  | none => simp [outcome, outcomeEq]
  | some r =>
    simp only [outcome]
    cases loopValues cfg r <;> simp [outcomeLoop]

/-- The hypotheses `Safe` / `LoopSafe` could not be dropped on the tree before the fixes (findings C23-F1, F2, F3):
    `x[0:2]` on `Real x[3]` selects nothing, `x[0:3]` selects `x[3]`, `x[2:p]` with `p = -1` selects `x[2]`,
    `x[i-1]` over `i = 1, 2, 3` reads `x[3], x[1], x[2]`, `x[1:2:3]` on `Real x[4]` selects `x[1]` only. -/
theorem asIs_reinterprets :
    fixedSel Cfg.asIs 3 3 (.range (.lit 0) (.lit 2)) = some [] ∧
    fixedSel Cfg.asIs 3 3 (.range (.lit 0) (.lit 3)) = some [2] ∧
    fixedSel Cfg.asIs 3 3 (.range (.lit 2) (.par (-1))) = some [1] ∧
    loopIdxSel Cfg.asIs 3 3 [1, 2, 3] 1 (-1) = some [2, 0, 1] ∧
    fixedSel Cfg.asIs 4 4 (.range3 (.lit 1) (.lit 2) (.lit 3)) = some [0] ∧
    (FSub.range3 (.lit 1) (.lit 2) (.lit 3)).denote 4 = some [1, 3] := by
  decide

/-- …and the same inputs are rejected, respectively read as Modelica says, on the current tree. -/
theorem checked_rejects_them :
    fixedSel Cfg.checked 3 3 (.range (.lit 0) (.lit 2)) = none ∧
    fixedSel Cfg.checked 3 3 (.range (.lit 0) (.lit 3)) = none ∧
    fixedSel Cfg.checked 3 3 (.range (.lit 2) (.par (-1))) = some [] ∧
    loopIdxSel Cfg.checked 3 3 [1, 2, 3] 1 (-1) = none ∧
    fixedSel Cfg.checked 4 4 (.range3 (.lit 1) (.lit 2) (.lit 3)) = some [0, 2] := by
  decide

end PymocaVerif.Index
