import PymocaVerif.Lemmas.AliasRelRemove
/-!
Specification-level definitions for C17 (admissible histories, the signed closure, the
specification run) and two helper lemmas; example states used for non-vacuity.
-/
namespace PymocaVerif.AliasRel

theorem add_refines' (s : AR) (w : WFR s) (a b : SName) (hpre : b ∉ s.aliases (tog a)) :
    ∃ s', s.add a b = some s' ∧ WFR s' := by
  by_cases hb : b ∈ s.aliases a
  · exact ⟨s, add_noop s w.cls a b hb, w⟩
  · exact ⟨_, add_eff s a b hb, addRes_wfr s w a b hb hpre⟩

theorem remove_refines' (s : AR) (w : WFR s) (a : SName) : ∃ s', s.remove a = some s' ∧ WFR s' := by
  by_cases h : a.1 = true ∨ a.2 ∉ s.cv
  · exact ⟨s, remove_noop s a h, w⟩
  · have h1 : a.1 = false := by
      cases ha : a.1 with
      | false => rfl
      | true => exact absurd (Or.inl ha) h
    have h2 : a.2 ∈ s.cv := by
      apply Classical.byContradiction; intro hn; exact h (Or.inr hn)
    exact ⟨_, remove_eff s w a h1 h2, removeRes_wfr s w a h1 h2⟩

/-- every `add` of the history is admissible in the state in which it is executed -/
def AdmissibleH : Store → List Op → Prop
  | _, [] => True
  | st, op :: ops => admissible st op = true ∧ ∀ st', step st op = some st' → AdmissibleH st' ops

theorem step_safe (st : Store) (hw : ∀ o, WFR (st o)) (op : Op) (ha : admissible st op = true) :
    ∃ st', step st op = some st' ∧ ∀ o, WFR (st' o) := by
  cases op with
  | add o a b =>
    simp only [admissible, Bool.not_eq_true', decide_eq_false_iff_not] at ha
    obtain ⟨s', hs, hw'⟩ := add_refines' (st o) (hw o) a b ha
    refine ⟨fun i => if i = o then s' else st i, by simp [step, hs], ?_⟩
    intro i; by_cases hi : i = o <;> simp [hi, hw', hw i]
  | remove o a =>
    obtain ⟨s', hs, hw'⟩ := remove_refines' (st o) (hw o) a
    refine ⟨fun i => if i = o then s' else st i, by simp [step, hs], ?_⟩
    intro i; by_cases hi : i = o <;> simp [hi, hw', hw i]
  | copy src dst =>
    refine ⟨_, rfl, ?_⟩
    intro i; by_cases hi : i = dst <;> simp [hi, AR.copy, hw src, hw i]

/-- which object an operation writes -/
def Op.target : Op → Nat
  | .add o _ _ => o
  | .remove o _ => o
  | .copy _ dst => dst

abbrev Rel := SName → SName → Prop

/-- signed union-find closure: the least equivalence compatible with negation that contains `R`
    and the pair `(a, b)` -/
inductive SClos (R : Rel) (a b : SName) : Rel
  | base {x y} : R x y → SClos R a b x y
  | pair : SClos R a b a b
  | refl {x} : SClos R a b x x
  | symm {x y} : SClos R a b x y → SClos R a b y x
  | trans {x y z} : SClos R a b x y → SClos R a b y z → SClos R a b x z
  | neg {x y} : SClos R a b x y → SClos R a b (tog x) (tog y)

/-- the relation of a state: `y` is in the class of `x` -/
def relOf (s : AR) : Rel := fun x y => y ∈ s.aliases x

/-- dissolving the classes of `a` and `-a` -/
def dissolve (R : Rel) (a : SName) : Rel := fun x y =>
  ((R a x ∨ R (tog a) x) ∧ y = x) ∨ (¬ (R a x ∨ R (tog a) x) ∧ R x y)

/-- the specification of one operation on the family of relations (one per object); `remove` is
    effective when its argument is, at that moment, a canonical variable of the object -/
def specStep (R : Nat → Rel) (st : Store) : Op → (Nat → Rel)
  | .add o a b => fun i => if i = o then SClos (R o) a b else R i
  | .remove o a => fun i =>
      if i = o then (fun x y => if a.1 = false ∧ a.2 ∈ (st o).cv then dissolve (R o) a x y else R o x y) else R i
  | .copy src dst => fun i => if i = dst then R src else R i

/-- the specification of a history, run alongside the model -/
def specRun (R : Nat → Rel) (st : Store) : List Op → (Nat → Rel)
  | [] => R
  | op :: ops =>
    match step st op with
    | some st' => specRun (specStep R st op) st' ops
    | none => R

theorem sclos_congr (R R' : Rel) (hR : ∀ x y, R x y ↔ R' x y) (a b x y : SName) :
    SClos R a b x y ↔ SClos R' a b x y := by
  constructor
  · intro c
    induction c with
    | base r => exact SClos.base ((hR _ _).1 r)
    | pair => exact SClos.pair
    | refl => exact SClos.refl
    | symm _ ih => exact SClos.symm ih
    | trans _ _ i1 i2 => exact SClos.trans i1 i2
    | neg _ ih => exact SClos.neg ih
  · intro c
    induction c with
    | base r => exact SClos.base ((hR _ _).2 r)
    | pair => exact SClos.pair
    | refl => exact SClos.refl
    | symm _ ih => exact SClos.symm ih
    | trans _ _ i1 i2 => exact SClos.trans i1 i2
    | neg _ ih => exact SClos.neg ih


/-! ### example states: `a ~ b`, then `b ~ -c` -/

def exS1 : AR := AR.empty.addRes (false, "a") (false, "b")
def exS2 : AR := exS1.addRes (false, "b") (true, "c")

theorem exS1_wfr : WFR exS1 := addRes_wfr AR.empty empty_wfr _ _ (by decide) (by decide)
theorem exS2_wfr : WFR exS2 := addRes_wfr exS1 exS1_wfr _ _ (by decide) (by decide)

end PymocaVerif.AliasRel
