"""Generator, renderer and reference instantiation for C09 (connection graphs).

A *case* is a JSON-able description, independent of pymoca and of the Lean model:

    {"stream": "flat" | "hier" | "hier-open",
     "ctypes": {"P0": [["v0", []], ["i0", ["flow"]], ...]},           connector classes, variables in declaration order
     "models": [{"name": "M0",
                 "decl": [["a", "P0", "conn"], ["r", "M0", "comp"], ["q", "M0", "comp", [2, 3]], ...], declarations in order;
                                                                         an optional 4th entry = dimensions of an array of components
                 "body": [{"eq": {"terms": [[2, "a.v0"], [-1, "b.i0"]], "const": 3}},
                          {"connect": [["a"], ["r", "b"]]}, {"connect": [["q[1,2]", "b"], ["q[2,1]", "a"]]}, ...]},
                                                                         equation section in order; an element of an array of
                                                                         components is the path part `name[i,j]` (literal subscripts)
                ...],                                                   a model only instantiates earlier models
     "top": "T"}                                                       name of the last model

`render` writes the Modelica text, `instantiate` walks the description the way Modelica
instantiation does (components in declaration order, a component's equations before the enclosing
class's own) and returns flat names, component equations and the connect edges with their faces
(inside = the reference has two parts, outside = one part, relative to the class holding the clause).
"""
from fractions import Fraction

SEP = "."


# ---- rendering ------------------------------------------------------------------------------
def _term(c, v, first):
    if c == 1:
        s = v
    elif c == -1:
        s = "-" + v if first else v
    else:
        s = "%d*%s" % (abs(c) if not first else c, v)
    if first:
        return s
    return (" - " if c < 0 else " + ") + s


def render_eq(eq):
    terms = [t for t in eq["terms"] if t[0] != 0]
    lhs = "".join(_term(c, v, i == 0) for i, (c, v) in enumerate(terms)) or "0"
    return "%s = %d" % (lhs, eq["const"])


def _render_connector(out, name, vs, ind):
    out.append("%sconnector %s" % (ind, name))
    for vn, prefixes in vs:
        out.append("%s  %sReal %s;" % (ind, "".join(p + " " for p in prefixes), vn))
    out.append("%send %s;" % (ind, name))


def render(case):
    """Connector classes named `Pkg.Name` are written inside `package Pkg` (several packages may hold
    connector classes with the same simple name); models refer to them by the qualified name."""
    out = []
    pkgs = {}
    for name, vs in case["ctypes"].items():
        if SEP in name:
            pkg, simple = name.split(SEP, 1)
            pkgs.setdefault(pkg, []).append((simple, vs))
        else:
            _render_connector(out, name, vs, "")
    for pkg, items in pkgs.items():
        out.append("package %s" % pkg)
        for simple, vs in items:
            _render_connector(out, simple, vs, "  ")
        out.append("end %s;" % pkg)
    for m in case["models"]:
        out.append("model %s" % m["name"])
        for d in m["decl"]:
            out.append("  %s %s%s;" % (d[1], d[0], "[%s]" % ",".join(map(str, d[3])) if len(d) > 3 and d[3] else ""))
        if m["body"]:
            out.append("equation")
        for it in m["body"]:
            if "eq" in it:
                out.append("  %s;" % render_eq(it["eq"]))
            else:
                l, r = it["connect"]
                out.append("  connect(%s, %s);" % (SEP.join(l), SEP.join(r)))
        out.append("end %s;" % m["name"])
    return "\n".join(out) + "\n"


# ---- classification of connector variables (Modelica: flow / parameter,constant / potential) --
def var_kind(prefixes):
    if "flow" in prefixes:
        return "flow"
    if "parameter" in prefixes or "constant" in prefixes:
        return "skip"
    return "pot"


# ---- arrays of components ---------------------------------------------------------------------
def dims_of(d):
    return list(d[3]) if len(d) > 3 and d[3] else []


def index_tuples(dims):
    """All subscript tuples of an array with the given dimensions, row-major, 1-based; [()] for a scalar."""
    out = [()]
    for n in dims:
        out = [t + (i,) for t in out for i in range(1, n + 1)]
    return out


def elem(name, idx):
    return name + ("[%s]" % ",".join(map(str, idx)) if idx else "")


def base(part):
    return part.split("[", 1)[0]


# ---- reference instantiation ------------------------------------------------------------------
class Inst:
    def __init__(self):
        self.flows = []       # flat flow variable names, declaration order
        self.pots = []        # flat potential variable names
        self.skips = []       # parameters / constants inside connectors
        self.conns = []       # (flat connector name, ctype, top_level: bool)
        self.comp_eqs = []    # component equations as linear forms {var: Fraction, "": const} meaning sum = 0
        self.edges = []       # dicts: pre, l, r (paths), lflat, rflat, linner, rinner, ctype


def instantiate(case):
    models = {m["name"]: m for m in case["models"]}
    inst = Inst()

    def walk(m, prefix):
        for d in m["decl"]:
            n, t, k = d[0], d[1], d[2]
            if k == "conn":
                flat = prefix + n
                inst.conns.append((flat, t, prefix == ""))
                for vn, prefixes in case["ctypes"][t]:
                    kind = var_kind(prefixes)
                    (inst.flows if kind == "flow" else inst.pots if kind == "pot" else inst.skips).append(flat + SEP + vn)
            else:
                # an array of components is its elements, each instantiated like a scalar component
                for idx in index_tuples(dims_of(d)):
                    walk(models[t], prefix + elem(n, idx) + SEP)
        for it in m["body"]:
            if "eq" in it:
                f = {}
                for c, v in it["eq"]["terms"]:
                    f[prefix + v] = f.get(prefix + v, Fraction(0)) + Fraction(c)
                f[""] = f.get("", Fraction(0)) - Fraction(it["eq"]["const"])
                inst.comp_eqs.append({k2: v2 for k2, v2 in f.items() if v2 != 0})
            else:
                l, r = it["connect"]
                ctype = conn_type(case, models, m, l)
                inst.edges.append(dict(pre=prefix, l=list(l), r=list(r), lflat=prefix + SEP.join(l),
                                       rflat=prefix + SEP.join(r), linner=len(l) > 1, rinner=len(r) > 1,
                                       ctype=ctype))

    walk(models[case["top"]], "")
    return inst


def conn_type(case, models, m, path):
    cur = m
    for i, part in enumerate(path):
        d = [x for x in cur["decl"] if x[0] == base(part)][0]
        if d[2] == "conn":
            return d[1]
        cur = models[d[1]]
    raise ValueError("path %r does not end at a connector" % (path,))


# ---- structured generator ---------------------------------------------------------------------
FAMILIES = ["chain", "star", "cycle", "dup", "merge", "random", "bridge"]


# Names are drawn from pools in which some names are string prefixes of others (p/p2/pin/pin1, g/gnd,
# a/ab, c/c1/c10, a top-level connector `c` next to a component `c1`): bookkeeping by flat name must
# not confuse `t.p` with `t.p2`, nor `g` with `gnd`.
CONN_NAMES = ["a", "ab", "b", "p", "p2", "pin", "pin1", "n", "pos", "p_in"]
TOP_NAMES = ["g", "gnd", "o", "o1", "out", "p", "p2", "pin", "c", "c1", "c10", "r", "r2", "t", "tp", "a", "ab", "n", "n1", "m"]
STEMS = [("v", "i"), ("T", "q"), ("h", "w")]


def gen_ctypes(rng):
    """One or two connector classes.  With two: sometimes in two packages under the SAME simple name
    (El.Port / Th.Port), sometimes in packages under different names, sometimes at the top level;
    variable names either shared between the classes or taken from different stems."""
    n = rng.choice([1, 1, 2, 2])
    r = rng.random()
    if n == 2 and r < 0.45:
        names = ["El.Port", "Th.Port"]
    elif r < 0.6:
        names = ["El.Pin", "Th.Port"][:n]
    else:
        names = ["P0", "P1"][:n]
    distinct_stems = rng.random() < 0.6
    cts = {}
    for ci, name in enumerate(names):
        sp, sf = STEMS[ci] if distinct_stems else STEMS[0]
        npot, nflow = rng.randint(1, 3), rng.randint(1, 2)
        vs = [["%s%d" % (sp, i), []] for i in range(npot)] + [["%s%d" % (sf, i), ["flow"]] for i in range(nflow)]
        r = rng.random()
        if r < 0.15:
            vs[0][1] = [rng.choice(["input", "output"])]
        if rng.random() < 0.15:
            vs.append(["k0", [rng.choice(["parameter", "constant"])]])
        rng.shuffle(vs)
        cts[name] = vs
    return cts


def gen_leaf(rng, cts, name):
    n = rng.randint(1, 3)
    names = rng.sample(CONN_NAMES, n) if rng.random() < 0.7 else rng.choice([["p", "p2", "pin"], ["a", "ab", "b"], ["p", "pos", "p_in"]])[:n]
    decl = [[names[i], rng.choice(sorted(cts)), "conn"] for i in range(n)]
    allv = [c[0] + SEP + v[0] for c in decl for v in cts[c[1]] if var_kind(v[1]) != "skip"]
    body = []
    for _ in range(rng.choice([0, 1, 1, 2])):
        k = min(len(allv), rng.randint(1, 3))
        vs = rng.sample(allv, k)
        body.append({"eq": {"terms": [[rng.choice([-3, -2, -1, 1, 1, 2, 3]), v] for v in vs],
                            "const": rng.choice([0, 0, 1, -2, 5])}})
    return {"name": name, "decl": decl, "body": body}


def fragments(rng, nodes, family):
    """Edges (ordered) of one graph fragment over `nodes` (a list of paths of one connector type)."""
    if len(nodes) < 2:
        return [[nodes[0], nodes[0]]] if nodes and rng.random() < 0.3 else []
    k = rng.randint(2, min(len(nodes), 6))
    ns = rng.sample(nodes, k)
    if family == "chain":
        es = [[ns[i], ns[i + 1]] for i in range(k - 1)]
        if rng.random() < 0.5:
            rng.shuffle(es)
    elif family == "star":
        es = [[ns[0], x] for x in ns[1:]]
    elif family == "cycle":
        es = [[ns[i], ns[(i + 1) % k]] for i in range(k)] if k > 2 else [[ns[0], ns[1]], [ns[1], ns[0]]]
    elif family == "dup":
        es = [[ns[i], ns[i + 1]] for i in range(k - 1)]
        for _ in range(rng.randint(1, 3)):
            e = rng.choice(es)
            es.insert(rng.randrange(len(es) + 1), list(e) if rng.random() < 0.5 else [e[1], e[0]])
    elif family == "merge":
        # two sets are built separately, then one late edge between members (not the first ones) merges them
        h = max(1, k // 2)
        a, b = ns[:h], ns[h:]
        es = [[a[i], a[i + 1]] for i in range(len(a) - 1)] + [[b[i], b[i + 1]] for i in range(len(b) - 1)]
        rng.shuffle(es)
        es.append([rng.choice(a), rng.choice(b)])
        rest = [n for n in nodes if n not in ns]
        if rest and rng.random() < 0.5:      # a third set merged into the union afterwards
            c = rng.sample(rest, min(len(rest), 2))
            es += [[c[i], c[i + 1]] for i in range(len(c) - 1)]
            es.append([rng.choice(c), rng.choice(ns)] if rng.random() < 0.5 else [rng.choice(ns), rng.choice(c)])
    elif family == "bridge":
        # three pairs, then the pairs are joined right-set-into-left-set and left-into-right
        es = [[ns[i], ns[i + 1]] for i in range(0, k - 1, 2)]
        heads = [e[rng.randrange(2)] for e in es]
        for i in range(len(heads) - 1):
            es.append([heads[i + 1], heads[i]] if rng.random() < 0.5 else [heads[i], heads[i + 1]])
    else:
        es = [[rng.choice(ns), rng.choice(ns)] for _ in range(rng.randint(1, k + 2))]
        es = [e for e in es if e[0] != e[1] or rng.random() < 0.2]
    return [[list(e[0]), list(e[1])] if rng.random() < 0.6 else [list(e[1]), list(e[0])] for e in es]


def nodes_of(case_models, m):
    """Connector paths referable from inside model m, by connector type."""
    models = {x["name"]: x for x in case_models}
    out = {}
    for d in m["decl"]:
        n, t, k = d[0], d[1], d[2]
        if k == "conn":
            out.setdefault(t, []).append([n])
        else:
            for idx in index_tuples(dims_of(d)):
                for d2 in models[t]["decl"]:
                    if d2[2] == "conn":
                        out.setdefault(d2[1], []).append([elem(n, idx), d2[0]])
    return out


def gen_composite(rng, cts, lower, name, n_out, n_comp, fams=None):
    names = rng.sample(TOP_NAMES, n_out + n_comp)
    decl = [[names[i], rng.choice(sorted(cts)), "conn"] for i in range(n_out)]
    decl += [[names[n_out + i], rng.choice(lower)["name"], "comp"] for i in range(n_comp)]
    rng.shuffle(decl)
    m = {"name": name, "decl": decl, "body": []}
    by_type = nodes_of(lower, m)
    used = []
    edges = []
    for t in sorted(by_type):
        nfrag = rng.choice([1, 1, 2, 3])
        pool = list(by_type[t])
        disjoint = nfrag > 1 and len(pool) >= 2 * nfrag and rng.random() < 0.6
        if disjoint:                       # fragments over disjoint node groups: several sets survive
            rng.shuffle(pool)
            cuts = sorted(rng.sample(range(2, len(pool) - 1), nfrag - 1)) if len(pool) > 3 else []
            groups = [pool[i:j] for i, j in zip([0] + cuts, cuts + [len(pool)])]
        else:
            groups = [pool] * nfrag
        for g in groups:
            fam = rng.choice(fams or FAMILIES)
            used.append(fam)
            edges += fragments(rng, g, fam)
    if rng.random() < 0.3:
        rng.shuffle(edges)
    body = [{"connect": e} for e in edges]
    # a few plain equations of the composite itself, interleaved with the connect clauses
    outs = [d for d in decl if d[2] == "conn"]
    for _ in range(rng.choice([0, 0, 1])):
        if outs:
            o = rng.choice(outs)
            vs = [v for v in cts[o[1]] if var_kind(v[1]) == "pot"]
            if vs:
                body.insert(rng.randrange(len(body) + 1),
                            {"eq": {"terms": [[1, o[0] + SEP + rng.choice(vs)[0]]], "const": rng.choice([0, 1, 4])}})
    m["body"] = body
    return m, used


def touched_faces(inst):
    t = set()
    for e in inst.edges:
        t.add((e["lflat"], e["linner"]))
        t.add((e["rflat"], e["rinner"]))
    return t


def open_nested(inst):
    """Nested connectors used as outside connector inside their class but never connected from the
    enclosing class (their inside face is unconnected): Modelica makes their flows zero."""
    t = touched_faces(inst)
    return [c for c, _ty, top in inst.conns if not top and (c, False) in t and (c, True) not in t]


def gen_case(rng, stream):
    """Draws until the stream's side condition holds (hier: no open nested connector; hier-open: at least one)."""
    while True:
        c = _gen_case(rng, stream)
        if c is not None:
            return c


def _gen_case(rng, stream):
    cts = gen_ctypes(rng)
    leaves = [gen_leaf(rng, cts, "L%d" % i) for i in range(rng.randint(1, 3))]
    if stream == "flat":
        top, used = gen_composite(rng, cts, leaves, "T", rng.choice([0, 0, 1, 2, 3]), rng.randint(1, 5))
        case = {"stream": stream, "ctypes": cts, "models": leaves + [top], "top": "T", "families": used}
        return case
    # hierarchical: one or two mid-level models with their own (outside) connectors, then the top
    mids, used = [], []
    for i in range(rng.choice([1, 1, 2])):
        m, u = gen_composite(rng, cts, leaves + mids if rng.random() < 0.25 else leaves, "C%d" % i,
                             rng.randint(1, 3), rng.randint(1, 3), fams=["chain", "star", "merge", "random", "dup"])
        mids.append(m)
        used += u
    lower = leaves + mids
    top, u = gen_composite(rng, cts, lower, "T", rng.choice([0, 1, 2]), rng.randint(1, 3))
    # make sure at least one mid-level model is instantiated
    if not any(d[2] == "comp" and d[1].startswith("C") for d in top["decl"]):
        top["decl"].append(["m0", mids[0]["name"], "comp"])   # "m0" is not in TOP_NAMES
    used += u
    case = {"stream": stream, "ctypes": cts, "models": lower + [top], "top": "T", "families": used}
    if stream == "hier":
        return case if close_open(rng, case) else None
    return case if open_nested(instantiate(case)) else None


def close_open(rng, case):
    """Connect, from the enclosing class, every nested connector that is only used as an outside
    connector, so that the case stays inside the class of models where pymoca's bookkeeping of
    unconnected flows (by name) and Modelica's (by face) coincide."""
    models = {m["name"]: m for m in case["models"]}
    for _ in range(8):
        inst = instantiate(case)
        todo = open_nested(inst)
        if not todo:
            return True
        flat = todo[0]
        parts = flat.split(SEP)
        # the enclosing class of the instance parts[-2] is reached by walking parts[:-2] from the top
        cur = models[case["top"]]
        for p in parts[:-2]:
            cur = models[[d for d in cur["decl"] if d[0] == base(p)][0][1]]
        path = parts[-2:]
        ctype = conn_type(case, models, cur, path)
        peers = [n for n in nodes_of(case["models"], cur).get(ctype, []) if n != path]
        other = rng.choice(peers) if peers and rng.random() < 0.8 else path
        cur["body"].append({"connect": [path, other] if rng.random() < 0.5 else [other, path]})
    return False


# ---- arrays of components (streams "array", "array-open") ---------------------------------------
# Shapes of arrays of components: mostly two dimensions, some three, some one; at most 8 elements.
ARRAY_SHAPES = [[2, 2], [2, 3], [3, 2], [1, 3], [3, 1], [2, 2], [2, 3], [1, 2], [2, 4], [4, 2],
                [2, 2, 2], [1, 2, 2], [2, 1, 2], [2, 2, 1], [1, 2, 3], [1, 1, 2],
                [2], [3], [4]]


def array_groups(case):
    """{(array component name, connector name): [paths of all its elements]} of the top model."""
    models = {m["name"]: m for m in case["models"]}
    out = {}
    for d in models[case["top"]]["decl"]:
        if d[2] == "comp" and dims_of(d):
            for d2 in models[d[1]]["decl"]:
                if d2[2] == "conn":
                    out[(d[0], d2[0])] = [[elem(d[0], idx), d2[0]] for idx in index_tuples(dims_of(d))]
    return out


def partial_arrays(case):
    """Connectors of arrays of components of which some, but not all, elements occur in a connect clause."""
    models = {m["name"]: m for m in case["models"]}
    touched = set()
    for it in models[case["top"]]["body"]:
        if "connect" in it:
            for end in it["connect"]:
                touched.add(tuple(end))
    out = []
    for key, paths in sorted(array_groups(case).items()):
        n = sum(1 for p in paths if tuple(p) in touched)
        if 0 < n < len(paths):
            out.append(key)
    return out


def _gen_array_case(rng, stream):
    """A top model over leaf components of which at least one is an array of components with literal
    subscripts in the connect clauses.  Stream `array`: every connector of an array of components is
    connected in all of its elements or in none (added clauses close the gaps, pairing untouched
    elements with each other or with any peer).  Stream `array-open`: at least one such connector is
    connected in some elements only."""
    cts = gen_ctypes(rng)
    leaves = [gen_leaf(rng, cts, "L%d" % i) for i in range(rng.randint(1, 2))]
    n_out, n_comp = rng.choice([0, 0, 1, 2]), rng.randint(1, 3)
    top, used = gen_composite(rng, cts, leaves, "T", n_out, n_comp)
    comps = [d for d in top["decl"] if d[2] == "comp"]
    budget = 12
    for j, d in enumerate(comps):
        if j == 0 or rng.random() < 0.4:
            shape = list(rng.choice(ARRAY_SHAPES))
            n = 1
            for x in shape:
                n *= x
            if n <= budget:
                d.append(shape)
                budget -= n
    # the connect clauses are drawn afresh over the element-wise node lists
    by_type = nodes_of(leaves, top)
    edges, used = [], []
    for t in sorted(by_type):
        pool = list(by_type[t])
        for _ in range(rng.choice([1, 2, 2, 3])):
            fam = rng.choice(FAMILIES)
            used.append(fam)
            edges += fragments(rng, pool, fam)
    if rng.random() < 0.3:
        rng.shuffle(edges)
    plain = [it for it in top["body"] if "eq" in it]
    top["body"] = [{"connect": e} for e in edges]
    for it in plain:
        top["body"].insert(rng.randrange(len(top["body"]) + 1), it)
    case = {"stream": stream, "ctypes": cts, "models": leaves + [top], "top": "T", "families": used}
    if stream == "array-open":
        return case if partial_arrays(case) else None
    models = {m["name"]: m for m in case["models"]}
    groups = array_groups(case)
    for _ in range(8):
        todo_keys = partial_arrays(case)
        if not todo_keys:
            break
        key = todo_keys[0]
        touched = set(tuple(end) for it in top["body"] if "connect" in it for end in it["connect"])
        todo = [p for p in groups[key] if tuple(p) not in touched]
        rng.shuffle(todo)
        ctype = conn_type(case, models, top, todo[0])
        while todo:
            a = todo.pop()
            r = rng.random()
            if todo and r < 0.5:
                b = todo.pop()                 # two untouched elements form a set of their own
            elif r < 0.9:
                b = rng.choice(by_type[ctype])  # any peer (possibly the element itself)
            else:
                b = a
            e = [list(a), list(b)] if rng.random() < 0.5 else [list(b), list(a)]
            top["body"].insert(rng.randrange(len(top["body"]) + 1), {"connect": e})
    if partial_arrays(case):
        return None
    if not any("connect" in it and any("[" in end[0] for end in it["connect"]) for it in top["body"]):
        return None
    return case


def gen_array_case(rng, stream="array"):
    while True:
        c = _gen_array_case(rng, stream)
        if c is not None:
            return c
