/-! Driver for C02 (stub: not built yet). -/
def main : IO Unit := pure ()
