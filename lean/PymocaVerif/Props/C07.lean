import PymocaVerif.Lemmas.FlattenEx
import PymocaVerif.Lemmas.FlattenFuel
import PymocaVerif.Lemmas.FlattenSpell
/-!
# C07 — hierarchical flattening instantiates every component once

Theorems about the reference semantics `PymocaVerif.Flatten` (Model/Flatten.lean), for every
resolved library, target class and fuel (no bound on depth, width or number of classes): whenever
flattening succeeds,

* the flat variables are exactly the elementary leaves of the instance tree, described by the
  independent inductive relation `Leaf` (own and inherited components, through components of
  class type, type definitions resolved to their builtin), named by their instance path
  (`vars_are_leaves`), no path occurs twice (`vars_nodup`);
* each keeps its builtin type, the array dimensions of the enclosing components followed by its
  own, and its prefixes, except that `input`/`output` survive exactly on paths of length one
  (`leaf_data_kept`, `io_only_top_level`, `other_prefixes_kept`);
* the instance equations are exactly the equations (own and inherited, `MemberEq`) of every class
  instantiated at some instance path (`InstAt`), each renamed at that path
  (`eqs_are_instance_eqs`), likewise the initial equations (`initial_eqs_are_instance_eqs`),
  where renaming replaces a reference `r` written in instance `P` by the flat variable `P ++ r`
  iff that is a flat variable and leaves it alone otherwise, also inside subscripts
  (`reference_renaming`).

Also: the result does not depend on the fuel once it suffices (`fuel_irrelevant`), and type names
are looked up the Modelica way — innermost enclosing class in which a class of that name is
visible (own local classes, then inherited ones) (`lookup_is_lexical`, about stage 1,
`Model/FlattenSrc.lean`).

Paths are lists of identifiers; the driver prints them dotted (identifiers contain no dot).
-/
namespace PymocaVerif.Flatten

/-! ## the flat variables -/

/-- The flat variables are exactly the elementary leaves: a path `q` with builtin type `b`,
    dimensions `ds` and prefixes `pre` is a flat variable iff `q` leads to a leaf of the instance
    tree with that type and those accumulated dimensions whose declared prefixes, filtered for
    the depth, are `pre`. -/
theorem vars_are_leaves {fuel : Nat} {lib : Lib} {t : Path} {m : FlatModel} (h : flattenF fuel lib t = .ok m)
    (q : Path) (b : String) (ds : List Nat) (pre : List String) :
    (∃ k, Leaf lib t q k b ds ∧ pre = keepIO q.length k.prefixes) ↔
      ∃ v ∈ m.vars, v.path = q ∧ v.ty = b ∧ v.dims = ds ∧ v.prefixes = pre := by
  obtain ⟨r, ri, hr, hri, rfl, htop, htopi⟩ := flattenF_ok h
  constructor
  · rintro ⟨k, hl, rfl⟩
    obtain ⟨v, hv, hp, ht, hd, hpre⟩ := inst_vars_complete hl hr
    refine ⟨finVar (r.1.map (·.path)) v, List.mem_map.mpr ⟨v, hv, rfl⟩, ?_, ht, ?_, ?_⟩
    · simpa [finVar] using hp
    · simpa [finVar] using hd
    · simpa [finVar] using hpre
  · rintro ⟨fv, hfv, rfl, rfl, rfl, rfl⟩
    obtain ⟨v, hv, rfl⟩ := List.mem_map.mp hfv
    obtain ⟨q, k, b, ds, hp, hl, ht, hd, hpre⟩ := inst_vars_sound hr hv
    refine ⟨k, ?_, ?_⟩
    · simp only [finVar]
      simp at hp hd
      rw [hp, ht, hd]
      exact hl
    · simp only [finVar]
      simp at hp hpre
      rw [hpre, hp]

example : flattenF 6 exLib ["M"] = .ok exFlat ∧
    ∃ k, Leaf exLib ["M"] ["lb", "u"] k "Real" [] ∧ k.prefixes = ["input"] :=
  ⟨exFlat_ok, _, .sub (k := Comp.mk "lb" (.cls ["Leaf"]) [] [] [Mod.mk ["k"] (.num 5)]) (c' := ["Leaf"])
      (.inh (b := ["Base"]) (d := exM) (m := [Mod.mk ["b", "start"] (.num 3)]) rfl (by decide)
        (.own (d := exBase) rfl (by decide))) rfl
      (fun b hb => by
        cases hb with
        | short hf hs _ _ =>
          have : Lib.find exLib ["Leaf"] = some exLeaf := rfl
          rw [this] at hf; cases hf; simp [exLeaf] at hs)
      (.leaf (k := Comp.mk "u" (.builtin "Real") ["input"] [] []) (.own (d := exLeaf) rfl (by decide))
        (.builtin _)), rfl⟩

/-- No instance path is the name of two flat variables. -/
theorem vars_nodup {fuel : Nat} {lib : Lib} {t : Path} {m : FlatModel} (h : flattenF fuel lib t = .ok m) :
    (m.vars.map (·.path)).Nodup := by
  obtain ⟨r, ri, hr, hri, rfl, htop, htopi⟩ := flattenF_ok h
  have := inst_nodup hr
  simpa [assemble, finVar, List.map_map, Function.comp_def] using this

example : flattenF 6 exLib ["M"] = .ok exFlat ∧ exFlat.vars.length = 10 := ⟨exFlat_ok, by decide +kernel⟩

/-- Every flat variable is a leaf and carries the leaf's builtin type, the dimensions of the
    enclosing array components followed by its own, and its declared prefixes filtered for depth. -/
theorem leaf_data_kept {fuel : Nat} {lib : Lib} {t : Path} {m : FlatModel} (h : flattenF fuel lib t = .ok m)
    {v : FVar} (hv : v ∈ m.vars) :
    ∃ k b ds, Leaf lib t v.path k b ds ∧ v.ty = b ∧ v.dims = ds ∧ v.prefixes = keepIO v.path.length k.prefixes := by
  obtain ⟨k, hl, hp⟩ := (vars_are_leaves h v.path v.ty v.dims v.prefixes).mpr ⟨v, hv, rfl, rfl, rfl, rfl⟩
  exact ⟨k, _, _, hl, rfl, rfl, hp⟩

example : flattenF 6 exLib ["M"] = .ok exFlat ∧
    (exFlat.vars.map fun v => (v.path, v.ty, v.dims, v.prefixes))[8]? = some (["l2", "w"], "Real", [3, 2], []) :=
  ⟨exFlat_ok, by decide +kernel⟩

/-- `input` / `output` never survive below the top level … -/
theorem io_only_top_level {fuel : Nat} {lib : Lib} {t : Path} {m : FlatModel} (h : flattenF fuel lib t = .ok m)
    {v : FVar} (hv : v ∈ m.vars) (hdeep : v.path.length ≠ 1) : "input" ∉ v.prefixes ∧ "output" ∉ v.prefixes := by
  obtain ⟨k, b, ds, _, _, _, hp⟩ := leaf_data_kept h hv
  rw [hp]
  simp [keepIO, hdeep]

example : flattenF 6 exLib ["M"] = .ok exFlat ∧
    (exFlat.vars.map fun v => (v.path, v.prefixes))[2]? = some (["lb", "u"], []) ∧
    (exFlat.vars.map fun v => (v.path, v.prefixes))[9]? = some (["y"], ["output"]) :=
  ⟨exFlat_ok, by decide +kernel, by decide +kernel⟩

/-- … and every other prefix (parameter, constant, discrete, flow), at every depth, and
    input/output at the top level, are exactly the declared ones. -/
theorem other_prefixes_kept {fuel : Nat} {lib : Lib} {t : Path} {m : FlatModel} (h : flattenF fuel lib t = .ok m)
    {v : FVar} (hv : v ∈ m.vars) :
    ∃ k b ds, Leaf lib t v.path k b ds ∧
      (∀ x, (x ≠ "input" ∧ x ≠ "output") ∨ v.path.length = 1 → (x ∈ v.prefixes ↔ x ∈ k.prefixes)) := by
  obtain ⟨k, b, ds, hl, _, _, hp⟩ := leaf_data_kept h hv
  refine ⟨k, b, ds, hl, ?_⟩
  intro x hx
  rw [hp]
  unfold keepIO
  split
  · rfl
  · rename_i hne
    rcases hx with hx | hx
    · simp [List.mem_filter, hx.1, hx.2]
    · exact absurd hx hne

example : flattenF 6 exLib ["M"] = .ok exFlat ∧
    (exFlat.vars.map fun v => (v.path, v.prefixes))[5]? = some (["l2", "k"], ["parameter"]) :=
  ⟨exFlat_ok, by decide +kernel⟩

/-! ## the equations -/

/-- Renaming of one reference written in instance `P`: it becomes the flat variable `P ++ names`
    with the subscripts of all its parts collected (and renamed by the same rule, `renSub1` /
    `renSub0`) iff that path is a flat variable; otherwise it stays as written.  The same rule holds
    for names and references inside subscripts, at both levels. -/
theorem reference_renaming (names : List Path) (P : Path) :
    (∀ parts : List (Name × List Sub1),
      (P ++ refNames parts ∈ names → rename names P (.ref parts) = .fref (P ++ refNames parts) (refSubs names P parts)) ∧
      (P ++ refNames parts ∉ names → rename names P (.ref parts) = .uref parts)) ∧
    (∀ parts : List (Name × List Sub0),
      (P ++ refNames parts ∈ names → renSub1 names P (.ref parts) = .var (P ++ refNames parts) (refSubs0 names P parts)) ∧
      (P ++ refNames parts ∉ names → renSub1 names P (.ref parts) = .uref parts)) ∧
    (∀ x : Name,
      (P ++ [x] ∈ names → renSub1 names P (.name x) = .var (P ++ [x]) [] ∧ renSub0 names P (.name x) = .var (P ++ [x])) ∧
      (P ++ [x] ∉ names → renSub1 names P (.name x) = .name x ∧ renSub0 names P (.name x) = .name x)) := by
  refine ⟨fun parts => ⟨?_, ?_⟩, fun parts => ⟨?_, ?_⟩, fun x => ⟨?_, ?_⟩⟩ <;> intro h <;>
    simp [rename, renSub1, renSub0, h]

-- `v[i + off[k]]` written in instance `a`: `i` is no variable and stays, `off` and `k` are renamed
example : rename [["a", "v"], ["a", "off"], ["a", "k"]] ["a"]
      (.ref [("v", [.add (.name "i") (.ref [("off", [.name "k"])])])]) =
    .fref ["a", "v"] [.add (.name "i") (.var ["a", "off"] [.var ["a", "k"]])] ∧
    rename [["a", "x"]] ["a"] (.ref [("time", [])]) = .uref [("time", [])] := by decide

/-- The equation list of the flat model is: the instance equations, then one `v = 0` per flow
    variable, then the binding equations; and the instance equations are exactly the equations
    (own and inherited; simple or for-loops) of every class instantiated at some instance path `q`,
    renamed at `q`. -/
theorem eqs_are_instance_eqs {fuel : Nat} {lib : Lib} {t : Path} {m : FlatModel} (h : flattenF fuel lib t = .ok m) :
    ∃ r : List Var × List IEq, instTop fuel lib t = .ok r ∧
      m.eqs = instEqs (m.vars.map (·.path)) r.2 ++ flowEqs r.1 ++ bindEqs (m.vars.map (·.path)) r.1 ∧
      ∀ fe, fe ∈ instEqs (m.vars.map (·.path)) r.2 ↔
        ∃ q c x, InstAt lib t q c ∧ MemberEq lib c x ∧ fe = renameEqn (m.vars.map (·.path)) q x := by
  obtain ⟨r, ri, hr, hri, rfl, htop, htopi⟩ := flattenF_ok h
  have hnames : (assemble r ri.2).vars.map (·.path) = r.1.map (·.path) := by
    simp [assemble, finVar, List.map_map, Function.comp_def]
  refine ⟨r, htop, by rw [hnames]; rfl, ?_⟩
  intro fe
  rw [hnames]
  constructor
  · intro hfe
    obtain ⟨e, he, rfl⟩ := List.mem_map.mp hfe
    obtain ⟨q, c, hs, hi, hme⟩ := inst_eqs_sound hr he
    exact ⟨q, c, _, hi, hme, by simp at hs; rw [hs]⟩
  · rintro ⟨q, c, x, hi, hme, rfl⟩
    have := inst_eqs_complete hi hme hr
    exact List.mem_map.mpr ⟨_, this, by simp⟩

example : flattenF 6 exLib ["M"] = .ok exFlat ∧
    exFlat.eqs[1]? = some (.forEq "i" 1 2 [(.fref ["lb", "w"] [.add (.name "i") (.var ["lb", "n"] [])], .fref ["lb", "u"] [])]) ∧
    exFlat.eqs[4]? = some (.eq (.fref ["b"] []) (.fref ["lb", "u"] [])) :=
  ⟨exFlat_ok, by decide +kernel, by decide +kernel⟩

/-- Declaration equations: the binding equations of the flat model are exactly one `v = e` for every
    leaf `v` that is neither parameter nor constant and has a binding (an entry with path `[]` in
    `binds`), with `e` the winning binding renamed in its scope — whatever `e` is (the literals `0`,
    `0.0`, `false`, `""` included: having a binding is a matter of `binds`, not of the value). -/
theorem binding_equations_present (names : List Path) (vars : List Var) (fe : FEqn) :
    fe ∈ bindEqs names vars ↔
      ∃ v ∈ vars, v.isParam = false ∧ ∃ w, lookupBind v.binds [] = some w ∧
        fe = .eq (.sym v.path) (rename names w.scope w.value) := by
  simp only [bindEqs, List.mem_filterMap, Var.attr]
  constructor
  · rintro ⟨v, hv, h⟩
    cases hp : v.isParam with
    | true => simp [hp] at h
    | false =>
      cases hw : lookupBind v.binds [] with
      | none => simp [hp, hw] at h
      | some w =>
        simp [hp, hw] at h
        exact ⟨v, hv, hp, w, hw, h.symm⟩
  · rintro ⟨v, hv, hp, w, hw, rfl⟩
    exact ⟨v, hv, by simp [hp, hw]⟩

example : bindEqs [["a"], ["on"], ["p"]]
    [⟨["a"], "Real", [], [], [⟨[], [], .num 0⟩]⟩, ⟨["on"], "Boolean", [], [], [⟨[], [], .bool false⟩]⟩,
     ⟨["p"], "Real", ["parameter"], [], [⟨[], [], .real "0.0"⟩]⟩, ⟨["s"], "String", [], [], [⟨[], [], .str ""⟩]⟩] =
    [.eq (.sym ["a"]) (.num 0), .eq (.sym ["on"]) (.bool false), .eq (.sym ["s"]) (.str "")] := by decide

/-- The initial equations of the flat model are exactly the initial equations (own and inherited)
    of every class instantiated at some instance path `q`, renamed at `q` — with the full prefix,
    like ordinary equations. -/
theorem initial_eqs_are_instance_eqs {fuel : Nat} {lib : Lib} {t : Path} {m : FlatModel}
    (h : flattenF fuel lib t = .ok m) (fe : FEqn) :
    fe ∈ m.ieqs ↔ ∃ q c x, InstAt lib t q c ∧ MemberIEq lib c x ∧ fe = renameEqn (m.vars.map (·.path)) q x := by
  obtain ⟨r, ri, hr, hri, rfl, htop, htopi⟩ := flattenF_ok h
  have hnames : (assemble r ri.2).vars.map (·.path) = r.1.map (·.path) := by
    simp [assemble, finVar, List.map_map, Function.comp_def]
  rw [hnames]
  show fe ∈ instEqs (r.1.map (·.path)) ri.2 ↔ _
  constructor
  · intro hfe
    obtain ⟨e, he, rfl⟩ := List.mem_map.mp hfe
    obtain ⟨q, c, hs, hi, hme⟩ := inst_eqs_sound hri he
    exact ⟨q, c, _, instAt_initView.mp hi, memberEq_initView.mp hme, by simp at hs; rw [hs]⟩
  · rintro ⟨q, c, x, hi, hme, rfl⟩
    have := inst_eqs_complete (instAt_initView.mpr hi) (memberEq_initView.mpr hme) hri
    exact List.mem_map.mpr ⟨_, this, by simp⟩

example : flattenF 6 exLib ["M"] = .ok exFlat ∧
    exFlat.ieqs = [.eq (.fref ["lb", "w"] [.var ["lb", "n"] []]) (.num 0),
                   .eq (.fref ["l2", "w"] [.var ["l2", "n"] []]) (.num 0)] :=
  ⟨exFlat_ok, by decide +kernel⟩

/-! ## fuel and lookup -/

/-- Fuel only bounds the recursion: a successful flattening is reproduced with any larger fuel, so
    all statements above are about one flat model per (library, target). -/
theorem fuel_irrelevant {f f' : Nat} {lib : Lib} {t : Path} {m : FlatModel} (h : flattenF f lib t = .ok m)
    (hle : f ≤ f') : flattenF f' lib t = .ok m := flattenF_fuel_le h hle

example : flattenF 6 exLib ["M"] = .ok exFlat ∧ flattenF 9 exLib ["M"] = .ok exFlat :=
  ⟨exFlat_ok, flattenF_fuel_le exFlat_ok (by decide)⟩

/-- Type names are looked up the Modelica way: a successful lookup of `h.t` from the class `scope`
    finds `h` among the candidates of the innermost level `j` (the class `scope.take j`; the root for
    `j = 0`) that has a class of that name — the candidates being the classes visible there (`vis`:
    own local classes first, then inherited ones), or only the class's own local classes when the
    name is the base class of one of its extends clauses — and then walks `t` through the classes
    visible in the classes found. -/
theorem lookup_is_lexical {vis : Path → Except Err (List (Name × Path))} {own : Path → List (Name × Path)}
    {scope : Path} {ownOnlyInner : Bool} {h : Name} {t : List Name} {p : Path}
    (hr : resolveWith vis own scope (h :: t) ownOnlyInner = .ok (.cls p)) :
    ∃ j cs b, j ≤ scope.length ∧ levelCands vis own scope ownOnlyInner j = .ok cs ∧ cs.lookup h = some b ∧
      (∀ j', j < j' → j' ≤ scope.length →
        ∃ cs', levelCands vis own scope ownOnlyInner j' = .ok cs' ∧ cs'.lookup h = none) ∧
      descend vis b t = .ok (some p) := resolveWith_spec hr

/-- `package P model A end A; model Base model N end N; end Base;`
    `  model D extends Base; model L N n; A a; end L; end D; end P;` — from `P.D.L`, `N` is found one
    level up among the classes `D` inherits, `A` two levels up; as a base-class name of `D` itself,
    `N` is not found (the classes `D` inherits are not searched for its own extends clauses). -/
def exIndex : Index :=
  [([], ⟨[("P", ["P"])], []⟩),
   (["P"], ⟨[("A", ["P", "A"]), ("Base", ["P", "Base"]), ("D", ["P", "D"])], []⟩),
   (["P", "A"], ⟨[], []⟩),
   (["P", "Base"], ⟨[("N", ["P", "Base", "N"])], []⟩),
   (["P", "Base", "N"], ⟨[], []⟩),
   (["P", "D"], ⟨[("L", ["P", "D", "L"])], [(["P", "D"], ["Base"], true)]⟩),
   (["P", "D", "L"], ⟨[], []⟩)]

example : resolveF 8 exIndex ["P", "D", "L"] ["N"] false = .ok (.cls ["P", "Base", "N"]) ∧
    resolveF 8 exIndex ["P", "D", "L"] ["A"] false = .ok (.cls ["P", "A"]) ∧
    (match resolveF 8 exIndex ["P", "D"] ["N"] true with | .ok _ => false | .error _ => true) = true := by
  decide +kernel

end PymocaVerif.Flatten
