"""C02 — concurrent parses sharing a cache folder all succeed.

Lean side: `Model/SqliteLock.lean` (SQLite rollback-journal lock rules, any number of connections),
`Props/C02.lean` (no statement fails / the file is never removed / single writer / progress, for every number
of connections and every interleaving, provided `noUpgrade prog`), and the obligation
`noUpgrade sqlProgram = true` over `Generated/SqlProgram.lean`, which `translate` regenerates from
`pymoca/parser.py` with Python's `ast` on every run.

Per-run ties:
 (B) lock rules vs real SQLite: 2-3 raw connections (isolation_level=None, short busy timeout) execute random
     well-formed statement sequences; outcome per call — ok / fails at once / waits until the timeout — must
     equal the model's `callN`.
 (C) program vs real code: `parser.parse` runs under a recording proxy of the `sqlite3` module in eight
     situations; every recorded statement trace must be a path of the extracted tree.
 (D) scheduled runs: 2-3 threads call the real `parser.parse` on one folder behind the proxy; a deterministic
     scheduler releases one statement at a time, the model predicts each call's outcome; a predicted `waits`
     is sometimes released on purpose to test the rule (the timeout is swallowed and the statement retried).
Direct oracle (D, E): every call returns the tree of the uncached parse, none raises, the database exists and
passes `PRAGMA integrity_check` afterwards, every stored row unpickles to the fresh tree of its text.
 (E) free-running stress: N worker processes, and N threads of this process, released by a barrier on a fresh
     folder / an existing database / a database that already holds the texts (hits, always_update_last_hit) /
     a database with a wrong layout; optionally a second simultaneous call that keeps `initialized_dbs`.
"""
import json
import multiprocessing
import os
import pickle
import shutil
import sqlite3
import tempfile
import threading
import time
from pathlib import Path

from harness.common import HarnessError, LEAN_DIR
from harness.gen import a01

DRIVERS = ["drv_c02"]
RULE = ("cases: (B) one random statement sequence over 2-3 raw SQLite connections; (C) one recorded parse trace; "
        "(D) one scheduled run of 2-3 threads through the real parse(); (E) one stress round of N processes / N free-running threads. "
        "non-trivial = (B) at least one call did not simply succeed (waited or failed), (C) trace with >= 3 transactions, "
        "(D) at least two connections were inside a transaction at the same time or a call waited, (E) N >= 4; "
        "distinct = distinct case description")
TRUSTED = ["SQLite 3.40 grants file locks as in its 'File Locking And Concurrency' document (exercised by tie B)",
           "the proxy of the sqlite3 module used in ties C/D forwards every call unchanged",
           "fork start method: worker processes inherit the parent's imported pymoca (same sys.path / VERIF_PYMOCA_SRC)"]
ASSUMPTIONS = ["lock hold times stay far below Python's 5 s busy timeout and the OS scheduler is fair (a waiting statement "
               "eventually runs): the runtime half of the property is witnessed only by the stress runs",
               "no third party damages the database file while the calls run (that is C01's territory)",
               "journal_mode is the default rollback journal (DELETE), as parse() leaves it"]

DB = "model_txt_cache.db"
VERSION = "1.0.0"
T_BUSY = 0.1             # busy timeout of the harness's own raw connections / proxied connections (seconds)
GEN_FILE = os.path.join(LEAN_DIR, "PymocaVerif", "Generated", "SqlProgram.lean")


def scratch_base(ctx):
    """Folder for the cache databases of this run.  On tmpfs when /dev/shm is usable: `fsync` on the shared disk
    of this sandbox takes up to seconds when other jobs write, which would turn Python's 5 s busy timeout into
    spurious lock errors; locking semantics are the same.  Removed at the end of the run like ctx.scratch."""
    base = getattr(ctx, "_c02_base", None)
    if base is None:
        base = ctx.scratch
        try:
            if os.path.isdir("/dev/shm") and os.access("/dev/shm", os.W_OK):
                base = tempfile.mkdtemp(prefix=os.path.basename(ctx.scratch) + "-", dir="/dev/shm")
        except OSError:
            base = ctx.scratch
        ctx._c02_base = base
    return base


def scratch_cleanup(ctx):
    base = getattr(ctx, "_c02_base", None)
    if base and base != ctx.scratch:
        shutil.rmtree(base, ignore_errors=True)
    ctx._c02_base = None


def classify(dt):
    """A lock error that comes back well before the busy timeout did not go through the busy handler."""
    if dt < 0.5 * T_BUSY:
        return "fails"
    if dt >= 0.8 * T_BUSY:
        return "waits"
    return "ambiguous"


# ---- translator ------------------------------------------------------------------------------------
def translate(ctx, base=None):
    ex = a01.extract_any(ctx, base or scratch_base(ctx))
    if ex is None:
        return
    text = a01.render_lean(ex)
    old = open(GEN_FILE).read() if os.path.exists(GEN_FILE) else None
    if old != text:
        os.makedirs(os.path.dirname(GEN_FILE), exist_ok=True)
        with open(GEN_FILE, "w") as f:
            f.write(text)
        ctx.notes.append("Generated/SqlProgram.lean rewritten from the current sources")


# ---- (B) lock rules against real SQLite --------------------------------------------------------------
SQL_OF = {"beginD": "BEGIN", "beginI": "BEGIN IMMEDIATE", "read": "SELECT count(*) FROM t",
          "write": "INSERT INTO t VALUES (1)", "commit": "COMMIT"}


def gen_lock_case(rng):
    n = rng.choice([2, 2, 3])
    intxn = [False] * n
    seq = []
    for _ in range(rng.randint(6, 16)):
        i = rng.randrange(n)
        if intxn[i]:
            k = rng.choice(["read", "read", "write", "write", "commit", "commit"])
        else:
            k = rng.choice(["beginD", "beginD", "beginD", "beginI", "beginI", "read", "write"])
        if k in ("beginD", "beginI"):
            intxn[i] = True
        seq.append([i, k])
        if k == "commit":
            intxn[i] = False   # may wait; the generator then simply issues further statements (the model follows)
    return {"kind": "locks", "n": n, "seq": seq}


def run_lock_case(ctx, case, drv, attempt=0):
    """Returns (events, disagreement-or-None)."""
    d = tempfile.mkdtemp(prefix="c02-locks-", dir=scratch_base(ctx))
    path = os.path.join(d, "t.db")
    c0 = sqlite3.connect(path)
    c0.execute("CREATE TABLE t(x)")
    c0.commit()
    c0.close()
    n = case["n"]
    conns = [sqlite3.connect(path, isolation_level=None, timeout=T_BUSY) for _ in range(n)]
    for c in conns:
        # load the schema now: SQLite's default busy handler stays disarmed (nBusy = -1) after a timeout until the
        # next statement *executes*, so a statement that first has to load the schema (a lock request during
        # prepare) right after a timed-out one fails at once — an artefact of raw connections that never occurs in
        # parse(), whose first statement follows no failure
        c.execute(SQL_OF["read"]).fetchall()
    model = [{"lock": "none", "inTxn": False} for _ in range(n)]
    events, bad = [], None
    try:
        for step, (i, k) in enumerate(case["seq"]):
            # keep the sequence well formed with respect to what really happened
            if k in ("beginD", "beginI") and model[i]["inTxn"]:
                continue
            if k == "commit" and not model[i]["inTxn"]:
                continue
            ans = drv.ask({"op": "lock.call", "conns": model, "i": i, "stmt": k})
            if not ans.get("ok"):
                raise HarnessError("drv_c02 rejected lock.call: %s" % ans)
            t0 = time.perf_counter()
            try:
                cur = conns[i].execute(SQL_OF[k])
                cur.fetchall()
                real = "ok"
            except sqlite3.OperationalError as e:
                dt = time.perf_counter() - t0
                if "locked" not in str(e):
                    real = "error:" + str(e)
                else:
                    real = classify(dt)
            if real == "ambiguous":
                real = "waits" if ans["outcome"] == "waits" else "ambiguous"
            events.append([i, k, real])
            if real != ans["outcome"]:
                bad = {"step": step, "conn": i, "stmt": k, "model": ans["outcome"], "real": real, "locks": [m["lock"] for m in model]}
                break
            model[i] = {"lock": ans["lock"], "inTxn": ans["inTxn"]}
            if real == "fails":
                break
    finally:
        for c in conns:
            try:
                c.close()
            except Exception:
                pass
        shutil.rmtree(d, ignore_errors=True)
    return events, bad


def check_lock_case(ctx, case, drv):
    events, bad = run_lock_case(ctx, case, drv)
    if bad is not None:
        # timing classification can be disturbed by a loaded machine: a real difference repeats
        again = [run_lock_case(ctx, case, drv)[1] for _ in range(2)]
        if all(b is not None and b["model"] == bad["model"] and b["real"] == bad["real"] for b in again):
            ctx.disagreement("lock.rules", case, bad["model"], bad)
        else:
            ctx.count("locks-timing-retry")
    for e in events:
        ctx.count("locks-" + e[2])
    return any(e[2] != "ok" for e in events)


# ---- proxy of the sqlite3 module -------------------------------------------------------------------
class ProxyCursor:
    def __init__(self, pconn, cur):
        self._pc, self._cur = pconn, cur

    def execute(self, sql, *args):
        self._pc._m.last_sql = sql
        return self._pc._gate(a01.sql_kind(sql), lambda: self._cur.execute(sql, *args))

    def __getattr__(self, name):
        return getattr(self._cur, name)


class ProxyConnection:
    def __init__(self, module, conn):
        self._m, self._conn = module, conn

    def _gate(self, kind, fn):
        return self._m.hook(self, kind, fn)

    def cursor(self):
        return ProxyCursor(self, self._conn.cursor())

    def execute(self, sql, *args):
        self._m.last_sql = sql
        return self._gate(a01.sql_kind(sql), lambda: self._conn.execute(sql, *args))

    def commit(self):
        return self._gate("commit", self._conn.commit)

    def rollback(self):
        return self._gate("commit", self._conn.rollback)

    def close(self):
        if self._m.on_close is not None:
            self._m.on_close(self)
        return self._conn.close()

    def __getattr__(self, name):
        return getattr(self._conn, name)


class ProxySqlite:
    """Stands in for the name `sqlite3` inside pymoca.parser."""

    def __init__(self, hook, timeout=None, on_close=None):
        self.hook = hook
        self.timeout = timeout
        self.on_close = on_close
        self.connect_kwargs = []

    def connect(self, *args, **kw):
        self.connect_kwargs.append(dict(kw))
        if self.timeout is not None:
            kw = dict(kw, timeout=self.timeout)
        return ProxyConnection(self, sqlite3.connect(*args, **kw))

    def __getattr__(self, name):
        return getattr(sqlite3, name)


def gate_path_class(hook):
    """A pathlib.Path whose mkdir / exists / is_dir go through the scheduler (kind `fs`): parse() calls them on the
    cache folder it is given, so two calls can be made to race on a folder that does not exist yet."""
    base = type(Path())
    inside = threading.local()

    def gated(call):
        # pathlib implements mkdir(parents=True) with further mkdir/is_dir calls on Path objects of the same class:
        # only the outermost call is a scheduled event
        if getattr(inside, "on", False):
            return call()
        inside.on = True
        try:
            return hook(None, "fs", call)
        finally:
            inside.on = False

    class GatePath(base):
        def mkdir(self, *a, **kw):
            return gated(lambda: base.mkdir(self, *a, **kw))

        def exists(self, *a, **kw):
            return gated(lambda: base.exists(self, *a, **kw))

        def is_dir(self, *a, **kw):
            return gated(lambda: base.is_dir(self, *a, **kw))
    return GatePath


class Env:
    """pymoca.parser with version / sqlite3 substituted; restores on exit."""

    def __init__(self, proxy=None):
        self.proxy = proxy

    def __enter__(self):
        import pymoca
        from pymoca import parser
        self.parser, self.pymoca = parser, pymoca
        self.saved = (pymoca.__version__, parser.sqlite3)
        pymoca.__version__ = VERSION
        if self.proxy is not None:
            parser.sqlite3 = self.proxy
        self.reload()
        return self

    def reload(self):
        if hasattr(self.parser.parse, "initialized_dbs"):
            del self.parser.parse.initialized_dbs

    def __exit__(self, *a):
        self.pymoca.__version__, self.parser.sqlite3 = self.saved
        self.reload()
        return False


def new_folder(ctx, prefix, state):
    """The cache folder of one case.  For `fresh` it does NOT exist yet (two levels below an existing one):
    the calls race on creating it."""
    top = tempfile.mkdtemp(prefix=prefix, dir=scratch_base(ctx))
    folder = os.path.join(top, "not", "yet")
    if state != "fresh":
        os.makedirs(folder)
    return top, folder


def make_state(folder, state, texts):
    """Prepare the cache folder: fresh / existing (a database created by an earlier parse of another text) /
    cached (a database that already holds the texts the calls will parse: concurrent hits) /
    extracol (a `models` table with an additional NOT NULL column) /
    wronglayout (both tables present with alien columns)."""
    folder = Path(folder)
    if state == "existing":
        with Env() as env:
            env.parser.parse(texts[-1], model_cache_folder=folder)
    elif state == "wronglayout":
        conn = sqlite3.connect(folder / DB)
        for t in ("models", "metadata"):
            conn.execute("CREATE TABLE %s (wrong_key TEXT, wrong_value TEXT, PRIMARY KEY (wrong_key))" % t)
        conn.commit()
        conn.close()
    elif state == "extracol":
        # a `models` table on which the lookup works but an insert does not (extra NOT NULL column): harmless as
        # long as every call checks the layout before it uses the table
        conn = sqlite3.connect(folder / DB)
        conn.execute("CREATE TABLE models (txt_hash TEXT, pymoca_version TEXT, data BLOB, last_hit TIMESTAMP INTEGER, "
                     "extra TEXT NOT NULL, PRIMARY KEY (txt_hash, pymoca_version))")
        conn.commit()
        conn.close()
    elif state == "cached":
        with Env() as env:
            for t in texts[:3]:
                env.parser.parse(t, model_cache_folder=folder)
    elif state != "fresh":
        raise HarnessError("unknown state " + state)


def db_oracle(folder, texts, fresh_keys):
    """The database exists, is intact, and every row unpickles to the fresh tree of its text."""
    p = Path(folder) / DB
    if not p.exists():
        return "the database file does not exist after the calls"
    try:
        conn = sqlite3.connect("file:%s?mode=ro" % p, uri=True)
        try:
            if conn.execute("PRAGMA integrity_check").fetchall() != [("ok",)]:
                return "integrity_check fails after the calls"
            rows = conn.execute("SELECT txt_hash, pymoca_version, data FROM models").fetchall()
        finally:
            conn.close()
    except sqlite3.DatabaseError as e:
        return "database unreadable after the calls: %s" % e
    by_hash = {a01.sha(t): k for t, k in zip(texts, fresh_keys)}
    for h, v, data in rows:
        try:
            t = pickle.loads(data)
        except Exception as e:
            return "a stored row does not unpickle (%s)" % type(e).__name__
        if h in by_hash and a01.canon_key(t) != by_hash[h]:
            return "a stored row does not hold the fresh tree of its text"
    return None


# ---- (C) recorded traces ------------------------------------------------------------------------------
class _PickleSpy:
    """Stands in for the name `pickle` inside pymoca.parser while traces are recorded with `work` marks."""

    def __init__(self, rec):
        self._rec = rec

    def dumps(self, *a, **kw):
        self._rec.append(("work", False))
        return pickle.dumps(*a, **kw)

    def loads(self, *a, **kw):
        self._rec.append(("work", False))
        return pickle.loads(*a, **kw)

    def __getattr__(self, name):
        return getattr(pickle, name)


# situations in which a statement raises for a reason other than locking (the file was damaged after the process
# initialised it): parse() recovers through exception handlers; the statement program and the lock theorems are
# about exception-free executions, so these traces are recorded but are not paths of the program
EXCEPTIONAL = ("initialised-file-deleted", "initialised-insert-rejected")


def record_scenarios(base, texts, broken_text, with_work=False):
    """Runs parse() under a recording proxy of `sqlite3` over a matrix of situations (fresh / existing / wrong
    layout / damaged; hit / miss / update / syntax error / bypass / damage after initialisation).
    Returns ([(label, [(kind, guarded)], error-or-None)], isolation levels of the connect calls).
    `guarded` marks the integrity check (the statement whose failure makes parse() remove the file);
    with `with_work` the calls of _parse / pickle.dumps / pickle.loads are recorded as `work`."""
    out = []
    rec = []

    def hook(pconn, kind, fn):
        sql = (getattr(proxy, "last_sql", "") or "").upper()
        rec.append((kind, kind == "read" and "INTEGRITY_CHECK" in sql))
        return fn()

    proxy = ProxySqlite(hook)
    with Env(proxy) as env:
        saved = (env.parser._parse, env.parser.pickle)
        if with_work:
            def spy_parse(txt, _p=saved[0]):
                rec.append(("work", False))
                return _p(txt)
            env.parser._parse = spy_parse
            env.parser.pickle = _PickleSpy(rec)
        try:
            def one(label, folder, txt, reload=True, **kw):
                if reload:
                    env.reload()
                del rec[:]
                try:
                    env.parser.parse(txt, model_cache_folder=Path(folder), **kw)
                    out.append((label, list(rec), None))
                except Exception as e:
                    out.append((label, list(rec), "%s: %s" % (type(e).__name__, e)))

            def edit(folder, *stmts):
                conn = sqlite3.connect(os.path.join(folder, DB))
                for st in stmts:
                    conn.execute(*st) if isinstance(st, tuple) else conn.execute(st)
                conn.commit()
                conn.close()

            d = tempfile.mkdtemp(prefix="c02-trace-", dir=base)
            one("fresh-miss", d, texts[0])
            one("initialised-hit", d, texts[0], reload=False)
            one("initialised-hit-update", d, texts[0], reload=False, always_update_last_hit=True)
            one("initialised-miss", d, texts[1], reload=False)
            one("reloaded-hit", d, texts[0])
            one("reloaded-syntax-error", d, broken_text)
            one("initialised-syntax-error", d, broken_text, reload=False)
            one("bypass", d, texts[0], bypass_cache=True)
            edit(d, "UPDATE models SET last_hit = last_hit - 200000000000")
            one("initialised-old-hit", d, texts[0], reload=False)
            one("reloaded-prune-all", d, texts[1], cache_expiration_days=0)
            d2 = tempfile.mkdtemp(prefix="c02-trace-", dir=base)
            make_state(d2, "wronglayout", texts)
            one("wronglayout-miss", d2, texts[0])
            d3 = tempfile.mkdtemp(prefix="c02-trace-", dir=base)
            with open(os.path.join(d3, DB), "w") as f:
                f.write("This is not a valid SQLite database file\n" * 5)
            one("garbage-file-miss", d3, texts[0])
            edit(d, ("UPDATE models SET data = ?", (b"not a pickle",)))
            one("reloaded-unpicklable", d, texts[0])
            edit(d, ("UPDATE models SET data = ?", (pickle.dumps(None),)))
            one("initialised-none-entry", d, texts[0], reload=False)
            # one table right, the other wrong / missing
            d4 = tempfile.mkdtemp(prefix="c02-trace-", dir=base)
            one("d4-fresh", d4, texts[0])
            edit(d4, "DROP TABLE metadata")
            one("reloaded-no-metadata", d4, texts[0])
            edit(d4, "DROP TABLE models", "CREATE TABLE models (wrong_key TEXT)")
            one("reloaded-alien-models", d4, texts[0])
            # damage after initialisation (the handlers of 821b239 / 921daaa)
            os.remove(os.path.join(d4, DB))
            one("initialised-file-deleted", d4, texts[0], reload=False)
            edit(d4, "DROP TABLE models",
                 "CREATE TABLE models (txt_hash TEXT, pymoca_version TEXT, data BLOB, last_hit TIMESTAMP INTEGER, extra TEXT NOT NULL)")
            one("initialised-insert-rejected", d4, texts[2], reload=False)
            one("after-insert-rejected", d4, texts[2], reload=False)
            isolation = [kw.get("isolation_level", "<default>") for kw in proxy.connect_kwargs]
        finally:
            env.parser._parse, env.parser.pickle = saved
    return out, isolation


def record_traces(ctx, texts, broken_text):
    """[(label, [kinds], error)] for tie C (SQL statements only)."""
    out, isolation = record_scenarios(scratch_base(ctx), texts, broken_text)
    return [(label, [k for k, _ in tr], err) for label, tr, err in out], isolation


def extract_dynamic(base):
    """Fallback of the translator: the statement program as the prefix tree of recorded traces, and the flags
    probed behaviourally.  Same result shape as `a01.extract` plus "derived": "traces"."""
    import random
    from pymoca import parser
    rng = random.Random(20260921)
    texts = []
    i = 0
    while len(texts) < 3:
        t = a01.gen_text(rng, i)
        i += 1
        try:
            if parser._parse(t) is not None:
                texts.append(t)
        except Exception:
            pass
    with a01.Quiet():
        traces, isolation = record_scenarios(base, texts, a01.break_text(rng, texts[0], "noend"), with_work=True)
        # scenarios in which parse() raised end at an arbitrary statement: they are reported by tie C; the program
        # is built from the complete ones
        prog = a01.prog_of_traces([tr for label, tr, err in traces if err is None and label not in EXCEPTIONAL])
        # flags, behaviourally
        probes = {"pickle.UnpicklingError": b"not a pickle", "EOFError": b"", "AttributeError": b"cpymoca.ast\nNoSuchClass\n.",
                  "ModuleNotFoundError": b"cno_such_mod_a01\nX\n.", "TypeError": None, "ValueError": b"\x80\x63."}
        caught = []
        with Env() as env:
            for name, blob in probes.items():
                d = tempfile.mkdtemp(prefix="c02-probe-", dir=base)
                env.reload()
                env.parser.parse(texts[0], model_cache_folder=Path(d))
                conn = sqlite3.connect(os.path.join(d, DB))
                conn.execute("UPDATE models SET data = ?", (blob,))
                conn.commit()
                conn.close()
                try:
                    env.parser.parse(texts[0], model_cache_folder=Path(d))
                    caught.append(name)
                except Exception:
                    pass
            if len(caught) == len(probes):
                caught += ["IndexError", "KeyError"]      # (no blob known that makes pickle.loads raise these)

            def survives(prepare, txt):
                d = tempfile.mkdtemp(prefix="c02-probe-", dir=base)
                env.reload()
                env.parser.parse(texts[0], model_cache_folder=Path(d))
                prepare(d)
                try:
                    return env.parser.parse(txt, model_cache_folder=Path(d)) is not None
                except Exception:
                    return False

            def extracol(d):
                conn = sqlite3.connect(os.path.join(d, DB))
                conn.execute("DROP TABLE models")
                conn.execute("CREATE TABLE models (txt_hash TEXT, pymoca_version TEXT, data BLOB, last_hit TIMESTAMP INTEGER, extra TEXT NOT NULL)")
                conn.commit()
                conn.close()
            recover = survives(lambda d: os.remove(os.path.join(d, DB)), texts[0])
            tolerant = survives(extracol, texts[1])
    return {"prog": prog, "caught_unpickle": caught, "caught_integrity": ["<trace-derived>"],
            "isolation_none": all(x is None for x in isolation), "sql": [], "recover": recover, "write_tolerant": tolerant,
            "derived": "traces", "scenarios": len(traces)}


# ---- (D) scheduled runs ---------------------------------------------------------------------------------
class Scheduler:
    """Worker threads block at every SQL statement until the main thread releases exactly one of them."""

    def __init__(self, n):
        self.n = n
        self.cv = threading.Condition()
        self.pending = {}      # tid -> kind (waiting for a go)
        self.go = {}           # tid -> "run" | "raise" | "retry"
        self.report = {}       # tid -> ("ok", dt) | ("locked", dt, exc)
        self.finished = {}     # tid -> result
        self.tids = {}
        self.closed = set()    # tids whose connection was closed since the main thread last looked

    def on_close(self, pconn):
        tid = self.tids.get(threading.get_ident())
        if tid is not None:
            with self.cv:
                self.closed.add(tid)

    # worker side
    def hook(self, pconn, kind, fn):
        tid = self.tids[threading.get_ident()]
        while True:
            with self.cv:
                self.pending[tid] = kind
                self.cv.notify_all()
                while tid not in self.go:
                    self.cv.wait()
                self.go.pop(tid)
                self.pending.pop(tid)
            t0 = time.perf_counter()
            try:
                r = fn()
            except sqlite3.OperationalError as e:
                # NB: `e` must not stay bound in this frame while the exception propagates (frame <-> traceback
                # cycle: the connection inside the frames would then hold its locks until a GC run)
                msg = repr(e)
                locked = "locked" in str(e)
                del e
                if not locked:
                    with self.cv:
                        self.report[tid] = ("error", time.perf_counter() - t0, msg)
                        self.cv.notify_all()
                    raise
                with self.cv:
                    self.report[tid] = ("locked", time.perf_counter() - t0, msg)
                    self.cv.notify_all()
                    while tid not in self.go:
                        self.cv.wait()
                    decision = self.go.pop(tid)
                if decision == "raise":
                    raise
                continue   # retry: wait at the gate again with the same statement
            except BaseException as e:  # noqa
                msg = repr(e)
                del e
                with self.cv:
                    self.report[tid] = ("error", time.perf_counter() - t0, msg)
                    self.cv.notify_all()
                raise
            with self.cv:
                self.report[tid] = ("ok", time.perf_counter() - t0, None)
                self.cv.notify_all()
            return r

    def worker(self, tid, fn):
        self.tids[threading.get_ident()] = tid
        try:
            self.hook(None, "start", lambda: None)     # entering parse() is a scheduled event too
            res = ("ok", fn())
        except BaseException as e:  # noqa
            res = ("exc", "%s: %s" % (type(e).__name__, e))
            del e
        import gc
        gc.collect()   # whatever the failed call left in cycles (its connection) goes away now, as at process exit
        with self.cv:
            self.finished[tid] = res
            self.cv.notify_all()

    # main side
    def wait_quiescent(self, live, timeout=60):
        """until every live worker is at a gate or finished"""
        end = time.time() + timeout
        with self.cv:
            while not all(t in self.pending or t in self.finished for t in live):
                if not self.cv.wait(timeout=max(0.0, end - time.time())) and time.time() > end:
                    raise HarnessError("scheduled run: workers did not reach a gate (hang?)")

    def release(self, tid, timeout=60):
        """let worker `tid` execute its pending statement; returns its report once it is at its next gate,
        has finished, or reports a lock error"""
        end = time.time() + timeout
        with self.cv:
            self.report.pop(tid, None)
            self.go[tid] = "run"
            self.cv.notify_all()
            while tid not in self.report:
                if not self.cv.wait(timeout=max(0.0, end - time.time())) and time.time() > end:
                    raise HarnessError("scheduled run: released worker did not report")
            rep = self.report[tid]
            if rep[0] in ("ok", "error"):
                while not (tid in self.pending or tid in self.finished):
                    if not self.cv.wait(timeout=max(0.0, end - time.time())) and time.time() > end:
                        raise HarnessError("scheduled run: worker did not reach its next gate")
            return rep

    def decide(self, tid, decision):
        with self.cv:
            self.go[tid] = decision
            self.cv.notify_all()
        if decision == "retry":
            with self.cv:
                while tid not in self.pending:
                    self.cv.wait(timeout=1)
        else:
            with self.cv:
                while not (tid in self.finished or tid in self.pending):
                    self.cv.wait(timeout=1)


_PATCHED = {}


def restore_start_rule():
    """undo the gating of the generated parser's start rule (also after a run that was aborted)"""
    if "start_rule" in _PATCHED:
        from pymoca.generated.ModelicaParser import ModelicaParser
        ModelicaParser.stored_definition = _PATCHED.pop("start_rule")


def scheduled_run(ctx, case, drv, pool):
    """case: {"kind":"schedule","state":…, "texts":[ix per thread], "preinit":bool, "choices":[…]|None, "seed":…}.
    Returns (nontrivial, choices)."""
    import random
    n = len(case["texts"])
    texts = [pool["texts"][i] for i in case["texts"]]
    top, folder = new_folder(ctx, "c02-sched-", case["state"])
    make_state(folder, case["state"], pool["texts"])
    sched = Scheduler(n)
    proxy = ProxySqlite(sched.hook, timeout=T_BUSY, on_close=sched.on_close)
    rng = random.Random(case["seed"])
    forced = case.get("choices")
    choices = []
    model = [{"lock": "none", "inTxn": False} for _ in range(n)]
    overlap = False
    stop = None
    with Env(proxy) as env:
        if case.get("preinit"):
            env.parser.parse.initialized_dbs = {Path(folder) / DB}
        upd = bool(case.get("update"))
        gp = gate_path_class(sched.hook)
        days = case.get("days") or [30] * n
        newproc = case.get("newproc") or [False] * n
        # the ANTLR phase of _parse() is two scheduled events per call (kind `antlr`): before the generated parser's
        # start rule runs (the error listener is set up) and after it returned (all syntax errors reported, the
        # listener's flag not yet read) — so a valid and a broken parse can be made to overlap in either order
        from pymoca.generated.ModelicaParser import ModelicaParser
        restore_start_rule()
        orig_start_rule = ModelicaParser.stored_definition
        _PATCHED["start_rule"] = orig_start_rule

        def gated_start_rule(self_):
            if threading.get_ident() not in sched.tids:
                return orig_start_rule(self_)
            sched.hook(None, "antlr", lambda: None)
            r = orig_start_rule(self_)
            sched.hook(None, "antlr", lambda: None)
            return r
        ModelicaParser.stored_definition = gated_start_rule

        def call(i):
            # `newproc`: this call is the first use of the database in its "process": the module state is forgotten
            # when it enters (a module reload, as between the calls of two processes)
            if newproc[i]:
                env.reload()
            return env.parser.parse(texts[i], model_cache_folder=gp(folder), always_update_last_hit=upd,
                                    cache_expiration_days=days[i])
        threads = [threading.Thread(target=sched.worker, args=(i, (lambda i=i: call(i))), daemon=True) for i in range(n)]
        for t in threads:
            t.start()
        live = list(range(n))
        steps = 0
        while True:
            sched.wait_quiescent(live)
            with sched.cv:
                pend = {t: k for t, k in sched.pending.items()}
                live = [t for t in live if t not in sched.finished]
                for t in sched.closed:
                    model[t] = {"lock": "none", "inTxn": False}   # a closed connection holds nothing
                sched.closed.clear()
            if not live:
                break
            if stop is not None:
                # a disagreement was recorded: let everybody run to the end without further checks
                for t in sorted(pend):
                    rep = sched.release(t)
                    if rep[0] == "locked":
                        sched.decide(t, "raise" if classify(rep[1]) == "fails" else "retry")
                steps += 1
                if steps > 3000:
                    raise HarnessError("scheduled run does not terminate")
                continue
            preds = {}
            for t, k in sorted(pend.items()):
                if k in ("start", "fs", "antlr"):
                    preds[t] = {"outcome": "ok", "lock": model[t]["lock"], "inTxn": model[t]["inTxn"]}
                    continue
                ans = drv.ask({"op": "lock.call", "conns": model, "i": t, "stmt": k}) if drv is not None else None
                preds[t] = ans
            if sum(1 for m in model if m["inTxn"]) >= 2:
                overlap = True
            enabled = [t for t in sorted(pend) if preds[t] is None or preds[t]["outcome"] != "waits"]
            stagger = case.get("stagger")
            if stagger:
                # thread t enters parse() only after `stagger[t]` scheduling steps (a call that arrives later)
                early = [t for t in enabled if not (pend[t] == "start" and len(choices) < stagger[t])]
                if early:
                    enabled = early
            waiting = [t for t in sorted(pend) if t not in enabled and pend[t] not in ("start", "fs", "antlr")]
            if forced is not None:
                if len(choices) >= len(forced):
                    pick = (enabled or waiting)[0]
                else:
                    pick = forced[len(choices)]
                    if pick not in pend:
                        pick = (enabled or waiting)[0]
            elif not enabled:
                ctx.disagreement("lock.deadlock", case, "every pending statement waits in the model", {"pending": pend, "locks": [m["lock"] for m in model]})
                stop = "deadlock"
                continue
            elif str(case.get("policy", "")).startswith("favor:") and int(case["policy"][6:]) in enabled:
                pick = int(case["policy"][6:])     # this connection runs whenever it can
            elif case.get("policy") == "roundrobin":
                # strict alternation between the connections that can move: both read before either writes
                last = choices[-1] if choices else -1
                pick = min(enabled, key=lambda t: ((t - last - 1) % n))
            elif waiting and rng.random() < 0.06:
                pick = rng.choice(waiting)
            else:
                pick = rng.choice(enabled)
            choices.append(pick)
            rep = sched.release(pick)
            pred = preds[pick]["outcome"] if preds[pick] is not None else None
            real = "ok" if rep[0] == "ok" else ("error" if rep[0] == "error" else classify(rep[1]))
            tries = 0
            while rep[0] == "locked" and real != pred and tries < 3:
                # the timing class differs from the prediction (or is ambiguous): measure again — the statement
                # changed nothing, and a loaded machine can delay a fast failure
                sched.decide(pick, "retry")
                rep = sched.release(pick)
                real = "ok" if rep[0] == "ok" else ("error" if rep[0] == "error" else classify(rep[1]))
                tries += 1
                ctx.count("sched-remeasured")
            if real == "ambiguous":
                real = pred if pred in ("waits", "fails") else "waits"
            ctx.count("sched-call-" + real)
            if real == "waits":
                overlap = True
            if pred is None:
                pred = real
            if real == "error":
                pass   # the statement raised something else: parse sees it; the oracle below reports
            elif real != pred:
                ctx.disagreement("lock.scheduled", dict(case, choices=list(choices)), pred,
                                 {"real": real, "stmt": pend[pick], "conn": pick, "locks": [m["lock"] for m in model], "dt": rep[1]})
                stop = "mismatch"
            elif preds[pick] is not None:
                model[pick] = {"lock": preds[pick]["lock"], "inTxn": preds[pick]["inTxn"]}
            if rep[0] == "locked":
                sched.decide(pick, "retry" if real == "waits" else "raise")
                if real != "waits":
                    # the exception leaves parse(); the connection is dropped (rolled back) with its frames
                    model[pick] = {"lock": "none", "inTxn": False}
            elif rep[0] == "error":
                with sched.cv:
                    gone = pick in sched.finished
                if gone:
                    model[pick] = {"lock": "none", "inTxn": False}
            steps += 1
            if steps > 3000:
                raise HarnessError("scheduled run does not terminate")
        for t in threads:
            t.join(timeout=10)
        restore_start_rule()
        results = dict(sched.finished)
    # ---- direct oracle
    c = dict(case, choices=choices)
    for i in range(n):
        kind, val = results[i]
        want = pool["keys"][case["texts"][i]]
        if kind == "exc":
            ctx.violation("a concurrent parse() raised %s" % val.split(":")[0], c, expected="tree of the uncached parse",
                          observed=val, kind="schedule")
            break
        got = a01.canon_key(val)
        if got != want:
            ctx.violation("a concurrent parse() returned %s" % ("None" if val is None else "a different tree"), c,
                          expected=want, observed=got, kind="schedule")
            break
    else:
        msg = db_oracle(folder, pool["texts"], pool["keys"])
        if msg:
            ctx.violation(msg, c, kind="schedule")
    shutil.rmtree(top, ignore_errors=True)
    return overlap, choices


# ---- (E) multi-process stress ------------------------------------------------------------------------------
def _pool_worker(idx, cmd, res, barriers):
    """Long-lived worker process (forked once: page faults after a fork are very expensive in this sandbox, so
    forking per round would spread the calls out and hide the contention).  Every round it forgets
    `parse.initialized_dbs` (unless told to keep it), waits at the barrier and calls parse()."""
    try:
        devnull = os.open(os.devnull, os.O_WRONLY)
        os.dup2(devnull, 2)
        import pymoca
        from pymoca import parser
        pymoca.__version__ = VERSION
        parent = os.getppid()
        while True:
            # the other workers hold copies of this pipe's write end, so a dead parent does not give EOF
            while not cmd.poll(1.0):
                if os.getppid() != parent:
                    os._exit(0)
            c = cmd.recv()
            if c is None:
                break
            folder, txt, n, keep, upd, slow = c
            # `slow` = (seconds, busy timeout): _parse is slowed down and connections get a short busy timeout, so
            # a lock that is held while a text is parsed shows as "database is locked"
            if slow:
                real_parse = parser._parse
                real_sqlite = parser.sqlite3

                def slow_parse(text, _p=real_parse, _s=slow[0]):
                    time.sleep(_s)
                    return _p(text)
                parser._parse = slow_parse
                parser.sqlite3 = ProxySqlite(lambda pc, kind, fn: fn(), timeout=slow[1])
            if not keep and hasattr(parser.parse, "initialized_dbs"):
                del parser.parse.initialized_dbs
            try:
                barriers[n].wait(timeout=60)
            except Exception:
                res.send(("exc", "HarnessBarrier: broken", []))
                continue
            try:
                t = parser.parse(txt, model_cache_folder=Path(folder), always_update_last_hit=upd)
                r = ("ok", a01.canon_key(t))
            except BaseException as e:  # noqa
                import traceback
                lines = [fr.lineno for fr in traceback.extract_tb(e.__traceback__) if fr.filename.endswith("parser.py")]
                r = ("exc", "%s: %s" % (type(e).__name__, e), lines)
            if slow:
                parser._parse, parser.sqlite3 = real_parse, real_sqlite
            res.send(r)
    finally:
        os._exit(0)


class WorkerPool:
    SIZES = (2, 4, 8, 16)

    def __init__(self, nmax, warm_text, base):
        mp = multiprocessing.get_context("fork")
        self.n = nmax
        self.barriers = {k: mp.Barrier(k) for k in self.SIZES if k <= nmax}
        self.procs, self.cmd, self.res = [], [], []
        for i in range(nmax):
            c_r, c_w = mp.Pipe(duplex=False)
            r_r, r_w = mp.Pipe(duplex=False)
            p = mp.Process(target=_pool_worker, args=(i, c_r, r_w, self.barriers), daemon=True)
            p.start()
            c_r.close()
            r_w.close()
            self.procs.append(p)
            self.cmd.append(c_w)
            self.res.append(r_r)
        # warm-up: every worker parses once in a private folder (touches its copy-on-write pages); asynchronous,
        # `ready()` collects the answers
        self.warm = tempfile.mkdtemp(prefix="c02-warm-", dir=base)
        self.nwarm = max(self.barriers)
        folders = [tempfile.mkdtemp(dir=self.warm) for _ in range(self.nwarm)]
        for i in range(self.nwarm):
            self.cmd[i].send((folders[i], warm_text, self.nwarm, False, False, None))
        self.warming = True

    def ready(self):
        if self.warming:
            for i in range(self.nwarm):
                if not self.res[i].poll(180):
                    raise HarnessError("stress worker %d did not warm up" % i)
                self.res[i].recv()
            shutil.rmtree(self.warm, ignore_errors=True)
            self.warming = False

    def round(self, n, folder, texts, keep=False, upd=False, slow=None):
        if n not in self.barriers:
            raise HarnessError("no barrier for %d processes" % n)
        self.ready()
        for i in range(n):
            self.cmd[i].send((folder, texts[i], n, keep, upd, slow))
        out = []
        for i in range(n):
            try:
                if self.res[i].poll(120):
                    out.append(self.res[i].recv())
                else:
                    out.append(("exc", "Timeout: worker did not answer within 120 s", []))
            except EOFError:
                out.append(("exc", "WorkerDied: no result", []))
        return out

    def close(self):
        try:
            self.ready()
        except Exception:
            pass
        for c in self.cmd:
            try:
                c.send(None)
            except Exception:
                pass
        for p in self.procs:
            p.join(timeout=5)
            if p.is_alive():
                p.kill()


def stress_round(ctx, case, pool, workers):
    """case: {"kind":"stress","state":…, "n":N, "texts":[ix per process], "second":[ix per process]|None}.
    `second`: a second simultaneous call of every process on the same folder *without* forgetting
    initialized_dbs (long-running processes that have the database initialised)."""
    top, folder = new_folder(ctx, "c02-stress-", case["state"])
    make_state(folder, case["state"], pool["texts"])
    n = case["n"]
    phases = [(case["texts"], False)] + ([(case["second"], True)] if case.get("second") else [])
    bad = False
    for texts, keep in phases:
        real_texts = [pool["texts"][t] for t in texts]
        if case.get("slow"):
            # every call gets a text of its own (a trailing comment: same tree, other hash), so every call misses
            real_texts = [t + "// call %d\n" % i for i, t in enumerate(real_texts)]
        results = workers.round(n, folder, real_texts, keep, bool(case.get("update")), case.get("slow"))
        for i, r in enumerate(results):
            if r[0] == "exc":
                if r[1].startswith("Harness"):
                    raise HarnessError("stress: " + r[1])
                ctx.violation("a concurrent parse() raised %s" % r[1].split(":")[0], case,
                              expected="tree of the uncached parse",
                              observed={"process": i, "error": r[1], "parser.py lines": r[2]}, kind="stress")
                bad = True
                break
            if r[1] != pool["keys"][texts[i]]:
                ctx.violation("a concurrent parse() returned a wrong result", case, expected=pool["keys"][texts[i]],
                              observed=r[1], kind="stress")
                bad = True
                break
        if bad:
            break
        msg = db_oracle(folder, pool["texts"], pool["keys"])
        if msg:
            ctx.violation(msg, case, kind="stress")
            bad = True
            break
    shutil.rmtree(top, ignore_errors=True)
    return not bad


def thread_round(ctx, case, pool):
    """case: {"kind":"threads","state":…, "n":N, "texts":[…], "second":[…]|None, "update":bool}: N free-running threads
    of this process (one shared `parse.initialized_dbs`, forgotten before the first phase) released by a barrier."""
    top, folder = new_folder(ctx, "c02-threads-", case["state"])
    make_state(folder, case["state"], pool["texts"])
    n = case["n"]
    bad = False
    with Env() as env:
        for texts in [case["texts"]] + ([case["second"]] if case.get("second") else []):
            barrier = threading.Barrier(n)
            results = [None] * n

            def work(i, txt):
                try:
                    barrier.wait(timeout=60)
                    t = env.parser.parse(txt, model_cache_folder=Path(folder), always_update_last_hit=bool(case.get("update")))
                    results[i] = ("ok", a01.canon_key(t))
                except BaseException as e:  # noqa
                    results[i] = ("exc", "%s: %s" % (type(e).__name__, e))
            ths = [threading.Thread(target=work, args=(i, pool["texts"][texts[i]]), daemon=True) for i in range(n)]
            for t in ths:
                t.start()
            for t in ths:
                t.join(timeout=120)
            for i, r in enumerate(results):
                if r is None:
                    r = ("exc", "Timeout: thread did not finish within 120 s")
                if r[0] == "exc":
                    ctx.violation("a concurrent parse() raised %s" % r[1].split(":")[0], case,
                                  expected="tree of the uncached parse", observed={"thread": i, "error": r[1]}, kind="threads")
                    bad = True
                    break
                if r[1] != pool["keys"][texts[i]]:
                    ctx.violation("a concurrent parse() returned a wrong result", case, expected=pool["keys"][texts[i]],
                                  observed=r[1], kind="threads")
                    bad = True
                    break
            if bad:
                break
            msg = db_oracle(folder, pool["texts"], pool["keys"])
            if msg:
                ctx.violation(msg, case, kind="threads")
                bad = True
                break
    shutil.rmtree(top, ignore_errors=True)
    return not bad


# ---- run ---------------------------------------------------------------------------------------------------
def make_pool(rng, n=4):
    """texts 0..2: what the calls parse; 3: the text an `existing` database was created with; 4: a big valid text
    (its parse takes a few hundred ms); 5, 6: small texts with a syntax error of the kind ANTLR repairs in-line.
    keys: canonical form of the uncached parse, None for the texts with a syntax error (by the generated parser's own
    error count — independent of pymoca's listener)."""
    from pymoca import parser
    texts = []
    i = 0
    while len(texts) < n:
        t = a01.gen_text(rng, i)
        i += 1
        try:
            if a01.syntax_errors(t) == 0 and parser._parse(t) is not None:
                texts.append(t)
        except Exception:
            pass
    parts = []
    while len(parts) < 100:
        t = a01.gen_text(rng, 1000 + i)
        i += 1
        if not t.startswith("within") and a01.syntax_errors(t) == 0:
            parts.append(t)
    texts.append("".join(parts))
    for how in ("double_eq", "end_noname", "extra_paren", "nosemi"):
        if len(texts) >= n + 3:
            break
        b = a01.break_text(rng, texts[len(texts) % 3], how)
        if a01.syntax_errors(b) > 0 and b not in texts:
            texts.append(b)
    return pool_of(texts)


def pool_of(texts):
    from pymoca import parser
    keys = []
    for t in texts:
        keys.append(None if a01.syntax_errors(t) else a01.canon_key(parser._parse(t)))
    return {"texts": list(texts), "keys": keys}


def run(ctx):
    with a01.Quiet():
        _run(ctx)


def _run(ctx):
    from harness import corpus
    drv = ctx.driver("drv_c02")
    quick = ctx.tier == "quick"
    rng = ctx.rng
    pool = make_pool(rng)
    # the stress workers are forked first (no threads exist yet) and warm up while ties B-D run
    workers = WorkerPool(8 if quick else 16, pool["texts"][3], scratch_base(ctx))
    try:
        _run_ties(ctx, drv, quick, rng, pool, workers)
    finally:
        restore_start_rule()
        workers.close()
        scratch_cleanup(ctx)


def _run_ties(ctx, drv, quick, rng, pool, workers):
    from harness import corpus
    phase = ctx.extra.setdefault("phase_s", {})
    t_ph = time.time()

    def mark(name):
        nonlocal t_ph
        phase[name] = round(time.time() - t_ph, 1)
        t_ph = time.time()
    for c in corpus.load("C02"):
        ctx.count("corpus")
        run_case(ctx, c, drv, workers)

    # (C) program vs recorded traces, and the extracted tree itself through the driver
    ex = a01.extract_any(ctx, scratch_base(ctx))
    traces, isolation = record_traces(ctx, pool["texts"], a01.break_text(rng, pool["texts"][0], "noend"))
    for label, tr, err in traces:
        case = {"kind": "trace", "situation": label, "trace": tr}
        ctx.case(case, nontrivial=tr.count("commit") >= 3)
        ctx.count("trace-" + label)
        if err is not None:
            ctx.violation("parse() raised in situation %s" % label, case, expected="no exception", observed=err, kind="input")
    if any(i != None for i in isolation):  # noqa: E711  (the keyword must be passed and be None)
        ctx.disagreement("prog.isolation", {"kind": "trace", "isolation": [str(i) for i in isolation]}, "isolation_level=None", isolation)
    if drv is not None and ex is not None:
        ans = drv.ask({"op": "prog.check", "prog": ex["prog"], "traces": [t for _, t, _ in traces]})
        if not ans.get("ok"):
            raise HarnessError("drv_c02 rejected prog.check: %s" % ans)
        ctx.extra["program"] = {"paths": ans["npaths"], "noUpgrade": ans["noUpgrade"], "sql_statements": len(ex["sql"]),
                                "caught_integrity": ex["caught_integrity"], "isolation_none": ex["isolation_none"]}
        ctx.extra["program"]["noWorkInsideTxn"] = ans.get("noWorkInsideTxn")
        if ans.get("noWorkInsideTxn") is False:
            ctx.tie_broken("obligation:noWorkInsideTxn sqlProgram", "in the extracted statement tree _parse()/pickling is called "
                           "inside a transaction: a lock is held for a time that depends on the text")
        if not ans["noUpgrade"]:
            ctx.tie_broken("obligation:noUpgrade sqlProgram", "the extracted statement tree has a path that writes inside a "
                           "transaction that has only read, nests BEGIN, or leaves a transaction open")
        for (label, tr, _), ok in zip(traces, ans["member"]):
            if not ok and label not in EXCEPTIONAL:
                ctx.disagreement("prog.trace", {"kind": "trace", "situation": label, "trace": tr},
                                 "a path of the extracted statement tree", "not a path")

    mark("corpus+traces")
    # (B) lock rules
    nlock = 20 if quick else 400
    for k in range(nlock):
        if ctx.time_left() < 0 or drv is None:
            break
        case = gen_lock_case(rng)
        nt = check_lock_case(ctx, case, drv)
        ctx.case(case, nontrivial=nt)

    mark("lock-rules")
    # (D) scheduled runs through the real parse()
    nsched = 12 if quick else 600
    fixed = []
    for state, upd, pre in [("fresh", False, False), ("wronglayout", False, False), ("existing", False, False),
                            ("cached", True, False), ("cached", True, True), ("cached", False, True)]:
        fixed.append({"kind": "schedule", "state": state, "texts": [0, 0], "preinit": pre, "update": upd,
                      "policy": "roundrobin", "seed": 0, "pool": pool["texts"]})
    fixed.append({"kind": "schedule", "state": "fresh", "texts": [0, 1, 0], "preinit": False, "update": False,
                  "policy": "roundrobin", "seed": 0, "pool": pool["texts"]})
    for state, late in [("fresh", 3), ("fresh", 9), ("wronglayout", 4), ("wronglayout", 12), ("existing", 3)]:
        fixed.append({"kind": "schedule", "state": state, "texts": [0, 0], "preinit": False, "update": False,
                      "policy": "random", "stagger": [0, late], "seed": late, "pool": pool["texts"]})
    # a hit, and a first-use call whose start-up prune expires that entry, arriving at every point of the hit
    for late in range(17, 28):
        # (the late call parses another text: it prunes the first call's entry and does not put it back)
        fixed.append({"kind": "schedule", "state": "cached", "texts": [0, 1], "preinit": False, "update": late % 2 == 0,
                      "days": [30, 0], "newproc": [False, True], "policy": "favor:1", "stagger": [0, late], "seed": late,
                      "pool": pool["texts"]})
    # a valid and a broken text parsed at the same time (both miss): in lockstep, and with the second call arriving
    # at every point around the first one's ANTLR phase and then running whenever it can
    for texts in ([0, 5], [5, 0], [1, 6, 5]):
        fixed.append({"kind": "schedule", "state": "fresh", "texts": texts, "preinit": False, "update": False,
                      "policy": "roundrobin", "seed": 0, "pool": pool["texts"]})
    for texts in ([0, 5], [5, 1]):
        for late in range(21, 31):
            fixed.append({"kind": "schedule", "state": "existing", "texts": texts, "preinit": False, "update": False,
                          "newproc": [False, late % 2 == 0], "policy": "favor:1", "stagger": [0, late], "seed": late,
                          "pool": pool["texts"]})
    # a second call that arrives after the first one's k-th statement and then runs whenever it can
    for state, late in [("extracol", 2), ("extracol", 3), ("extracol", 5), ("wronglayout", 2), ("fresh", 2), ("fresh", 4)]:
        fixed.append({"kind": "schedule", "state": state, "texts": [0, 1], "preinit": False, "update": False,
                      "policy": "favor:1", "stagger": [0, late], "seed": late, "pool": pool["texts"]})
    for k in range(len(fixed) + nsched):
        if ctx.time_left() < (10 if quick else 120):
            ctx.notes.append("scheduled runs stopped by the time budget after %d" % k)
            break
        if k < len(fixed):
            case = fixed[k]
        else:
            n = rng.choice([2, 2, 3])
            same = rng.random() < 0.5
            case = {"kind": "schedule", "state": rng.choice(["fresh", "fresh", "existing", "wronglayout", "cached", "extracol"]),
                    "texts": [0] * n if same else [rng.randrange(3) for _ in range(n)],
                    "preinit": False, "update": False, "policy": rng.choice(["random", "random", "roundrobin"]),
                    "stagger": [0] + [rng.choice([0, 0, 2, 5, 9, 14, 20, 23]) for _ in range(n - 1)],
                    "days": [rng.choice([30, 30, 0, 1]) for _ in range(n)],
                    "newproc": [False] + [rng.random() < 0.5 for _ in range(n - 1)],
                    "seed": rng.randrange(1 << 30), "pool": pool["texts"]}
            if case["state"] in ("existing", "cached") and rng.random() < 0.4:
                case["preinit"] = True
            if case["state"] == "cached":
                case["update"] = rng.random() < 0.8
        nt, choices = scheduled_run(ctx, case, drv, pool)
        ctx.case({k2: v for k2, v in case.items() if k2 != "pool"}, nontrivial=nt)
        ctx.count("sched-" + case["state"] + ("-preinit" if case["preinit"] else "") + ("-update" if case["update"] else "")
                  + ("-rr" if case.get("policy") == "roundrobin" else ""))

    mark("scheduled")
    # (E') free-running threads of this process
    tplan = ([("fresh", 4)] * 4 + [("fresh", 8)] * 3 + [("wronglayout", 8)] * 2 + [("cached", 8)] * 3 + [("existing", 8)] * 2
             + [("extracol", 8)] * 2 + [("fresh-mixed", 6)] * 3 + [("existing-mixed", 6)] * 1) if quick else \
        ([("fresh", 4)] * 20 + [("fresh", 8)] * 40 + [("wronglayout", 8)] * 30 + [("cached", 8)] * 30 + [("existing", 8)] * 30 + [("extracol", 8)] * 30 + [("fresh-mixed", 6)] * 20 + [("existing-mixed", 6)] * 10)
    for r, (state, n) in enumerate(tplan):
        if ctx.time_left() < (8 if quick else 100):
            ctx.notes.append("thread stress stopped by the time budget after %d rounds" % r)
            break
        mode = r % 3
        texts = [0] * n if mode == 0 else ([i % 3 for i in range(n)] if mode == 1 else [rng.randrange(3) for _ in range(n)])
        second = [rng.randrange(3) for _ in range(n)] if r % 3 == 2 else None
        if state.endswith("-mixed"):
            # all calls miss and are inside the ANTLR parse at the same time: a big valid text (index 4) next to small
            # texts with a syntax error (5, 6) and small valid ones
            state, second = state[:-6], None
            texts = ([4, 5, 6, 5, 0, 6, 1, 5] if mode != 1 else [5, 4, 6, 6, 2, 5, 0, 6])[:n]
        case = {"kind": "threads", "state": state, "n": n, "texts": texts,
                "second": second, "update": state == "cached",
                "pool": pool["texts"], "round": r}
        ok = thread_round(ctx, case, pool)
        ctx.case({k2: v for k2, v in case.items() if k2 != "pool"}, nontrivial=n >= 4)
        ctx.count("threads-%s-%d%s%s" % (state, n, "-twice" if case["second"] else "", "-mixed" if 4 in texts else ""))
        if not ok:
            break
    mark("threads")
    workers.ready()
    mark("worker-warmup-wait")
    # (E) stress
    plan = []
    if quick:
        plan += [("fresh", 4)] * 6 + [("fresh", 8)] * 8 + [("existing", 8)] * 3 + [("wronglayout", 8)] * 3 + [("cached", 8)] * 4
        plan += [("existing-slow", 8)] * 2
    else:
        plan += [("fresh", 4)] * 20 + [("fresh", 8)] * 30 + [("fresh", 16)] * 50 + [("existing", 16)] * 40 + [("wronglayout", 16)] * 40 + [("cached", 16)] * 40 + [("existing-slow", 16)] * 10
    for r, (state, n) in enumerate(plan):
        if ctx.time_left() < 0:
            ctx.notes.append("stress stopped by the time budget after %d rounds" % r)
            break
        mode = r % 3
        texts = [0] * n if mode == 0 else ([i % 3 for i in range(n)] if mode == 1 else [rng.randrange(3) for _ in range(n)])
        second = [rng.randrange(3) for _ in range(n)] if r % 4 == 3 else None
        slow = None
        if state.endswith("-slow"):
            # every call misses (distinct unseen texts would be better still; the same text is fine: INSERT OR REPLACE),
            # the parse takes 0.4 s, the busy timeout is 1.5 s: harmless as long as no lock is held while parsing
            state, slow, second = state[:-5], [0.4, 1.5], None
        case = {"kind": "stress", "state": state, "n": n, "texts": texts, "second": second, "update": state == "cached",
                "slow": slow, "pool": pool["texts"], "round": r}
        ok = stress_round(ctx, case, pool, workers)
        ctx.case({k2: v for k2, v in case.items() if k2 != "pool"}, nontrivial=n >= 4)
        ctx.count("stress-%s-%d%s%s" % (state, n, "-twice" if second else "", "-slow" if slow else ""))
        if not ok:
            break
    mark("stress")


def run_case(ctx, c, drv, workers=None):
    if c["kind"] == "locks":
        if drv is not None:
            check_lock_case(ctx, c, drv)
    elif c["kind"] == "schedule":
        scheduled_run(ctx, c, drv, pool_of(c["pool"]))
    elif c["kind"] == "threads":
        pool = pool_of(c["pool"])
        for _ in range(12):
            if not thread_round(ctx, c, pool):
                break
    elif c["kind"] == "stress":
        pool = pool_of(c["pool"])
        own = workers is None or workers.n < c["n"]
        if own:
            workers = WorkerPool(16 if c["n"] > 8 else 8, c["pool"][-1], scratch_base(ctx))
        try:
            for _ in range(12):
                if not stress_round(ctx, c, pool, workers):
                    break
        finally:
            if own:
                workers.close()
    elif c["kind"] == "trace":
        pool = make_pool(ctx.rng)
        traces, _ = record_traces(ctx, pool["texts"], a01.break_text(ctx.rng, pool["texts"][0], "noend"))
        for label, tr, err in traces:
            if err is not None:
                ctx.violation("parse() raised in situation %s" % label, {"kind": "trace", "situation": label, "trace": tr},
                              expected="no exception", observed=err, kind="input")
    else:
        raise HarnessError("unknown case kind %r" % c.get("kind"))


def replay(ctx, payload):
    c = payload.get("case") or next((d["case"] for d in payload.get("details", []) if d.get("case")), None)
    if c is None:
        raise HarnessError("replay file without a case (a broken tie of the Lean build/audit has no input)")
    with a01.Quiet():
        try:
            run_case(ctx, c, ctx.driver("drv_c02"))
        finally:
            scratch_cleanup(ctx)


def search(ctx):
    """A tie is broken and nothing failed yet: more stress on a fresh folder and more scheduled runs."""
    with a01.Quiet():
        drv = ctx.driver("drv_c02")
        pool = make_pool(ctx.rng)
        workers = WorkerPool(16, pool["texts"][3], scratch_base(ctx))
        try:
            r = 0
            while ctx.time_left() > 0 and not ctx.violations and r < 300:
                n = [4, 8, 16][r % 3]
                case = {"kind": "stress", "state": ["fresh", "fresh", "wronglayout", "existing"][r % 4], "n": n,
                        "texts": [0] * n if r % 2 else [i % 3 for i in range(n)],
                        "second": [i % 3 for i in range(n)] if r % 5 == 4 else None, "pool": pool["texts"], "round": r}
                stress_round(ctx, case, pool, workers)
                ctx.count("search-stress")
                if not ctx.violations:
                    k8 = min(8, len(case["texts"]))
                    thread_round(ctx, dict(case, kind="threads", n=k8, texts=case["texts"][:k8],
                                           second=case["second"][:k8] if case["second"] else None), pool)
                    ctx.count("search-threads")
                if not ctx.violations and r % 2 == 0:
                    k = ctx.rng.choice([2, 3])
                    case = {"kind": "schedule", "state": ctx.rng.choice(["fresh", "existing", "wronglayout"]), "texts": [0] * k,
                            "preinit": False, "seed": ctx.rng.randrange(1 << 30), "pool": pool["texts"]}
                    scheduled_run(ctx, case, drv, pool)
                    ctx.count("search-schedule")
                r += 1
        finally:
            workers.close()
            scratch_cleanup(ctx)


MANIFEST = dict(
    level_text="Lean 4 theorems about a lock-level model of SQLite's rollback journal for any number of connections and any "
               "interleaving (no statement fails, the file is never removed, single writer, progress) under the decidable "
               "premise noUpgrade, which is proved (`decide`) for the statement tree extracted from parser.parse on every run; "
               "tied to the real code by recorded statement traces, by a differential test of the lock rules against real SQLite, "
               "by deterministic scheduled runs of the real parse() in threads, and by multi-process stress as the direct oracle.",
    level_note="Partial for the runtime half: busy timeout, scheduler starvation and the os.remove race are outside the model "
               "(assumed: lock hold times far below the timeout); the stress runs are the only witness there.",
    technique="Lean 4 proof (per-connection invariant, any N, any schedule) + source translator + model/implementation correspondence",
)
READY = True
