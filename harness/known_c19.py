"""Predicates of the open findings of C19 (see known/C19.json)."""
import re

from harness.common import known_predicate


@known_predicate
def c19_vector_parameter_nan_call(case, what):
    """load_model calls the metadata function with one NaN per parameter *variable*, not per element: a model with
    a non-expanded vector parameter cannot be loaded from its cache (RuntimeError from CasADi's Function::call)."""
    if not isinstance(case, dict) or "loading the cache written for this model raised RuntimeError" not in what:
        return False
    if case.get("opts", {}).get("expand_vectors"):
        return False
    return re.search(r"parameter\s+Real\s+\w+\s*\[", case.get("text", "")) is not None


@known_predicate
def c19_symbolic_array_attribute_not_picklable(case, what):
    """transfer_model(cache=True) raising "Cannot pickle MX objects" for a model with an array attribute that has
    symbolic elements (a list of MX is pickled as is by Variable.to_dict)."""
    if not isinstance(case, dict) or "for a model that compiles with caching off" not in what:
        return False
    if "raised Exception (Cannot pickle MX objects" not in what:
        return False
    return re.search(r"=\s*\{[^}]*[A-Za-z_][^}]*\}", case.get("text", "")) is not None
