/-! Driver for C04 (stub: not built yet). -/
def main : IO Unit := pure ()
