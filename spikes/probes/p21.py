import os, shutil, tempfile, time, logging
from pymoca.backends.casadi.api import transfer_model
src = "/repo/test/models/Spring.mo"
def fresh_dir():
    d = tempfile.mkdtemp(); shutil.copy(src, d); return d
opts = {"cache": True}
d = fresh_dir()
m = transfer_model(d, "Spring", dict(opts))
cf = os.path.join(d, "Spring.pymoca_cache")
data = open(cf,"rb").read(); print("cache size", len(data))
from collections import Counter
res = Counter()
for cut in list(range(0, 40)) + list(range(40, len(data), max(1,len(data)//60))):
    open(cf,"wb").write(data[:cut])
    try:
        m2 = transfer_model(d, "Spring", dict(opts))
        res["ok"] += 1
    except Exception as e:
        res["EXC "+type(e).__name__] += 1
print(res)
# after failure is the cache file regenerated? 
open(cf,"wb").write(data[:100])
try: transfer_model(d, "Spring", dict(opts))
except Exception as e: print("still", type(e).__name__, os.path.getsize(cf))
