import Drivers.Proto
import PymocaVerif.Model.PyGrammar
import PymocaVerif.Model.PyPrint
/-! Driver for C24: the SymPy source printer model (`PyPrint`) and the Python expression
    grammar (`PyGrammar`) over JSON.

    ops: `model` (flat symbols + equations -> identifiers, display names, equation text, tokens,
    values at given points), `parse` (token list -> tree), `print` (tree -> text, several printers). -/
open Lean Drivers PymocaVerif.PyGrammar PymocaVerif.PyPrint

abbrev PName := PymocaVerif.PyGrammar.Name

def nameOf (s : String) : PName := s.toList
def strOf (n : PName) : String := String.ofList n

def isNumText (s : String) : Bool :=
  match s.toList with
  | c :: _ => c.isDigit
  | [] => false

def atomOf (s : String) : Atom := if isNumText s then Atom.num (nameOf s) else Atom.name (nameOf s)

def bopCode (s : String) : Except String Nat :=
  match s with
  | "+" => pure 0 | "-" => pure 1 | "*" => pure 2 | "/" => pure 3 | "^" => pure 4 | "**" => pure 4
  | o => throw s!"bad-binop {o}"

def popCode (s : String) : Except String Nat :=
  match s with
  | "+" => pure 0 | "-" => pure 1
  | o => throw s!"bad-prefix-op {o}"

def arrAt (a : Array Json) (i : Nat) : Json := a[i]?.getD Json.null

/-- flat Modelica term -> E over Modelica names -/
partial def termOf (j : Json) : Except String E := do
  let a ← j.getArr?
  let k ← (arrAt a 0).getStr?
  match k with
  | "v" => do pure (E.atom (Atom.name (nameOf (← (arrAt a 1).getStr?))))
  | "n" => do pure (E.atom (Atom.num (nameOf (← (arrAt a 1).getStr?))))
  | "b" => do
    let o ← bopCode (← (arrAt a 1).getStr?)
    pure (E.bin o (← termOf (arrAt a 2)) (← termOf (arrAt a 3)))
  | "u" => do
    let q ← popCode (← (arrAt a 1).getStr?)
    pure (E.pre q (← termOf (arrAt a 2)))
  | "c" => do pure (E.call (nameOf (← (arrAt a 1).getStr?)) (← termOf (arrAt a 2)))
  | "d" => do pure (E.der (← termOf (arrAt a 1)))
  | k => throw s!"bad-term {k}"

/-- Python tree (harness vocabulary) -> E -/
partial def treeOf (j : Json) : Except String E := do
  let a ← j.getArr?
  let k ← (arrAt a 0).getStr?
  match k with
  | "a" => do pure (E.atom (atomOf (← (arrAt a 1).getStr?)))
  | "b" => do pure (E.bin (← (arrAt a 1).getNat?) (← treeOf (arrAt a 2)) (← treeOf (arrAt a 3)))
  | "p" => do pure (E.pre (← (arrAt a 1).getNat?) (← treeOf (arrAt a 2)))
  | "c" => do pure (E.call (nameOf (← (arrAt a 1).getStr?)) (← treeOf (arrAt a 2)))
  | "d" => do pure (E.der (← treeOf (arrAt a 1)))
  | k => throw s!"bad-tree {k}"

def atomStr : Atom → String
  | Atom.name s => strOf s
  | Atom.num s => strOf s

partial def treeJson : E → Json
  | E.atom a => Json.arr #[Json.str "a", Json.str (atomStr a)]
  | E.bin o l r => Json.arr #[Json.str "b", Json.num o, treeJson l, treeJson r]
  | E.pre q e => Json.arr #[Json.str "p", Json.num q, treeJson e]
  | E.call g e => Json.arr #[Json.str "c", Json.str (strOf g), treeJson e]
  | E.der e => Json.arr #[Json.str "d", treeJson e]

def tokOf (j : Json) : Except String Tok := do
  let a ← j.getArr?
  let k ← (arrAt a 0).getStr?
  match k with
  | "a" => do pure (Tok.atom (atomOf (← (arrAt a 1).getStr?)))
  | "b" => do pure (Tok.bop (← (arrAt a 1).getNat?))
  | "p" => do pure (Tok.pop (← (arrAt a 1).getNat?))
  | "(" => pure Tok.lp
  | ")" => pure Tok.rp
  | "f" => do pure (Tok.fn (nameOf (← (arrAt a 1).getStr?)))
  | "diff" => pure Tok.diff
  | k => throw s!"bad-token {k}"

def tokJson : Tok → Json
  | Tok.atom a => Json.arr #[Json.str "a", Json.str (atomStr a)]
  | Tok.bop o => Json.arr #[Json.str "b", Json.num o]
  | Tok.pop q => Json.arr #[Json.str "p", Json.num q]
  | Tok.lp => Json.arr #[Json.str "("]
  | Tok.rp => Json.arr #[Json.str ")"]
  | Tok.fn g => Json.arr #[Json.str "f", Json.str (strOf g)]
  | Tok.diff => Json.arr #[Json.str "diff"]

def ratOf (s : String) : Except String Rat :=
  match s.splitOn "/" with
  | [n] => match n.toInt? with
    | some i => pure (i : Rat)
    | none => throw s!"bad-rational {s}"
  | [n, d] => match n.toInt?, d.toNat? with
    | some i, some k => if k = 0 then throw s!"bad-rational {s}" else pure (mkRat i k)
    | _, _ => throw s!"bad-rational {s}"
  | _ => throw s!"bad-rational {s}"

def ratStr (r : Rat) : String := s!"{r.num}/{r.den}"

def objPairs (j : Json) : Except String (List (String × Json)) := do
  let o ← j.getObj?
  pure (o.toList)

def lookupIn {β : Type} (tbl : List (PName × β)) (n : PName) : Option β :=
  match tbl.find? (fun p => p.1 == n) with
  | some p => some p.2
  | none => none

def ratTable (j : Json) : Except String (List (PName × Rat)) := do
  let ps ← objPairs j
  ps.mapM fun (k, v) => do pure (nameOf k, ← ratOf (← v.getStr?))

def symOf (j : Json) : Except String Sym := do
  let n ← getStr j "name"
  let ps ← (← getArr j "prefixes").toList.mapM (·.getStr?)
  pure { name := nameOf n, prefixes := ps }

def variantOf (s : String) : Except String Variant :=
  match s with
  | "cur" => pure Variant.cur
  | "fix" => pure Variant.fix
  | v => throw s!"bad-variant {v}"

def namesJson (l : List PName) : Json := Json.arr (l.map (fun n => Json.str (strOf n))).toArray

def handle (req : Json) : Except String Json := do
  let op ← getStr req "op"
  match op with
  | "model" => do
    let B := (← (← getArr req "B").toList.mapM (·.getStr?)).map nameOf
    let variant ← variantOf (← getStr req "variant")
    let syms ← (← getArr req "syms").toList.mapM symOf
    let eqs ← (← getArr req "eqs").toList.mapM fun j => do
      let a ← j.getArr?
      pure (← termOf (arrAt a 0), ← termOf (arrAt a 1))
    let lits ← ratTable (← getObj req "litvals")
    let fnTbl ← (← objPairs (← getObj req "fn")).mapM fun (k, v) => do
      let a ← v.getArr?
      pure (nameOf k, (← ratOf (← (arrAt a 0).getStr?), ← ratOf (← (arrAt a 1).getStr?)))
    let A := ratAlg (lookupIn lits) (lookupIn fnTbl)
    let points ← (← getArr req "points").toList.mapM fun j => do
      let env ← ratTable (← getObj j "env")
      let denv ← ratTable (← getObj j "denv")
      pure ({ var := lookupIn env, dvar := lookupIn denv } : Env Rat)
    let otherVar := (getBool req "other_as_var").toOption.getD false
    let L := if otherVar then classifyFix syms else classify syms
    let lists := Json.mkObj [
      ("x", namesJson (idents B L.x)), ("v", namesJson (idents B L.v)), ("c", namesJson (idents B L.c)),
      ("p", namesJson (idents B L.p)), ("u", namesJson (idents B L.u)), ("y", namesJson (idents B L.y))]
    let shownJ := Json.mkObj [
      ("x", namesJson (shown B L.x)), ("v", namesJson (shown B L.v)), ("c", namesJson (shown B L.c)),
      ("p", namesJson (shown B L.p)), ("u", namesJson (shown B L.u)), ("y", namesJson (shown B L.y))]
    let toks := eqs.map fun (l, r) => eqToks variant B l r
    let srcs := toks.map render
    let parsed := toks.map fun ts => match pyParse ts with
      | some e => treeJson e
      | none => Json.null
    let noparen := eqs.map fun (l, r) => Json.bool (noParenB pyTbl 1 l && noParenB pyTbl 0 r)
    let values := eqs.map fun (l, r) =>
      Json.arr (points.map fun ρ => match eval A ρ (eqTree l r) with
        | some q => Json.str (ratStr q)
        | none => Json.null).toArray
    -- the meaning theorem, executed: the parsed text evaluated in the pulled-back environment
    let vars := (eqs.flatMap fun (l, r) => PymocaVerif.PyPrint.names l ++ PymocaVerif.PyPrint.names r).eraseDups
    let pyvalues := toks.map fun ts =>
      Json.arr (points.map fun ρ => match pyParse ts with
        | some e => (match eval A (pull (mangleRef B) vars ρ) e with
          | some q => Json.str (ratStr q)
          | none => Json.null)
        | none => Json.null).toArray
    pure (Json.mkObj [("ok", true), ("lists", lists), ("names", shownJ),
      ("eq_src", Json.arr (srcs.map Json.str).toArray),
      ("eq_toks", Json.arr (toks.map fun ts => Json.arr (ts.map tokJson).toArray).toArray),
      ("eq_parse", Json.arr parsed.toArray), ("noparen", Json.arr noparen.toArray),
      ("values", Json.arr values.toArray), ("pyvalues", Json.arr pyvalues.toArray)])
  | "parse" => do
    let toks ← (← getArr req "toks").toList.mapM tokOf
    let t := match pyParse toks with
      | some e => treeJson e
      | none => Json.null
    pure (Json.mkObj [("ok", true), ("tree", t)])
  | "print" => do
    let e ← treeOf (← getObj req "tree")
    let mode ← getStr req "mode"
    let seed := (getNat req "seed").toOption.getD 0
    let toks ← match mode with
      | "min" => pure (prMin pyTbl 0 e)
      | "extra" => pure (prExtra pyTbl seed 0 e)
      | "fix" => pure (prFix e)
      | "none" => pure (prCur e)
      | m => throw s!"bad-mode {m}"
    pure (Json.mkObj [("ok", true), ("text", Json.str (render toks)),
      ("toks", Json.arr (toks.map tokJson).toArray)])
  | o => throw s!"unknown-op {o}"

def main : IO Unit := serve handle
